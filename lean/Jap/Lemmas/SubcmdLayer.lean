import Jap.Lemmas.SubcmdMore
/-!
Lemmas about the CONCRETE layer of the engine "Subcmd" (C17): the names of the environment variables
(`envVarAt_eq`, `envName_inj`), what `_load_env_vars` holds at an option (`loadEnvC_own`), `get_defaults` at an option
(`getDefaultsC_own`: later files win) and `parse_env` at an option (`layerC_env_own`).
-/
namespace Jap.Subcmd

/-! ## environment variable names -/

/-- normal form of a prefix part: `-` → `_`, `.` → `__`, upper case -/
def normN (x : List Nat) : List Nat := up (dots (dash x))
/-- normal form of a dest: `.` → `__`, upper case -/
def normD (x : List Nat) : List Nat := up (dots x)

/-- PREFIX_S1__S2__…__SN__DEST -/
def envName (root : List Nat) (path : List (List Nat)) (dest : List Nat) : List Nat :=
  normN root ++ [95] ++ path.flatMap (fun n => normN n ++ [95, 95]) ++ normD dest

theorem up_append (a b : List Nat) : up (a ++ b) = up a ++ up b := by simp [up]
theorem dots_append (a b : List Nat) : dots (a ++ b) = dots a ++ dots b := by simp [dots]
theorem dash_append (a b : List Nat) : dash (a ++ b) = dash a ++ dash b := by simp [dash]
theorem normN_append (a b : List Nat) : normN (a ++ b) = normN a ++ normN b := by
  simp [normN, up_append, dots_append, dash_append]
theorem normD_append (a b : List Nat) : normD (a ++ b) = normD a ++ normD b := by
  simp [normD, up_append, dots_append]

theorem normN_single (c : List Nat) (hc : c = [95]) : normN c = [95] := by subst hc; decide

theorem normN_elem_idem (c : Nat) : normN (normN [c]) = normN [c] := by
  by_cases h1 : c = 45
  · subst h1; decide
  · by_cases h2 : c = 46
    · subst h2; decide
    · have e : normN [c] = [upN c] := by simp [normN, dash, dashN, dots, dotsN, up, h1, h2]
      rw [e]
      have h3 : upN c ≠ 45 := by unfold upN; split <;> omega
      have h4 : upN c ≠ 46 := by unfold upN; split <;> omega
      have h5 : upN (upN c) = upN c := by unfold upN; split <;> first | omega | (split <;> omega)
      simp [normN, dash, dashN, dots, dotsN, up, h3, h4, h5]

theorem normN_idem : ∀ (x : List Nat), normN (normN x) = normN x
  | [] => by decide
  | c :: x => by
    have : c :: x = [c] ++ x := rfl
    rw [this, normN_append, normN_append, normN_elem_idem, normN_idem x]

theorem getEnvVar_nil (p : List Nat) : getEnvVar p [] = normN p ++ [95] := by
  unfold getEnvVar
  rw [List.append_nil, dots_append, up_append]
  rfl

theorem getEnvVar_eq (p d : List Nat) : getEnvVar p d = normN p ++ [95] ++ normD d := by
  unfold getEnvVar
  rw [dots_append, dots_append, up_append, up_append]
  rfl

theorem normN_subPrefix (p n : List Nat) : normN (subPrefix p n) = normN p ++ [95] ++ normN n ++ [95] := by
  unfold subPrefix
  rw [getEnvVar_nil, normN_append, normN_append, normN_append, normN_idem, normN_single [95] rfl]

theorem normN_prefixAt : ∀ (path : List (List Nat)) (root : List Nat),
    normN (prefixAt root path) = normN root ++ path.flatMap (fun n => [95] ++ normN n ++ [95])
  | [], root => by simp [prefixAt]
  | n :: rest, root => by
    rw [prefixAt, normN_prefixAt rest, normN_subPrefix]
    simp [List.flatMap_cons, List.append_assoc]

theorem shift_sep (g : List Nat → List Nat) (t : List Nat) : ∀ (l : List (List Nat)),
    l.flatMap (fun n => [95] ++ (g n ++ [95])) ++ ([95] ++ t) = [95] ++ (l.flatMap (fun n => g n ++ [95, 95]) ++ t)
  | [] => rfl
  | n :: rest => by
    simp only [List.flatMap_cons, List.append_assoc]
    rw [shift_sep g t rest]
    simp

/-- the variable that the code reads for `dest` of the parser at `path` is PREFIX_S1__…__SN__DEST -/
theorem envVarAt_eq (root : List Nat) (path : List (List Nat)) (dest : List Nat) :
    envVarAt root path dest = envName root path dest := by
  unfold envVarAt envName
  rw [getEnvVar_eq, normN_prefixAt]
  simp only [List.append_assoc]
  rw [shift_sep normN (normD dest) path]

/-! ### the name determines the parser and the option -/

/-- no double underscore inside and no underscore at the end -/
def word : List Nat → Bool
  | [] => true
  | [c] => c != 95
  | c :: d :: r => !(c == 95 && d == 95) && word (d :: r)

/-- no double underscore inside -/
def lastWord : List Nat → Bool
  | [] => true
  | [_] => true
  | c :: d :: r => !(c == 95 && d == 95) && lastWord (d :: r)

def splitDunder : List Nat → List Nat → List (List Nat)
  | [], acc => [acc.reverse]
  | [c], acc => [(c :: acc).reverse]
  | c :: d :: r, acc =>
    if c = 95 ∧ d = 95 then acc.reverse :: splitDunder r [] else splitDunder (d :: r) (c :: acc)

theorem split_word : ∀ (w rest acc : List Nat), word w = true →
    splitDunder (w ++ [95, 95] ++ rest) acc = (acc.reverse ++ w) :: splitDunder rest []
  | [], rest, acc, _ => by simp [splitDunder]
  | [c], rest, acc, h => by
    have hc : c ≠ 95 := by simpa [word] using h
    simp [splitDunder, hc]
  | c :: d :: r, rest, acc, h => by
    simp only [word, Bool.and_eq_true, Bool.not_eq_true', Bool.and_eq_false_iff, beq_eq_false_iff_ne] at h
    have hn : ¬ (c = 95 ∧ d = 95) := by
      intro ⟨h1, h2⟩
      rcases h.1 with e | e
      · exact e h1
      · exact e h2
    have ih := split_word (d :: r) rest (c :: acc) h.2
    simp only [List.cons_append] at ih ⊢
    rw [splitDunder]
    simp only [hn, if_false]
    rw [ih]
    simp

theorem split_last : ∀ (w acc : List Nat), lastWord w = true → splitDunder w acc = [acc.reverse ++ w]
  | [], acc, _ => by simp [splitDunder]
  | [c], acc, _ => by simp [splitDunder]
  | c :: d :: r, acc, h => by
    simp only [lastWord, Bool.and_eq_true, Bool.not_eq_true', Bool.and_eq_false_iff, beq_eq_false_iff_ne] at h
    have hn : ¬ (c = 95 ∧ d = 95) := by
      intro ⟨h1, h2⟩
      rcases h.1 with e | e
      · exact e h1
      · exact e h2
    rw [splitDunder]
    simp only [hn, if_false]
    rw [split_last (d :: r) (c :: acc) h.2]
    simp

theorem split_body : ∀ (ws : List (List Nat)) (d : List Nat), (∀ w ∈ ws, word w = true) → lastWord d = true →
    splitDunder (ws.flatMap (fun w => w ++ [95, 95]) ++ d) [] = ws ++ [d]
  | [], d, _, hd => by simpa using split_last d [] hd
  | w :: rest, d, hw, hd => by
    have h1 := hw w List.mem_cons_self
    have h2 : ∀ x ∈ rest, word x = true := fun x hx => hw x (List.mem_cons_of_mem _ hx)
    simp only [List.flatMap_cons, List.append_assoc]
    have := split_word w (rest.flatMap (fun w => w ++ [95, 95]) ++ d) [] h1
    simp only [List.append_assoc] at this
    rw [this, split_body rest d h2 hd]
    simp

/-- two variables coincide only if (after normalisation) the subcommand paths and the dests coincide — provided no
    normalised subcommand name contains `__` or ends with `_`, and no normalised dest contains `__` -/
theorem envName_inj (root : List Nat) (path path' : List (List Nat)) (d d' : List Nat)
    (hp : ∀ n ∈ path, word (normN n) = true) (hp' : ∀ n ∈ path', word (normN n) = true)
    (hd : lastWord (normD d) = true) (hd' : lastWord (normD d') = true)
    (h : envName root path d = envName root path' d') :
    path.map normN = path'.map normN ∧ normD d = normD d' := by
  unfold envName at h
  simp only [List.append_assoc] at h
  have h1 := List.append_cancel_left h
  have h2 := List.append_cancel_left h1
  have fm : ∀ (l : List (List Nat)), l.flatMap (fun n => normN n ++ [95, 95]) = (l.map normN).flatMap (fun w => w ++ [95, 95]) := by
    intro l; simp [List.flatMap_map]
  rw [fm, fm] at h2
  have s1 := split_body (path.map normN) (normD d) (by simpa using hp) hd
  have s2 := split_body (path'.map normN) (normD d') (by simpa using hp') hd'
  rw [h2] at s1
  have := s1.symm.trans s2
  exact List.append_inj' this rfl |>.imp id (by intro e; simpa using e)


/-! ## the concrete layer: order of the sources within one level -/

theorem mem_keysOf_insert (k : String) (v : Val) (x : String) : ∀ (c : Cfg), x ∈ keysOf (insert k v c) → x = k ∨ x ∈ keysOf c
  | [], h => by
    simp only [insert, keysOf, List.map_cons, List.map_nil, List.mem_singleton] at h
    exact Or.inl h
  | (k', v') :: r, h => by
    by_cases e : k' = k
    · simp only [insert, e, if_true, keysOf, List.map_cons, List.mem_cons] at h ⊢
      rcases h with h | h
      · exact Or.inl h
      · exact Or.inr (Or.inr h)
    · simp only [insert, e, if_false, keysOf, List.map_cons, List.mem_cons] at h ⊢
      rcases h with h | h
      · exact Or.inr (Or.inl h)
      · rcases mem_keysOf_insert k v x r h with h1 | h1
        · exact Or.inl h1
        · exact Or.inr (Or.inr h1)

theorem keysOf_insert (k : String) (v : Val) : ∀ (c : Cfg), (keysOf c).Nodup → (keysOf (insert k v c)).Nodup
  | [], _ => by simp [insert, keysOf]
  | (k', v') :: r, h => by
    have hr : (keysOf r).Nodup := by simp [keysOf] at h ⊢; exact h.2
    have hk : ¬ k' ∈ keysOf r := by simp [keysOf] at h ⊢; exact h.1
    by_cases e : k' = k
    · subst e; simpa [insert, keysOf] using h
    · have ih := keysOf_insert k v r hr
      simp only [insert, e, if_false]
      show (k' :: keysOf (insert k v r)).Nodup
      refine List.nodup_cons.2 ⟨?_, ih⟩
      intro hm
      rcases mem_keysOf_insert k v k' r hm with h1 | h1
      · exact e h1
      · exact hk h1

/-- the option variables: the last loop of `_load_env_vars` -/
theorem lookup_optFold (E : Env) (pre : List Nat) (k : String) : ∀ (opts : List String) (c : Cfg),
    lookup k (opts.foldl (envOptStep E pre) c) =
    if k ∈ opts then (match lookupE (getEnvVar pre (codes k)) E.vals with
      | some v => some v
      | .none => lookup k c) else lookup k c
  | [], c => by simp
  | o :: rest, c => by
    simp only [List.foldl_cons]
    rw [lookup_optFold E pre k rest]
    have step : ∀ (hne : o ≠ k), lookup k (envOptStep E pre c o) = lookup k c := by
      intro hne
      unfold envOptStep
      cases lookupE (getEnvVar pre (codes o)) E.vals with
      | none => rfl
      | some w => exact lookup_insert_other _ _ _ _ (Ne.symm hne)
    by_cases ho : o = k
    · subst ho
      have hs : lookup o (envOptStep E pre c o) = match lookupE (getEnvVar pre (codes o)) E.vals with
          | some v => some v
          | .none => lookup o c := by
        unfold envOptStep
        cases lookupE (getEnvVar pre (codes o)) E.vals with
        | none => rfl
        | some w => exact lookup_insert_same _ _ _
      simp only [List.mem_cons, true_or, if_true]
      by_cases hr : o ∈ rest
      · simp only [hr, if_true]
        cases hv : lookupE (getEnvVar pre (codes o)) E.vals with
        | some v => rfl
        | none => simp only []; rw [hs, hv]
      · simp only [hr, if_false]; exact hs
    · have hko : ¬ k = o := fun e => ho e.symm
      simp only [List.mem_cons, hko, false_or]
      rw [step ho]

theorem nodup_optFold (E : Env) (pre : List Nat) : ∀ (opts : List String) (c : Cfg), (keysOf c).Nodup →
    (keysOf (opts.foldl (envOptStep E pre) c)).Nodup
  | [], c, h => h
  | o :: rest, c, h => by
    simp only [List.foldl_cons]
    apply nodup_optFold E pre rest
    unfold envOptStep
    cases lookupE (getEnvVar pre (codes o)) E.vals with
    | none => exact h
    | some w => exact keysOf_insert o w c h

theorem envCfgPart_none (E : Env) (q : P)
    (hcfg : ∀ ck, q.info.cfgKey = some ck →
      lookupE (getEnvVar (prefixAt E.root (q.info.path.map codes)) (codes ck)) E.cfgs = .none) :
    envCfgPart E q = [] := by
  unfold envCfgPart
  cases hck : q.info.cfgKey with
  | none => rfl
  | some ck => simp [hcfg ck hck]

theorem envBase_props (E : Env) (penv : P → Cfg) (q : P) (k : String) (hk : ownKey q k) :
    lookup k (envSubPart E penv q []) = .none ∧ (keysOf (envSubPart E penv q [])).Nodup := by
  unfold envSubPart
  cases hs : q.sub with
  | none => exact ⟨rfl, by simp [keysOf]⟩
  | some h =>
    simp only [ownKey, hs] at hk
    simp only []
    cases lookupE (getEnvVar (prefixAt E.root (q.info.path.map codes)) (codes h.dest)) E.vals with
    | none => exact ⟨rfl, by simp [keysOf]⟩
    | some v =>
      cases v with
      | none => exact ⟨rfl, by simp [keysOf]⟩
      | int _ => exact ⟨rfl, by simp [keysOf]⟩
      | sec _ => exact ⟨rfl, by simp [keysOf]⟩
      | str s =>
        simp only []
        cases hf : findP s q.choices with
        | none => exact ⟨rfl, by simp [keysOf]⟩
        | some r =>
          simp only []
          have hsn : s ∈ names q.choices := findP_names s r q.choices hf
          have hks : k ≠ s := fun e => hk.2 (e ▸ hsn)
          have hb : (keysOf (insert h.dest (.str s) [])).Nodup := by simp [insert, keysOf]
          unfold copyUnder
          split
          · exact ⟨by rw [lookup_insert_other _ _ _ _ hk.1]; rfl, hb⟩
          · exact ⟨by rw [lookup_insert_other _ _ _ _ hks, lookup_insert_other _ _ _ _ hk.1]; rfl, keysOf_insert _ _ _ hb⟩

/-- the environment layer at an option of the parser: the value of ITS variable, found by name -/
theorem loadEnvC_own (E : Env) (penv : P → Cfg) (q : P) (k : String) (hk : ownKey q k) (hko : k ∈ q.info.options)
    (hcfg : ∀ ck, q.info.cfgKey = some ck →
      lookupE (getEnvVar (prefixAt E.root (q.info.path.map codes)) (codes ck)) E.cfgs = .none) :
    lookup k (loadEnvC E penv q) = lookupE (envVarAt E.root (q.info.path.map codes) (codes k)) E.vals ∧
    (keysOf (loadEnvC E penv q)).Nodup := by
  unfold loadEnvC envOptPart
  rw [envCfgPart_none E q hcfg]
  obtain ⟨hb, hn⟩ := envBase_props E penv q k hk
  refine ⟨?_, nodup_optFold E _ _ _ hn⟩
  rw [lookup_optFold, hb]
  simp only [hko, if_true, envVarAt]
  cases lookupE (getEnvVar (prefixAt E.root (q.info.path.map codes)) (codes k)) E.vals <;> rfl

/-- the default config files in the order the code loads them: each later file wins -/
def pickLast (k : String) (files : List Cfg) (base : Option Val) : Option Val :=
  files.foldl (fun acc t => match lookup k t with
    | some v => some v
    | .none => acc) base

theorem defaultsStep_own (single : Bool) (p : P) (cfg t : Cfg) (k : String) (hk : ownKey p k) (hm : k ≠ "__default_config__")
    (ht : (keysOf t).Nodup ∧ leafAt k t = true) :
    lookup k (defaultsStep single p cfg t) = match lookup k t with
      | some v => some v
      | .none => lookup k cfg := by
  unfold defaultsStep
  cases ha : applyDefaultCfg single p t cfg with
  | error e => exact lookup_merge_leaf k t cfg ht.1 ht.2
  | ok c =>
    simp only []
    rw [lookup_insert_other _ _ _ _ hm]
    unfold applyDefaultCfg at ha
    rw [parseCommon_frame _ _ false p _ c ha k hk]
    exact lookup_merge_leaf k t cfg ht.1 ht.2

theorem foldl_defaults_own (single : Bool) (p : P) (k : String) (hk : ownKey p k) (hm : k ≠ "__default_config__") :
    ∀ (files : List Cfg) (cfg : Cfg), (∀ t ∈ files, (keysOf t).Nodup ∧ leafAt k t = true) →
      lookup k (files.foldl (defaultsStep single p) cfg) = pickLast k files (lookup k cfg)
  | [], cfg, _ => rfl
  | t :: rest, cfg, h => by
    simp only [List.foldl_cons, pickLast]
    rw [foldl_defaults_own single p k hk hm rest _ (fun x hx => h x (List.mem_cons_of_mem _ hx)),
      defaultsStep_own single p cfg t k hk hm (h t List.mem_cons_self)]
    rfl

/-- `get_defaults` at an option: the last file (stack order, then the parser's own in listed order) that has the option, else
    the option's default -/
theorem getDefaultsC_own (single : Bool) (ctx : Ctx) (q : P) (k : String) (hk : ownKey q k) (hm : k ≠ "__default_config__")
    (hf : ∀ t ∈ filesOf ctx q.info.dcfs, (keysOf t).Nodup ∧ leafAt k t = true) :
    lookup k (getDefaultsC single ctx q) = pickLast k (filesOf ctx q.info.dcfs) (lookup k q.info.opts) :=
  foldl_defaults_own single q k hk hm _ _ hf

/-- `parse_env` at an option: the variable, else `get_defaults` -/
theorem layerC_env_own (E : Env) (fuel : Nat) (single : Bool) (ctx : Ctx) (q : P) (k : String)
    (hk : ownKey q k) (hko : k ∈ q.info.options) (hm : k ≠ "__default_config__")
    (hcfg : ∀ ck, q.info.cfgKey = some ck →
      lookupE (getEnvVar (prefixAt E.root (q.info.path.map codes)) (codes ck)) E.cfgs = .none)
    (hleaf : ∀ v, lookupE (envVarAt E.root (q.info.path.map codes) (codes k)) E.vals = some v → v.isSec = false)
    (hf : ∀ t ∈ filesOf ctx q.info.dcfs, (keysOf t).Nodup ∧ leafAt k t = true) :
    lookup k (layerC E (fuel + 1) single ctx .env q) =
      match lookupE (envVarAt E.root (q.info.path.map codes) (codes k)) E.vals with
      | some v => some v
      | .none => pickLast k (filesOf ctx q.info.dcfs) (lookup k q.info.opts) := by
  obtain ⟨he, hn⟩ := loadEnvC_own E (layerEO E fuel single) q k hk hko hcfg
  have hl : leafAt k (loadEnvC E (layerEO E fuel single) q) = true := by
    unfold leafAt
    rw [he]
    cases hv : lookupE (envVarAt E.root (q.info.path.map codes) (codes k)) E.vals with
    | none => rfl
    | some v =>
      have := hleaf v hv
      cases v <;> simp_all [Val.isSec]
  have key : lookup k (merge (loadEnvC E (layerEO E fuel single) q) (getDefaultsC single ctx q)) =
      match lookupE (envVarAt E.root (q.info.path.map codes) (codes k)) E.vals with
      | some v => some v
      | .none => pickLast k (filesOf ctx q.info.dcfs) (lookup k q.info.opts) := by
    rw [lookup_merge_leaf k _ _ hn hl, he, getDefaultsC_own single ctx q k hk hm hf]
    cases lookupE (envVarAt E.root (q.info.path.map codes) (codes k)) E.vals <;> rfl
  rw [layerC]
  split
  · rename_i c hc
    rw [parseCommon_frame _ _ false q _ c hc k hk]
    exact key
  · exact key

/-- the ENVIRONMENT-ONLY `parse_env` (`defaults=False`, fix a5d1a53) at an option: the value of its variable and nothing else —
    no default, no default config file -/
theorem layerEO_own (E : Env) (fuel : Nat) (single : Bool) (q : P) (k : String)
    (hk : ownKey q k) (hko : k ∈ q.info.options)
    (hcfg : ∀ ck, q.info.cfgKey = some ck →
      lookupE (getEnvVar (prefixAt E.root (q.info.path.map codes)) (codes ck)) E.cfgs = .none)
    (hleaf : ∀ v, lookupE (envVarAt E.root (q.info.path.map codes) (codes k)) E.vals = some v → v.isSec = false) :
    lookup k (layerEO E (fuel + 1) single q) = lookupE (envVarAt E.root (q.info.path.map codes) (codes k)) E.vals := by
  obtain ⟨he, hn⟩ := loadEnvC_own E (layerEO E fuel single) q k hk hko hcfg
  have hl : leafAt k (loadEnvC E (layerEO E fuel single) q) = true := by
    unfold leafAt
    rw [he]
    cases hv : lookupE (envVarAt E.root (q.info.path.map codes) (codes k)) E.vals with
    | none => rfl
    | some v =>
      have := hleaf v hv
      cases v <;> simp_all [Val.isSec]
  have key : lookup k (merge (loadEnvC E (layerEO E fuel single) q) []) =
      lookupE (envVarAt E.root (q.info.path.map codes) (codes k)) E.vals := by
    rw [lookup_merge_leaf k _ _ hn hl, he]
    cases lookupE (envVarAt E.root (q.info.path.map codes) (codes k)) E.vals <;> rfl
  rw [layerEO]
  split
  · rename_i c hc
    rw [parseCommon_frame _ _ false q _ c hc k hk]
    exact key
  · exact key

end Jap.Subcmd

namespace Jap.Subcmd

/-- a parser description with the concrete fields only -/
def mkInfo (path : List String) (opts : Cfg) (options : List String) (dcfs pdcfs : List Cfg) : Info :=
  { dflt := [], envc := [], path := path, opts := opts, options := options, dcfs := dcfs, pdcfs := pdcfs }

theorem pickLast_append (k : String) (a b : List Cfg) (base : Option Val) :
    pickLast k (a ++ b) base = pickLast k b (pickLast k a base) := by
  simp [pickLast, List.foldl_append]

end Jap.Subcmd

import Jap.Lemmas.PState
import Jap.Lemmas.PStateFacts
import Jap.Lemmas.PStateCtx
import Jap.Lemmas.PStateCtxOps
/-!
Bridge between the two engines of C09: the transcription of the public operations (`Core/PState.lean`: carriers of a
`World`, `step`) and the bracket skeletons over value-carrying locations (`Core/PStateCtx.lean`, `Lemmas/PStateCtxOps.lean`).

* `Carrier.loc`: which location each carrier is; `Carrier.constrained`: whether the invariant of the first engine pins it.
* `locs p w`: the state of the second engine that a world of the first engine stands for (application parser `p`).
* `tokOf` / `argvOf`: the operation of the first engine that a skeleton of the second engine stands for.
-/
namespace Jap.PState.Bridge
open Jap.PState

inductive Carrier where
  | parseKwargs | subclassArgParser | dumpKwargs | lenient | parentParser | pending | lastArgsRoot | lastArgsSub
  | shtabAdded | linked | wired | dcDefault
deriving DecidableEq, Repr

def Carrier.all : List Carrier :=
  [.parseKwargs, .subclassArgParser, .dumpKwargs, .lenient, .parentParser, .pending, .lastArgsRoot, .lastArgsSub,
   .shtabAdded, .linked, .wired, .dcDefault]

/-- the location of the second engine a carrier is (none: state of action / parser objects that no skeleton touches:
    the lazily added --print_shtab action, `linked_targets`, the sub-parser wiring, `sub_add_kwargs['default']` — for these the
    first engine's facts `shtabGuarded`, `linkedOnFreshOnly`, `wiringAtBuildOnly`, `dcDefaultOnAction` say they are never written) -/
def Carrier.loc : Carrier → Option String
  | .parseKwargs => some "parse_kwargs"
  | .subclassArgParser => some "subclass_arg_parser"
  | .dumpKwargs => some "dump_kwargs"
  | .lenient => some "lenient_check"
  | .parentParser => some "parent_parser"
  | .pending => some "parser.print_config"
  | .lastArgsRoot => some "parser.args"
  | .lastArgsSub => some "sub.args"
  | _ => none

/-- pinned by `Jap.PState.Inv` (restored by every operation) -/
def Carrier.constrained : Carrier → Bool
  | .lenient | .parentParser | .pending | .linked | .wired | .dcDefault => true
  | _ => false

def optCode {α : Type} (f : α → Nat) : Option α → Nat
  | none => 0
  | some a => f a + 1

def kwCode (k : KW) : Nat := (match k.env with | none => 0 | some false => 1 | some true => 2) * 2 + (if k.defaults then 1 else 0)
def dkCode (d : DK) : Nat := (if d.skipValidation then 2 else 0) + (if d.skipNone then 1 else 0)
def prefCode : PRef → Nat
  | .root p => 3 * p
  | .sub p i => 3 * (p + i) + 1
  | .eph => 2
def pendingCode (pd : Pending) : Nat :=
  (if pd.flags.comments then 4 else 0) + (if pd.flags.skipDefault then 2 else 0) + (if pd.flags.skipNull then 1 else 0) + 8 * optCode id pd.key

/-- the state of the second engine that world `w` stands for, seen from application parser `p` (sub-command parser 0) -/
def locs (p : Nat) (w : World) : Ctx.Env := fun x =>
  if x = "parse_kwargs" then optCode kwCode w.parseKwargs
  else if x = "subclass_arg_parser" then optCode prefCode w.subclassArgParser
  else if x = "dump_kwargs" then optCode dkCode w.dumpKwargs
  else if x = "lenient_check" then (if w.lenient then 1 else 0)
  else if x = "parent_parser" then optCode prefCode w.parentParser
  else if x = "parser.print_config" then optCode pendingCode (w.pending p)
  else if x = "parser.args" then optCode id (w.lastArgs (.root p))
  else if x = "sub.args" then optCode id (w.lastArgs (.sub p 0))
  else 0

/-- the locations that carriers are -/
def carrierLocs : List String := Carrier.all.filterMap Carrier.loc

/-- the operation of the first engine that an argv element of the second engine stands for -/
def tokOf : Ctx.Tok → Tok
  | .typed => { kind := .plain true }
  | .nested => { kind := .deep }
  | .printConfig f => { kind := .printConfig { comments := f / 4 % 2 == 1, skipDefault := f / 2 % 2 == 1, skipNull := f % 2 == 1 } }
  | .cfgFile => { kind := .cfg false }
  | .help => { kind := .help }
  | .classHelp => { kind := .classHelp none }
  | .bad => { kind := .plain false, fails := true }

def argvOf (toks : List Ctx.Tok) (sub : Option (List Ctx.Tok)) : Argv :=
  { id := 3, kw := { env := some false, defaults := true }, toks := toks.map tokOf,
    sub := sub.map fun st => { idx := 0, argsId := 4, toks := st.map tokOf } }

def desc : Nat → PDesc := fun _ => { exitOnError := false, shtab := false, linked0 := [] }

/-- which carrier locations hold something else than their initial content -/
def footprint (e : Ctx.Env) : List Bool := carrierLocs.map fun x => e x != 0

/-- the argv shapes compared: up to two elements of every kind, without a sub-command, with an empty one, with one that has a
    typed option -/
def family : List (List Ctx.Tok × Option (List Ctx.Tok)) :=
  let argvs : List (List Ctx.Tok) := [[]] ++ Ctx.allToks.map (fun t => [t]) ++ (Ctx.allToks.flatMap fun a => Ctx.allToks.map fun b => [a, b])
  argvs.flatMap fun a => [(a, none), (a, some []), (a, some [.typed])]

/-- do both engines say the same about one parse_args call from fresh state: does it return, and which carriers does it
    leave changed -/
def agreeOn (c : List Ctx.Tok × Option (List Ctx.Tok)) : Bool :=
  let r1 := step genFacts desc (init desc) (1, .parseArgs (argvOf c.1 c.2))
  let r2 := Ctx.run (Ctx.parseArgs 4 1 7 c.1 c.2) Ctx.init
  (r1.2.cls != .result) == r2.raised && footprint (locs 1 r1.1) == footprint r2.env

/-- the other operations -/
def agreeOther : Bool :=
  let cmp (o : Op) (P : Ctx.Prog) : Bool :=
    let r1 := step genFacts desc (init desc) (1, o)
    let r2 := Ctx.run P Ctx.init
    (r1.2.cls != .result) == r2.raised && footprint (locs 1 r1.1) == footprint r2.env
  cmp (.parseOther { id := 5 }) (Ctx.parseOther 1 1) &&
  cmp (.validate { id := 5 }) (Ctx.validate 1) &&
  cmp (.instantiate { id := 5, tail := { clsFinal := true } }) (Ctx.instantiate 1) &&
  cmp .getDefaults (Ctx.getDefaults 4 1) &&
  cmp .formatHelp (Ctx.formatHelp 4 1) &&
  cmp (.dump { id := 5 } { skipValidation := false, skipNone := true } false) (Ctx.dump 5 1 1 false) &&
  cmp (.dump { id := 5 } { skipValidation := false, skipNone := true } true) (Ctx.dump 5 1 1 true)

/-- the invariant of the first engine is the invariant of the second on the locations that constrained carriers are -/
theorem inv_bridge (D : Nat → PDesc) (p : Nat) (w : World) (h : Inv D w) :
    Ctx.Inv ["lenient_check", "parent_parser", "parser.print_config"] (locs p w) := by
  intro x hx
  simp only [List.mem_cons, List.mem_nil_iff, or_false] at hx
  rcases hx with rfl | rfl | rfl
  · simp [locs, h.lenient]
  · simp [locs, h.parent, optCode]
  · simp [locs, h.pending p, optCode]

end Jap.PState.Bridge

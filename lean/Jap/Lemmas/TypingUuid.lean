/-
Helper lemmas for the UUID codec of E8 (C20): `uuidDeser (uuidStr n) = .ok n` for `n < 2^128`.  Core Lean only.
-/
import Jap.Core.Typing

namespace Jap.Typing

def hexCharsL : List Char := "0123456789abcdef".toList

theorem hexDigitL_fin : ∀ d : Fin 16, hexDigitL d.val ∈ hexCharsL ∧ hexValC (hexDigitL d.val) = d.val := by decide +kernel

theorem hexDigitL_mem {d : Nat} (h : d < 16) : hexDigitL d ∈ hexCharsL := (hexDigitL_fin ⟨d, h⟩).1
theorem hexValC_hexDigitL {d : Nat} (h : d < 16) : hexValC (hexDigitL d) = d := (hexDigitL_fin ⟨d, h⟩).2

/-- what the parser needs to know about a lower-case hexadecimal digit -/
theorem hexCharsL_props : ∀ c ∈ hexCharsL,
    c ≠ '-' ∧ c ≠ '+' ∧ c ≠ 'u' ∧ c ≠ '_' ∧ c ≠ 'x' ∧ c ≠ 'X' ∧ isHexDigit c = true ∧ isNumSpace c = false ∧
      (c = '{' || c = '}') = false := by decide +kernel

theorem hexFixed_mem : ∀ (k n : Nat), ∀ c ∈ hexFixed k n, c ∈ hexCharsL
  | 0, _, c, h => by simp [hexFixed] at h
  | k + 1, n, c, h => by
    simp only [hexFixed, List.mem_append, List.mem_singleton] at h
    rcases h with h | h
    · exact hexFixed_mem k _ c h
    · subst h; exact hexDigitL_mem (Nat.mod_lt _ (by decide))

theorem hexFixed_length : ∀ (k n : Nat), (hexFixed k n).length = k
  | 0, _ => rfl
  | k + 1, n => by simp [hexFixed, hexFixed_length k]

theorem foldl_hexFixed : ∀ (k n acc : Nat),
    (hexFixed k n).foldl (fun a c => 16 * a + hexValC c) acc = acc * 16 ^ k + n % 16 ^ k
  | 0, n, acc => by simp [hexFixed, Nat.mod_one]
  | k + 1, n, acc => by
    simp only [hexFixed, List.foldl_append, List.foldl_cons, List.foldl_nil, foldl_hexFixed k,
      hexValC_hexDigitL (Nat.mod_lt n (by decide : 0 < 16))]
    rw [Nat.pow_succ, Nat.mul_comm (16 ^ k) 16, Nat.mod_mul]
    rw [Nat.mul_add, Nat.mul_left_comm, ← Nat.mul_assoc acc]
    omega

/-! ### generic text facts -/

theorem removeAllAux_noop (c0 : Char) (p : List Char) : ∀ (l : List Char), c0 ∉ l → removeAllAux (c0 :: p) 0 l = l
  | [], _ => rfl
  | c :: r, h => by
    have hc : c0 ≠ c := fun e => h (by simp [e])
    have ih := removeAllAux_noop c0 p r (fun m => h (List.mem_cons_of_mem _ m))
    simp [removeAllAux, List.isPrefixOf, hc, ih]

theorem stripChars_none (p : Char → Bool) (l : List Char) (h : ∀ c ∈ l, p c = false) : stripChars p l = l := by
  have drop : ∀ m : List Char, (∀ c ∈ m, p c = false) → m.dropWhile p = m := by
    intro m hm
    cases m with
    | nil => rfl
    | cons a t => simp [List.dropWhile, hm a (by simp)]
  unfold stripChars
  rw [drop l h, drop l.reverse (fun c hc => h c (List.mem_reverse.mp hc)), List.reverse_reverse]

theorem numStrip_none (l : List Char) (h : ∀ c ∈ l, isNumSpace c = false) : numStrip l = l :=
  stripChars_none isNumSpace l h

theorem stripUSP_all (p : Char → Bool) : ∀ (l : List Char), l ≠ [] → (∀ c ∈ l, p c = true ∧ c ≠ '_') →
    stripUSP p l = some l
  | [], h, _ => absurd rfl h
  | [c], _, h => by simp [stripUSP, (h c (by simp)).1]
  | c :: d :: r, _, h => by
    have hc := (h c (by simp)).1
    have hd : d ≠ '_' := (h d (by simp)).2
    have ih := stripUSP_all p (d :: r) (by simp) (fun x hx => h x (List.mem_cons_of_mem _ hx))
    unfold stripUSP
    split
    · rename_i e; simp at e
    · rename_i e; simp at e
    · rename_i c' r' e
      simp at e
      exact absurd e.2.1 hd
    · rename_i c' r' _ _ e
      simp at e
      obtain ⟨rfl, rfl⟩ := e
      simp [hc, ih]

/-! ### the round trip -/

/-- the 32 digits of the value -/
def uuidDigits (n : Nat) : List Char :=
  hexFixed 8 (n / 16 ^ 24) ++ (hexFixed 4 (n / 16 ^ 20) ++ (hexFixed 4 (n / 16 ^ 16) ++ (hexFixed 4 (n / 16 ^ 12) ++ hexFixed 12 n)))

theorem uuidDigits_mem (n : Nat) : ∀ c ∈ uuidDigits n, c ∈ hexCharsL := by
  intro c hc
  simp only [uuidDigits, List.mem_append] at hc
  rcases hc with h | h | h | h | h <;> exact hexFixed_mem _ _ c h

theorem uuidStr_mem (n : Nat) : ∀ c ∈ uuidStr n, c ∈ hexCharsL ∨ c = '-' := by
  intro c hc
  simp only [uuidStr, List.mem_append, List.mem_cons] at hc
  rcases hc with h | h | h | h | h | h | h | h | h
  all_goals first
    | exact Or.inl (hexFixed_mem _ _ c h)
    | exact Or.inr h

theorem filter_hex (l : List Char) (h : ∀ c ∈ l, c ∈ hexCharsL) : l.filter (· ≠ '-') = l := by
  rw [List.filter_eq_self]
  intro c hc
  simpa using (hexCharsL_props c (h c hc)).1

theorem uuidStr_filter (n : Nat) : (uuidStr n).filter (· ≠ '-') = uuidDigits n := by
  simp only [uuidStr, uuidDigits, List.filter_append, List.filter_cons, ne_eq, not_true_eq_false, decide_false,
    Bool.false_eq_true, ↓reduceIte, filter_hex _ (hexFixed_mem _ _)]

theorem uuidDigits_length (n : Nat) : (uuidDigits n).length = 32 := by
  simp [uuidDigits, hexFixed_length]

theorem uuidDigits_value (n : Nat) (h : n < 2 ^ 128) : ofHexDigits (uuidDigits n) = n := by
  simp only [ofHexDigits, uuidDigits, List.foldl_append, foldl_hexFixed]
  simp only [Nat.reducePow] at h ⊢
  omega

theorem readPyIntHex_uuidDigits (n : Nat) (h : n < 2 ^ 128) : readPyIntHex (uuidDigits n) = some (n : Int) := by
  have hm := uuidDigits_mem n
  have hlen := uuidDigits_length n
  have hval := uuidDigits_value n h
  generalize uuidDigits n = D at hm hlen hval
  match D, hlen with
  | c :: d :: r, _ =>
    have pc := hexCharsL_props c (hm c (by simp))
    have pd := hexCharsL_props d (hm d (by simp))
    have hstrip : numStrip (c :: d :: r) = c :: d :: r := numStrip_none _ (fun x hx => (hexCharsL_props x (hm x hx)).2.2.2.2.2.2.2.1)
    have hsign : splitSign (c :: d :: r) = (false, c :: d :: r) := by
      unfold splitSign
      split
      · rename_i r' e; simp at e; exact absurd e.1 pc.1
      · rename_i r' e; simp at e; exact absurd e.1 pc.2.1
      · rfl
    have hall : stripUSP isHexDigit (c :: d :: r) = some (c :: d :: r) :=
      stripUSP_all _ _ (by simp) (fun x hx => ⟨(hexCharsL_props x (hm x hx)).2.2.2.2.2.2.1, (hexCharsL_props x (hm x hx)).2.2.2.1⟩)
    unfold readPyIntHex
    simp only [hstrip, hsign]
    have hbody : dropHexPrefix (c :: d :: r) = c :: d :: r := by
      unfold dropHexPrefix
      split
      · rename_i x r' e
        simp at e
        obtain ⟨h0, rfl, h1⟩ := e
        simp [pd.2.2.2.2.1, pd.2.2.2.2.2.1, h0, h1]
      · rfl
    simp only [hbody, hall]
    simp [hval]

theorem uuidDeser_uuidStr (n : Nat) (h : n < 2 ^ 128) : uuidDeser (uuidStr n) = .ok n := by
  have hu : 'u' ∉ uuidStr n := by
    intro hc
    rcases uuidStr_mem n _ hc with h1 | h1
    · exact (hexCharsL_props _ h1).2.2.1 rfl
    · exact absurd h1 (by decide)
  have hbr : ∀ c ∈ uuidStr n, (c = '{' || c = '}') = false := by
    intro c hc
    rcases uuidStr_mem n c hc with h1 | h1
    · exact (hexCharsL_props c h1).2.2.2.2.2.2.2.2
    · subst h1; decide
  have e1 : removeAll "urn:" (uuidStr n) = uuidStr n := removeAllAux_noop 'u' "rn:".toList _ hu
  have e2 : removeAll "uuid:" (uuidStr n) = uuidStr n := removeAllAux_noop 'u' "uid:".toList _ hu
  unfold uuidDeser
  simp only [e1, e2, stripChars_none _ _ hbr, uuidStr_filter, uuidDigits_length, ne_eq, not_true_eq_false, ↓reduceIte,
    readPyIntHex_uuidDigits n h]
  have h' : (n : Int) < 340282366920938463463374607431768211456 := by
    simp only [Nat.reducePow] at h
    omega
  simp [h']

end Jap.Typing

/-
Helper lemmas for the text codecs of E8 (C20): `str(int)`/`int(str)`, the
`range` codec round trip (DESIGN Appendix J) and the pieces of the `timedelta`
round trip.  Core Lean only.
-/
import Jap.Core.Typing

namespace Jap.Typing

/-! ### digits -/

theorem digits_all (n : Nat) : (Nat.toDigits 10 n).all Char.isDigit = true := by
  rw [List.all_eq_true]
  intro c hc
  exact Nat.isDigit_of_mem_toDigits (by decide) (by decide) hc

theorem digits_mem_isDigit {n : Nat} {c : Char} (hc : c ∈ Nat.toDigits 10 n) : c.isDigit = true :=
  Nat.isDigit_of_mem_toDigits (by decide) (by decide) hc

theorem digits_head_ne_minus (n : Nat) : ∀ c ∈ (Nat.toDigits 10 n).head?, c ≠ '-' := by
  intro c hc h
  subst h
  have hmem : '-' ∈ Nat.toDigits 10 n := by
    cases hd : Nat.toDigits 10 n with
    | nil => simp [hd] at hc
    | cons a t => simp [hd] at hc; subst hc; simp
  have := Nat.isDigit_of_mem_toDigits (b := 10) (by decide) (by decide) hmem
  simp [Char.isDigit] at this

theorem readInt_showInt (i : Int) : readInt (showInt i) = some i := by
  unfold showInt
  by_cases h : i < 0
  · simp only [h, ↓reduceIte, readInt]
    simp [Nat.toDigits_ne_nil, digits_all, Nat.ofDigitChars_ten_toDigits]
    omega
  · simp only [h, ↓reduceIte]
    cases hd : Nat.toDigits 10 i.natAbs with
    | nil => exact absurd hd Nat.toDigits_ne_nil
    | cons a t =>
      have hne : a ≠ '-' := digits_head_ne_minus i.natAbs a (by simp [hd])
      have hall := digits_all i.natAbs
      have hval := Nat.ofDigitChars_ten_toDigits (n := i.natAbs)
      rw [hd] at hall hval
      unfold readInt
      split
      · rename_i ds heq
        simp at heq
        exact absurd heq.1 hne
      · simp [hall, hval]
        omega

/-- every character of `str(int)` is a minus sign or a digit -/
theorem showInt_chars (i : Int) : ∀ c ∈ showInt i, c = '-' ∨ c.isDigit = true := by
  intro c hc
  unfold showInt at hc
  split at hc
  · rcases List.mem_cons.mp hc with rfl | hc
    · exact Or.inl rfl
    · exact Or.inr (digits_mem_isDigit hc)
  · exact Or.inr (digits_mem_isDigit hc)

theorem showInt_ne_nil (i : Int) : showInt i ≠ [] := by
  unfold showInt
  split
  · simp
  · exact Nat.toDigits_ne_nil

theorem showInt_dayChars (i : Int) : ∀ c ∈ showInt i, isDayChar c = true := by
  intro c hc
  rcases showInt_chars i c hc with h | h
  · simp [isDayChar, h]
  · simp [isDayChar, h]

/-! ### `str.strip()` on a text without blanks at its ends -/

theorem pyStrip_eq_self (l : List Char) (a z : Char) (m : List Char) (hl : l = a :: (m ++ [z]))
    (ha : isPySpace a = false) (hz : isPySpace z = false) : pyStrip l = l := by
  subst hl
  unfold pyStrip
  have h1 : List.dropWhile isPySpace (a :: (m ++ [z])) = a :: (m ++ [z]) := by
    simp [List.dropWhile, ha]
  rw [h1]
  have h2 : (a :: (m ++ [z])).reverse = z :: (m.reverse ++ [a]) := by simp
  rw [h2]
  have h3 : List.dropWhile isPySpace (z :: (m.reverse ++ [a])) = z :: (m.reverse ++ [a]) := by
    simp [List.dropWhile, hz]
  rw [h3]
  simp

/-! ### `range` serialiser / deserialiser (`typing.py`, `range_serializer` / `range_deserializer`) -/

theorem splitComma_single : ∀ (a : List Char), ',' ∉ a → splitComma a = [a]
  | [], _ => rfl
  | c :: cs, h => by
    have hc : c ≠ ',' := fun e => h (by simp [e])
    have ih := splitComma_single cs (fun m => h (List.mem_cons_of_mem _ m))
    simp [splitComma, hc, ih]

theorem splitComma_append : ∀ (a b : List Char), ',' ∉ a → splitComma (a ++ ',' :: b) = a :: splitComma b
  | [], b, _ => by simp [splitComma]
  | c :: cs, b, h => by
    have hc : c ≠ ',' := fun e => h (by simp [e])
    have ih := splitComma_append cs b (fun m => h (List.mem_cons_of_mem _ m))
    simp [splitComma, hc, ih]

theorem showInt_clean (i : Int) : ',' ∉ showInt i ∧ ' ' ∉ showInt i ∧ '\n' ∉ showInt i := by
  have key := showInt_chars i
  refine ⟨?_, ?_, ?_⟩ <;>
  · intro h; rcases key _ h with h | h
    · exact absurd h (by decide)
    · simp [Char.isDigit] at h

theorem dropSpaces_showInt (i : Int) : dropSpaces (showInt i) = showInt i := by
  unfold dropSpaces
  rw [List.filter_eq_self]
  intro c hc
  have := (showInt_clean i).2.1
  simp only [ne_eq, decide_eq_true_eq]
  intro e; subst e; exact this hc

theorem dropSpaces_append (a b : List Char) : dropSpaces (a ++ b) = dropSpaces a ++ dropSpaces b := by
  simp [dropSpaces]

theorem dropSpaces_sep : dropSpaces rangeSep = [','] := by decide

/-- the inner text of a serialised range never ends with a newline -/
theorem dropFinalNewline_append_showInt (a : List Char) (i : Int) :
    dropFinalNewline (a ++ showInt i) = a ++ showInt i := by
  unfold dropFinalNewline
  have hne := showInt_ne_nil i
  have hnl := (showInt_clean i).2.2
  rw [List.getLast?_append]
  cases hl : (showInt i).getLast? with
  | none => exact absurd (List.getLast?_eq_none_iff.mp hl) hne
  | some x =>
    have hx : x ∈ showInt i := List.mem_of_getLast? hl
    have : x ≠ '\n' := fun e => hnl (e ▸ hx)
    simp [this]

theorem rangeSer_strip (r : Range) : pyStrip (rangeSer r) = rangeSer r := by
  have hp : rangePre = 'r' :: "ange(".toList := by decide
  unfold rangeSer
  split
  · split
    · exact pyStrip_eq_self _ 'r' ')' ("ange(".toList ++ showInt r.stop) (by simp [hp]) (by decide) (by decide)
    · exact pyStrip_eq_self _ 'r' ')' ("ange(".toList ++ showInt r.start ++ rangeSep ++ showInt r.stop)
        (by simp [hp]) (by decide) (by decide)
  · exact pyStrip_eq_self _ 'r' ')'
      ("ange(".toList ++ showInt r.start ++ rangeSep ++ showInt r.stop ++ rangeSep ++ showInt r.step)
      (by simp [hp]) (by decide) (by decide)

theorem rangeDeser_rangeSer (r : Range) (hstep : r.step ≠ 0) : rangeDeser (rangeSer r) = .ok r := by
  obtain ⟨start, stop, step⟩ := r
  simp only at hstep
  have hpre : ∀ rest, rangePre.isPrefixOf (rangePre ++ rest) = true := by intro rest; simp
  have hdrop : ∀ rest : List Char, (rangePre ++ rest).drop 6 = rest := by intro rest; simp [rangePre]
  have ca := (showInt_clean start).1
  have cb := (showInt_clean stop).1
  unfold rangeDeser
  rw [rangeSer_strip]
  unfold rangeSer
  by_cases h1 : step = 1
  · by_cases h0 : start = 0
    · simp only [h1, h0, ↓reduceIte]
      rw [List.append_assoc, hpre]
      simp only [List.getLast?_append, List.getLast?_singleton, Option.some_or, true_and, ↓reduceIte, hdrop,
        List.dropLast_concat, dropSpaces_showInt]
      have := dropFinalNewline_append_showInt [] stop
      simp only [List.nil_append] at this
      rw [this]
      simp only [splitComma_single _ cb, readInt_showInt, mkRange]
      simp
    · simp only [h1, h0, ↓reduceIte]
      rw [List.append_assoc, List.append_assoc, List.append_assoc, hpre]
      simp only [List.getLast?_append, List.getLast?_singleton, Option.some_or, true_and, ↓reduceIte, hdrop]
      rw [← List.append_assoc, ← List.append_assoc, List.dropLast_concat]
      simp only [dropSpaces_append, dropSpaces_showInt, dropSpaces_sep]
      rw [dropFinalNewline_append_showInt]
      simp only [List.append_assoc, List.singleton_append,
        splitComma_append _ _ ca, splitComma_single _ cb, readInt_showInt, mkRange]
      simp
  · simp only [h1, ↓reduceIte]
    have cc := (showInt_clean step).1
    rw [List.append_assoc, List.append_assoc, List.append_assoc, List.append_assoc, List.append_assoc, hpre]
    simp only [List.getLast?_append, List.getLast?_singleton, Option.some_or, true_and, ↓reduceIte, hdrop]
    rw [← List.append_assoc, ← List.append_assoc, ← List.append_assoc, ← List.append_assoc, List.dropLast_concat]
    simp only [dropSpaces_append, dropSpaces_showInt, dropSpaces_sep]
    rw [dropFinalNewline_append_showInt]
    have hs : splitComma (showInt start ++ [','] ++ showInt stop ++ [','] ++ showInt step)
        = [showInt start, showInt stop, showInt step] := by
      simp only [List.append_assoc, List.cons_append, List.nil_append,
        splitComma_append _ _ ca, splitComma_append _ _ cb, splitComma_single _ cc]
    rw [hs]
    simp only [readInt_showInt, mkRange]
    simp [hstep]

end Jap.Typing

import Jap.Core.Channels
import Jap.Lemmas.ChannelsText
/-!
Channels: the encoding `enc` of values as leaves of the Namespace model loses nothing: equal leaves hold equal values
(a yes/no setting is its boolean, `norm`).
-/
namespace Jap.Channels
open Jap.NS

def charsOfV : List V → Option (List Char)
  | [] => some []
  | .atom a :: r => (charsOfV r).map (Char.ofNat a.toNat :: ·)
  | _ => none

theorem charsOfV_enc : ∀ l : List Char, charsOfV (l.map fun c => V.atom c.toNat) = some l
  | [] => rfl
  | c :: r => by simp [charsOfV, charsOfV_enc r]

def decScalar : V → Option Scalar
  | .atom i => some (.int i)
  | .none => some .null
  | .tup [.atom 0, .atom b] => some (.bool (b != 0))
  | .tup [.atom 1, .lst cs] => (charsOfV cs).map (fun l => .str (String.ofList l))
  | .tup [.atom 2, .lst cs] => (charsOfV cs).bind (fun l => (readNum l).map .num)
  | _ => none

theorem decScalar_enc (s : Scalar) (hs : safeScalar s = true) : decScalar (encScalar s) = some s := by
  cases s with
  | int i => rfl
  | null => rfl
  | bool b => cases b <;> rfl
  | str x => simp [encScalar, decScalar, charsOfV_enc, String.ofList_toList]
  | num t => simp [encScalar, decScalar, charsOfV_enc, readNum_tokChars t hs]

theorem encScalar_inj {a b : Scalar} (ha : safeScalar a = true) (hb : safeScalar b = true) (h : encScalar a = encScalar b) : a = b := by
  have := congrArg decScalar h
  simpa [decScalar_enc a ha, decScalar_enc b hb] using this

theorem map_encScalar_inj : ∀ {xs ys : List Scalar}, xs.all safeScalar = true → ys.all safeScalar = true →
    xs.map encScalar = ys.map encScalar → xs = ys
  | [], [], _, _, _ => rfl
  | [], _ :: _, _, _, h => by simp at h
  | _ :: _, [], _, _, h => by simp at h
  | a :: r, b :: r', hx, hy, h => by
    simp only [List.all_cons, Bool.and_eq_true] at hx hy
    simp only [List.map_cons, List.cons.injEq] at h
    rw [encScalar_inj hx.1 hy.1 h.1, map_encScalar_inj hx.2 hy.2 h.2]

theorem map_pair_inj : ∀ {xs ys : List (String × Int)},
    xs.map (fun kv => ((⟨false, kv.1⟩ : SKey), V.atom kv.2)) = ys.map (fun kv => ((⟨false, kv.1⟩ : SKey), V.atom kv.2)) → xs = ys
  | [], [], _ => rfl
  | [], _ :: _, h => by simp at h
  | _ :: _, [], h => by simp at h
  | a :: r, b :: r', h => by
    simp only [List.map_cons, List.cons.injEq, Prod.mk.injEq, SKey.mk.injEq, true_and, V.atom.injEq] at h
    have : a = b := Prod.ext h.1.1 h.1.2
    rw [this, map_pair_inj h.2]

def isPlainV : Val → Bool
  | .yesno _ => false
  | _ => true

theorem enc_inj_plain {v w : Val} (pv : isPlainV v = true) (pw : isPlainV w = true) (sv : safeVal v = true) (sw : safeVal w = true)
    (h : enc v = enc w) : v = w := by
  cases v with
  | yesno _ => simp [isPlainV] at pv
  | sc a =>
    cases w with
    | yesno _ => simp [isPlainV] at pw
    | sc b => simp only [enc] at h; rw [encScalar_inj sv sw h]
    | list ys => cases a <;> simp [enc, encScalar] at h
    | dict kvs => cases a <;> simp [enc, encScalar] at h
  | list xs =>
    cases w with
    | yesno _ => simp [isPlainV] at pw
    | sc b => cases b <;> simp [enc, encScalar] at h
    | list ys => simp only [enc, V.lst.injEq] at h; rw [map_encScalar_inj sv sw h]
    | dict kvs => simp [enc] at h
  | dict kvs =>
    cases w with
    | yesno _ => simp [isPlainV] at pw
    | sc b => cases b <;> simp [enc, encScalar] at h
    | list ys => simp [enc] at h
    | dict kvs' => simp only [enc, V.dct.injEq] at h; rw [map_pair_inj h]

theorem enc_norm (v : Val) : enc (norm v) = enc v := by
  cases v <;> rfl

theorem norm_plain_safe (v : Val) (sv : safeVal v = true) : isPlainV (norm v) = true ∧ safeVal (norm v) = true := by
  cases v with
  | yesno w => exact ⟨rfl, rfl⟩
  | sc s => exact ⟨rfl, sv⟩
  | list xs => exact ⟨rfl, sv⟩
  | dict kvs => exact ⟨rfl, sv⟩

theorem enc_inj {v w : Val} (sv : safeVal v = true) (sw : safeVal w = true) (h : enc v = enc w) : norm v = norm w := by
  rw [← enc_norm v, ← enc_norm w] at h
  exact enc_inj_plain (norm_plain_safe v sv).1 (norm_plain_safe w sw).1 (norm_plain_safe v sv).2 (norm_plain_safe w sw).2 h

end Jap.Channels

import Jap.Core.Channels
/-!
Channels: the encoding `enc` of values as leaves of the Namespace model is injective (equal namespaces hold equal values).
-/
namespace Jap.Channels
open Jap.NS


/-! ### the encoding of values as namespace leaves loses nothing -/

def charsOfV : List V → Option (List Char)
  | [] => some []
  | .atom a :: r => (charsOfV r).map (Char.ofNat a.toNat :: ·)
  | _ => none

theorem charsOfV_enc : ∀ l : List Char, charsOfV (l.map fun c => V.atom c.toNat) = some l
  | [] => rfl
  | c :: r => by simp [charsOfV, charsOfV_enc r]

def decScalar : V → Option Scalar
  | .atom i => some (.int i)
  | .none => some .null
  | .tup [.atom 0, .atom b] => some (.bool (b != 0))
  | .tup [.atom 1, .lst cs] => (charsOfV cs).map (fun l => .str (String.ofList l))
  | _ => none

theorem decScalar_enc (s : Scalar) : decScalar (encScalar s) = some s := by
  cases s with
  | int i => rfl
  | null => rfl
  | bool b => cases b <;> rfl
  | str x => simp [encScalar, decScalar, charsOfV_enc, String.ofList_toList]

theorem encScalar_inj {a b : Scalar} (h : encScalar a = encScalar b) : a = b := by
  have := congrArg decScalar h
  simpa [decScalar_enc] using this

theorem map_encScalar_inj : ∀ {xs ys : List Scalar}, xs.map encScalar = ys.map encScalar → xs = ys
  | [], [], _ => rfl
  | [], _ :: _, h => by simp at h
  | _ :: _, [], h => by simp at h
  | a :: r, b :: r', h => by
    simp only [List.map_cons, List.cons.injEq] at h
    rw [encScalar_inj h.1, map_encScalar_inj h.2]

theorem map_pair_inj : ∀ {xs ys : List (String × Int)},
    xs.map (fun kv => ((⟨false, kv.1⟩ : SKey), V.atom kv.2)) = ys.map (fun kv => ((⟨false, kv.1⟩ : SKey), V.atom kv.2)) → xs = ys
  | [], [], _ => rfl
  | [], _ :: _, h => by simp at h
  | _ :: _, [], h => by simp at h
  | a :: r, b :: r', h => by
    simp only [List.map_cons, List.cons.injEq, Prod.mk.injEq, SKey.mk.injEq, true_and, V.atom.injEq] at h
    have : a = b := Prod.ext h.1.1 h.1.2
    rw [this, map_pair_inj h.2]

theorem enc_inj {v w : Val} (h : enc v = enc w) : v = w := by
  cases v with
  | sc a =>
    cases w with
    | sc b => simp only [enc] at h; rw [encScalar_inj h]
    | list ys => cases a <;> simp [enc, encScalar] at h
    | dict kvs => cases a <;> simp [enc, encScalar] at h
  | list xs =>
    cases w with
    | sc b => cases b <;> simp [enc, encScalar] at h
    | list ys => simp only [enc, V.lst.injEq] at h; rw [map_encScalar_inj h]
    | dict kvs => simp [enc] at h
  | dict kvs =>
    cases w with
    | sc b => cases b <;> simp [enc, encScalar] at h
    | list ys => simp [enc] at h
    | dict kvs' => simp only [enc, V.dct.injEq] at h; rw [map_pair_inj h]

end Jap.Channels

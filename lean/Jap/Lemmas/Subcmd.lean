import Jap.Core.Subcmd
/-!
Lemmas about the engine "Subcmd" (C17): association lists, the two cases of `getSub`, the shape of a successful
`handle`/`sweep` at one parser, the predicates in which the property is stated (`exactlyOne`, `complete`,
`choiceOK`, `wf`, `clean`) and the master induction `sound_P` over the parser tree.
-/
namespace Jap.Subcmd

/-! ## association lists -/

theorem lookup_insert (k k' : String) (v : Val) (c : Cfg) :
    lookup k' (insert k v c) = if k' = k then some v else lookup k' c := by
  induction c with
  | nil =>
    by_cases h : k' = k
    · subst h; simp [insert, lookup]
    · simp [insert, lookup, h, Ne.symm h]
  | cons kv r ih =>
    obtain ⟨k2, v2⟩ := kv
    by_cases h2 : k2 = k
    · subst h2
      by_cases h : k' = k2
      · subst h; simp [insert, lookup]
      · simp [insert, lookup, h, Ne.symm h]
    · by_cases h3 : k2 = k'
      · subst h3; simp [insert, lookup, h2]
      · simp [insert, lookup, h2, h3, ih]

theorem lookup_insert_same (k : String) (v : Val) (c : Cfg) : lookup k (insert k v c) = some v := by
  simp [lookup_insert]

theorem lookup_insert_other (k k' : String) (v : Val) (c : Cfg) (h : k' ≠ k) :
    lookup k' (insert k v c) = lookup k' c := by
  simp [lookup_insert, h]

theorem lookup_erase (k k' : String) (c : Cfg) :
    lookup k' (erase k c) = if k' = k then none else lookup k' c := by
  induction c with
  | nil => simp [erase, lookup]
  | cons kv r ih =>
    obtain ⟨k2, v2⟩ := kv
    by_cases h2 : k2 = k
    · subst h2
      by_cases h : k' = k2
      · subst h; simp [erase, ih]
      · simp [erase, lookup, ih, h, Ne.symm h]
    · by_cases h3 : k2 = k'
      · subst h3; simp [erase, lookup, h2]
      · simp [erase, lookup, h2, h3, ih]

theorem lookup_eraseAll (ks : List String) (k : String) (c : Cfg) :
    lookup k (eraseAll ks c) = if k ∈ ks then none else lookup k c := by
  induction ks generalizing c with
  | nil => simp [eraseAll]
  | cons a r ih =>
    simp only [eraseAll, ih, lookup_erase, List.mem_cons]
    by_cases h1 : k ∈ r <;> by_cases h2 : k = a <;> simp [h1, h2]

theorem insert_insert (k : String) (v w : Val) (c : Cfg) : insert k v (insert k w c) = insert k v c := by
  induction c with
  | nil => simp [insert]
  | cons kv r ih =>
    obtain ⟨k2, v2⟩ := kv
    by_cases h2 : k2 = k
    · subst h2; simp [insert]
    · simp [insert, h2, ih]

theorem isSecAt_insert (k k' : String) (v : Val) (c : Cfg) :
    isSecAt k' (insert k v c) = if k' = k then v.isSec else isSecAt k' c := by
  unfold isSecAt
  rw [lookup_insert]
  by_cases h : k' = k <;> simp [h]

theorem isSecAt_eraseAll (ks : List String) (k : String) (c : Cfg) :
    isSecAt k (eraseAll ks c) = if k ∈ ks then false else isSecAt k c := by
  unfold isSecAt
  rw [lookup_eraseAll]
  by_cases h : k ∈ ks <;> simp [h]


/-! ## the selection rule as a function of the merged configuration -/

/-- the subcommand the rule selects: the value stored under the subcommand key if there is one (it got there from
    the command line, a config, the environment), else the first subcommand IN DECLARATION ORDER that has a section -/
def choice (h : SubHdr) (ns : List String) (cfg : Cfg) : Option Val :=
  match explicitOf (lookup h.dest cfg) with
  | some v => some v
  | .none => (subKeys ns cfg).head?.map Val.str

/-- the sections that `get_subcommands` deletes -/
def pruned (ns : List String) (v : Val) (cfg : Cfg) : Cfg :=
  if (subKeys ns cfg).length > 1 then eraseAll ((subKeys ns cfg).filter (fun k => !isStr k (some v))) cfg else cfg

theorem subKeys_insert_dest (ns : List String) (d : String) (v : Val) (cfg : Cfg) (hd : ¬ d ∈ ns) :
    subKeys ns (insert d v cfg) = subKeys ns cfg := by
  unfold subKeys
  apply List.filter_congr
  intro k hk
  have : k ≠ d := fun e => hd (e ▸ hk)
  simp [isSecAt_insert, this]

/-- `getSub` when nothing can be selected -/
theorem getSub_none (h : SubHdr) (ns : List String) (fl : Flags) (pre : List String) (cfg : Cfg)
    (hc : choice h ns cfg = .none) :
    getSub h ns fl pre cfg =
      if fl.fail && h.required then .error (.nosub (pre ++ [h.dest])) else .ok ⟨cfg, .none, [], false⟩ := by
  unfold choice at hc
  cases he : explicitOf (lookup h.dest cfg) with
  | some v => simp [he] at hc
  | none =>
    simp only [he] at hc
    have hk : subKeys ns cfg = [] := by
      cases hs : subKeys ns cfg with
      | nil => rfl
      | cons a r => simp [hs] at hc
    unfold getSub getSubCore
    simp only [he, hk]
    cases fl.fail <;> cases h.required <;> simp [truthyO, validNameO]


def settled (h : SubHdr) (v : Val) (cfg : Cfg) : Cfg :=
  if (explicitOf (lookup h.dest cfg)).isSome then cfg else insert h.dest v cfg

def prunedK (keys : List String) (v : Val) (c : Cfg) : Cfg :=
  if keys.length > 1 then eraseAll (keys.filter (fun k => !isStr k (some v))) c else c

/-- `getSub` when the rule selects `v` -/
theorem getSub_some (h : SubHdr) (ns : List String) (fl : Flags) (pre : List String) (cfg : Cfg) (v : Val)
    (hc : choice h ns cfg = some v) (ht : v.truthy = true)
    (hf : (fl.fail || fl.single) = true ∨ (explicitOf (lookup h.dest cfg)).isSome = true) :
    ∃ w, getSub h ns fl pre cfg =
      if !validName ns v then .error (.badname (pre ++ [h.dest]))
      else .ok ⟨prunedK (subKeys ns cfg) v (settled h v cfg), some v, [v], w⟩ := by
  unfold choice at hc
  cases he : explicitOf (lookup h.dest cfg) with
  | some u =>
    simp only [he] at hc
    cases hc
    refine ⟨false, ?_⟩
    unfold getSub getSubCore
    simp only [he, settled, prunedK, Option.isNone_some, Option.isSome_some, Bool.false_and, truthyO, validNameO]
    cases fl.fail <;> cases h.required <;> cases hvv : validName ns v <;> simp_all
  | none =>
    simp only [he] at hc
    have hf : (fl.fail || fl.single) = true := by
      rcases hf with hf | hf
      · exact hf
      · simp [he] at hf
    cases hs : subKeys ns cfg with
    | nil => simp [hs] at hc
    | cons a r =>
      simp only [hs, List.head?_cons, Option.map_some] at hc
      cases hc
      refine ⟨decide ((a :: r).length > 1), ?_⟩
      unfold getSub getSubCore
      simp only [he, hs, settled, prunedK, hf, Option.isNone_none, Option.isSome_none, List.isEmpty_cons, Bool.not_false,
        Bool.and_self, Bool.true_and, if_true, List.head?_cons, Option.map_some, truthyO, ht, validNameO, List.headD_cons]
      cases fl.fail <;> cases h.required <;> cases hvv : validName ns (Val.str a) <;> simp_all

/-- with `fail_no_subcommand`, a selected value that is not a subcommand name is an error whatever it is (fix 96e4fb9) -/
theorem getSub_fail_invalid (h : SubHdr) (ns : List String) (single : Bool) (mode : Mode) (pre : List String) (cfg : Cfg) (v : Val)
    (hc : choice h ns cfg = some v) (hv : validName ns v = false) :
    getSub h ns ⟨true, single, mode⟩ pre cfg = .error (.badname (pre ++ [h.dest])) := by
  unfold choice at hc
  cases he : explicitOf (lookup h.dest cfg) with
  | some u =>
    simp only [he] at hc
    cases hc
    unfold getSub getSubCore
    simp [he, validNameO, hv]
  | none =>
    simp only [he] at hc
    cases hs : subKeys ns cfg with
    | nil => simp [hs] at hc
    | cons a r =>
      simp only [hs, List.head?_cons, Option.map_some] at hc
      cases hc
      unfold getSub getSubCore
      simp [he, hs, validNameO, hv]

/-- what `handle_subcommands` does for one selected subcommand -/
def processOne (lay : Mode → P → Cfg) (fl : Flags) (pre : List String) (n : String) (q : P) (cfg : Cfg) : Except Err Cfg :=
  match checkSettings (pre ++ [n]) (lookup n cfg) with
  | .error e => .error e
  | .ok _ =>
    match mergeLayer fl.mode (lay fl.mode q) n cfg with
    | .error e => .error e
    | .ok cfg1 =>
      match handle lay fl (pre ++ [n]) q (secOf (lookup n cfg1)) with
      | .error e => .error e
      | .ok inner => .ok (writeBack n inner cfg1)

theorem handleEach_notin (lay : Mode → P → Cfg) (fl : Flags) (pre : List String) (n : String) :
    ∀ (choices : List (String × P)) (cfg : Cfg), ¬ n ∈ names choices →
      handleEach lay fl pre choices [n] cfg = .ok cfg
  | [], cfg, _ => by simp [handleEach]
  | (m, q) :: rest, cfg, h => by
    have hm : m ≠ n := fun e => h (by simp [names, e])
    have hr : ¬ n ∈ names rest := fun e => h (by simp [names] at e ⊢; exact Or.inr e)
    rw [handleEach]
    simp [hm, handleEach_notin lay fl pre n rest cfg hr]

theorem handleEach_nil (lay : Mode → P → Cfg) (fl : Flags) (pre : List String) :
    ∀ (choices : List (String × P)) (cfg : Cfg), handleEach lay fl pre choices [] cfg = .ok cfg
  | [], cfg => by simp [handleEach]
  | (m, q) :: rest, cfg => by
    rw [handleEach]
    simp [handleEach_nil lay fl pre rest cfg]

theorem handleEach_single (lay : Mode → P → Cfg) (fl : Flags) (pre : List String) (n : String) :
    ∀ (choices : List (String × P)) (cfg : Cfg), (names choices).Nodup →
      handleEach lay fl pre choices [n] cfg =
        match findP n choices with
        | .none => .ok cfg
        | some q => processOne lay fl pre n q cfg
  | [], cfg, _ => by simp [handleEach, findP]
  | (m, q) :: rest, cfg, hnd => by
    have hnd' : (names rest).Nodup := by simp [names] at hnd ⊢; exact hnd.2
    by_cases hm : m = n
    · subst hm
      have hr : ¬ m ∈ names rest := by simp [names] at hnd ⊢; exact hnd.1
      rw [handleEach]
      simp only [findP, if_true, List.contains_cons, List.contains_nil, Bool.or_false, beq_self_eq_true, processOne]
      cases checkSettings (pre ++ [m]) (lookup m cfg) with
      | error e => rfl
      | ok u =>
        simp only []
        cases mergeLayer fl.mode (lay fl.mode q) m cfg with
        | error e => rfl
        | ok cfg1 =>
          simp only []
          cases handle lay fl (pre ++ [m]) q (secOf (lookup m cfg1)) with
          | error e => rfl
          | ok inner => simp only []; exact handleEach_notin lay fl pre m rest _ hr
    · rw [handleEach]
      simp [findP, hm, handleEach_single lay fl pre n rest cfg hnd']


/-! ## `sweep` for the selected subcommand -/

def sweepOne (single : Bool) (n : String) (q : P) (cfg : Cfg) : Except Err Cfg :=
  match lookup n cfg with
  | some (.sec kvs) =>
    match sweep single q kvs with
    | .error e => .error e
    | .ok inner => .ok (insert n (.sec inner) cfg)
  | _ => if q.sub.isNone then .ok cfg else .error .crash

theorem sweepIn_eq (single : Bool) (n : String) :
    ∀ (choices : List (String × P)) (cfg : Cfg),
      sweepIn single choices n cfg =
        match findP n choices with
        | .none => .ok cfg
        | some q => sweepOne single n q cfg
  | [], cfg => by simp [sweepIn, findP]
  | (m, q) :: rest, cfg => by
    by_cases hm : m = n
    · subst hm
      rw [sweepIn]
      simp only [findP, if_true, sweepOne]
      cases lookup m cfg with
      | none => rfl
      | some v => cases v <;> rfl
    · rw [sweepIn]
      simp [findP, hm, sweepIn_eq single n rest cfg]

theorem findP_some_of_mem (n : String) : ∀ (choices : List (String × P)), n ∈ names choices → ∃ q, findP n choices = some q
  | [], h => by simp [names] at h
  | (m, q) :: rest, h => by
    by_cases hm : m = n
    · exact ⟨q, by simp [findP, hm]⟩
    · have : n ∈ names rest := by
        simp [names] at h ⊢
        rcases h with h | h
        · exact absurd h.symm hm
        · exact h
      obtain ⟨q', hq⟩ := findP_some_of_mem n rest this
      exact ⟨q', by simp [findP, hm, hq]⟩

theorem findP_mem (n : String) (q : P) : ∀ (choices : List (String × P)), findP n choices = some q → (n, q) ∈ choices
  | [], h => by simp [findP] at h
  | (m, q') :: rest, h => by
    by_cases hm : m = n
    · simp [findP, hm] at h
      subst hm; subst h
      exact List.mem_cons_self
    · simp [findP, hm] at h
      exact List.mem_cons_of_mem _ (findP_mem n q rest h)

theorem findP_names (n : String) (q : P) (choices : List (String × P)) (h : findP n choices = some q) : n ∈ names choices := by
  have := findP_mem n q choices h
  simp only [names, List.mem_map]
  exact ⟨(n, q), this, rfl⟩


/-! ## well-formed parser trees and clean configurations -/

mutual
/-- what `add_subcommands`/`add_subcommand` guarantee (a name differs from the subcommand key, names are distinct)
    plus: no subcommand is called "" -/
def wf : P → Bool
  | .node _ .none _ => true
  | .node _ (some h) choices =>
    !(names choices).contains h.dest && !(names choices).contains "" && decide (names choices).Nodup && wfL choices
def wfL : List (String × P) → Bool
  | [] => true
  | (_, q) :: r => wf q && wfL r
end

def okDest : Option Val → Bool
  | some .none => true
  | some v => v.truthy
  | .none => true

def okSec : Option Val → Bool
  | some (.sec _) => true
  | some .none => true
  | .none => true
  | _ => false

/-- at one level: the value under the subcommand key is null or truthy (not "", 0 or an empty namespace) and what is
    stored under a subcommand name is a namespace or null -/
def cleanAt (h : SubHdr) (ns : List String) (c : Cfg) : Bool :=
  okDest (lookup h.dest c) && ns.all (fun n => okSec (lookup n c))

mutual
/-- `cleanAt` at every level, whatever subcommand is selected, for the configuration that level will see
    (the given section over the layer of the sub-parser) -/
def clean (lay : Mode → P → Cfg) (mode : Mode) : P → Cfg → Bool
  | .node _ .none _, _ => true
  | .node _ (some h) choices, c => cleanAt h (names choices) c && cleanIn lay mode choices c
def cleanIn (lay : Mode → P → Cfg) (mode : Mode) : List (String × P) → Cfg → Bool
  | [], _ => true
  | (n, q) :: rest, c => clean lay mode q (merge (secOf (lookup n c)) (lay mode q)) && cleanIn lay mode rest c
end

theorem cleanIn_find (lay : Mode → P → Cfg) (mode : Mode) (n : String) (q : P) (c : Cfg) :
    ∀ (choices : List (String × P)), cleanIn lay mode choices c = true → findP n choices = some q →
      clean lay mode q (merge (secOf (lookup n c)) (lay mode q)) = true
  | [], _, h => by simp [findP] at h
  | (m, q') :: rest, hc, h => by
    rw [cleanIn] at hc
    simp only [Bool.and_eq_true] at hc
    by_cases hm : m = n
    · simp [findP, hm] at h
      subst hm; subst h
      exact hc.1
    · simp [findP, hm] at h
      exact cleanIn_find lay mode n q c rest hc.2 h

theorem wfL_find (n : String) (q : P) :
    ∀ (choices : List (String × P)), wfL choices = true → findP n choices = some q → wf q = true
  | [], _, h => by simp [findP] at h
  | (m, q') :: rest, hc, h => by
    rw [wfL] at hc
    simp only [Bool.and_eq_true] at hc
    by_cases hm : m = n
    · simp [findP, hm] at h
      subst h
      exact hc.1
    · simp [findP, hm] at h
      exact wfL_find n q rest hc.2 h


/-! ## shape of a successful `handle` at a parser with subcommands -/

theorem lookup_prunedK (keys : List String) (v : Val) (c : Cfg) (k : String) :
    lookup k (prunedK keys v c) =
      if keys.length > 1 ∧ k ∈ keys ∧ isStr k (some v) = false then .none else lookup k c := by
  unfold prunedK
  by_cases hl : keys.length > 1
  · simp only [hl, if_true, lookup_eraseAll, List.mem_filter, true_and]
    by_cases h1 : k ∈ keys <;> by_cases h2 : isStr k (some v) = true <;> simp [h1, h2]
  · simp [hl]

theorem isStr_self (n : String) : isStr n (some (.str n)) = true := by simp [isStr]

theorem isStr_str (k n : String) : isStr k (some (.str n)) = (n == k) := by
  simp [isStr]

theorem lookup_settled_other (h : SubHdr) (v : Val) (cfg : Cfg) (k : String) (hk : k ≠ h.dest) :
    lookup k (settled h v cfg) = lookup k cfg := by
  unfold settled
  split
  · rfl
  · exact lookup_insert_other _ _ _ _ hk

theorem mergeLayer_ok (mode : Mode) (L : Cfg) (n : String) (c : Cfg) (hm : mode ≠ .none) (hs : okSec (lookup n c) = true) :
    mergeLayer mode L n c = .ok (insert n (.sec (merge (secOf (lookup n c)) L)) c) := by
  unfold mergeLayer
  cases mode with
  | none => exact absurd rfl hm
  | dflt =>
    cases hl : lookup n c with
    | none => simp [secOf]
    | some v => cases v <;> simp_all [okSec, secOf, Val.truthy]
  | env =>
    cases hl : lookup n c with
    | none => simp [secOf]
    | some v => cases v <;> simp_all [okSec, secOf, Val.truthy]

theorem mem_subKeys (ns : List String) (c : Cfg) (k : String) : k ∈ subKeys ns c ↔ k ∈ ns ∧ isSecAt k c = true := by
  simp [subKeys, List.mem_filter]

/-- the value the rule selects is truthy in a clean configuration of a well-formed parser -/
theorem choice_truthy (h : SubHdr) (ns : List String) (cfg : Cfg) (v : Val)
    (hne : ns.contains "" = false) (hcl : okDest (lookup h.dest cfg) = true) (hc : choice h ns cfg = some v) :
    v.truthy = true := by
  unfold choice at hc
  cases he : explicitOf (lookup h.dest cfg) with
  | some u =>
    simp only [he] at hc
    cases hc
    cases hl : lookup h.dest cfg with
    | none => simp [hl, explicitOf] at he
    | some w =>
      cases w <;> simp_all [explicitOf, okDest]
  | none =>
    simp only [he] at hc
    cases hs : subKeys ns cfg with
    | nil => simp [hs] at hc
    | cons a r =>
      simp only [hs, List.head?_cons, Option.map_some] at hc
      cases hc
      have : a ∈ subKeys ns cfg := by rw [hs]; exact List.mem_cons_self
      have ha : a ∈ ns := ((mem_subKeys ns cfg a).1 this).1
      have : a ≠ "" := by
        intro e
        subst e
        simp at hne
        exact hne ha
      simp [Val.truthy, this]


/-- unpacking of `wf` at a node -/
theorem wf_node (i : Info) (h : SubHdr) (choices : List (String × P)) (hw : wf (.node i (some h) choices) = true) :
    ¬ h.dest ∈ names choices ∧ (names choices).contains "" = false ∧ (names choices).Nodup ∧ wfL choices = true := by
  rw [wf] at hw
  simp only [Bool.and_eq_true, Bool.not_eq_true', decide_eq_true_eq] at hw
  refine ⟨?_, hw.1.1.2, hw.1.2, hw.2⟩
  have := hw.1.1.1
  simpa using this

@[simp] theorem secOf_sec (kvs : Cfg) : secOf (some (.sec kvs)) = kvs := rfl

theorem validName_str (ns : List String) (v : Val) (h : validName ns v = true) : ∃ n, v = .str n ∧ n ∈ ns := by
  cases v <;> simp_all [validName]

theorem checkSettings_okSec (key : List String) (o : Option Val) : (checkSettings key o = .ok ()) ↔ okSec o = true := by
  cases o with
  | none => simp [checkSettings, okSec]
  | some v => cases v <;> simp [checkSettings, okSec]

theorem checkSettings_cases (key : List String) (o : Option Val) :
    (checkSettings key o = .ok () ∧ okSec o = true) ∨ (checkSettings key o = .error (.badsec key) ∧ okSec o = false) := by
  cases o with
  | none => simp [checkSettings, okSec]
  | some v => cases v <;> simp [checkSettings, okSec]

/-- a successful `handle` at a parser with subcommands (final stage).  No hypothesis on the configuration: a value under
    the subcommand key that is not a subcommand name, or a non-mapping under the selected name, is an error (fixes
    96e4fb9, adfb1a7), so success itself tells that the level was sane -/
theorem handle_node_shape (lay : Mode → P → Cfg) (single : Bool) (mode : Mode) (pre : List String) (i : Info) (h : SubHdr)
    (choices : List (String × P)) (cfg c1 : Cfg)
    (hwf : wf (.node i (some h) choices) = true)
    (hm : mode ≠ .none)
    (hok : handle lay ⟨true, single, mode⟩ pre (.node i (some h) choices) cfg = .ok c1) :
    (choice h (names choices) cfg = .none ∧ h.required = false ∧ c1 = cfg) ∨
    (∃ n q inner1, choice h (names choices) cfg = some (.str n) ∧ findP n choices = some q ∧
      okSec (lookup n cfg) = true ∧
      handle lay ⟨true, single, mode⟩ (pre ++ [n]) q (merge (secOf (lookup n cfg)) (lay mode q)) = .ok inner1 ∧
      c1 = insert n (.sec inner1) (prunedK (subKeys (names choices) cfg) (.str n) (settled h (.str n) cfg))) := by
  obtain ⟨hd, hne, hnd, _⟩ := wf_node i h choices hwf
  rw [handle] at hok
  cases hch : choice h (names choices) cfg with
  | none =>
    left
    rw [getSub_none h _ _ pre cfg hch] at hok
    by_cases hr : h.required = true
    · simp [hr] at hok
    · simp only [hr, Bool.and_false, Bool.false_eq_true, if_false, List.any_nil, List.filterMap_nil] at hok
      rw [handleEach_nil] at hok
      cases hok
      exact ⟨rfl, by simpa using hr, rfl⟩
  | some v =>
    right
    by_cases hv : validName (names choices) v = true
    · obtain ⟨n, hvn, hn⟩ := validName_str _ v hv
      subst hvn
      have hn0 : n ≠ "" := by
        intro e
        subst e
        simp at hne
        exact hne hn
      have ht : (Val.str n).truthy = true := by simp [Val.truthy, hn0]
      obtain ⟨w, hg⟩ := getSub_some h _ ⟨true, single, mode⟩ pre cfg (.str n) hch ht (Or.inl rfl)
      rw [hg] at hok
      obtain ⟨q, hq⟩ := findP_some_of_mem n choices hn
      have hnd' : n ≠ h.dest := fun e => hd (e ▸ hn)
      simp only [hv, Bool.not_true, Bool.and_false, Bool.false_eq_true, if_false, List.any_cons, List.any_nil,
        Bool.or_false, List.filterMap_cons, nameOf, List.filterMap_nil] at hok
      rw [handleEach_single lay _ pre n choices _ hnd, hq] at hok
      simp only [processOne] at hok
      have hl : lookup n (prunedK (subKeys (names choices) cfg) (.str n) (settled h (.str n) cfg)) = lookup n cfg := by
        rw [lookup_prunedK]
        simp [isStr_self, lookup_settled_other h _ cfg n hnd']
      rw [hl] at hok
      rcases checkSettings_cases (pre ++ [n]) (lookup n cfg) with ⟨hc, hs⟩ | ⟨hc, _⟩
      · rw [hc] at hok
        simp only [] at hok
        have hs' : okSec (lookup n (prunedK (subKeys (names choices) cfg) (.str n) (settled h (.str n) cfg))) = true := by
          rw [hl]; exact hs
        rw [mergeLayer_ok mode _ n _ hm hs', hl] at hok
        simp only [lookup_insert_same, secOf_sec] at hok
        cases hin : handle lay ⟨true, single, mode⟩ (pre ++ [n]) q (merge (secOf (lookup n cfg)) (lay mode q)) with
        | error e => rw [hin] at hok; cases hok
        | ok inner1 =>
          rw [hin] at hok
          cases hok
          refine ⟨n, q, inner1, rfl, hq, hs, hin, ?_⟩
          unfold writeBack
          simp [isSecAt_insert, Val.isSec, insert_insert]
      · rw [hc] at hok
        cases hok
    · have hv' : validName (names choices) v = false := by simpa using hv
      rw [getSub_fail_invalid h _ single mode pre cfg v hch hv'] at hok
      cases hok

/-! ## shape of a successful `sweep` at a parser whose subcommand is selected -/

theorem choice_explicit (h : SubHdr) (ns : List String) (cfg : Cfg) (n : String) (hd : lookup h.dest cfg = some (.str n)) :
    choice h ns cfg = some (.str n) := by
  simp [choice, hd, explicitOf]

theorem settled_explicit (h : SubHdr) (v : Val) (cfg : Cfg) (n : String) (hd : lookup h.dest cfg = some (.str n)) :
    settled h v cfg = cfg := by
  simp [settled, hd, explicitOf]

theorem sweep_node_shape (single : Bool) (i : Info) (h : SubHdr) (choices : List (String × P)) (c1 c2 : Cfg)
    (n : String) (q : P) (inner1 : Cfg)
    (hdest : lookup h.dest c1 = some (.str n)) (hne : n ≠ "")
    (hq : findP n choices = some q) (hsec : lookup n c1 = some (.sec inner1))
    (hok : sweep single (.node i (some h) choices) c1 = .ok c2) :
    ∃ inner2, sweep single q inner1 = .ok inner2 ∧
      c2 = insert n (.sec inner2) (prunedK (subKeys (names choices) c1) (.str n) c1) := by
  have hn : n ∈ names choices := findP_names n q choices hq
  rw [sweep] at hok
  have hch := choice_explicit h (names choices) c1 n hdest
  have ht : (Val.str n).truthy = true := by simp [Val.truthy, hne]
  obtain ⟨w, hg⟩ := getSub_some h (names choices) ⟨false, single, .none⟩ [] c1 (.str n) hch ht
    (Or.inr (by simp [hdest, explicitOf]))
  rw [hg, settled_explicit h _ c1 n hdest] at hok
  have hvn : validName (names choices) (.str n) = true := by simpa [validName] using hn
  simp only [hvn, Bool.not_true, Bool.false_eq_true, if_false, List.head?_cons, ht, Bool.true_and] at hok
  have hl : lookup n (prunedK (subKeys (names choices) c1) (.str n) c1) = some (.sec inner1) := by
    rw [lookup_prunedK]
    simp [isStr_self, hsec]
  have hc : (names choices).contains n = true := by simpa using hn
  simp only [hl, Option.isSome_some, if_true, hc] at hok
  rw [sweepIn_eq, hq] at hok
  simp only [sweepOne, hl] at hok
  cases hin : sweep single q inner1 with
  | error e => rw [hin] at hok; cases hok
  | ok inner2 =>
    rw [hin] at hok
    cases hok
    exact ⟨inner2, rfl, rfl⟩


/-! ## the three statements about a result, level by level -/

mutual
/-- at every level on the selected path: the subcommand key holds a subcommand name, that subcommand has a section,
    no other subcommand has one; where nothing is selected there is no section at all -/
def exactlyOne : P → Cfg → Bool
  | .node _ .none _, _ => true
  | .node _ (some h) choices, r =>
    match lookup h.dest r with
    | some (.str n) =>
      (names choices).contains n && isSecAt n r && (names choices).all (fun m => m == n || !isSecAt m r)
        && exactlyOneIn choices n r
    | some .none => (names choices).all (fun m => !isSecAt m r)
    | .none => (names choices).all (fun m => !isSecAt m r)
    | _ => false
def exactlyOneIn : List (String × P) → String → Cfg → Bool
  | [], _, _ => true
  | (m, q) :: rest, n, r => if m = n then exactlyOne q (secOf (lookup n r)) else exactlyOneIn rest n r
end

mutual
/-- every setting that is not about subcommands is exactly what the level was given (`cfg`); the level below the
    selected subcommand `n` was given the section `cfg[n]` over the layer of the sub-parser; a parser without
    subcommands keeps exactly what it was given -/
def complete (lay : Mode → P → Cfg) (mode : Mode) : P → Cfg → Cfg → Prop
  | .node _ .none _, cfg, r => r = cfg
  | .node _ (some h) choices, cfg, r =>
    (∀ k, k ≠ h.dest → ¬ k ∈ names choices → lookup k r = lookup k cfg) ∧
    (match lookup h.dest r with
     | some (.str n) => completeIn lay mode choices n cfg r
     | _ => True)
def completeIn (lay : Mode → P → Cfg) (mode : Mode) : List (String × P) → String → Cfg → Cfg → Prop
  | [], _, _, _ => True
  | (m, q) :: rest, n, cfg, r =>
    if m = n then complete lay mode q (merge (secOf (lookup n cfg)) (lay mode q)) (secOf (lookup n r))
    else completeIn lay mode rest n cfg r
end

mutual
/-- at every level on the selected path the subcommand key of the result is what the rule `choice` gives for the
    configuration that level was given -/
def choiceOK (lay : Mode → P → Cfg) (mode : Mode) : P → Cfg → Cfg → Prop
  | .node _ .none _, _, _ => True
  | .node _ (some h) choices, cfg, r =>
    (match choice h (names choices) cfg with
     | some v => lookup h.dest r = some v
     | .none => isNoneO (lookup h.dest r) = true) ∧
    (match lookup h.dest r with
     | some (.str n) => choiceOKIn lay mode choices n cfg r
     | _ => True)
def choiceOKIn (lay : Mode → P → Cfg) (mode : Mode) : List (String × P) → String → Cfg → Cfg → Prop
  | [], _, _, _ => True
  | (m, q) :: rest, n, cfg, r =>
    if m = n then choiceOK lay mode q (merge (secOf (lookup n cfg)) (lay mode q)) (secOf (lookup n r))
    else choiceOKIn lay mode rest n cfg r
end

theorem exactlyOneIn_eq (n : String) (r : Cfg) : ∀ (choices : List (String × P)),
    exactlyOneIn choices n r = match findP n choices with
      | .none => true
      | some q => exactlyOne q (secOf (lookup n r))
  | [] => by simp [exactlyOneIn, findP]
  | (m, q) :: rest => by
    by_cases hm : m = n
    · simp [exactlyOneIn, findP, hm]
    · simp [exactlyOneIn, findP, hm, exactlyOneIn_eq n r rest]

theorem completeIn_eq (lay : Mode → P → Cfg) (mode : Mode) (n : String) (cfg r : Cfg) : ∀ (choices : List (String × P)),
    completeIn lay mode choices n cfg r = match findP n choices with
      | .none => True
      | some q => complete lay mode q (merge (secOf (lookup n cfg)) (lay mode q)) (secOf (lookup n r))
  | [] => by simp [completeIn, findP]
  | (m, q) :: rest => by
    by_cases hm : m = n
    · simp [completeIn, findP, hm]
    · simp [completeIn, findP, hm, completeIn_eq lay mode n cfg r rest]

theorem choiceOKIn_eq (lay : Mode → P → Cfg) (mode : Mode) (n : String) (cfg r : Cfg) : ∀ (choices : List (String × P)),
    choiceOKIn lay mode choices n cfg r = match findP n choices with
      | .none => True
      | some q => choiceOK lay mode q (merge (secOf (lookup n cfg)) (lay mode q)) (secOf (lookup n r))
  | [] => by simp [choiceOKIn, findP]
  | (m, q) :: rest => by
    by_cases hm : m = n
    · simp [choiceOKIn, findP, hm]
    · simp [choiceOKIn, findP, hm, choiceOKIn_eq lay mode n cfg r rest]


/-! ## soundness of the final stage -/

theorem two_mem_length {α : Type} (l : List α) (a b : α) (ha : a ∈ l) (hb : b ∈ l) (hab : a ≠ b) : l.length > 1 := by
  match l, ha, hb with
  | [x], ha, hb =>
    simp at ha hb
    exact absurd (ha.trans hb.symm) hab
  | x :: y :: r, _, _ => simp

theorem lookup_dest_settled (h : SubHdr) (ns : List String) (cfg : Cfg) (v : Val) (hc : choice h ns cfg = some v) :
    lookup h.dest (settled h v cfg) = some v := by
  unfold choice at hc
  unfold settled
  cases he : explicitOf (lookup h.dest cfg) with
  | some u =>
    simp only [he] at hc
    cases hc
    simp only [Option.isSome_some, if_true]
    cases hl : lookup h.dest cfg with
    | none => simp [hl, explicitOf] at he
    | some w => cases w <;> simp_all [explicitOf]
  | none => simp [lookup_insert_same]

theorem choice_none_facts (h : SubHdr) (ns : List String) (cfg : Cfg) (hc : choice h ns cfg = .none) :
    isNoneO (lookup h.dest cfg) = true ∧ subKeys ns cfg = [] := by
  unfold choice at hc
  cases he : explicitOf (lookup h.dest cfg) with
  | some u => simp [he] at hc
  | none =>
    simp only [he] at hc
    constructor
    · cases hl : lookup h.dest cfg with
      | none => rfl
      | some w => cases w <;> simp_all [explicitOf, isNoneO]
    · cases hs : subKeys ns cfg with
      | nil => rfl
      | cons a r => simp [hs] at hc

theorem sweep_node_none (single : Bool) (i : Info) (h : SubHdr) (choices : List (String × P)) (c : Cfg)
    (hc : choice h (names choices) c = .none) : sweep single (.node i (some h) choices) c = .ok c := by
  rw [sweep, getSub_none h _ _ [] c hc]
  simp

/-- the result of the two passes at a node whose subcommand `n` is selected: what a key holds -/
theorem lookup_result (h : SubHdr) (ns : List String) (cfg : Cfg) (n : String) (inner1 inner2 : Cfg) (k : String)
    (hd : ¬ h.dest ∈ ns) (hn : n ∈ ns) (hch : choice h ns cfg = some (.str n)) :
    let c1 := insert n (.sec inner1) (prunedK (subKeys ns cfg) (.str n) (settled h (.str n) cfg))
    let c2 := insert n (.sec inner2) (prunedK (subKeys ns c1) (.str n) c1)
    (k = n → lookup k c2 = some (.sec inner2)) ∧
    (k = h.dest → lookup k c2 = some (.str n)) ∧
    (k ≠ n → k ∈ ns → isSecAt k c2 = false) ∧
    (k ≠ n → k ≠ h.dest → ¬ k ∈ ns → lookup k c2 = lookup k cfg) := by
  intro c1 c2
  have hnd : n ≠ h.dest := fun e => hd (e ▸ hn)
  have hk1 : ∀ x, x ∈ subKeys ns cfg → x ∈ ns := fun x hx => ((mem_subKeys ns cfg x).1 hx).1
  have hk2 : ∀ x, x ∈ subKeys ns c1 → x ∈ ns := fun x hx => ((mem_subKeys ns c1 x).1 hx).1
  have hn1 : lookup n c1 = some (.sec inner1) := lookup_insert_same _ _ _
  have hnK2 : n ∈ subKeys ns c1 := (mem_subKeys ns c1 n).2 ⟨hn, by simp [isSecAt, hn1, Val.isSec]⟩
  refine ⟨?_, ?_, ?_, ?_⟩
  · intro e; subst e; exact lookup_insert_same _ _ _
  · intro e
    subst e
    have hdK1 : ¬ h.dest ∈ subKeys ns cfg := fun e => hd (hk1 _ e)
    have hdK2 : ¬ h.dest ∈ subKeys ns c1 := fun e => hd (hk2 _ e)
    show lookup h.dest (insert n _ (prunedK _ _ c1)) = _
    rw [lookup_insert_other _ _ _ _ (Ne.symm hnd), lookup_prunedK]
    simp only [hdK2, false_and, and_false, if_false]
    show lookup h.dest (insert n _ (prunedK _ _ _)) = _
    rw [lookup_insert_other _ _ _ _ (Ne.symm hnd), lookup_prunedK]
    simp only [hdK1, false_and, and_false, if_false]
    exact lookup_dest_settled h ns cfg _ hch
  · intro hkn hkns
    show isSecAt k (insert n _ (prunedK _ _ c1)) = false
    rw [isSecAt_insert]
    simp only [hkn, if_false]
    unfold isSecAt
    rw [lookup_prunedK]
    by_cases hs : isSecAt k c1 = true
    · have hkK2 : k ∈ subKeys ns c1 := (mem_subKeys ns c1 k).2 ⟨hkns, hs⟩
      have hlen := two_mem_length _ k n hkK2 hnK2 hkn
      have : isStr k (some (.str n)) = false := by simp [isStr_str, Ne.symm hkn]
      simp [hlen, hkK2, this]
    · have hs' : ¬ k ∈ subKeys ns c1 := fun e => hs ((mem_subKeys ns c1 k).1 e).2
      simp only [hs', false_and, and_false, if_false]
      unfold isSecAt at hs
      cases hl : lookup k c1 with
      | none => rfl
      | some v => simpa [hl] using hs
  · intro hkn hkd hkns
    have hkK1 : ¬ k ∈ subKeys ns cfg := fun e => hkns (hk1 _ e)
    have hkK2 : ¬ k ∈ subKeys ns c1 := fun e => hkns (hk2 _ e)
    show lookup k (insert n _ (prunedK _ _ c1)) = _
    rw [lookup_insert_other _ _ _ _ hkn, lookup_prunedK]
    simp only [hkK2, false_and, and_false, if_false]
    show lookup k (insert n _ (prunedK _ _ _)) = _
    rw [lookup_insert_other _ _ _ _ hkn, lookup_prunedK]
    simp only [hkK1, false_and, and_false, if_false]
    exact lookup_settled_other h _ cfg k hkd


/-- all three statements about a result -/
def Sound (lay : Mode → P → Cfg) (mode : Mode) (p : P) (cfg r : Cfg) : Prop :=
  exactlyOne p r = true ∧ complete lay mode p cfg r ∧ choiceOK lay mode p cfg r

theorem handle_leaf (lay : Mode → P → Cfg) (fl : Flags) (pre : List String) (i : Info) (ch : List (String × P)) (cfg : Cfg) :
    handle lay fl pre (.node i .none ch) cfg = .ok cfg := by rw [handle]

theorem sweep_leaf (single : Bool) (i : Info) (ch : List (String × P)) (cfg : Cfg) :
    sweep single (.node i .none ch) cfg = .ok cfg := by rw [sweep]

mutual
theorem sound_P : ∀ (p : P) (lay : Mode → P → Cfg) (single : Bool) (mode : Mode) (pre : List String) (cfg c1 c2 : Cfg),
    wf p = true → mode ≠ .none →
    handle lay ⟨true, single, mode⟩ pre p cfg = .ok c1 → sweep single p c1 = .ok c2 → Sound lay mode p cfg c2
  | .node i .none ch, lay, single, mode, pre, cfg, c1, c2, _, _, h1, h2 => by
    rw [handle_leaf] at h1
    rw [sweep_leaf] at h2
    cases h1; cases h2
    refine ⟨by rw [exactlyOne], by rw [complete], by rw [choiceOK]; trivial⟩
  | .node i (some h) choices, lay, single, mode, pre, cfg, c1, c2, hwf, hm, h1, h2 => by
    obtain ⟨hd, hne, hnd, hwl⟩ := wf_node i h choices hwf
    rcases handle_node_shape lay single mode pre i h choices cfg c1 hwf hm h1 with
      ⟨hch, _, hc1⟩ | ⟨n, q, inner1, hch, hq, _, hin, hc1⟩
    · -- nothing selected
      subst hc1
      rw [sweep_node_none single i h choices c1 hch] at h2
      cases h2
      obtain ⟨hnone, hkeys⟩ := choice_none_facts h _ c1 hch
      have hall : (names choices).all (fun m => !isSecAt m c1) = true := by
        simp only [List.all_eq_true, Bool.not_eq_true']
        intro m hm'
        cases hs : isSecAt m c1 with
        | false => rfl
        | true =>
          have : m ∈ subKeys (names choices) c1 := (mem_subKeys _ _ _).2 ⟨hm', hs⟩
          rw [hkeys] at this
          cases this
      refine ⟨?_, ?_, ?_⟩
      · rw [exactlyOne]
        cases hl : lookup h.dest c1 with
        | none => simpa using hall
        | some v => cases v <;> simp_all [isNoneO]
      · rw [complete]
        refine ⟨fun _ _ _ => rfl, ?_⟩
        cases hl : lookup h.dest c1 with
        | none => trivial
        | some v => cases v <;> simp_all [isNoneO]
      · rw [choiceOK]
        refine ⟨by simp [hch, hnone], ?_⟩
        cases hl : lookup h.dest c1 with
        | none => trivial
        | some v => cases v <;> simp_all [isNoneO]
    · -- subcommand `n` selected
      have hn : n ∈ names choices := findP_names n q choices hq
      have hn0 : n ≠ "" := by
        intro e
        subst e
        simp at hne
        exact hne hn
      have hnd' : n ≠ h.dest := fun e => hd (e ▸ hn)
      have hres := fun inner2 k => lookup_result h (names choices) cfg n inner1 inner2 k hd hn hch
      -- facts about c1
      have hdest1 : lookup h.dest c1 = some (.str n) := by
        subst hc1
        rw [lookup_insert_other _ _ _ _ (Ne.symm hnd'), lookup_prunedK]
        have : ¬ h.dest ∈ subKeys (names choices) cfg := fun e => hd ((mem_subKeys _ _ _).1 e).1
        simp only [this, false_and, and_false, if_false]
        exact lookup_dest_settled h _ cfg _ hch
      have hsec1 : lookup n c1 = some (.sec inner1) := by subst hc1; exact lookup_insert_same _ _ _
      obtain ⟨inner2, hin2, hc2⟩ := sweep_node_shape single i h choices c1 c2 n q inner1 hdest1 hn0 hq hsec1 h2
      -- the level below
      have hwq := wfL_find n q choices hwl hq
      have ih := sound_L choices n q hq lay single mode (pre ++ [n]) _ inner1 inner2 hwq hm hin hin2
      obtain ⟨ih1, ih2, ih3⟩ := ih
      subst hc1
      subst hc2
      have hD := (hres inner2 h.dest).2.1 rfl
      have hN := (hres inner2 n).1 rfl
      refine ⟨?_, ?_, ?_⟩
      · rw [exactlyOne]
        simp only [hD]
        simp only [Bool.and_eq_true]
        refine ⟨⟨⟨by simpa using hn, by simp [isSecAt, hN, Val.isSec]⟩, ?_⟩, ?_⟩
        · simp only [List.all_eq_true, Bool.or_eq_true, beq_iff_eq, Bool.not_eq_true']
          intro m hm'
          by_cases hmn : m = n
          · exact Or.inl hmn
          · exact Or.inr ((hres inner2 m).2.2.1 hmn hm')
        · rw [exactlyOneIn_eq, hq]
          simp only [hN, secOf_sec]
          exact ih1
      · rw [complete]
        refine ⟨?_, ?_⟩
        · intro k hk1 hk2
          have hkn : k ≠ n := fun e => hk2 (e ▸ hn)
          exact (hres inner2 k).2.2.2 hkn hk1 hk2
        · simp only [hD]
          rw [completeIn_eq, hq]
          simp only [hN, secOf_sec]
          exact ih2
      · rw [choiceOK]
        refine ⟨by simp only [hch]; exact hD, ?_⟩
        simp only [hD]
        rw [choiceOKIn_eq, hq]
        simp only [hN, secOf_sec]
        exact ih3
theorem sound_L : ∀ (choices : List (String × P)) (n : String) (q : P), findP n choices = some q →
    ∀ (lay : Mode → P → Cfg) (single : Bool) (mode : Mode) (pre : List String) (cfg c1 c2 : Cfg),
    wf q = true → mode ≠ .none →
    handle lay ⟨true, single, mode⟩ pre q cfg = .ok c1 → sweep single q c1 = .ok c2 → Sound lay mode q cfg c2
  | [], n, q, h => by simp [findP] at h
  | (m, q') :: rest, n, q, h => by
    by_cases hm : m = n
    · simp [findP, hm] at h
      subst h
      exact sound_P q'
    · simp [findP, hm] at h
      exact sound_L rest n q h
end

end Jap.Subcmd

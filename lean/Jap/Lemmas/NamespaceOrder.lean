import Jap.Lemmas.NamespaceThru
/-!
Insertion order: every level of a namespace is a Python dict, assignment to an existing name keeps its position,
a new name goes to the end, deletion keeps the order of the others.
-/
namespace Jap.NS

theorem keysOf_insert (k : SKey) (v : V) : ∀ kvs : KV,
    keysOf (insert k v kvs) = if k ∈ keysOf kvs then keysOf kvs else keysOf kvs ++ [k]
  | [] => by simp [insert, keysOf]
  | (k', v') :: r => by
    by_cases e : k' = k
    · subst e; simp [insert, keysOf]
    · have ih := keysOf_insert k v r
      have e' : ¬ k = k' := fun h => e h.symm
      simp only [insert, e, if_false, keysOf, List.map_cons, List.mem_cons, e', false_or] at ih ⊢
      rw [ih]
      by_cases hm : k ∈ List.map (fun x => x.fst) r <;> simp [hm]

theorem keysOf_erase (k : SKey) : ∀ kvs : KV, keysOf (erase k kvs) = (keysOf kvs).erase k
  | [] => rfl
  | (k', v') :: r => by
    by_cases e : k' = k
    · subst e; simp [erase, keysOf]
    · have ih := keysOf_erase k r
      simp only [keysOf] at ih
      simp [erase, e, keysOf, ih]

theorem mem_keysOf_of_lookup (k : SKey) : ∀ (kvs : KV) (v : V), lookup k kvs = some v → k ∈ keysOf kvs
  | [], _, h => by simp [lookup] at h
  | (k', v') :: r, v, h => by
    by_cases e : k' = k
    · simp [keysOf, e]
    · simp [lookup, e] at h
      simp only [keysOf, List.map_cons, List.mem_cons]
      exact Or.inr (mem_keysOf_of_lookup k r v h)

/-- the nested dictionary: an assignment (at any depth) leaves the top level's key order alone, or appends the root -/
theorem keysOf_setK (s : SKey) (q : List SKey) (v : V) (d : KV) :
    keysOf (setK (s :: q) v d) = if s ∈ keysOf d then keysOf d else keysOf d ++ [s] := by
  cases q with
  | nil => simp only [setK]; exact keysOf_insert s v d
  | cons t rest =>
    simp only [setK]
    split <;> exact keysOf_insert s _ d

/-- the nested dictionary: a deletion below the top level leaves the top level's keys alone; at the top level it
    removes the one key -/
theorem keysOf_delK (s : SKey) (q : List SKey) (d : KV) :
    keysOf (delK (s :: q) d) = if q = [] then (keysOf d).erase s else keysOf d := by
  cases q with
  | nil => simp only [delK, if_true]; exact keysOf_erase s d
  | cons t rest =>
    simp only [delK]
    split
    · rename_i sub hl
      rw [keysOf_insert, if_pos (mem_keysOf_of_lookup s d _ hl)]
      simp
    · simp

theorem keysOf_updateAt_cons (f : KV → KV) (s : SKey) (rest : List SKey) (kvs : KV) :
    keysOf (unNs (updateAt f (s :: rest) (.ns kvs)) kvs) = keysOf kvs := by
  cases hl : lookup s kvs with
  | none => simp [updateAt, hl, unNs]
  | some nxt =>
    simp only [updateAt, hl, unNs]
    rw [keysOf_insert, if_pos (mem_keysOf_of_lookup s kvs nxt hl)]

/-- the code, on EVERY state (through dict values too): `ns[key] = v` keeps the order of the top-level names and
    appends the key's root when it is new -/
theorem keysOf_setSegs (path : List SKey) (leaf : SKey) (item : V) (root : KV) :
    keysOf (setSegs path leaf item root) =
      if (path ++ [leaf]).headD leaf ∈ keysOf root then keysOf root else keysOf root ++ [(path ++ [leaf]).headD leaf] := by
  cases hw : walk path (.ns root) with
  | none =>
    rw [setSegs_of_walk_none path leaf item root hw]
    cases path with
    | nil => exact keysOf_setK leaf [] item root
    | cons s rest => exact keysOf_setK s (rest ++ [leaf]) item root
  | some c =>
    unfold setSegs
    simp only [hw]
    cases path with
    | nil => simp only [updateAt, unNs, List.nil_append, List.headD_cons]; exact keysOf_insert leaf item root
    | cons s rest =>
      rw [keysOf_updateAt_cons]
      simp only [walk] at hw
      cases hl : lookup s root with
      | none => simp [hl] at hw
      | some nxt =>
        have := mem_keysOf_of_lookup s root nxt hl
        simp [this]

end Jap.NS

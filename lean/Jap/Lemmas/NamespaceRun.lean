import Jap.Lemmas.NamespaceAbs
/-!
Operation sequences: the concrete step function on stored namespaces, the
specification step on the nested dictionary, and the facts needed to relate
`del`/`pop` to the one-pass `delK`.
-/
namespace Jap.NS

theorem erase_of_lookup_none (k : SKey) : ∀ kvs : KV, lookup k kvs = .none → erase k kvs = kvs
  | [], _ => rfl
  | (k', v') :: r, h => by
    by_cases e : k' = k
    · simp [lookup, e] at h
    · simp [lookup, e] at h
      simp [erase, e, erase_of_lookup_none k r h]

/-- deleting an absent key changes nothing -/
theorem delK_of_getK_none : ∀ (p : List SKey) (kvs : KV), getK p kvs = .none → delK p kvs = kvs
  | [], _, _ => rfl
  | [leaf], kvs, h => by simp only [getK] at h; simp only [delK]; exact erase_of_lookup_none leaf kvs h
  | s :: t :: rest, kvs, h => by
    simp only [getK] at h
    simp only [delK]
    cases hl : lookup s kvs with
    | none => rfl
    | some nxt =>
      cases nxt with
      | ns sub =>
        simp only [hl] at h
        simp only [delK_of_getK_none (t :: rest) sub h]
        exact insert_lookup_self s (.ns sub) kvs hl
      | none => rfl
      | atom a => rfl
      | lst a => rfl
      | tup a => rfl
      | dct a => rfl

theorem walk_not_dct : ∀ (path : List SKey) (root : KV) (d : KV),
    noDict path (.ns root) = true → walk path (.ns root) ≠ some (.dct d)
  | [], _, _, _ => by simp [walk]
  | s :: rest, root, d, hnd => by
    simp only [noDict] at hnd
    simp only [walk]
    cases hl : lookup s root with
    | none => simp
    | some nxt =>
      simp only [hl] at hnd
      cases nxt with
      | ns sub => simp only [isCont, if_true]; exact walk_not_dct rest sub d hnd
      | dct a => simp [noDict_dct] at hnd
      | none => simp [isCont]
      | atom a => simp [isCont]
      | lst a => simp [isCont]
      | tup a => simp [isCont]

theorem walk_is_cont : ∀ (path : List SKey) (cur c : V), walk path cur = some c → isCont c = true
  | [], cur, c, h => by
    cases cur <;> simp [walk] at h <;> subst h <;> rfl
  | s :: rest, cur, c, h => by
    cases cur with
    | ns kvs =>
      simp only [walk] at h
      cases hl : lookup s kvs with
      | none => simp [hl] at h
      | some nxt =>
        simp only [hl] at h
        by_cases hc : isCont nxt = true
        · simp only [hc, if_true] at h; exact walk_is_cont rest nxt c h
        · simp [hc] at h
    | dct kvs =>
      simp only [walk] at h
      cases hl : lookup s kvs with
      | none => simp [hl] at h
      | some nxt =>
        simp only [hl] at h
        by_cases hc : isCont nxt = true
        · simp only [hc, if_true] at h; exact walk_is_cont rest nxt c h
        · simp [hc] at h
    | none => simp [walk] at h
    | atom a => simp [walk] at h
    | lst a => simp [walk] at h
    | tup a => simp [walk] at h

/-- `__delitem__` on a key without dicts on its path: succeeds exactly when the key is present, and then is `delK` -/
theorem delSegs_spec (path : List SKey) (leaf : SKey) (root : KV) (hnd : noDict path (.ns root) = true) :
    (∀ r', delSegs path leaf root = .ok r' → r' = delK (path ++ [leaf]) root ∧ (getK (path ++ [leaf]) root).isSome) ∧
    (∀ e, delSegs path leaf root = .error e → getK (path ++ [leaf]) root = .none) := by
  have hg := walk_lookup_eq_getK leaf path root hnd
  unfold delSegs
  cases hw : walk path (.ns root) with
  | none => simp [hw] at hg; simp [← hg]
  | some c =>
    have hcont := walk_is_cont path _ c hw
    cases c with
    | ns kvs =>
      simp only [hw] at hg
      cases hl : lookup leaf kvs with
      | none => simp [hl] at hg; simp [hl, ← hg]
      | some v =>
        simp only [hl] at hg
        have hu := updateAt_erase leaf path root kvs hnd hw
        simp [hl, hu, unNs, ← hg]
    | dct d => exact absurd hw (walk_not_dct path root d hnd)
    | none => simp [isCont] at hcont
    | atom a => simp [isCont] at hcont
    | lst a => simp [isCont] at hcont
    | tup a => simp [isCont] at hcont

/-- `pop` on a key without dicts on its path: returns the value or the default, removes the key -/
theorem popSegs_spec (path : List SKey) (leaf : SKey) (dflt : V) (root : KV) (hnd : noDict path (.ns root) = true) :
    popSegs path leaf dflt root =
      .ok ((getK (path ++ [leaf]) root).getD dflt, delK (path ++ [leaf]) root) := by
  have hg := walk_lookup_eq_getK leaf path root hnd
  unfold popSegs
  cases hw : walk path (.ns root) with
  | none =>
    simp [hw] at hg
    simp [← hg, delK_of_getK_none _ _ hg.symm]
  | some c =>
    have hcont := walk_is_cont path _ c hw
    cases c with
    | ns kvs =>
      simp only [hw] at hg
      cases kvs with
      | nil =>
        simp [lookup] at hg
        simp [← hg, delK_of_getK_none _ _ hg.symm]
      | cons hd tl =>
        cases hl : lookup leaf (hd :: tl) with
        | none =>
          simp only [hl] at hg
          simp [hl, ← hg, delK_of_getK_none _ _ hg.symm]
        | some v =>
          simp only [hl] at hg
          have hu := updateAt_erase leaf path root (hd :: tl) hnd hw
          simp [hl, hu, unNs, ← hg]
    | dct d => exact absurd hw (walk_not_dct path root d hnd)
    | none => simp [isCont] at hcont
    | atom a => simp [isCont] at hcont
    | lst a => simp [isCont] at hcont
    | tup a => simp [isCont] at hcont

/-! ### operation sequences -/

inductive Op where
  | set (path : List String) (leaf : String) (v : V)
  | del (path : List String) (leaf : String)
  | pop (path : List String) (leaf : String)
  | setU (path : List String) (leaf : String) (v : V)     -- `update(..., only_unset=True)`: assign only if absent

/-- the code: `ns[key] = v`, `del ns[key]` (an exception leaves the namespace as it is), `ns.pop(key)` -/
def stepC (clash : List String) : Op → KV → KV
  | .set p l v, r => setSegs (p.map (mark clash)) (mark clash l) v r
  | .del p l, r =>
    match delSegs (p.map (mark clash)) (mark clash l) r with
    | .ok r' => r'
    | .error _ => r
  | .pop p l, r =>
    match popSegs (p.map (mark clash)) (mark clash l) .none r with
    | .ok x => x.2
    | .error _ => r
  | .setU p l v, r =>
    if !(containsSegs (p.map (mark clash)) (mark clash l) r) then setSegs (p.map (mark clash)) (mark clash l) v r else r

/-- the specification: a nested dictionary with plain keys -/
def stepS : Op → KV → KV
  | .set p l v, r => setK ((p ++ [l]).map plain) (absV v) r
  | .del p l, r => delK ((p ++ [l]).map plain) r
  | .pop p l, r => delK ((p ++ [l]).map plain) r
  | .setU p l v, r => if !(getK ((p ++ [l]).map plain) r).isSome then setK ((p ++ [l]).map plain) (absV v) r else r

def opPath : Op → List String
  | .set p _ _ => p
  | .del p _ => p
  | .pop p _ => p
  | .setU p _ _ => p

def opCanon (clash : List String) : Op → Bool
  | .set _ _ v => canonV clash v
  | .setU _ _ v => canonV clash v
  | _ => true

/-- no operation of the sequence reaches through a dict value, and assigned namespaces are canonical -/
def safe (clash : List String) : List Op → KV → Bool
  | [], _ => true
  | op :: rest, r =>
    noDict ((opPath op).map (mark clash)) (.ns r) && opCanon clash op && safe clash rest (stepC clash op r)

def runC (clash : List String) (ops : List Op) (r : KV) : KV := ops.foldl (fun acc op => stepC clash op acc) r
def runS (ops : List Op) (r : KV) : KV := ops.foldl (fun acc op => stepS op acc) r

theorem map_append_mark (clash : List String) (p : List String) (l : String) :
    (p ++ [l]).map (mark clash) = p.map (mark clash) ++ [mark clash l] := by simp

theorem containsSegs_eq (path : List SKey) (leaf : SKey) (root : KV) (hnd : noDict path (.ns root) = true) :
    containsSegs path leaf root = (getK (path ++ [leaf]) root).isSome := by
  unfold containsSegs
  rw [getSegs_eq_getK path leaf root hnd]
  cases getK (path ++ [leaf]) root <;> rfl

theorem step_refines (clash : List String) (op : Op) (r : KV) (hc : canonKV clash r = true)
    (hnd : noDict ((opPath op).map (mark clash)) (.ns r) = true) (hv : opCanon clash op = true) :
    absKV (stepC clash op r) = stepS op (absKV r) ∧ canonKV clash (stepC clash op r) = true := by
  cases op with
  | set p l v =>
    simp only [opPath] at hnd
    simp only [opCanon] at hv
    simp only [stepC, stepS]
    rw [setSegs_eq_setK _ _ _ _ hnd, ← map_append_mark]
    exact abs_setK clash v hv (p ++ [l]) r hc
  | del p l =>
    simp only [opPath] at hnd
    simp only [stepC, stepS]
    obtain ⟨h1, h2⟩ := delSegs_spec _ (mark clash l) r hnd
    obtain ⟨a1, a2⟩ := abs_delK clash (p ++ [l]) r hc
    rw [map_append_mark] at a1 a2
    cases hd : delSegs (p.map (mark clash)) (mark clash l) r with
    | ok r' =>
      obtain ⟨e, _⟩ := h1 r' hd
      simp only [e]
      exact ⟨a1, a2⟩
    | error e =>
      have hn := h2 e hd
      have := delK_of_getK_none _ _ hn
      simp only []
      rw [← a1, this]
      exact ⟨rfl, hc⟩
  | pop p l =>
    simp only [opPath] at hnd
    simp only [stepC, stepS]
    rw [popSegs_spec _ (mark clash l) .none r hnd]
    obtain ⟨a1, a2⟩ := abs_delK clash (p ++ [l]) r hc
    rw [map_append_mark] at a1 a2
    exact ⟨a1, a2⟩
  | setU p l v =>
    simp only [opPath] at hnd
    simp only [opCanon] at hv
    simp only [stepC, stepS]
    rw [containsSegs_eq _ _ _ hnd, abs_getK clash (p ++ [l]) r hc, map_append_mark]
    cases hg : getK (p.map (mark clash) ++ [mark clash l]) r with
    | some w => simp [hc]
    | none =>
      simp only [Option.map, Option.isSome, Bool.not_false, if_true]
      rw [setSegs_eq_setK _ _ _ _ hnd, ← map_append_mark]
      exact abs_setK clash v hv (p ++ [l]) r hc

theorem run_refines (clash : List String) : ∀ (ops : List Op) (r : KV), canonKV clash r = true →
    safe clash ops r = true →
    absKV (runC clash ops r) = runS ops (absKV r) ∧ canonKV clash (runC clash ops r) = true
  | [], r, hc, _ => ⟨rfl, hc⟩
  | op :: rest, r, hc, hs => by
    simp only [safe, Bool.and_eq_true] at hs
    obtain ⟨⟨h1, h2⟩, h3⟩ := hs
    obtain ⟨s1, s2⟩ := step_refines clash op r hc h1 h2
    obtain ⟨i1, i2⟩ := run_refines clash rest (stepC clash op r) s2 h3
    simp only [runC, runS, List.foldl_cons] at i1 i2 ⊢
    rw [← s1]
    exact ⟨i1, i2⟩

/-! ### `update` is a sequence of assignments -/

def splitLastS : List String → Option (List String × String)
  | [] => .none
  | [x] => some ([], x)
  | x :: r => match splitLastS r with
    | some (p, l) => some (x :: p, l)
    | .none => .none

theorem splitLast_map (clash : List String) : ∀ l : List String,
    splitLast (l.map (mark clash)) = (splitLastS l).map (fun pl => (pl.1.map (mark clash), mark clash pl.2))
  | [] => rfl
  | [x] => rfl
  | x :: y :: r => by
    have ih := splitLast_map clash (y :: r)
    simp only [List.map] at ih ⊢
    simp only [splitLast, splitLastS, ih]
    cases splitLastS (y :: r) <;> rfl

/-- the assignments `update(value, key, only_unset)` performs, in order -/
def updateOps (onlyUnset : Bool) (pre : List String) : List (List String × V) → List Op
  | [] => []
  | kv :: rest =>
    match splitLastS (pre ++ kv.1) with
    | .none => updateOps onlyUnset pre rest
    | some (p, l) => (if onlyUnset then Op.setU p l kv.2 else Op.set p l kv.2) :: updateOps onlyUnset pre rest

theorem updateOne_eq_step (clash : List String) (onlyUnset : Bool) (segs : List String) (v : V) (root : KV) :
    updateOne clash onlyUnset segs v root =
      match splitLastS segs with
      | .none => root
      | some (p, l) => stepC clash (if onlyUnset then Op.setU p l v else Op.set p l v) root := by
  unfold updateOne
  rw [splitLast_map]
  cases splitLastS segs with
  | none => rfl
  | some pl =>
    cases onlyUnset <;> simp [stepC]

theorem foldl_updateOne (clash : List String) (onlyUnset : Bool) (pre : List String) :
    ∀ (its : List (List String × V)) (root : KV),
    its.foldl (fun acc kv => updateOne clash onlyUnset (pre ++ kv.1) kv.2 acc) root
      = runC clash (updateOps onlyUnset pre its) root
  | [], _ => rfl
  | kv :: rest, root => by
    simp only [List.foldl_cons, updateOps]
    rw [updateOne_eq_step, foldl_updateOne clash onlyUnset pre rest]
    cases splitLastS (pre ++ kv.1) with
    | none => rfl
    | some pl => simp [runC]

/-- `ns.update(value, key, only_unset)` is exactly that sequence of assignments -/
theorem updateSegs_eq_runC (clash : List String) (value : KV) (pre : List String) (onlyUnset : Bool) (root : KV) :
    updateSegs clash value pre onlyUnset root = runC clash (updateOps onlyUnset pre (itemsSegs false value)) root := by
  unfold updateSegs
  exact foldl_updateOne clash onlyUnset pre _ root

end Jap.NS

import Jap.Core.HeapHist
import Jap.Lemmas.HeapOps
/-!
Lemmas for E11 (C08), part 3: the remaining entry points and histories.  Same invariant as before
(`Own p ok t`, `Fresh ok k`); a history keeps

  `Inv p ok s` — whatever a working copy of a value the caller holds (or of a declared default) still shares with
                 it satisfies `ok`, and every identity from the counter on satisfies `ok`.
-/
namespace Jap.Heap

/-! ### monotone counters (independent of `ok`) -/

theorem ownTrue (p : Policy) (t : T) : Own p (fun _ => True) t := fun _ _ => trivial
theorem freshTrue (k : Nat) : Fresh (fun _ => True) k := fun _ _ => trivial

theorem stripMeta_own (p : Policy) (mkeys : List String) (ok : Nat → Prop) (t : T) (k : Nat)
    (h : Own p ok t) (hf : Fresh ok k) :
    Own p ok (stripMeta p mkeys t k).val ∧ k ≤ (stripMeta p mkeys t k).next := by
  exact stripMeta_spec p mkeys ok t k (fun i hi => h i (stripShared_sub p t i hi)) hf

theorem dump_le (p : Policy) (cs : Sites) (mkeys : List String) (t : T) (k : Nat) :
    k ≤ (dump p cs mkeys t k).next := by
  have hc : k ≤ (copyIf cs.dump (stripMeta p mkeys) t k).next := by
    unfold copyIf
    split
    · exact (stripMeta_own p mkeys (fun _ => True) t k (ownTrue p t) (freshTrue k)).2
    · exact Nat.le_refl _
  have hv := (validate_spec p cs (fun _ => True) (copyIf cs.dump (stripMeta p mkeys) t k).val
    (copyIf cs.dump (stripMeta p mkeys) t k).next (Or.inr (ownTrue p _)) (freshTrue _)).2.2
  have hs := (mutT_spec p .ser (fun _ => True) (copyIf cs.dump (stripMeta p mkeys) t k).val
    (validate p cs (copyIf cs.dump (stripMeta p mkeys) t k).val (copyIf cs.dump (stripMeta p mkeys) t k).next).next
    (ownTrue p _) (freshTrue _)).2.2
  simp only [dump, serMut]
  omega

/-! ### parse_args -/

theorem mutIdsK_atomize (p : Policy) : ∀ (kids : Kids), mutIdsK p (atomize kids) = []
  | [] => rfl
  | (_, .atom _) :: r => by simp [atomize, mutIdsK, mutIds, mutIdsK_atomize p r]
  | (_, .node _ _ _) :: r => by simp [atomize, mutIdsK, mutIds, mutIdsK_atomize p r]

theorem copyArgv_spec (p : Policy) (ok : Nat → Prop) (t : T) (k : Nat) (hf : Fresh ok k) :
    Own p ok (copyArgv t k).val ∧ k ≤ (copyArgv t k).next := by
  cases t with
  | atom n => exact ⟨Own_atom p ok n, Nat.le_refl _⟩
  | node kd i kids =>
    simp only [copyArgv]
    refine ⟨Own_node.mpr ⟨fun _ => hf k (Nat.le_refl _), ?_⟩, Nat.le_succ _⟩
    intro j hj
    rw [mutIdsK_atomize] at hj
    simp at hj

theorem consumeArgv_sub (p : Policy) (t : T) : ∀ i ∈ consumeArgv p t, i ∈ mutIds p t := by
  cases t with
  | atom n => intro i hi; simp [consumeArgv] at hi
  | node kd j kids =>
    intro i hi
    simp only [consumeArgv] at hi
    by_cases hp : p.inplace kd = true
    · simp only [hp, ↓reduceIte] at hi
      rw [mem_wr hi]; simp [mutIds, hp]
    · simp [hp] at hi

theorem parseArgs_spec (p : Policy) (cs : Sites) (ok : Nat → Prop) (hns : p.inplace .ns = true)
    (hcd : cs.getDefaults = true) (hcn : cs.parseArgsNs = true) (hca : cs.parseArgsArgs = true) (hcf : cs.mergeFrom = true)
    (ds : Kids) (ns : Option T) (argv : T) (k : Nat)
    (hds : ∀ i ∈ sharedMutK p ds, ok i) (hnsarg : ∀ n, ns = some n → ∀ i ∈ sharedMut p n, ok i) (hf : Fresh ok k) :
    Spec p ok k (parseArgs p cs ds ns argv k) := by
  have hd := getDefaults_spec p cs ok hcd ds k hds hf
  -- defaults merged with the namespace, when given
  have hm : Spec p ok k (mergeNsOpt p cs ns (getDefaults p cs ds k)) := by
    cases ns with
    | none => exact ⟨by intro w hw; simp [mergeNsOpt] at hw, hd.2.1, hd.2.2⟩
    | some n =>
      have h := mergeConfig_spec p { cs with mergeFrom := cs.mergeFrom && cs.parseArgsNs } ok hns n (getDefaults p cs ds k).val
        (getDefaults p cs ds k).next (Or.inl ⟨by simp [hcf, hcn], hnsarg n rfl⟩) (Or.inr hd.2.1) (hf.mono hd.2.2)
      exact ⟨h.1, h.2.1, Nat.le_trans hd.2.2 h.2.2⟩
  simp only [parseArgs]
  generalize mergeNsOpt p cs ns (getDefaults p cs ds k) = m at hm ⊢
  have ha : Own p ok (copyIf cs.parseArgsArgs copyArgv argv m.next).val ∧ m.next ≤ (copyIf cs.parseArgsArgs copyArgv argv m.next).next := by
    simp only [copyIf, hca, ↓reduceIte]
    exact copyArgv_spec p ok argv m.next (hf.mono hm.2.2)
  generalize copyIf cs.parseArgsArgs copyArgv argv m.next = a at ha ⊢
  have hk1 : k ≤ a.next := Nat.le_trans hm.2.2 ha.2
  have had := mutT_spec p .adapt ok m.val a.next hm.2.1 (hf.mono hk1)
  have hk2 : k ≤ (adaptMut p m.val a.next).next := Nat.le_trans hk1 had.2.2
  have hv := validate_spec p cs ok (adaptMut p m.val a.next).val (adaptMut p m.val a.next).next (Or.inr had.2.1) (hf.mono hk2)
  refine ⟨?_, had.2.1, Nat.le_trans hk2 hv.2.2⟩
  intro w hw
  simp only [List.mem_append] at hw
  rcases hw with (((hw | hw) | hw) | hw) | hw
  · exact hd.1 w hw
  · exact hm.1 w hw
  · exact ha.1 w (consumeArgv_sub p a.val w hw)
  · exact had.1 w hw
  · exact hv.1 w hw

/-! ### validate(branch=) -/

theorem validateBranch_spec (p : Policy) (cs : Sites) (ok : Nat → Prop) (branch : String) (t : T) (k : Nat)
    (h : (cs.validate = true ∧ ∀ i ∈ sharedMut p t, ok i) ∨ Own p ok t) (hf : Fresh ok k) :
    Spec p ok k (validateBranch p cs branch t k) := by
  have hc : Own p ok (copyIf cs.validate (clone p) t k).val ∧ k ≤ (copyIf cs.validate (clone p) t k).next :=
    copyIf_clone_spec p [] ok cs.validate t k h hf
  have hroot : Own p ok (.node .ns (copyIf cs.validate (clone p) t k).next [(branch, (copyIf cs.validate (clone p) t k).val)]) :=
    Own_node.mpr ⟨fun _ => hf _ hc.2, OwnK_cons.mpr ⟨hc.1, OwnK_nil p ok⟩⟩
  have hm := mutT_spec p .adapt ok _ ((copyIf cs.validate (clone p) t k).next + 1) hroot (hf.mono (Nat.le_trans hc.2 (Nat.le_succ _)))
  simp only [Spec, validateBranch, adaptMut]
  exact ⟨hm.1, hm.2.1, by have := hc.2; have := hm.2.2; omega⟩

/-! ### save -/

theorem save_spec (p : Policy) (cs : Sites) (mkeys : List String) (ok : Nat → Prop) (mf : Bool) (t : T) (k : Nat)
    (hcs : cs.saveCfg = true) (hcd : cs.dump = true) (hs : ∀ i ∈ sharedMut p t, ok i) (hf : Fresh ok k) :
    (∀ w ∈ (save p cs mkeys mf t k).writes, ok w) ∧ k ≤ (save p cs mkeys mf t k).next := by
  unfold save
  cases mf with
  | false =>
    simp only [Bool.false_eq_true, ↓reduceIte, hcs]
    exact ⟨dump_spec p cs mkeys ok t k hcd hs hf, dump_le p cs mkeys t k⟩
  | true =>
    simp only [↓reduceIte]
    have hc : Own p ok (copyIf cs.saveCfg (clone p) t k).val ∧ k ≤ (copyIf cs.saveCfg (clone p) t k).next :=
      copyIf_clone_spec p [] ok cs.saveCfg t k (Or.inl ⟨hcs, hs⟩) hf
    generalize copyIf cs.saveCfg (clone p) t k = c at hc ⊢
    have hsm := stripMeta_own p mkeys ok c.val c.next hc.1 (hf.mono hc.2)
    have hk1 : k ≤ (stripMeta p mkeys c.val c.next).next := Nat.le_trans hc.2 hsm.2
    have hv := validate_spec p cs ok (stripMeta p mkeys c.val c.next).val (stripMeta p mkeys c.val c.next).next (Or.inr hsm.1) (hf.mono hk1)
    have hk2 : k ≤ (validate p cs (stripMeta p mkeys c.val c.next).val (stripMeta p mkeys c.val c.next).next).next := Nat.le_trans hk1 hv.2.2
    have hw := mutT_spec p .adapt ok c.val _ hc.1 (hf.mono hk2)
    have hk3 := Nat.le_trans hk2 hw.2.2
    have hd := dump_spec p cs mkeys ok _ _ hcd (fun i hi => hw.2.1 i (sharedMut_sub p _ i hi)) (hf.mono hk3)
    have hdl := dump_le p cs mkeys (adaptMut p c.val (validate p cs (stripMeta p mkeys c.val c.next).val (stripMeta p mkeys c.val c.next).next).next).val
      (adaptMut p c.val (validate p cs (stripMeta p mkeys c.val c.next).val (stripMeta p mkeys c.val c.next).next).next).next
    refine ⟨?_, Nat.le_trans hk3 hdl⟩
    intro w hw'
    simp only [List.mem_append] at hw'
    rcases hw' with (hw' | hw') | hw'
    · exact hv.1 w hw'
    · exact hw.1 w hw'
    · exact hd w hw'

/-! ### values loaded from text -/

mutual
theorem freshen_spec (p : Policy) (ok : Nat → Prop) :
    ∀ (t : T) (k : Nat), Fresh ok k → Own p ok (freshen t k).val ∧ k ≤ (freshen t k).next
  | .atom n, k, _ => by simp only [freshen]; exact ⟨Own_atom p ok n, Nat.le_refl _⟩
  | .node kd i kids, k, hf => by
    simp only [freshen]
    have ih := freshenK_spec p ok kids k hf
    exact ⟨Own_node.mpr ⟨fun _ => hf _ ih.2, ih.1⟩, by omega⟩
theorem freshenK_spec (p : Policy) (ok : Nat → Prop) :
    ∀ (ts : Kids) (k : Nat), Fresh ok k → OwnK p ok (freshenK ts k).val ∧ k ≤ (freshenK ts k).next
  | [], k, _ => by simp only [freshenK]; exact ⟨OwnK_nil p ok, Nat.le_refl _⟩
  | (key, x) :: r, k, hf => by
    have h1 := freshen_spec p ok x k hf
    have h2 := freshenK_spec p ok r (freshen x k).next (hf.mono h1.2)
    simp only [freshenK]
    exact ⟨OwnK_cons.mpr ⟨h1.1, h2.1⟩, by omega⟩
end

/-- parse_object with the whole result: writes, the configuration handed out is owned, counter -/
theorem parseObject_Spec (p : Policy) (cs : Sites) (ok : Nat → Prop) (hns : p.inplace .ns = true)
    (hcd : cs.getDefaults = true) (hcb : cs.parseObjectBase = true) (hcf : cs.mergeFrom = true)
    (ds : Kids) (base : Option T) (obj : T) (k : Nat)
    (hds : ∀ i ∈ sharedMutK p ds, ok i) (hbase : ∀ b, base = some b → ∀ i ∈ sharedMut p b, ok i)
    (hobj : (cs.parseObject = true ∧ ∀ i ∈ sharedMut p obj, ok i) ∨ Own p ok obj) (hf : Fresh ok k) :
    Spec p ok k (parseObject p cs ds base obj k) := by
  have hd1 := poDefaults_spec p cs ok hns hcd hcb hcf ds base k hds hbase hf
  simp only [parseObject]
  generalize poDefaults p cs ds base k = d0 at hd1 ⊢
  have hda := mutT_spec p .adapt ok d0.val d0.next hd1.2.1 (hf.mono hd1.2.2)
  have hd0w := hd1.1
  replace hd1 : Spec p ok k (adaptMut p d0.val d0.next) := ⟨hda.1, hda.2.1, Nat.le_trans hd1.2.2 hda.2.2⟩
  generalize adaptMut p d0.val d0.next = d1 at hd1 ⊢
  have ho := copyIf_clone_spec p [] ok cs.parseObject obj d1.next hobj (hf.mono hd1.2.2)
  generalize copyIf cs.parseObject (recreate p []) obj d1.next = o at ho ⊢
  have hk0 : k ≤ o.next := Nat.le_trans hd1.2.2 ho.2
  have hn := nsOfDict_spec p ok o ho.1 (hf.mono hk0)
  generalize nsOfDict o = asNs at hn ⊢
  have hk1 : k ≤ asNs.next := Nat.le_trans hk0 hn.2
  have ha := mutT_spec p .adapt ok asNs.val asNs.next hn.1 (hf.mono hk1)
  have hk2 : k ≤ (adaptMut p asNs.val asNs.next).next := Nat.le_trans hk1 ha.2.2
  have hmg := mergeConfig_spec p cs ok hns (adaptMut p asNs.val asNs.next).val d1.val (adaptMut p asNs.val asNs.next).next
    (Or.inr ha.2.1) (Or.inr hd1.2.1) (hf.mono hk2)
  have hk3 := Nat.le_trans hk2 hmg.2.2
  have hv := validate_spec p cs ok (mergeConfig p cs (adaptMut p asNs.val asNs.next).val d1.val (adaptMut p asNs.val asNs.next).next).val
    (mergeConfig p cs (adaptMut p asNs.val asNs.next).val d1.val (adaptMut p asNs.val asNs.next).next).next
    (Or.inr hmg.2.1) (hf.mono hk3)
  refine ⟨?_, hmg.2.1, Nat.le_trans hk3 hv.2.2⟩
  intro w hw
  simp only [List.mem_append] at hw
  rcases hw with (((hw | hw) | hw) | hw) | hw
  · exact hd0w w hw
  · exact hd1.1 w hw
  · exact ha.1 w hw
  · exact hmg.1 w hw
  · exact hv.1 w hw

theorem parseText_spec (p : Policy) (cs : Sites) (ok : Nat → Prop) (hns : p.inplace .ns = true)
    (hcd : cs.getDefaults = true) (hcb : cs.parseObjectBase = true) (hcf : cs.mergeFrom = true)
    (ds : Kids) (shape : T) (k : Nat) (hds : ∀ i ∈ sharedMutK p ds, ok i) (hf : Fresh ok k) :
    Spec p ok k (parseText p cs ds shape k) := by
  have hl := freshen_spec p ok shape k hf
  have h := parseObject_Spec p { cs with parseObject := false } ok hns hcd hcb hcf ds none (freshen shape k).val (freshen shape k).next
    hds (fun b hb => by cases hb) (Or.inr hl.1) (hf.mono hl.2)
  simp only [parseText]
  exact ⟨h.1, h.2.1, Nat.le_trans hl.2 h.2.2⟩

/-! ### histories -/

/-- every copy site of the public operations copies -/
structure SitesOk (cs : Sites) : Prop where
  dump : cs.dump = true
  validate : cs.validate = true
  mergeFrom : cs.mergeFrom = true
  mergeTo : cs.mergeTo = true
  stripUnknown : cs.stripUnknown = true
  instantiate : cs.instantiate = true
  parseObject : cs.parseObject = true
  parseObjectBase : cs.parseObjectBase = true
  getDefaults : cs.getDefaults = true
  parseArgsNs : cs.parseArgsNs = true
  parseArgsArgs : cs.parseArgsArgs = true
  saveCfg : cs.saveCfg = true

/-- a value the caller holds may be handed to any operation -/
def ArgOk (p : Policy) (ok : Nat → Prop) (t : T) : Prop := ∀ i ∈ sharedMut p t, ok i

def Inv (p : Policy) (ok : Nat → Prop) (s : St) : Prop :=
  (∀ t ∈ s.env, ArgOk p ok t) ∧ (∀ i ∈ sharedMutK p s.defaults, ok i) ∧ Fresh ok s.k

theorem ArgOk.shared {p : Policy} {ok : Nat → Prop} {t : T} (h : ArgOk p ok t) : ∀ i ∈ sharedMut p t, ok i := h

theorem ArgOk_of_own {p : Policy} {ok : Nat → Prop} {t : T} (h : Own p ok t) : ArgOk p ok t :=
  fun i hi => h i (sharedMut_sub p t i hi)

theorem ArgOk_atom (p : Policy) (ok : Nat → Prop) (n : Nat) : ArgOk p ok (.atom n) := by
  intro i hi; simp [sharedMut] at hi

theorem Inv.get {p : Policy} {ok : Nat → Prop} {s : St} (h : Inv p ok s) (n : Nat) : ArgOk p ok (s.get n) := by
  unfold St.get
  by_cases hn : n < s.env.length
  · have : s.env.getD n (.atom 0) = s.env[n] := by simp [List.getD, hn]
    rw [this]
    exact h.1 _ (List.getElem_mem hn)
  · have : s.env.getD n (.atom 0) = .atom 0 := by simp [List.getD, Nat.le_of_not_lt hn]
    rw [this]
    exact ArgOk_atom p ok 0

/-- `strip_meta` copies every configuration (fix 3b44d63), the empty one included -/
theorem ArgOk.strip {p : Policy} {ok : Nat → Prop} {t : T} (hse : p.stripEmpty = true) (h : ArgOk p ok t) :
    ∀ j ∈ stripShared p t, ok j := by
  intro j hj
  apply h
  simpa [stripShared, hse] using hj

theorem sharedMutK_insertK (p : Policy) (key : String) (v : T) :
    ∀ (to : Kids), ∀ x ∈ sharedMutK p (insertK key v to), x ∈ sharedMut p v ∨ x ∈ sharedMutK p to
  | [] => by
    intro x hx
    simp only [insertK, sharedMutK, List.mem_append] at hx
    rcases hx with hx | hx
    · exact Or.inl hx
    · simp at hx
  | (k', v') :: r => by
    intro x hx
    simp only [insertK] at hx
    by_cases hk : k' = key
    · simp only [hk, ↓reduceIte, sharedMutK, List.mem_append] at hx
      rcases hx with hx | hx
      · exact Or.inl hx
      · exact Or.inr (by simp only [sharedMutK, List.mem_append]; exact Or.inr hx)
    · simp only [hk, ↓reduceIte, sharedMutK, List.mem_append] at hx
      rcases hx with hx | hx
      · exact Or.inr (by simp only [sharedMutK, List.mem_append]; exact Or.inl hx)
      · rcases sharedMutK_insertK p key v r x hx with h | h
        · exact Or.inl h
        · exact Or.inr (by simp only [sharedMutK, List.mem_append]; exact Or.inr h)

/-- the state after an operation that wrote only `ok` identities, handed out an `ArgOk` value (if any) and did
    not lower the counter -/
theorem Inv.after {p : Policy} {ok : Nat → Prop} {s : St} (h : Inv p ok s) (ds : Kids) (b : Bool) (v : T) (k' : Nat)
    (hds : ∀ i ∈ sharedMutK p ds, ok i) (hv : b = true → ArgOk p ok v) (hk : s.k ≤ k') :
    Inv p ok { defaults := ds, env := if b then s.env ++ [v] else s.env, k := k' } := by
  refine ⟨?_, hds, h.2.2.mono hk⟩
  intro t ht
  cases b with
  | false => exact h.1 t ht
  | true =>
    simp only [↓reduceIte, List.mem_append, List.mem_singleton] at ht
    rcases ht with ht | ht
    · exact h.1 t ht
    · subst ht; exact hv rfl

/-- one step of a history -/
theorem Op.step_spec (p : Policy) (cs : Sites) (mkeys : List String) (ok : Nat → Prop) (hns : p.inplace .ns = true)
    (hse : p.stripEmpty = true) (hso : SitesOk cs) (s : St) (op : Op) (hinv : Inv p ok s) :
    (∀ w ∈ (op.run p cs mkeys s).writes, ok w) ∧ Inv p ok (op.next p cs mkeys s) := by
  have hf := hinv.2.2
  have hds := hinv.2.1
  cases op with
  | dump a =>
    have h := dump_spec p cs mkeys ok (s.get a) s.k hso.dump (hinv.get a).shared hf
    exact ⟨h, Inv.after hinv _ false _ _ hds (fun hb => by cases hb) (dump_le p cs mkeys _ _)⟩
  | validate a =>
    have h := validate_spec p cs ok (s.get a) s.k (Or.inl ⟨hso.validate, (hinv.get a).shared⟩) hf
    exact ⟨h.1, Inv.after hinv _ false _ _ hds (fun hb => by cases hb) h.2.2⟩
  | validateBranch b a =>
    have h := validateBranch_spec p cs ok b (s.get a) s.k (Or.inl ⟨hso.validate, (hinv.get a).shared⟩) hf
    exact ⟨h.1, Inv.after hinv _ false _ _ hds (fun hb => by cases hb) h.2.2⟩
  | merge src to =>
    have h := mergeConfig_spec p cs ok hns (s.get src) (s.get to) s.k (Or.inl ⟨hso.mergeFrom, (hinv.get src).shared⟩)
      (Or.inl ⟨hso.mergeTo, (hinv.get to).shared⟩) hf
    exact ⟨h.1, Inv.after hinv _ true _ _ hds (fun _ => ArgOk_of_own h.2.1) h.2.2⟩
  | stripUnknown known a =>
    have harg := hinv.get a
    simp only [Op.run, Op.next, Op.handsOut, Op.defaultsAfter]
    generalize s.get a = t at harg ⊢
    unfold stripUnknownAny
    split
    · rename_i i kids
      have h := stripUnknown_spec p cs ok hns known (.node .ns i kids) s.k
        (by intro kd hkd; simp only [kindOf, Option.some.injEq] at hkd; subst hkd; exact hns)
        (Or.inl ⟨hso.stripUnknown, harg.shared⟩) hf
      exact ⟨h.1, Inv.after hinv _ true _ _ hds (fun _ => ArgOk_of_own h.2.1) h.2.2⟩
    · exact ⟨by intro w hw; simp at hw, Inv.after hinv _ true _ _ hds (fun _ => harg) (Nat.le_refl _)⟩
  | instantiate a =>
    have harg := hinv.get a
    simp only [Op.run, Op.next, Op.handsOut, Op.defaultsAfter]
    generalize s.get a = t at harg ⊢
    unfold instantiateAny
    split
    · rename_i i kids
      have h := instantiate_spec p cs mkeys ok (.node .ns i kids) s.k hso.instantiate (harg.strip hse) hf
      exact ⟨h.1, Inv.after hinv _ true _ _ hds (fun _ => ArgOk_of_own h.2.1) h.2.2⟩
    · exact ⟨by intro w hw; simp at hw, Inv.after hinv _ true _ _ hds (fun _ => harg) (Nat.le_refl _)⟩
  | parseObject o b =>
    have hb : ∀ x, s.getOpt b = some x → ∀ i ∈ sharedMut p x, ok i := by
      intro x hx
      cases b with
      | none => simp [St.getOpt] at hx
      | some n => simp only [St.getOpt, Option.some.injEq] at hx; subst hx; exact (hinv.get n).shared
    have h := parseObject_Spec p cs ok hns hso.getDefaults hso.parseObjectBase hso.mergeFrom s.defaults (s.getOpt b) (s.get o) s.k
      hds hb (Or.inl ⟨hso.parseObject, (hinv.get o).shared⟩) hf
    exact ⟨h.1, Inv.after hinv _ true _ _ hds (fun _ => ArgOk_of_own h.2.1) h.2.2⟩
  | parseArgs av ns =>
    have hb : ∀ x, s.getOpt ns = some x → ∀ i ∈ sharedMut p x, ok i := by
      intro x hx
      cases ns with
      | none => simp [St.getOpt] at hx
      | some n => simp only [St.getOpt, Option.some.injEq] at hx; subst hx; exact (hinv.get n).shared
    have h := parseArgs_spec p cs ok hns hso.getDefaults hso.parseArgsNs hso.parseArgsArgs hso.mergeFrom s.defaults (s.getOpt ns) (s.get av) s.k
      hds hb hf
    exact ⟨h.1, Inv.after hinv _ true _ _ hds (fun _ => ArgOk_of_own h.2.1) h.2.2⟩
  | parseText shape =>
    have h := parseText_spec p cs ok hns hso.getDefaults hso.parseObjectBase hso.mergeFrom s.defaults shape s.k hds hf
    exact ⟨h.1, Inv.after hinv _ true _ _ hds (fun _ => ArgOk_of_own h.2.1) h.2.2⟩
  | save mf a =>
    have h := save_spec p cs mkeys ok mf (s.get a) s.k hso.saveCfg hso.dump (hinv.get a).shared hf
    exact ⟨h.1, Inv.after hinv _ false _ _ hds (fun hb => by cases hb) h.2⟩
  | getDefaults =>
    have h := getDefaults_spec p cs ok hso.getDefaults s.defaults s.k hds hf
    exact ⟨h.1, Inv.after hinv _ true _ _ hds (fun _ => ArgOk_of_own h.2.1) h.2.2⟩
  | setDefault dest a =>
    refine ⟨by intro w hw; simp [Op.run] at hw, Inv.after hinv _ false _ _ ?_ (fun hb => by cases hb) (Nat.le_refl _)⟩
    intro i hi
    rcases sharedMutK_insertK p dest (s.get a) s.defaults i hi with h | h
    · exact (hinv.get a).shared i h
    · exact hds i h

/-- every write of every operation of a history satisfies `ok` -/
theorem runHist_spec (p : Policy) (cs : Sites) (mkeys : List String) (ok : Nat → Prop) (hns : p.inplace .ns = true)
    (hse : p.stripEmpty = true) (hso : SitesOk cs) :
    ∀ (ops : List Op) (s : St), Inv p ok s → ∀ ws ∈ runHist p cs mkeys ops s, ∀ w ∈ ws, ok w
  | [], _, _ => by intro ws hws; simp [runHist] at hws
  | op :: rest, s, hinv => by
    have h := Op.step_spec p cs mkeys ok hns hse hso s op hinv
    intro ws hws
    simp only [runHist, List.mem_cons] at hws
    rcases hws with hws | hws
    · subst hws; exact h.1
    · exact runHist_spec p cs mkeys ok hns hse hso rest _ h.2 ws hws

/-- … and the invariant holds at the end (so the history can be continued) -/
theorem endState_inv (p : Policy) (cs : Sites) (mkeys : List String) (ok : Nat → Prop) (hns : p.inplace .ns = true)
    (hse : p.stripEmpty = true) (hso : SitesOk cs) :
    ∀ (ops : List Op) (s : St), Inv p ok s → Inv p ok (endState p cs mkeys ops s)
  | [], _, h => h
  | op :: rest, s, hinv =>
    endState_inv p cs mkeys ok hns hse hso rest _ (Op.step_spec p cs mkeys ok hns hse hso s op hinv).2

theorem mem_sharedL (p : Policy) : ∀ (ts : List T) (t : T), t ∈ ts → ∀ i ∈ sharedMut p t, i ∈ sharedL p ts
  | [], _, h => by simp at h
  | x :: r, t, h => by
    intro i hi
    simp only [sharedL, List.mem_append]
    rcases List.mem_cons.mp h with h | h
    · subst h; exact Or.inl hi
    · exact Or.inr (mem_sharedL p r t h i hi)

end Jap.Heap

import Jap.Lemmas.SourcesTree
/-!
The reference fold read key by key (`evalKey`), and list facts about `lastWrite`.
-/
namespace Jap.Src
open Jap.NS

/-! ### frame laws in the `Diverge` form -/

theorem getK_setK_of_diverge {k' k : Key} (h : Diverge k' k) (v : V) (c : KV) : getK k (setK k' v c) = getK k c := by
  obtain ⟨c0, a, b, p, q, h1, h2, hab⟩ := h
  rw [h1, h2]
  exact getK_setK_diverge c0 a b p q v c hab

theorem getK_delK_of_diverge {k' k : Key} (h : Diverge k' k) (c : KV) : getK k (delK k' c) = getK k c := by
  obtain ⟨c0, a, b, p, q, h1, h2, hab⟩ := h
  rw [h1, h2]
  exact getK_delK_diverge c0 a b p q c hab

/-! ### the reference fold, key by key -/

theorem refStep_eq (c : KV) (a : Assign) : ∃ v, refStep c a = setK a.key v c ∧ stepKey a.key (getK a.key c) a = some v := by
  cases a with
  | set k v => exact ⟨v, rfl, by simp [stepKey, Assign.key]⟩
  | append k v => exact ⟨_, rfl, by simp [stepKey, Assign.key]⟩
  | item k i v => exact ⟨_, rfl, by simp [stepKey, Assign.key]⟩
  | note k => exact ⟨_, rfl, by simp [stepKey, Assign.key]⟩

theorem stepKey_other {k : Key} {a : Assign} (h : a.key ≠ k) (cur : Option V) : stepKey k cur a = cur := by
  cases a <;> simp_all [stepKey, Assign.key]

theorem getK_refStep (k : Key) (hk : k ≠ []) (a : Assign) (c : KV) (h : a.key = k ∨ Diverge a.key k) :
    getK k (refStep c a) = stepKey k (getK k c) a := by
  obtain ⟨v, h1, h2⟩ := refStep_eq c a
  rcases h with h | h
  · subst h
    rw [h1, getK_setK_same _ v c hk, h2]
  · rw [h1, getK_setK_of_diverge h, stepKey_other (diverge_ne h)]

theorem getK_refFold (k : Key) (hk : k ≠ []) : ∀ (as : List Assign) (c : KV), (∀ a ∈ as, a.key = k ∨ Diverge a.key k) →
    getK k (refFold as c) = evalKey k as (getK k c)
  | [], _, _ => rfl
  | a :: rest, c, h => by
    simp only [refFold, evalKey, List.foldl_cons]
    have ih := getK_refFold k hk rest (refStep c a) (fun x hx => h x (List.mem_cons_of_mem _ hx))
    simp only [refFold, evalKey] at ih
    rw [ih, getK_refStep k hk a c (h a List.mem_cons_self)]

theorem evalKey_append (k : Key) (as bs : List Assign) (x : Option V) :
    evalKey k (as ++ bs) x = evalKey k bs (evalKey k as x) := by
  simp [evalKey, List.foldl_append]

theorem evalKey_nil (k : Key) (x : Option V) : evalKey k [] x = x := rfl

theorem evalKey_cons (k : Key) (a : Assign) (as : List Assign) (x : Option V) :
    evalKey k (a :: as) x = evalKey k as (stepKey k x a) := rfl

theorem evalKey_no_key (k : Key) : ∀ (as : List Assign) (x : Option V), (∀ a ∈ as, a.key ≠ k) → evalKey k as x = x
  | [], _, _ => rfl
  | a :: rest, x, h => by
    rw [evalKey_cons, stepKey_other (h a List.mem_cons_self)]
    exact evalKey_no_key k rest x (fun b hb => h b (List.mem_cons_of_mem _ hb))

theorem evalKey_flatMap {α} (k : Key) (f : α → List Assign) : ∀ (l : List α) (x : Option V),
    evalKey k (l.flatMap f) x = l.foldl (fun y b => evalKey k (f b) y) x
  | [], _ => rfl
  | b :: rest, x => by
    simp only [List.flatMap_cons, evalKey_append, List.foldl_cons]
    exact evalKey_flatMap k f rest _

/-- when only plain assignments reach `k`, the value before the history matters only if nothing is assigned -/
theorem evalKey_setsOnly (k : Key) : ∀ (as : List Assign) (x : Option V), (∀ a ∈ as, a.key = k → a.isSet = true) →
    evalKey k as x = (evalKey k as .none).or x
  | [], x, _ => by simp [evalKey]
  | a :: rest, x, h => by
    have hr : ∀ b ∈ rest, b.key = k → b.isSet = true := fun b hb => h b (List.mem_cons_of_mem _ hb)
    rw [evalKey_cons, evalKey_cons]
    by_cases e : a.key = k
    · have hs := h a List.mem_cons_self e
      cases a with
      | set k' v =>
        simp only [Assign.key] at e
        simp only [stepKey, e, if_true]
        rw [evalKey_setsOnly k rest (some v) hr]
        cases evalKey k rest .none <;> simp
      | append k' v => simp [Assign.isSet] at hs
      | item k' i v => simp [Assign.isSet] at hs
      | note k' => simp [Assign.isSet] at hs
    · rw [stepKey_other e, stepKey_other e]
      exact evalKey_setsOnly k rest x hr

/-! ### `lastWrite` -/

theorem lastWrite_mem (k : Key) : ∀ (l : List (Key × V)) (v : V), lastWrite k l = some v → (k, v) ∈ l
  | [], _, h => by simp [lastWrite] at h
  | a :: rest, v, h => by
    simp only [lastWrite] at h
    cases hl : lastWrite k rest with
    | some w =>
      rw [hl] at h
      simp only [Option.some.injEq] at h
      subst h
      exact List.mem_cons_of_mem _ (lastWrite_mem k rest w hl)
    | none =>
      rw [hl] at h
      by_cases e : a.1 = k
      · simp only [e, if_true, Option.some.injEq] at h
        subst h
        rw [← e]
        exact List.mem_cons_self
      · simp [e] at h

theorem lastWrite_none (k : Key) : ∀ (l : List (Key × V)), lastWrite k l = .none → ∀ v, (k, v) ∉ l
  | [], _, _ => by simp
  | a :: rest, h, v => by
    simp only [lastWrite] at h
    cases hl : lastWrite k rest with
    | some w => rw [hl] at h; simp at h
    | none =>
      rw [hl] at h
      by_cases e : a.1 = k
      · simp [e] at h
      · intro hm
        rcases List.mem_cons.mp hm with hm | hm
        · exact e (by rw [← hm])
        · exact lastWrite_none k rest hl v hm

theorem lastWrite_none_of_not_mem (k : Key) : ∀ (l : List (Key × V)), k ∉ l.map (·.1) → lastWrite k l = .none
  | [], _ => rfl
  | a :: rest, h => by
    simp only [List.map_cons, List.mem_cons, not_or] at h
    simp only [lastWrite, lastWrite_none_of_not_mem k rest h.2]
    simp [Ne.symm h.1]

theorem lastWrite_filter (k : Key) (f : Key × V → Bool) : ∀ (l : List (Key × V)), (∀ x ∈ l, x.1 = k → f x = true) →
    lastWrite k (l.filter f) = lastWrite k l
  | [], _ => rfl
  | a :: rest, h => by
    have ih := lastWrite_filter k f rest (fun x hx => h x (List.mem_cons_of_mem _ hx))
    by_cases hf : f a = true
    · simp only [List.filter_cons, hf, if_true, lastWrite, ih]
    · have hne : a.1 ≠ k := fun e => hf (h a List.mem_cons_self e)
      rw [List.filter_cons_of_neg hf, ih]
      simp only [lastWrite, hne, if_false]
      cases lastWrite k rest <;> rfl

/-- a list of plain assignments: last writer wins -/
theorem evalKey_sets (k : Key) : ∀ (l : List (Key × V)) (x : Option V),
    evalKey k (l.map (fun kv => Assign.set kv.1 kv.2)) x = (lastWrite k l).or x
  | [], x => by simp [evalKey, lastWrite]
  | a :: rest, x => by
    rw [List.map_cons, evalKey_cons, evalKey_sets k rest]
    simp only [lastWrite, stepKey]
    cases lastWrite k rest with
    | some w => simp
    | none => by_cases e : a.1 = k <;> simp [e]

theorem nodupKeys_spec : ∀ (l : List (Key × V)), nodupKeys l = true → (l.map (·.1)).Nodup
  | [], _ => by simp
  | x :: r, h => by
    simp only [nodupKeys, Bool.and_eq_true, Bool.not_eq_true', List.any_eq_false, decide_eq_true_eq] at h
    simp only [List.map_cons, List.nodup_cons, List.mem_map, not_exists, not_and]
    exact ⟨fun y hy e => h.1 y hy e, nodupKeys_spec r h.2⟩

/-- a list of `key+` entries with distinct keys: the one entry for `kp` (if any) is appended -/
theorem evalKey_appends (k kp : Key) : ∀ (l : List (Key × V)) (y : Option V), (l.map (·.1)).Nodup →
    (∀ x ∈ l, base x.1 = k ↔ x.1 = kp) →
    evalKey k (l.map (fun kv => Assign.append (base kv.1) kv.2)) y =
      match lastWrite kp l with
      | some v => some (appendVal y v)
      | .none => y
  | [], y, _, _ => by simp [evalKey, lastWrite]
  | a :: rest, y, hnd, hb => by
    simp only [List.map_cons, List.nodup_cons] at hnd
    have hb' : ∀ x ∈ rest, base x.1 = k ↔ x.1 = kp := fun x hx => hb x (List.mem_cons_of_mem _ hx)
    rw [List.map_cons, evalKey_cons, evalKey_appends k kp rest _ hnd.2 hb']
    by_cases e : a.1 = kp
    · have hnone : lastWrite kp rest = .none := lastWrite_none_of_not_mem kp rest (e ▸ hnd.1)
      have hbase : base kp = k := e ▸ (hb a List.mem_cons_self).mpr e
      simp only [lastWrite, hnone, stepKey, e, hbase, if_true]
    · have hbase : base a.1 ≠ k := fun h => e ((hb a List.mem_cons_self).mp h)
      simp only [lastWrite, stepKey, hbase, e, if_false]
      cases lastWrite kp rest <;> simp

end Jap.Src

/-
C01, whole documents, level A: the recursive descent on column-tagged tokens reads back the token stream of
every value (`pNode_toks`), and the lines of a value flatten to that token stream (`docToks_linesNode`).
-/
import Jap.Core.YamlDoc

namespace Jap.Scalar

/-! ### the token stream of a value -/

mutual
/-- tokens of a node whose entries (if it is a non-empty collection) are at column `c` -/
def toksNode (c : Nat) : V → List Tok
  | .sc s => [.val (.sc s)]
  | .list .nil => [.val .eseq]
  | .list (.cons x xs) => .dash c :: (toksNode (c + 2) x ++ toksSeq c xs)
  | .dict .nil => [.val .emap]
  | .dict (.cons k v r) => .key c k :: (toksVal c v ++ toksMap c r)
def toksSeq (c : Nat) : VL → List Tok
  | .nil => []
  | .cons x xs => .dash c :: (toksNode (c + 2) x ++ toksSeq c xs)
def toksMap (c : Nat) : KVL → List Tok
  | .nil => []
  | .cons k v r => .key c k :: (toksVal c v ++ toksMap c r)
/-- tokens of the value of a key at column `c` -/
def toksVal (c : Nat) : V → List Tok
  | .sc s => [.val (.sc s)]
  | .list .nil => [.val .eseq]
  | .list (.cons x xs) => .dash c :: (toksNode (c + 2) x ++ toksSeq c xs)
  | .dict .nil => [.val .emap]
  | .dict (.cons k' v' r') => .key (c + 2) k' :: (toksVal (c + 2) v' ++ toksMap (c + 2) r')
end

mutual
def szV : V → Nat
  | .sc _ => 1
  | .list xs => 1 + szL xs
  | .dict kvs => 1 + szM kvs
def szL : VL → Nat
  | .nil => 1
  | .cons x xs => 1 + szV x + szL xs
def szM : KVL → Nat
  | .nil => 1
  | .cons _ v r => 1 + szV v + szM r
end

/-- what may follow a block whose entries are at column `c`: a `- ` or `key:` further left (`sq`: a key at the
same column may follow an indentless sequence) -/
def headOK (sq : Bool) (c : Nat) : List Tok → Bool
  | [] => true
  | .dash c' :: _ => decide (c' < c)
  | .key c' _ :: _ => if sq then decide (c' ≤ c) else decide (c' < c)
  | .val _ :: _ => false

theorem headOK_up (b : Bool) (c : Nat) (rest : List Tok) (h : headOK b c rest = true) : headOK false (c + 2) rest = true := by
  cases rest with
  | nil => rfl
  | cons t ts =>
    cases t with
    | dash c' => simp only [headOK, decide_eq_true_eq] at h ⊢; omega
    | key c' k =>
      cases b <;> simp only [headOK, decide_eq_true_eq, if_true, Bool.false_eq_true, if_false] at h ⊢ <;> omega
    | val a => simp [headOK] at h

theorem headOK_weaken (c : Nat) (rest : List Tok) (h : headOK false c rest = true) : headOK true c rest = true := by
  cases rest with
  | nil => rfl
  | cons t ts =>
    cases t with
    | dash c' => simpa [headOK] using h
    | key c' k => simp only [headOK, decide_eq_true_eq, if_true, Bool.false_eq_true, if_false] at h ⊢; omega
    | val a => simp [headOK] at h

theorem headOK_seq (c : Nat) (xs : VL) (rest : List Tok) (h : headOK true c rest = true) :
    headOK false (c + 2) (toksSeq c xs ++ rest) = true := by
  cases xs with
  | nil => simpa [toksSeq] using headOK_up true c rest h
  | cons x xs => simp [toksSeq, headOK]

theorem headOK_map (c : Nat) (r : KVL) (rest : List Tok) (h : headOK false c rest = true) :
    headOK true c (toksMap c r ++ rest) = true := by
  cases r with
  | nil => simpa [toksMap] using headOK_weaken c rest h
  | cons k v r => simp [toksMap, headOK]

theorem pSeq_stop (f c : Nat) (rest : List Tok) (h : headOK true c rest = true) : pSeq (f + 1) c rest = some (.nil, rest) := by
  cases rest with
  | nil => simp [pSeq]
  | cons t ts =>
    cases t with
    | dash c' =>
      have : c' ≠ c := by simp only [headOK, decide_eq_true_eq] at h; omega
      simp [pSeq, this]
    | key c' k => simp [pSeq]
    | val a => simp [pSeq]

theorem pMap_stop (f c : Nat) (rest : List Tok) (h : headOK false c rest = true) : pMap (f + 1) c rest = some (.nil, rest) := by
  cases rest with
  | nil => simp [pMap]
  | cons t ts =>
    cases t with
    | dash c' => simp [pMap]
    | key c' k =>
      have : c' ≠ c := by simp only [headOK, decide_eq_true_eq, Bool.false_eq_true, if_false] at h; omega
      simp [pMap, this]
    | val a => simp [pMap]

theorem szV_pos (v : V) : 1 ≤ szV v := by cases v <;> simp [szV] <;> omega

mutual
theorem pNode_toks : ∀ (v : V) (c lo fuel : Nat) (rest : List Tok), lo ≤ c → szV v ≤ fuel → headOK false c rest = true →
    pNode fuel lo (toksNode c v ++ rest) = some (v, rest)
  | .sc s, c, lo, fuel, rest, _, hf, _ => by
    cases fuel with
    | zero => simp [szV] at hf
    | succ f => simp [toksNode, pNode, atomV]
  | .list .nil, c, lo, fuel, rest, _, hf, _ => by
    cases fuel with
    | zero => simp [szV] at hf
    | succ f => simp [toksNode, pNode, atomV]
  | .dict .nil, c, lo, fuel, rest, _, hf, _ => by
    cases fuel with
    | zero => simp [szV] at hf
    | succ f => simp [toksNode, pNode, atomV]
  | .list (.cons x xs), c, lo, fuel, rest, hlo, hf, hr => by
    cases fuel with
    | zero => simp [szV] at hf
    | succ f =>
      have hs := pSeq_toks (.cons x xs) c f rest (by simp only [szV] at hf; omega) (headOK_weaken c rest hr)
      simp only [toksSeq, List.cons_append, List.append_assoc] at hs
      simp [toksNode, pNode, hlo, hs]
  | .dict (.cons k v r), c, lo, fuel, rest, hlo, hf, hr => by
    cases fuel with
    | zero => simp [szV] at hf
    | succ f =>
      have hs := pMap_toks (.cons k v r) c f rest (by simp only [szV] at hf; omega) hr
      simp only [toksMap, List.cons_append, List.append_assoc] at hs
      simp [toksNode, pNode, hlo, hs]
theorem pSeq_toks : ∀ (xs : VL) (c fuel : Nat) (rest : List Tok), szL xs ≤ fuel → headOK true c rest = true →
    pSeq fuel c (toksSeq c xs ++ rest) = some (xs, rest)
  | .nil, c, fuel, rest, hf, hr => by
    cases fuel with
    | zero => simp [szL] at hf
    | succ f => simpa [toksSeq] using pSeq_stop f c rest hr
  | .cons x xs, c, fuel, rest, hf, hr => by
    cases fuel with
    | zero => simp [szL] at hf
    | succ f =>
      simp only [szL] at hf
      have h1 := pNode_toks x (c + 2) (c + 1) f (toksSeq c xs ++ rest) (by omega) (by omega) (headOK_seq c xs rest hr)
      have h2 := pSeq_toks xs c f rest (by omega) hr
      simp [toksSeq, pSeq, h1, h2]
theorem pMap_toks : ∀ (kvs : KVL) (c fuel : Nat) (rest : List Tok), szM kvs ≤ fuel → headOK false c rest = true →
    pMap fuel c (toksMap c kvs ++ rest) = some (kvs, rest)
  | .nil, c, fuel, rest, hf, hr => by
    cases fuel with
    | zero => simp [szM] at hf
    | succ f => simpa [toksMap] using pMap_stop f c rest hr
  | .cons k v r, c, fuel, rest, hf, hr => by
    cases fuel with
    | zero => simp [szM] at hf
    | succ f =>
      simp only [szM] at hf
      have h1 := pVal_toks v c f (toksMap c r ++ rest) (by omega) (headOK_map c r rest hr)
      have h2 := pMap_toks r c f rest (by omega) hr
      simp [toksMap, pMap, h1, h2]
theorem pVal_toks : ∀ (v : V) (c fuel : Nat) (rest : List Tok), szV v ≤ fuel → headOK true c rest = true →
    pVal fuel c (toksVal c v ++ rest) = some (v, rest)
  | .sc s, c, fuel, rest, hf, _ => by
    cases fuel with
    | zero => simp [szV] at hf
    | succ f => simp [toksVal, pVal, atomV]
  | .list .nil, c, fuel, rest, hf, _ => by
    cases fuel with
    | zero => simp [szV] at hf
    | succ f => simp [toksVal, pVal, atomV]
  | .dict .nil, c, fuel, rest, hf, _ => by
    cases fuel with
    | zero => simp [szV] at hf
    | succ f => simp [toksVal, pVal, atomV]
  | .list (.cons x xs), c, fuel, rest, hf, hr => by
    cases fuel with
    | zero => simp [szV] at hf
    | succ f =>
      have hs := pSeq_toks (.cons x xs) c f rest (by simp only [szV] at hf; omega) hr
      simp only [toksSeq, List.cons_append, List.append_assoc] at hs
      simp [toksVal, pVal, hs]
  | .dict (.cons k v r), c, fuel, rest, hf, hr => by
    cases fuel with
    | zero => simp [szV] at hf
    | succ f =>
      have hs := pMap_toks (.cons k v r) (c + 2) f rest (by simp only [szV] at hf; omega) (headOK_up true c rest hr)
      simp only [toksMap, List.cons_append, List.append_assoc] at hs
      simp [toksVal, pVal, hs]
end

/-! ### fuel: three units per token are enough -/

mutual
theorem szV_node : ∀ (v : V) (c : Nat), szV v ≤ 3 * (toksNode c v).length + 2
  | .sc s, c => by simp [szV, toksNode]
  | .list .nil, c => by simp [szV, szL, toksNode]
  | .dict .nil, c => by simp [szV, szM, toksNode]
  | .list (.cons x xs), c => by
    have h1 := szV_node x (c + 2)
    have h2 := szL_seq xs c
    simp only [szV, szL, toksNode, List.length_cons, List.length_append]; omega
  | .dict (.cons k v r), c => by
    have h1 := szV_val v c
    have h2 := szM_map r c
    simp only [szV, szM, toksNode, List.length_cons, List.length_append]; omega
theorem szL_seq : ∀ (xs : VL) (c : Nat), szL xs ≤ 3 * (toksSeq c xs).length + 1
  | .nil, c => by simp [szL, toksSeq]
  | .cons x xs, c => by
    have h1 := szV_node x (c + 2)
    have h2 := szL_seq xs c
    simp only [szL, toksSeq, List.length_cons, List.length_append]; omega
theorem szM_map : ∀ (kvs : KVL) (c : Nat), szM kvs ≤ 3 * (toksMap c kvs).length + 1
  | .nil, c => by simp [szM, toksMap]
  | .cons k v r, c => by
    have h1 := szV_val v c
    have h2 := szM_map r c
    simp only [szM, toksMap, List.length_cons, List.length_append]; omega
theorem szV_val : ∀ (v : V) (c : Nat), szV v ≤ 3 * (toksVal c v).length + 2
  | .sc s, c => by simp [szV, toksVal]
  | .list .nil, c => by simp [szV, szL, toksVal]
  | .dict .nil, c => by simp [szV, szM, toksVal]
  | .list (.cons x xs), c => by
    have h1 := szV_node x (c + 2)
    have h2 := szL_seq xs c
    simp only [szV, szL, toksVal, List.length_cons, List.length_append]; omega
  | .dict (.cons k v r), c => by
    have h1 := szV_val v (c + 2)
    have h2 := szM_map r (c + 2)
    simp only [szV, szM, toksVal, List.length_cons, List.length_append]; omega
end

/-! ### the lines of a value flatten to its token stream -/

theorem docToks_append (a b : List Line) : docToks (a ++ b) = docToks a ++ docToks b := by
  induction a with
  | nil => rfl
  | cons l ls ih => simp [docToks, ih]

theorem dashToks_snoc (d : Nat) : ∀ n, dashToks n (d + 1) = dashToks n d ++ [.dash (n + 2 * d)] := by
  induction d with
  | zero => intro n; simp [dashToks]
  | succ d ih =>
    intro n
    have := ih (n + 2)
    simp only [dashToks] at this ⊢
    rw [this]
    have : n + 2 + 2 * d = n + 2 * (d + 1) := by omega
    simp [this]

mutual
theorem docToks_linesNode : ∀ (v : V) (n d : Nat), docToks (linesNode n d v) = dashToks n d ++ toksNode (n + 2 * d) v
  | .sc s, n, d => by simp [linesNode, docToks, lineToks, bodyToks, toksNode]
  | .list .nil, n, d => by simp [linesNode, docToks, lineToks, bodyToks, toksNode]
  | .dict .nil, n, d => by simp [linesNode, docToks, lineToks, bodyToks, toksNode]
  | .list (.cons x xs), n, d => by
    have h1 := docToks_linesNode x n (d + 1)
    have h2 := docToks_linesSeq xs (n + 2 * d)
    have e : n + 2 * (d + 1) = n + 2 * d + 2 := by omega
    simp [linesNode, docToks_append, h1, h2, dashToks_snoc, toksNode, e]
  | .dict (.cons k v r), n, d => by
    have h1 := docToks_linesEntry v n d k
    have h2 := docToks_linesMap r (n + 2 * d)
    simp [linesNode, docToks_append, h1, h2, toksNode]
theorem docToks_linesSeq : ∀ (xs : VL) (c : Nat), docToks (linesSeq c xs) = toksSeq c xs
  | .nil, c => by simp [linesSeq, docToks, toksSeq]
  | .cons x xs, c => by
    have h1 := docToks_linesNode x c 1
    have h2 := docToks_linesSeq xs c
    simp [linesSeq, docToks_append, h1, h2, toksSeq, dashToks]
theorem docToks_linesMap : ∀ (kvs : KVL) (c : Nat), docToks (linesMap c kvs) = toksMap c kvs
  | .nil, c => by simp [linesMap, docToks, toksMap]
  | .cons k v r, c => by
    have h1 := docToks_linesEntry v c 0 k
    have h2 := docToks_linesMap r c
    simp [linesMap, docToks_append, h1, h2, toksMap, dashToks]
theorem docToks_linesEntry : ∀ (v : V) (n d : Nat) (k : Sc),
    docToks (linesEntry n d k v) = dashToks n d ++ .key (n + 2 * d) k :: toksVal (n + 2 * d) v
  | .sc s, n, d, k => by simp [linesEntry, docToks, lineToks, bodyToks, toksVal]
  | .list .nil, n, d, k => by simp [linesEntry, docToks, lineToks, bodyToks, toksVal]
  | .dict .nil, n, d, k => by simp [linesEntry, docToks, lineToks, bodyToks, toksVal]
  | .list (.cons x xs), n, d, k => by
    have h1 := docToks_linesNode x (n + 2 * d) 1
    have h2 := docToks_linesSeq xs (n + 2 * d)
    simp [linesEntry, docToks, docToks_append, lineToks, bodyToks, h1, h2, toksVal, dashToks]
  | .dict (.cons k' v' r'), n, d, k => by
    have h1 := docToks_linesEntry v' (n + 2 * d + 2) 0 k'
    have h2 := docToks_linesMap r' (n + 2 * d + 2)
    simp [linesEntry, docToks, docToks_append, lineToks, bodyToks, h1, h2, toksVal, dashToks]
end

/-- no line of a collection is a bare scalar line -/
def noBare (ls : List Line) : Bool := !(ls.any bareAtom)

end Jap.Scalar

import Jap.Lemmas.SourcesPipe
/-!
The whole pipeline, key by key: `getDefaults`, `loadEnv` + merge, the argv fold; and the keys of the
flattened sources.
-/
namespace Jap.Src
open Jap.NS

theorem lastWrite_leaves (k : Key) (c : KV) (hu : uniqKV c) (hv : ∀ v, getK k c = some v → nonNs v = true) :
    lastWrite k (leaves c) = getK k c := by
  cases h : lastWrite k (leaves c) with
  | some v => exact (getK_of_mem_leaves c k v hu (lastWrite_mem k _ v h)).symm
  | none =>
    cases hg : getK k c with
    | none => rfl
    | some v => exact absurd (mem_leaves_of_getK k c v hg (hv v hg)) (lastWrite_none k _ h v)

theorem refFold_sets (l : List Arg) (c : KV) :
    refFold (l.map (fun a => Assign.set a.dest a.default)) c = foldSet (l.map (fun a => (a.dest, a.default))) c := by
  induction l generalizing c with
  | nil => rfl
  | cons a r ih => simp only [List.map_cons, refFold, foldSet, List.foldl_cons] at ih ⊢; exact ih _

section
variable {p : Parser} (hp : wfParser p = true)
include hp

/-! ### stages -/

theorem stage_refFold {a : Arg} (ha : a ∈ p.args) : ∀ (as : List Assign) (c : KV),
    (∀ s ∈ as, (∃ b ∈ p.args, s.key = b.dest) ∧ s.valOk = true) → Inv p c →
    getK a.dest (refFold as c) = evalKey a.dest as (getK a.dest c) ∧ Inv p (refFold as c)
  | [], _, _, hi => ⟨rfl, hi⟩
  | s :: rest, c, h, hi => by
    obtain ⟨h1, h2⟩ := stage_refStep hp ha s (h s List.mem_cons_self).1 (h s List.mem_cons_self).2 hi
    obtain ⟨h3, h4⟩ := stage_refFold ha rest (refStep c s) (fun x hx => h x (List.mem_cons_of_mem _ hx)) h2
    simp only [refFold, List.foldl_cons, evalKey] at h3 h4 ⊢
    exact ⟨by rw [h3, h1], h4⟩

theorem stage_defaults {a : Arg} (ha : a ∈ p.args) :
    getK a.dest (defaults p) = evalKey a.dest (asgDefaults p) .none ∧ Inv p (defaults p) := by
  have := stage_refFold hp ha (asgDefaults p) [] (fun s hs => by
    simp only [asgDefaults, List.mem_map] at hs
    obtain ⟨b, hb, rfl⟩ := hs
    exact ⟨⟨b, hb, rfl⟩, (wf_arg hp hb).2.2⟩) inv_nil
  rw [getK_nil] at this
  simp only [asgDefaults, refFold_sets] at this
  exact this

def fileStep (p : Parser) (c : KV) (f : Option KV) : KV :=
  match f with
  | some t => mergeConfig p (expand p t) c
  | .none => c

def fileAsg (p : Parser) (f : Option KV) : List Assign :=
  match f with
  | some t => asgTree (expand p t)
  | .none => []

def fileOk (p : Parser) (f : Option KV) : Bool :=
  match f with
  | some t => treeOk p (expand p t)
  | .none => true

theorem stage_files {a : Arg} (ha : a ∈ p.args) : ∀ (files : List (Option KV)) (c : KV),
    (∀ f ∈ files, fileOk p f = true) → Inv p c →
    getK a.dest (files.foldl (fileStep p) c) = evalKey a.dest (files.flatMap (fileAsg p)) (getK a.dest c)
    ∧ Inv p (files.foldl (fileStep p) c)
  | [], _, _, hi => ⟨rfl, hi⟩
  | f :: rest, c, h, hi => by
    have hstep : getK a.dest (fileStep p c f) = evalKey a.dest (fileAsg p f) (getK a.dest c) ∧ Inv p (fileStep p c f) := by
      cases f with
      | none => exact ⟨rfl, hi⟩
      | some t => exact stage_mergeTree hp ha _ (h (some t) List.mem_cons_self) hi
    obtain ⟨h3, h4⟩ := stage_files ha rest (fileStep p c f) (fun x hx => h x (List.mem_cons_of_mem _ hx)) hstep.2
    simp only [List.foldl_cons, List.flatMap_cons, evalKey_append]
    exact ⟨by rw [h3, hstep.1], h4⟩

omit hp in
theorem getDefaults_eq (files : List (Option KV)) : getDefaults p files = files.foldl (fileStep p) (defaults p) := rfl

omit hp in
theorem asgFiles_eq (files : List (Option KV)) : asgFiles p files = files.flatMap (fileAsg p) := rfl

theorem stage_getDefaults {a : Arg} (ha : a ∈ p.args) (files : List (Option KV)) (hf : ∀ f ∈ files, fileOk p f = true) :
    getK a.dest (getDefaults p files) = evalKey a.dest (asgDefaults p ++ asgFiles p files) .none
    ∧ Inv p (getDefaults p files) := by
  obtain ⟨h1, h2⟩ := stage_defaults hp ha
  obtain ⟨h3, h4⟩ := stage_files hp ha files (defaults p) hf h2
  rw [getDefaults_eq, asgFiles_eq, evalKey_append]
  exact ⟨by rw [h3, h1], h4⟩

/-! ### the environment -/

def envCfgAsg (p : Parser) (env : List (String × V)) (b : Arg) : List Assign :=
  if b.kind = .config then
    match envLookup (envName p b) env with
    | some (.dct t) => asgConfig p b.dest t
    | _ => []
  else []

def envVarAsg (p : Parser) (env : List (String × V)) (b : Arg) : List Assign :=
  if b.kind = .config then []
  else match envLookup (envName p b) env with
    | some v => [.set b.dest v]
    | .none => []

def envArgOk (p : Parser) (env : List (String × V)) (b : Arg) : Bool :=
  match envLookup (envName p b) env with
  | some v =>
    if b.kind = .config then
      match v with
      | .dct t => treeOk p (expand p t)
      | _ => true
    else nonNs v
  | .none => true

theorem stage_envCfg {a : Arg} (ha : a ∈ p.args) (env : List (String × V)) : ∀ (l : List Arg) (c : KV),
    (∀ b ∈ l, b ∈ p.args ∧ envArgOk p env b = true) → Inv p c →
    getK a.dest (l.foldl (envCfgStep p env) c) = evalKey a.dest (l.flatMap (envCfgAsg p env)) (getK a.dest c)
    ∧ Inv p (l.foldl (envCfgStep p env) c)
  | [], _, _, hi => ⟨rfl, hi⟩
  | b :: rest, c, h, hi => by
    have hb := h b List.mem_cons_self
    have hstep : getK a.dest (envCfgStep p env c b) = evalKey a.dest (envCfgAsg p env b) (getK a.dest c)
        ∧ Inv p (envCfgStep p env c b) := by
      unfold envCfgStep envCfgAsg
      by_cases hk : b.kind = .config
      · simp only [hk, if_true]
        have hok := hb.2
        unfold envArgOk at hok
        cases hl : envLookup (envName p b) env with
        | none => exact ⟨rfl, hi⟩
        | some v =>
          rw [hl] at hok
          simp only [hk, if_true] at hok
          cases v with
          | dct t => exact stage_applyConfig hp ha hb.1 t hok hi
          | none => exact ⟨rfl, hi⟩
          | atom _ => exact ⟨rfl, hi⟩
          | lst _ => exact ⟨rfl, hi⟩
          | tup _ => exact ⟨rfl, hi⟩
          | ns _ => exact ⟨rfl, hi⟩
      · simp only [hk, if_false]
        exact ⟨rfl, hi⟩
    obtain ⟨h3, h4⟩ := stage_envCfg ha env rest _ (fun x hx => h x (List.mem_cons_of_mem _ hx)) hstep.2
    simp only [List.foldl_cons, List.flatMap_cons, evalKey_append]
    exact ⟨by rw [h3, hstep.1], h4⟩

theorem stage_envVars {a : Arg} (ha : a ∈ p.args) (env : List (String × V)) : ∀ (l : List Arg) (c : KV),
    (∀ b ∈ l, b ∈ p.args ∧ envArgOk p env b = true) → Inv p c →
    getK a.dest (l.foldl (envVarStep p env) c) = evalKey a.dest (l.flatMap (envVarAsg p env)) (getK a.dest c)
    ∧ Inv p (l.foldl (envVarStep p env) c)
  | [], _, _, hi => ⟨rfl, hi⟩
  | b :: rest, c, h, hi => by
    have hb := h b List.mem_cons_self
    have hstep : getK a.dest (envVarStep p env c b) = evalKey a.dest (envVarAsg p env b) (getK a.dest c)
        ∧ Inv p (envVarStep p env c b) := by
      unfold envVarStep envVarAsg
      by_cases hk : b.kind = .config
      · simp only [hk, if_true]
        exact ⟨rfl, hi⟩
      · simp only [hk, if_false]
        have hok := hb.2
        unfold envArgOk at hok
        cases hl : envLookup (envName p b) env with
        | none => exact ⟨rfl, hi⟩
        | some v =>
          rw [hl] at hok
          simp only [hk, if_false] at hok
          exact stage_refStep hp ha (.set b.dest v) ⟨b, hb.1, rfl⟩ hok hi
    obtain ⟨h3, h4⟩ := stage_envVars ha env rest _ (fun x hx => h x (List.mem_cons_of_mem _ hx)) hstep.2
    simp only [List.foldl_cons, List.flatMap_cons, evalKey_append]
    exact ⟨by rw [h3, hstep.1], h4⟩

omit hp in
theorem envWf_spec {env : List (String × V)} (h : envWf p env = true) : ∀ b ∈ p.args, b ∈ p.args ∧ envArgOk p env b = true := by
  intro b hb
  simp only [envWf, List.all_eq_true] at h
  exact ⟨hb, h b hb⟩

theorem stage_loadEnv {a : Arg} (ha : a ∈ p.args) (env : List (String × V)) (he : envWf p env = true) :
    getK a.dest (loadEnv p env) = evalKey a.dest (asgEnvCfg p env ++ asgEnvVars p env) .none ∧ Inv p (loadEnv p env) := by
  obtain ⟨h1, h2⟩ := stage_envCfg hp ha env p.args [] (envWf_spec he) inv_nil
  obtain ⟨h3, h4⟩ := stage_envVars hp ha env p.args _ (envWf_spec he) h2
  rw [getK_nil] at h1
  rw [evalKey_append]
  refine ⟨?_, h4⟩
  change getK a.dest (p.args.foldl (envVarStep p env) (p.args.foldl (envCfgStep p env) [])) =
    evalKey a.dest (p.args.flatMap (envVarAsg p env)) (evalKey a.dest (p.args.flatMap (envCfgAsg p env)) .none)
  rw [← h1]; exact h3

/-- only plain assignments reach a non-config destination from the environment, when the env config has no `key+` -/
theorem env_setsOnly {a : Arg} (ha : a ∈ p.args) (hk : a.kind ≠ .config) (env : List (String × V))
    (hn : envNoAppend p env = true) :
    ∀ s ∈ asgEnvCfg p env ++ asgEnvVars p env, s.key = a.dest → s.isSet = true := by
  intro s hs hkey
  simp only [List.mem_append, asgEnvCfg, asgEnvVars, List.mem_flatMap] at hs
  rcases hs with ⟨b, hb, hs⟩ | ⟨b, hb, hs⟩
  · by_cases hbk : b.kind = .config
    · simp only [hbk, if_true] at hs
      simp only [envNoAppend, List.all_eq_true] at hn
      have hnb := hn b hb
      simp only [hbk, if_true] at hnb
      cases hl : envLookup (envName p b) env with
      | none => rw [hl] at hs; simp at hs
      | some v =>
        rw [hl] at hs hnb
        cases v with
        | dct t =>
          simp only [asgConfig, List.mem_append, List.mem_singleton] at hs
          simp only [noPlusLeaves, List.all_eq_true, Bool.not_eq_true'] at hnb
          rcases hs with hs | hs
          · simp only [asgTree, List.mem_append, List.mem_map, List.mem_filter] at hs
            rcases hs with ⟨y, _, rfl⟩ | ⟨y, ⟨hy1, hy2⟩, _⟩
            · rfl
            · rw [hnb y hy1] at hy2; exact Bool.noConfusion hy2
          · rw [hs] at hkey
            simp only [Assign.key] at hkey
            exact absurd (dest_inj hp hb ha hkey ▸ hbk) hk
        | none => simp at hs
        | atom _ => simp at hs
        | lst _ => simp at hs
        | tup _ => simp at hs
        | ns _ => simp at hs
    · simp only [hbk, if_false] at hs; simp at hs
  · by_cases hbk : b.kind = .config
    · simp only [hbk, if_true] at hs; simp at hs
    · simp only [hbk, if_false] at hs
      cases hl : envLookup (envName p b) env with
      | none => rw [hl] at hs; simp at hs
      | some v => rw [hl] at hs; simp only [List.mem_singleton] at hs; rw [hs]; rfl

/-- `merge_config(cfg_env, cfg)`: the finished environment namespace is assigned leaf by leaf -/
theorem stage_envMerge {a : Arg} (ha : a ∈ p.args) {ce c : KV} (hce : Inv p ce) (hc : Inv p c) :
    getK a.dest (mergeConfig p ce c) = (getK a.dest ce).or (getK a.dest c) ∧ Inv p (mergeConfig p ce c) := by
  have hkeys : ∀ x ∈ leaves ce, x.1 ∈ allKeys p := by
    intro x hx
    obtain ⟨b, hb, e⟩ := hce.keys x hx
    rw [e]; exact dest_mem_allKeys hb
  obtain ⟨h1, h2⟩ := stage_merge hp ha ce hkeys hc
  refine ⟨?_, h2⟩
  have hnoplus : lastWrite (plus a.dest) (leaves ce) = .none := by
    apply lastWrite_none_of_not_mem
    intro hm
    simp only [List.mem_map] at hm
    obtain ⟨x, hx, e⟩ := hm
    obtain ⟨b, hb, e2⟩ := hce.keys x hx
    exact plus_ne_dest hp hb ha (e.symm.trans e2)
  rw [h1]
  simp only [mergeVal, hnoplus, lastWrite_leaves a.dest ce hce.uniq (hce.leafVal a ha)]
  split <;> rfl

omit hp in
theorem envPlain_spec {env : List (String × V)} {k : Key} (h : envPlain p env k = true) :
    ∀ s ∈ asgEnvCfg p env ++ asgEnvVars p env, s.key = k → s.isSet = true := by
  intro s hs hk
  simp only [envPlain, List.all_eq_true, Bool.or_eq_true, bne_iff_ne, ne_eq] at h
  rcases h s hs with h | h
  · exact absurd hk h
  · exact h

/-- what `_parse_defaults_and_environ` leaves at a destination, for ALL sources: the value the environment builds
    ON ITS OWN (from nothing) replaces the value built by the defaults and the default config files -/
theorem stage_base_exact {a : Arg} (ha : a ∈ p.args) (src : Sources) (hs : srcWf p src = true) (env : Bool) :
    getK a.dest (defaultsAndEnviron p src env) =
      (if env then (evalKey a.dest (asgEnvCfg p src.env ++ asgEnvVars p src.env) .none).or
                    (evalKey a.dest (asgDefaults p ++ asgFiles p src.files) .none)
       else evalKey a.dest (asgDefaults p ++ asgFiles p src.files) .none)
    ∧ Inv p (defaultsAndEnviron p src env) := by
  simp only [srcWf, Bool.and_eq_true, List.all_eq_true] at hs
  obtain ⟨⟨hfiles, henv⟩, _⟩ := hs
  obtain ⟨h1, h2⟩ := stage_getDefaults hp ha src.files hfiles
  cases env with
  | false =>
    simp only [defaultsAndEnviron, Bool.false_eq_true, if_false]
    exact ⟨h1, h2⟩
  | true =>
    obtain ⟨h3, h4⟩ := stage_loadEnv hp ha src.env henv
    obtain ⟨h5, h6⟩ := stage_envMerge hp ha h4 h2
    simp only [defaultsAndEnviron, if_true]
    exact ⟨by rw [h5, h3, h1], h6⟩

theorem stage_base {a : Arg} (ha : a ∈ p.args) (src : Sources) (hs : srcWf p src = true)
    (env : Bool) (hn : env = true → envPlain p src.env a.dest = true) :
    getK a.dest (defaultsAndEnviron p src env) = evalKey a.dest (asgBase p src env) .none
    ∧ Inv p (defaultsAndEnviron p src env) := by
  obtain ⟨h1, h2⟩ := stage_base_exact hp ha src hs env
  refine ⟨?_, h2⟩
  rw [h1]
  cases env with
  | false => simp only [asgBase, Bool.false_eq_true, if_false, List.append_nil]
  | true =>
    simp only [asgBase, if_true]
    rw [evalKey_append a.dest (asgDefaults p ++ asgFiles p src.files)]
    exact (evalKey_setsOnly a.dest _ _ (envPlain_spec (hn rfl))).symm

/-! ### the command line -/

theorem stage_argv {a : Arg} (ha : a ∈ p.args) : ∀ (argv : List Item) (c : KV),
    (∀ it ∈ argv, itemWf p it = true) → Inv p c →
    getK a.dest (argv.foldl (argvStep p) c) = evalKey a.dest (asgArgv p argv) (getK a.dest c)
    ∧ Inv p (argv.foldl (argvStep p) c)
  | [], _, _, hi => ⟨rfl, hi⟩
  | it :: rest, c, h, hi => by
    have hit := h it List.mem_cons_self
    have hstep : getK a.dest (argvStep p c it) = evalKey a.dest (asgItem p it) (getK a.dest c) ∧ Inv p (argvStep p c it) := by
      cases it with
      | set k v =>
        simp only [itemWf, Bool.and_eq_true] at hit
        exact stage_refStep hp ha (.set k v) (isDest_spec hit.1) hit.2 hi
      | append k v =>
        simp only [itemWf] at hit
        exact stage_refStep hp ha (.append k v) (isDest_spec hit) rfl hi
      | item k i v =>
        simp only [itemWf] at hit
        exact stage_refStep hp ha (.item k i v) (isDest_spec hit) rfl hi
      | cfg k t =>
        simp only [itemWf, Bool.and_eq_true] at hit
        obtain ⟨b, hb, e⟩ := isDest_spec hit.1
        rw [e]
        exact stage_applyConfig hp ha hb t hit.2 hi
    obtain ⟨h3, h4⟩ := stage_argv ha rest _ (fun x hx => h x (List.mem_cons_of_mem _ hx)) hstep.2
    simp only [List.foldl_cons, asgArgv, List.flatMap_cons, evalKey_append] at h3 ⊢
    exact ⟨by rw [h3, hstep.1], h4⟩

/-! ### keys of the flattened sources -/

theorem asgTree_keys (t : KV) (ht : treeOk p t = true) : ∀ s ∈ asgTree t, ∃ b ∈ p.args, s.key = b.dest := by
  intro s hs
  have hkeys := treeOk_keys ht
  simp only [asgTree, List.mem_append, List.mem_map, List.mem_filter, Bool.not_eq_true'] at hs
  rcases hs with ⟨y, ⟨hy1, hy2⟩, rfl⟩ | ⟨y, ⟨hy1, hy2⟩, rfl⟩
  · exact plainKey_cases hp (hkeys y hy1) hy2
  · obtain ⟨b, hb, _, e⟩ := plusKey_cases hp (hkeys y hy1) hy2
    exact ⟨b, hb, by simp only [Assign.key, e, base_plus]⟩

theorem asgConfig_keys {b : Arg} (hb : b ∈ p.args) (t : KV) (ht : treeOk p (expand p t) = true) :
    ∀ s ∈ asgConfig p b.dest t, ∃ b ∈ p.args, s.key = b.dest := by
  intro s hs
  simp only [asgConfig, List.mem_append, List.mem_singleton] at hs
  rcases hs with hs | hs
  · exact asgTree_keys hp _ ht s hs
  · exact ⟨b, hb, by rw [hs]; rfl⟩

theorem asgBase_keys (src : Sources) (hs : srcWf p src = true) (env : Bool) :
    ∀ s ∈ asgBase p src env, ∃ b ∈ p.args, s.key = b.dest := by
  simp only [srcWf, Bool.and_eq_true, List.all_eq_true] at hs
  obtain ⟨⟨hfiles, henv⟩, _⟩ := hs
  intro s hm
  simp only [asgBase, List.mem_append] at hm
  rcases hm with (hm | hm) | hm
  · simp only [asgDefaults, List.mem_map] at hm
    obtain ⟨b, hb, rfl⟩ := hm
    exact ⟨b, hb, rfl⟩
  · simp only [asgFiles, List.mem_flatMap] at hm
    obtain ⟨f, hf, hm⟩ := hm
    cases f with
    | none => simp at hm
    | some t => exact asgTree_keys hp _ (hfiles (some t) hf) s hm
  · cases env with
    | false => simp at hm
    | true =>
      simp only [if_true, List.mem_append, asgEnvCfg, asgEnvVars, List.mem_flatMap] at hm
      have hok := envWf_spec henv
      rcases hm with ⟨b, hb, hm⟩ | ⟨b, hb, hm⟩
      · by_cases hbk : b.kind = .config
        · simp only [hbk, if_true] at hm
          have h2 := (hok b hb).2
          unfold envArgOk at h2
          cases hl : envLookup (envName p b) src.env with
          | none => rw [hl] at hm; simp at hm
          | some v =>
            rw [hl] at hm h2
            simp only [hbk, if_true] at h2
            cases v with
            | dct t => exact asgConfig_keys hp hb t h2 s hm
            | none => simp at hm
            | atom _ => simp at hm
            | lst _ => simp at hm
            | tup _ => simp at hm
            | ns _ => simp at hm
        · simp only [hbk, if_false] at hm; simp at hm
      · by_cases hbk : b.kind = .config
        · simp only [hbk, if_true] at hm; simp at hm
        · simp only [hbk, if_false] at hm
          cases hl : envLookup (envName p b) src.env with
          | none => rw [hl] at hm; simp at hm
          | some v =>
            rw [hl] at hm; simp only [List.mem_singleton] at hm
            exact ⟨b, hb, by rw [hm]; rfl⟩

theorem asgArgv_keys (argv : List Item) (h : ∀ it ∈ argv, itemWf p it = true) :
    ∀ s ∈ asgArgv p argv, ∃ b ∈ p.args, s.key = b.dest := by
  intro s hm
  simp only [asgArgv, List.mem_flatMap] at hm
  obtain ⟨it, hit, hm⟩ := hm
  have hw := h it hit
  cases it with
  | set k v =>
    simp only [itemWf, Bool.and_eq_true] at hw
    simp only [asgItem, List.mem_singleton] at hm
    obtain ⟨b, hb, e⟩ := isDest_spec hw.1
    exact ⟨b, hb, by rw [hm]; exact e⟩
  | append k v =>
    simp only [itemWf] at hw
    simp only [asgItem, List.mem_singleton] at hm
    obtain ⟨b, hb, e⟩ := isDest_spec hw
    exact ⟨b, hb, by rw [hm]; exact e⟩
  | item k i v =>
    simp only [itemWf] at hw
    simp only [asgItem, List.mem_singleton] at hm
    obtain ⟨b, hb, e⟩ := isDest_spec hw
    exact ⟨b, hb, by rw [hm]; exact e⟩
  | cfg k t =>
    simp only [itemWf, Bool.and_eq_true] at hw
    obtain ⟨b, hb, e⟩ := isDest_spec hw.1
    simp only [asgItem, e] at hm
    exact asgConfig_keys hp hb t hw.2 s hm

theorem envPlain_of_noAppend {a : Arg} (ha : a ∈ p.args) (hk : a.kind ≠ .config) (env : List (String × V))
    (hn : envNoAppend p env = true) : envPlain p env a.dest = true := by
  simp only [envPlain, List.all_eq_true, Bool.or_eq_true, bne_iff_ne, ne_eq]
  intro s hs
  by_cases e : s.key = a.dest
  · exact Or.inr (env_setsOnly hp ha hk env hn s hs e)
  · exact Or.inl e

omit hp in
/-- when only plain assignments reach `k`: last writer wins -/
theorem evalKey_lastSet (k : Key) : ∀ (as : List Assign) (x : Option V), (∀ s ∈ as, s.key = k → s.isSet = true) →
    evalKey k as x = (lastWrite k (setsOf as)).or x
  | [], x, _ => by simp [evalKey, setsOf, lastWrite]
  | s :: rest, x, h => by
    have hr : ∀ b ∈ rest, b.key = k → b.isSet = true := fun b hb => h b (List.mem_cons_of_mem _ hb)
    rw [evalKey_cons, evalKey_lastSet k rest _ hr]
    cases s with
    | set k' v =>
      simp only [stepKey, setsOf, lastWrite]
      cases lastWrite k (setsOf rest) with
      | some w => simp
      | none => by_cases e : k' = k <;> simp [e]
    | append k' v =>
      have : k' ≠ k := fun e => by have := h _ List.mem_cons_self e; simp [Assign.isSet] at this
      simp only [stepKey, setsOf, this, if_false]
    | item k' i v =>
      have : k' ≠ k := fun e => by have := h _ List.mem_cons_self e; simp [Assign.isSet] at this
      simp only [stepKey, setsOf, this, if_false]
    | note k' =>
      have : k' ≠ k := fun e => by have := h _ List.mem_cons_self e; simp [Assign.isSet] at this
      simp only [stepKey, setsOf, this, if_false]

/-- the reference fold over assignments to destinations, read at a destination -/
theorem ref_eval {a : Arg} (ha : a ∈ p.args) (as : List Assign) (h : ∀ s ∈ as, ∃ b ∈ p.args, s.key = b.dest) (c : KV) :
    getK a.dest (refFold as c) = evalKey a.dest as (getK a.dest c) := by
  apply getK_refFold _ (wf_arg hp ha).2.1
  intro s hs
  obtain ⟨b, hb, e⟩ := h s hs
  by_cases e2 : b.dest = a.dest
  · exact Or.inl (e.trans e2)
  · exact Or.inr (e ▸ div_dest_dest hp ha hb e2)

end

end Jap.Src

import Jap.Lemmas.NamespaceRun
/-!
Type-exactness as a theorem: the key operations are *natural* in the atoms.  Relabelling every atom of the state and
of the assigned values by an arbitrary `f : Int → Int` and then operating is the same as operating and then
relabelling.  Hence no operation inspects, compares or converts a leaf: what is read back is the very atom that was
written ("value for value and type for type" — on the wire the atoms carry the type: ints ≥ 1000 stand for
`True`/`False`/`0.0`/`1.0`/`"0"`/…), and an `==` shortcut anywhere in set/get/del/pop/update would refute naturality
for an `f` that identifies two atoms.  (`veq`, the model of `==`, is the one function that is *not* natural.)
-/
namespace Jap.NS

mutual
def mapV (f : Int → Int) : V → V
  | .none => .none
  | .atom a => .atom (f a)
  | .lst xs => .lst (mapL f xs)
  | .tup xs => .tup (mapL f xs)
  | .dct kvs => .dct (mapKV f kvs)
  | .ns kvs => .ns (mapKV f kvs)
def mapKV (f : Int → Int) : KV → KV
  | [] => []
  | (k, v) :: r => (k, mapV f v) :: mapKV f r
def mapL (f : Int → Int) : List V → List V
  | [] => []
  | x :: r => mapV f x :: mapL f r
end

variable (f : Int → Int)

theorem lookup_map (k : SKey) : ∀ kvs : KV, lookup k (mapKV f kvs) = (lookup k kvs).map (mapV f)
  | [] => rfl
  | (k', v) :: r => by
    by_cases e : k' = k
    · simp [mapKV, lookup, e]
    · simp [mapKV, lookup, e, lookup_map k r]

theorem insert_map (k : SKey) (v : V) : ∀ kvs : KV, insert k (mapV f v) (mapKV f kvs) = mapKV f (insert k v kvs)
  | [] => rfl
  | (k', v') :: r => by
    by_cases e : k' = k
    · simp [mapKV, insert, e]
    · simp [mapKV, insert, e, insert_map k v r]

theorem erase_map (k : SKey) : ∀ kvs : KV, erase k (mapKV f kvs) = mapKV f (erase k kvs)
  | [] => rfl
  | (k', v') :: r => by
    by_cases e : k' = k
    · simp [mapKV, erase, e]
    · simp [mapKV, erase, e, erase_map k r]

theorem isCont_map (v : V) : isCont (mapV f v) = isCont v := by cases v <;> rfl

theorem walk_map : ∀ (p : List SKey) (cur : V), walk p (mapV f cur) = (walk p cur).map (mapV f)
  | [], cur => by cases cur <;> simp [mapV, walk]
  | s :: rest, cur => by
    cases cur with
    | ns kvs =>
      simp only [mapV, walk, lookup_map]
      cases hl : lookup s kvs with
      | none => rfl
      | some nxt =>
        simp only [Option.map, isCont_map]
        split
        · exact walk_map rest nxt
        · rfl
    | dct kvs =>
      simp only [mapV, walk, lookup_map]
      cases hl : lookup s kvs with
      | none => rfl
      | some nxt =>
        simp only [Option.map, isCont_map]
        split
        · exact walk_map rest nxt
        · rfl
    | none => rfl
    | atom a => rfl
    | lst a => rfl
    | tup a => rfl

theorem createNested_map : ∀ (p : List SKey) (kvs : KV), createNested p (mapKV f kvs) = mapKV f (createNested p kvs)
  | [], _ => rfl
  | s :: rest, kvs => by
    simp only [createNested, lookup_map]
    have e0 : mapKV f (createNested rest []) = createNested rest [] := by
      have := createNested_map rest []
      simpa [mapKV] using this.symm
    cases hl : lookup s kvs with
    | none =>
      simp only [Option.map]
      rw [← insert_map]; simp only [mapV, e0]
    | some nxt =>
      cases nxt with
      | ns sub =>
        simp only [Option.map, mapV]
        rw [createNested_map rest sub, ← insert_map]; simp only [mapV]
      | none => simp only [Option.map, mapV]; rw [← insert_map]; simp only [mapV, e0]
      | atom a => simp only [Option.map, mapV]; rw [← insert_map]; simp only [mapV, e0]
      | lst a => simp only [Option.map, mapV]; rw [← insert_map]; simp only [mapV, e0]
      | tup a => simp only [Option.map, mapV]; rw [← insert_map]; simp only [mapV, e0]
      | dct a => simp only [Option.map, mapV]; rw [← insert_map]; simp only [mapV, e0]

theorem updateAt_map (g g' : KV → KV) (hg : ∀ kvs, g' (mapKV f kvs) = mapKV f (g kvs)) :
    ∀ (p : List SKey) (cur : V), updateAt g' p (mapV f cur) = mapV f (updateAt g p cur)
  | [], cur => by cases cur <;> simp [mapV, updateAt, hg]
  | s :: rest, cur => by
    cases cur with
    | ns kvs =>
      simp only [mapV, updateAt, lookup_map]
      cases hl : lookup s kvs with
      | none => simp [mapV]
      | some nxt =>
        simp only [Option.map, mapV]
        rw [updateAt_map g g' hg rest nxt, insert_map]
    | dct kvs =>
      simp only [mapV, updateAt, lookup_map]
      cases hl : lookup s kvs with
      | none => simp [mapV]
      | some nxt =>
        simp only [Option.map, mapV]
        rw [updateAt_map g g' hg rest nxt, insert_map]
    | none => rfl
    | atom a => rfl
    | lst a => rfl
    | tup a => rfl

theorem unNs_map (v : V) (d : KV) : unNs (mapV f v) (mapKV f d) = mapKV f (unNs v d) := by
  cases v <;> simp [mapV, unNs]

/-- `ns[key] = v` is natural in the atoms -/
theorem setSegs_map (p : List SKey) (l : SKey) (item : V) (root : KV) :
    setSegs p l (mapV f item) (mapKV f root) = mapKV f (setSegs p l item root) := by
  unfold setSegs
  have hw := walk_map f p (.ns root)
  simp only [mapV] at hw
  rw [hw]
  have hg : ∀ kvs, insert l (mapV f item) (mapKV f kvs) = mapKV f (insert l item kvs) := insert_map f l item
  cases walk p (.ns root) with
  | none =>
    simp only [Option.map]
    rw [createNested_map]
    have := updateAt_map f (insert l item) (insert l (mapV f item)) hg p (.ns (createNested p root))
    simp only [mapV] at this
    rw [this, unNs_map]
  | some c =>
    simp only [Option.map]
    have := updateAt_map f (insert l item) (insert l (mapV f item)) hg p (.ns root)
    simp only [mapV] at this
    rw [this, unNs_map]

/-- `ns[key]` is natural in the atoms: the relabelled namespace returns the relabelled value, the same error otherwise -/
theorem getSegs_map (p : List SKey) (l : SKey) (root : KV) :
    getSegs p l (mapKV f root) = (getSegs p l root).map (mapV f) := by
  unfold getSegs
  have hw := walk_map f p (.ns root)
  simp only [mapV] at hw
  rw [hw]
  cases walk p (.ns root) with
  | none => rfl
  | some c =>
    cases c with
    | ns kvs =>
      simp only [Option.map, mapV, lookup_map]
      cases lookup l kvs <;> rfl
    | dct d => rfl
    | none => rfl
    | atom a => rfl
    | lst a => rfl
    | tup a => rfl

theorem containsSegs_map (p : List SKey) (l : SKey) (root : KV) :
    containsSegs p l (mapKV f root) = containsSegs p l root := by
  unfold containsSegs
  rw [getSegs_map]
  cases getSegs p l root <;> rfl

/-- `del ns[key]` is natural in the atoms -/
theorem delSegs_map (p : List SKey) (l : SKey) (root : KV) :
    delSegs p l (mapKV f root) = (delSegs p l root).map (mapKV f) := by
  unfold delSegs
  have hw := walk_map f p (.ns root)
  simp only [mapV] at hw
  rw [hw]
  cases walk p (.ns root) with
  | none => rfl
  | some c =>
    cases c with
    | ns kvs =>
      simp only [Option.map, mapV, lookup_map]
      cases lookup l kvs with
      | none => rfl
      | some v =>
        simp only [Except.map]
        have := updateAt_map f (erase l) (erase l) (erase_map f l) p (.ns root)
        simp only [mapV] at this
        rw [this, unNs_map]
    | dct d => rfl
    | none => rfl
    | atom a => rfl
    | lst a => rfl
    | tup a => rfl

/-- `ns.pop(key, default)` is natural in the atoms -/
theorem popSegs_map (p : List SKey) (l : SKey) (dflt : V) (root : KV) :
    popSegs p l (mapV f dflt) (mapKV f root) = (popSegs p l dflt root).map (fun x => (mapV f x.1, mapKV f x.2)) := by
  unfold popSegs
  have hw := walk_map f p (.ns root)
  simp only [mapV] at hw
  rw [hw]
  cases walk p (.ns root) with
  | none => rfl
  | some c =>
    cases c with
    | ns kvs =>
      cases kvs with
      | nil => rfl
      | cons hd tl =>
        obtain ⟨k0, v0⟩ := hd
        simp only [Option.map, mapV, mapKV]
        have hl := lookup_map f l ((k0, v0) :: tl)
        simp only [mapKV] at hl
        rw [hl]
        cases lookup l ((k0, v0) :: tl) with
        | none => rfl
        | some v =>
          simp only [Option.map, Except.map]
          have := updateAt_map f (erase l) (erase l) (erase_map f l) p (.ns root)
          simp only [mapV] at this
          rw [this, unNs_map]
    | dct d =>
      cases d with
      | nil => rfl
      | cons hd tl => obtain ⟨k0, v0⟩ := hd; rfl
    | none => rfl
    | atom a => rfl
    | lst a => rfl
    | tup a => rfl

/-- relabel the values an operation carries -/
def mapOp : Op → Op
  | .set p l v => .set p l (mapV f v)
  | .del p l => .del p l
  | .pop p l => .pop p l
  | .setU p l v => .setU p l (mapV f v)

theorem stepC_map (clash : List String) (op : Op) (r : KV) :
    stepC clash (mapOp f op) (mapKV f r) = mapKV f (stepC clash op r) := by
  cases op with
  | set p l v => simp only [mapOp, stepC, setSegs_map]
  | del p l =>
    simp only [mapOp, stepC, delSegs_map]
    cases delSegs (p.map (mark clash)) (mark clash l) r <;> rfl
  | pop p l =>
    simp only [mapOp, stepC]
    have := popSegs_map f (p.map (mark clash)) (mark clash l) .none r
    simp only [mapV] at this
    rw [this]
    cases popSegs (p.map (mark clash)) (mark clash l) .none r <;> rfl
  | setU p l v =>
    simp only [mapOp, stepC, containsSegs_map, setSegs_map]
    split <;> rfl

/-- every history of set / del / pop / only-unset assignments is natural in the atoms -/
theorem runC_map (clash : List String) : ∀ (ops : List Op) (r : KV),
    runC clash (ops.map (mapOp f)) (mapKV f r) = mapKV f (runC clash ops r)
  | [], _ => rfl
  | op :: rest, r => by
    simp only [runC, List.map_cons, List.foldl_cons] at *
    rw [stepC_map]
    exact runC_map clash rest (stepC clash op r)


/-! ### `update(<Namespace>)` and `items` -/

mutual
theorem itemsSegsV_map (pre : List String) (b : Bool) : ∀ v : V,
    itemsSegsV pre b (mapV f v) = (itemsSegsV pre b v).map (fun kv => (kv.1, mapV f kv.2))
  | .ns sub => by cases b <;> simp [mapV, itemsSegsV, itemsSegsKV_map pre _ sub]
  | .none => by simp [mapV, itemsSegsV]
  | .atom _ => by simp [mapV, itemsSegsV]
  | .lst _ => by simp [mapV, itemsSegsV]
  | .tup _ => by simp [mapV, itemsSegsV]
  | .dct _ => by simp [mapV, itemsSegsV]
theorem itemsSegsKV_map (pre : List String) (b : Bool) : ∀ kvs : KV,
    itemsSegsKV pre b (mapKV f kvs) = (itemsSegsKV pre b kvs).map (fun kv => (kv.1, mapV f kv.2))
  | [] => rfl
  | (k, v) :: r => by
    simp [mapKV, itemsSegsKV, itemsSegsV_map (pre ++ [unmark k]) b v, itemsSegsKV_map pre b r]
end

theorem updateOps_map (onlyUnset : Bool) (pre : List String) : ∀ its : List (List String × V),
    updateOps onlyUnset pre (its.map (fun kv => (kv.1, mapV f kv.2))) = (updateOps onlyUnset pre its).map (mapOp f)
  | [] => rfl
  | kv :: rest => by
    simp only [List.map_cons, updateOps]
    cases splitLastS (pre ++ kv.1) with
    | none => exact updateOps_map onlyUnset pre rest
    | some pl =>
      simp only [List.map_cons, updateOps_map onlyUnset pre rest]
      cases onlyUnset <;> rfl

/-- `ns.update(value, key, only_unset)` with a Namespace `value` is natural in the atoms: it never compares the value
    it is about to write with the one that is there -/
theorem updateSegs_map (clash : List String) (value : KV) (pre : List String) (onlyUnset : Bool) (root : KV) :
    updateSegs clash (mapKV f value) pre onlyUnset (mapKV f root) = mapKV f (updateSegs clash value pre onlyUnset root) := by
  rw [updateSegs_eq_runC, updateSegs_eq_runC]
  unfold itemsSegs
  rw [itemsSegsKV_map, updateOps_map, runC_map]

end Jap.NS

import Jap.Core.ValidateArgv
/-!
Lemmas about `posLoop` (the loop of `ArgumentParser._positional_optionals`): conservation of the leftover tokens, one token
per optional action in the order the actions were added, and the exact result when no positional is missing.
-/
namespace Jap.Validate

theorem posLoop_nil_unk (acts : List PAct) : posLoop acts [] = ([], []) := by
  cases acts <;> rfl

theorem posLoop_nil_acts (unk : List String) : posLoop [] unk = ([], unk) := by
  cases unk <;> rfl

theorem posLoop_cons (a : PAct) (r : List PAct) (t : String) (u : List String) :
    posLoop (a :: r) (t :: u) =
      if a.positional then (if a.hasValue then posLoop r (t :: u) else ([], t :: u))
      else ((a.dest, t) :: (posLoop r u).1, (posLoop r u).2) := by
  rw [posLoop]

/-- nothing is dropped, nothing is duplicated, the order is kept: the tokens handed to actions followed by the tokens left over
    are the tokens that came in -/
theorem posLoop_conserve (acts : List PAct) :
    ∀ unk, (posLoop acts unk).1.map (·.2) ++ (posLoop acts unk).2 = unk := by
  induction acts with
  | nil => intro unk; rw [posLoop_nil_acts]; rfl
  | cons a r ih =>
    intro unk
    cases unk with
    | nil => rw [posLoop_nil_unk]; rfl
    | cons t u =>
      rw [posLoop_cons]
      by_cases hp : a.positional = true
      · by_cases hv : a.hasValue = true
        · simp only [hp, hv, if_true]; exact ih (t :: u)
        · simp [hp, hv]
      · simp only [hp, Bool.false_eq_true, if_false, List.map_cons, List.cons_append, List.cons.injEq, true_and]
        exact ih u

/-- the actions that received a token are optional actions of the parser, each at most once, in the order of the parser -/
theorem posLoop_sublist (acts : List PAct) :
    ∀ unk, List.Sublist ((posLoop acts unk).1.map (·.1)) (optionalDests acts) := by
  induction acts with
  | nil => intro unk; rw [posLoop_nil_acts]; exact List.Sublist.slnil
  | cons a r ih =>
    intro unk
    cases unk with
    | nil => rw [posLoop_nil_unk]; exact List.nil_sublist _
    | cons t u =>
      rw [posLoop_cons]
      by_cases hp : a.positional = true
      · have ho : optionalDests (a :: r) = optionalDests r := by simp [optionalDests, hp]
        rw [ho]
        by_cases hv : a.hasValue = true
        · simp only [hp, hv, if_true]; exact ih (t :: u)
        · simp only [hp, hv, if_true, Bool.false_eq_true, if_false]; exact List.nil_sublist _
      · have ho : optionalDests (a :: r) = a.dest :: optionalDests r := by simp [optionalDests, hp]
        rw [ho]
        simp only [hp, Bool.false_eq_true, if_false, List.map_cons]
        exact List.Sublist.cons_cons _ (ih u)

theorem posLoop_count (acts : List PAct) (unk : List String) :
    (posLoop acts unk).1.length ≤ (optionalDests acts).length := by
  have := (posLoop_sublist acts unk).length_le
  simpa using this

/-- what is left is a tail of what came in: the tokens after the consumed ones -/
theorem posLoop_rest (acts : List PAct) (unk : List String) :
    (posLoop acts unk).2 = unk.drop (posLoop acts unk).1.length := by
  have h := posLoop_conserve acts unk
  have : unk.drop (posLoop acts unk).1.length
      = ((posLoop acts unk).1.map (·.2) ++ (posLoop acts unk).2).drop ((posLoop acts unk).1.map (·.2)).length := by
    rw [h]; simp
  rw [this, List.drop_left]

/-- a positional without value aborts the loop: every token is left over -/
theorem posLoop_missing (a : PAct) (r : List PAct) (unk : List String) (hp : a.positional = true) (hv : a.hasValue = false) :
    posLoop (a :: r) unk = ([], unk) := by
  cases unk with
  | nil => rw [posLoop_nil_unk]
  | cons t u => rw [posLoop_cons]; simp [hp, hv]

/-- no positional is missing: the tokens go to the optionals in the order these were added, one each; the rest is left -/
theorem posLoop_exact (acts : List PAct) (hall : ∀ a ∈ acts, a.positional = true → a.hasValue = true) :
    ∀ unk, posLoop acts unk = ((optionalDests acts).zip unk, unk.drop (optionalDests acts).length) := by
  induction acts with
  | nil => intro unk; rw [posLoop_nil_acts]; simp [optionalDests]
  | cons a r ih =>
    intro unk
    have ihr := ih (fun x hx => hall x (List.mem_cons_of_mem _ hx))
    cases unk with
    | nil => rw [posLoop_nil_unk]; simp
    | cons t u =>
      rw [posLoop_cons]
      by_cases hp : a.positional = true
      · have hv := hall a List.mem_cons_self hp
        have ho : optionalDests (a :: r) = optionalDests r := by simp [optionalDests, hp]
        simp only [hp, hv, if_true, ho]
        exact ihr (t :: u)
      · have ho : optionalDests (a :: r) = a.dest :: optionalDests r := by simp [optionalDests, hp]
        simp only [hp, Bool.false_eq_true, if_false, ho, ihr u, List.zip_cons_cons, List.length_cons, List.drop_succ_cons]

end Jap.Validate

/-
C01: the quoted-scalar writers (without folding) are inverted by the flow-scalar scanner.
-/
import Jap.Core.Emitter

namespace Jap.Scalar

theorem hexVal_hexDigitU : ∀ k, k < 16 → hexVal (hexDigitU k) = some k := by decide
theorem printable_hexDigitU : ∀ k, k < 16 → yamlPrintable (hexDigitU k) = true := by decide

/-- every `Char` is a valid escape code -/
theorem validCode_char (c : Char) : validCode c.toNat = true := by
  have h := c.valid
  have hn : c.toNat = c.val.toNat := rfl
  have h' : c.toNat < 55296 ∨ (57343 < c.toNat ∧ c.toNat < 1114112) := by
    rw [hn]; exact h
  unfold validCode
  rcases h' with h1 | ⟨h1, h2⟩
  · have a : Nat.ble c.toNat 57343 = true := by rw [Nat.ble_eq]; omega
    have b : Nat.ble 55296 c.toNat = false := by
      cases hb : Nat.ble 55296 c.toNat
      · rfl
      · rw [Nat.ble_eq] at hb; omega
    have d : Nat.ble c.toNat 1114111 = true := by rw [Nat.ble_eq]; omega
    simp [a, b, d]
  · have a : Nat.ble c.toNat 57343 = false := by
      cases hb : Nat.ble c.toNat 57343
      · rfl
      · rw [Nat.ble_eq] at hb; omega
    have d : Nat.ble c.toNat 1114111 = true := by rw [Nat.ble_eq]; omega
    simp [a, d]

/-- one hexadecimal digit inside an escape, not the last one -/
theorem qGo_hex_step (sg : Bool) (out : List Char) (p : Pend) (c0 : Bool) (k acc d : Nat) (hd : d < 16) (rest : List Char) :
    qGo sg ⟨out, p, c0, .hex (k + 2) acc⟩ (hexDigitU d :: rest) = qGo sg ⟨out, p, c0, .hex (k + 1) (acc * 16 + d)⟩ rest := by
  have h := hexVal_hexDigitU d hd
  simp only [qGo, h]
  simp

/-- the last hexadecimal digit of an escape -/
theorem qGo_hex_last (sg : Bool) (out : List Char) (p : Pend) (c0 : Bool) (acc d : Nat) (hd : d < 16)
    (hv : validCode (acc * 16 + d) = true) (rest : List Char) :
    qGo sg ⟨out, p, c0, .hex 1 acc⟩ (hexDigitU d :: rest) = qGo sg ⟨out ++ [Char.ofNat (acc * 16 + d)], p, c0, .none⟩ rest := by
  have h := hexVal_hexDigitU d hd
  simp only [qGo, h]
  simp [hv]

theorem qGo_hex2 (n : Nat) (hn : n < 256) (hv : validCode n = true) (sg : Bool) (out : List Char) (p : Pend) (c0 : Bool)
    (rest : List Char) :
    qGo sg ⟨out, p, c0, .hex 2 0⟩ (hexU2 n ++ rest) = qGo sg ⟨out ++ [Char.ofNat n], p, c0, .none⟩ rest := by
  have hval : (0 * 16 + n / 16 % 16) * 16 + n % 16 = n := by omega
  simp only [hexU2, List.cons_append, List.nil_append]
  rw [qGo_hex_step sg out p c0 0 0 _ (Nat.mod_lt _ (by decide)), qGo_hex_last sg out p c0 _ _ (Nat.mod_lt _ (by decide)) (by rw [hval]; exact hv), hval]

theorem qGo_hex4 (n : Nat) (hn : n < 65536) (hv : validCode n = true) (sg : Bool) (out : List Char) (p : Pend) (c0 : Bool)
    (rest : List Char) :
    qGo sg ⟨out, p, c0, .hex 4 0⟩ (hexU4 n ++ rest) = qGo sg ⟨out ++ [Char.ofNat n], p, c0, .none⟩ rest := by
  have hval : (((0 * 16 + n / 4096 % 16) * 16 + n / 256 % 16) * 16 + n / 16 % 16) * 16 + n % 16 = n := by omega
  simp only [hexU4, List.cons_append, List.nil_append]
  rw [qGo_hex_step sg out p c0 2 0 _ (Nat.mod_lt _ (by decide)), qGo_hex_step sg out p c0 1 _ _ (Nat.mod_lt _ (by decide)),
    qGo_hex_step sg out p c0 0 _ _ (Nat.mod_lt _ (by decide)),
    qGo_hex_last sg out p c0 _ _ (Nat.mod_lt _ (by decide)) (by rw [hval]; exact hv), hval]

theorem qGo_hex8 (n : Nat) (hn : n < 4294967296) (hv : validCode n = true) (sg : Bool) (out : List Char) (p : Pend) (c0 : Bool)
    (rest : List Char) :
    qGo sg ⟨out, p, c0, .hex 8 0⟩ (hexU8 n ++ rest) = qGo sg ⟨out ++ [Char.ofNat n], p, c0, .none⟩ rest := by
  have hval : (((((((0 * 16 + n / 268435456 % 16) * 16 + n / 16777216 % 16) * 16 + n / 1048576 % 16) * 16 + n / 65536 % 16) * 16
      + n / 4096 % 16) * 16 + n / 256 % 16) * 16 + n / 16 % 16) * 16 + n % 16 = n := by omega
  simp only [hexU8, hexU4, List.cons_append, List.nil_append]
  rw [qGo_hex_step sg out p c0 6 0 _ (Nat.mod_lt _ (by decide)), qGo_hex_step sg out p c0 5 _ _ (Nat.mod_lt _ (by decide)),
    qGo_hex_step sg out p c0 4 _ _ (Nat.mod_lt _ (by decide)), qGo_hex_step sg out p c0 3 _ _ (Nat.mod_lt _ (by decide)),
    qGo_hex_step sg out p c0 2 _ _ (Nat.mod_lt _ (by decide)), qGo_hex_step sg out p c0 1 _ _ (Nat.mod_lt _ (by decide)),
    qGo_hex_step sg out p c0 0 _ _ (Nat.mod_lt _ (by decide)),
    qGo_hex_last sg out p c0 _ _ (Nat.mod_lt _ (by decide)) (by rw [hval]; exact hv), hval]

theorem namedEscape_spec (n : Nat) (e : Char) (h : namedEscape n = some e) :
    simpleEscape e = some n ∧ isBreak e = false ∧ e ≠ 'x' ∧ e ≠ 'u' ∧ e ≠ 'U' := by
  by_cases h0 : n = 0
  · subst h0; simp [namedEscape] at h; subst h; decide
  by_cases h7 : n = 7
  · subst h7; simp [namedEscape] at h; subst h; decide
  by_cases h8 : n = 8
  · subst h8; simp [namedEscape] at h; subst h; decide
  by_cases h9 : n = 9
  · subst h9; simp [namedEscape] at h; subst h; decide
  by_cases h10 : n = 10
  · subst h10; simp [namedEscape] at h; subst h; decide
  by_cases h11 : n = 11
  · subst h11; simp [namedEscape] at h; subst h; decide
  by_cases h12 : n = 12
  · subst h12; simp [namedEscape] at h; subst h; decide
  by_cases h13 : n = 13
  · subst h13; simp [namedEscape] at h; subst h; decide
  by_cases h27 : n = 27
  · subst h27; simp [namedEscape] at h; subst h; decide
  by_cases h34 : n = 34
  · subst h34; simp [namedEscape] at h; subst h; decide
  by_cases h92 : n = 92
  · subst h92; simp [namedEscape] at h; subst h; decide
  by_cases h133 : n = 133
  · subst h133; simp [namedEscape] at h; subst h; decide
  by_cases h160 : n = 160
  · subst h160; simp [namedEscape] at h; subst h; decide
  by_cases h8232 : n = 8232
  · subst h8232; simp [namedEscape] at h; subst h; decide
  by_cases h8233 : n = 8233
  · subst h8233; simp [namedEscape] at h; subst h; decide
  simp [namedEscape, h0, h7, h8, h9, h10, h11, h12, h13, h27, h34, h92, h133, h160, h8232, h8233] at h

/-- one source character through `write_double_quoted` and back -/
theorem dq_char_step (au : Bool) (c : Char) (out b rest : List Char) :
    ∃ out' b', qGo false ⟨out, .ws b, false, .none⟩ (writeDoubleChar au c ++ rest)
        = qGo false ⟨out', .ws b', false, .none⟩ rest ∧ out' ++ b' = out ++ b ++ [c] := by
  have hc : Char.ofNat c.toNat = c := Char.ofNat_toNat c
  have hv := validCode_char c
  unfold writeDoubleChar
  by_cases hraw : dqRaw au c = true
  · simp only [hraw, if_true]
    have h34 : c.toNat ≠ 34 := by intro h; simp [dqRaw, h] at hraw
    have h92 : c.toNat ≠ 92 := by intro h; simp [dqRaw, h] at hraw
    have h133 : c.toNat ≠ 133 := by intro h; simp [dqRaw, h] at hraw
    have h8232 : c.toNat ≠ 8232 := by intro h; simp [dqRaw, h] at hraw
    have h8233 : c.toNat ≠ 8233 := by intro h; simp [dqRaw, h] at hraw
    have h9 : c.toNat ≠ 9 := by intro h; simp [dqRaw, h] at hraw
    have h10 : c.toNat ≠ 10 := by intro h; simp [dqRaw, h] at hraw
    have h13 : c.toNat ≠ 13 := by intro h; simp [dqRaw, h] at hraw
    by_cases hsp : c.toNat = 32
    · refine ⟨out, b ++ [c], ?_, by simp⟩
      simp [qGo, isBlank, hsp]
    · refine ⟨out ++ b ++ [c], [], ?_, by simp⟩
      simp [qGo, isBlank, isBreak, flush, hsp, h9, h10, h13, h133, h8232, h8233, h34, h92]
  · simp only [hraw, Bool.false_eq_true, if_false]
    refine ⟨out ++ b ++ [c], [], ?_, by simp⟩
    cases hne : namedEscape c.toNat with
    | some e =>
      obtain ⟨h1, h2, h3, h4, h5⟩ := namedEscape_spec _ _ hne
      have hb : isBreak '\\' = false := by decide
      simp [qGo, isBlank, hb, flush, h1, h2, h3, h4, h5, hc]
    | none =>
      simp only
      by_cases h255 : c.toNat ≤ 255
      · simp only [h255, if_true, List.cons_append]
        have := qGo_hex2 c.toNat (by omega) hv false (out ++ b) (.ws []) false rest
        simp only [qGo, Char.reduceToNat]
        simp [isBlank, isBreak, flush, this, hc]
      · simp only [h255, if_false]
        by_cases h65535 : c.toNat ≤ 65535
        · simp only [h65535, if_true, List.cons_append]
          have := qGo_hex4 c.toNat (by omega) hv false (out ++ b) (.ws []) false rest
          simp only [qGo, Char.reduceToNat]
          simp [isBlank, isBreak, flush, this, hc]
        · simp only [h65535, if_false, List.cons_append]
          have hlt : c.toNat < 4294967296 := by
            have := c.valid
            have hn : c.toNat = c.val.toNat := rfl
            rw [hn]
            rcases this with h | ⟨_, h⟩ <;> omega
          have := qGo_hex8 c.toNat hlt hv false (out ++ b) (.ws []) false rest
          simp only [qGo, Char.reduceToNat]
          simp [isBlank, isBreak, flush, this, hc]

/-- `write_double_quoted` (no folding) followed by the closing quote is read back exactly -/
theorem qGo_double (au : Bool) (s : List Char) : ∀ (out b tail : List Char),
    qGo false ⟨out, .ws b, false, .none⟩ (writeDoubleBody au s ++ '"' :: tail) = some (out ++ b ++ s, tail) := by
  induction s with
  | nil => intro out b tail; simp [writeDoubleBody, qGo, isBlank, isBreak, flush]
  | cons c cs ih =>
    intro out b tail
    obtain ⟨out', b', h1, h2⟩ := dq_char_step au c out b (writeDoubleBody au cs ++ '"' :: tail)
    simp only [writeDoubleBody, List.append_assoc]
    rw [h1, ih, h2]
    simp

/-- characters of a single-line string that the emitter may write raw in the plain and single-quoted styles -/
def okChar (au : Bool) (c : Char) : Bool := !(isSpecialA au c) && !(isBreakA c)

theorem okChar_facts (au : Bool) (c : Char) (hok : okChar au c = true) :
    c.toNat ≠ 9 ∧ c.toNat ≠ 13 ∧ c.toNat ≠ 10 ∧ c.toNat ≠ 133 ∧ c.toNat ≠ 8232 ∧ c.toNat ≠ 8233 ∧ c.toNat ≠ 0 := by
  refine ⟨?_, ?_, ?_, ?_, ?_, ?_, ?_⟩ <;> intro h <;> simp [okChar, isSpecialA, isBreakA, h] at hok

theorem sq_char_step (au : Bool) (c : Char) (hok : okChar au c = true) (out b rest : List Char) :
    ∃ out' b', qGo true ⟨out, .ws b, false, .none⟩ ((if c.toNat = 39 then ['\'', '\''] else [c]) ++ rest)
        = qGo true ⟨out', .ws b', false, .none⟩ rest ∧ out' ++ b' = out ++ b ++ [c] := by
  have hc : Char.ofNat c.toNat = c := Char.ofNat_toNat c
  obtain ⟨h9, h13, h10, h133, h8232, h8233, _⟩ := okChar_facts au c hok
  by_cases h39 : c.toNat = 39
  · refine ⟨out ++ b ++ [c], [], ?_, by simp⟩
    simp only [h39, if_true]
    rw [← hc, h39]
    simp [qGo, isBlank, isBreak, flush]
  · simp only [h39, if_false]
    by_cases hsp : c.toNat = 32
    · refine ⟨out, b ++ [c], ?_, by simp⟩
      simp [qGo, isBlank, hsp]
    · refine ⟨out ++ b ++ [c], [], ?_, by simp⟩
      simp [qGo, isBlank, isBreak, flush, hsp, h9, h10, h13, h133, h8232, h8233, h39]

/-- `write_single_quoted` (single line, no folding) followed by the closing quote is read back exactly -/
theorem qGo_single (au : Bool) (s : List Char) (hs : ∀ c ∈ s, okChar au c = true) : ∀ (out b tail : List Char),
    (∀ d ts, tail = d :: ts → d.toNat ≠ 39) →
    qGo true ⟨out, .ws b, false, .none⟩ (writeSingleBody s ++ '\'' :: tail) = some (out ++ b ++ s, tail) := by
  induction s with
  | nil =>
    intro out b tail ht
    cases tail with
    | nil => simp [writeSingleBody, qGo, isBlank, isBreak, flush]
    | cons d ts =>
      have := ht d ts rfl
      simp [writeSingleBody, qGo, isBlank, isBreak, flush, this]
  | cons c cs ih =>
    intro out b tail ht
    obtain ⟨out', b', h1, h2⟩ := sq_char_step au c (hs c List.mem_cons_self) out b (writeSingleBody cs ++ '\'' :: tail)
    simp only [writeSingleBody, List.append_assoc]
    rw [h1, ih (fun x hx => hs x (List.mem_cons_of_mem _ hx)) _ _ _ ht, h2]
    simp

end Jap.Scalar

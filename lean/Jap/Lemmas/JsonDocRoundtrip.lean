/-
C01 / C05, JSON documents: `jValue` (the YAML loader on JSON text) reads back what `jDump` (json.dumps, compact or
indented) writes, for every value of the stated domain `JOK`.
-/
import Jap.Lemmas.JsonDocString
import Jap.Lemmas.YamlDocParse
import Jap.Lemmas.ScalarCert

set_option linter.unusedSimpArgs false

namespace Jap.Scalar
open Jap.Gen.Resolvers (imgBool imgNull jsonInt imgFloatJson)

/-! ### white space, plain scalars -/

def hnw : List Char → Bool
  | [] => true
  | c :: _ => !isJWs c

theorem skipWs_app (w r : List Char) (hw : w.all isJWs = true) (hr : hnw r = true) : skipWs (w ++ r) = r := by
  induction w with
  | nil =>
    cases r with
    | nil => rfl
    | cons c t =>
      have : isJWs c = false := by simpa [hnw] using hr
      simp [skipWs, this]
  | cons c t ih =>
    simp only [List.all_cons, Bool.and_eq_true] at hw
    simp [skipWs, hw.1, ih hw.2]

theorem jnl_ws (ind : Option Nat) : (jnl ind).all isJWs = true := by
  cases ind with
  | none => rfl
  | some n =>
    simp only [jnl, List.all_cons, Bool.and_eq_true]
    refine ⟨by decide, ?_⟩
    rw [List.all_eq_true]
    intro c hc
    rw [List.mem_replicate] at hc
    rw [hc.2]; decide

theorem jPlain_ne (c : Char) (h : jPlainChar c = true) :
    c ≠ '{' ∧ c ≠ '[' ∧ c ≠ '"' ∧ c ≠ ']' ∧ c ≠ '}' ∧ c ≠ ',' ∧ isJWs c = false := by
  refine ⟨?_, ?_, ?_, ?_, ?_, ?_, ?_⟩
  · intro e; subst e; revert h; decide
  · intro e; subst e; revert h; decide
  · intro e; subst e; revert h; decide
  · intro e; subst e; revert h; decide
  · intro e; subst e; revert h; decide
  · intro e; subst e; revert h; decide
  · cases hw : isJWs c with
    | false => rfl
    | true =>
      simp only [isJWs, Bool.or_eq_true, decide_eq_true_eq] at hw
      rcases hw with e | e <;> (subst e; revert h; decide)

theorem termJ_head (rest : List Char) (h : termJ rest = true) : ∀ c t, rest = c :: t → jPlainChar c = false := by
  intro c t e
  subst e
  simp only [termJ, isJWs, Bool.or_eq_true, decide_eq_true_eq] at h
  rcases h with ((e | e) | e) | e
  · rcases e with e | e <;> (subst e; decide)
  · subst e; decide
  · subst e; decide
  · subst e; decide

theorem flowPlain_app (t : List Char) (ht : t.all jPlainChar = true) : ∀ (acc rest : List Char), termJ rest = true →
    flowPlain acc (t ++ rest) = (acc ++ t, rest) := by
  induction t with
  | nil =>
    intro acc rest hr
    cases rest with
    | nil => simp [flowPlain]
    | cons c r => simp [flowPlain, termJ_head _ hr c r rfl]
  | cons c t ih =>
    intro acc rest hr
    simp only [List.all_cons, Bool.and_eq_true] at ht
    simp [flowPlain, ht.1, ih ht.2 (acc ++ [c]) rest hr]

/-! ### scalars -/

theorem jsonSafe'_eq (c : Char) : JScOK.jsonSafe' c = jsonSafe c := rfl

theorem JScOK_str (s : Sc) (hstr : s.tag = .str) (h : JScOK s = true) : ∀ c ∈ s.text, jsonSafe c = true := by
  simp only [JScOK, hstr, List.all_eq_true] at h
  intro c hc
  rw [← jsonSafe'_eq]; exact h c hc

theorem JScOK_nonstr (s : Sc) (hstr : s.tag ≠ .str) (h : JScOK s = true) :
    resolveLoadC s.text = s.tag ∧ s.text.all jPlainChar = true ∧ plainStartJ s.text = true := by
  obtain ⟨tag, text⟩ := s
  simp only [JScOK] at h
  simp only [resolveLoadC, resolveLoadW]
  cases tag with
  | str => exact absurd rfl hstr
  | null =>
    simp only [Bool.and_eq_true] at h
    exact ⟨by rw [img_words imgNull 1 imgNull_cert _ h.1.1]; rfl, h.1.2, h.2⟩
  | bool =>
    simp only [Bool.and_eq_true] at h
    exact ⟨by rw [img_words imgBool 2 imgBool_cert _ h.1.1]; rfl, h.1.2, h.2⟩
  | int =>
    simp only [Bool.and_eq_true] at h
    exact ⟨by rw [img_words jsonInt 3 jsonInt_cert _ h.1.1]; rfl, h.1.2, h.2⟩
  | float =>
    simp only [Bool.and_eq_true] at h
    exact ⟨by rw [img_words imgFloatJson 4 imgFloatJson_cert _ h.1.1]; rfl, h.1.2, h.2⟩
  | other n => simp at h

theorem plainStartJ_ne (t : List Char) (h : plainStartJ t = true) : ∃ c r, t = c :: r := by
  cases t with
  | nil => simp [plainStartJ] at h
  | cons c r => exact ⟨c, r, rfl⟩

theorem jsonEscape_eq (s : List Char) : jsonEscape s = jsonEscapeWith false s := by
  unfold jsonEscape; rw [ensure_ascii_false]

/-- the first character of a dumped value: not white space, not a closing bracket, not a comma -/
theorem jDump_head (v : V) (ind : Option Nat) (h : JOK v = true) :
    ∃ c r, jDump ind v = c :: r ∧ isJWs c = false ∧ c ≠ ']' ∧ c ≠ '}' ∧ c ≠ ',' := by
  match v, h with
  | .sc s, h =>
    simp only [JOK] at h
    by_cases hstr : s.tag = .str
    · exact ⟨'"', jsonEscape s.text ++ ['"'], by simp [jDump, jScalar, hstr], by decide, by decide, by decide, by decide⟩
    · obtain ⟨_, hall, hst⟩ := JScOK_nonstr s hstr h
      obtain ⟨c, r, e⟩ := plainStartJ_ne _ hst
      rw [e] at hall
      simp only [List.all_cons, Bool.and_eq_true] at hall
      obtain ⟨_, _, _, h1, h2, h3, h4⟩ := jPlain_ne c hall.1
      exact ⟨c, r, by simp [jDump, jScalar, hstr, e], h4, h1, h2, h3⟩
  | .list .nil, _ => exact ⟨'[', _, rfl, by decide, by decide, by decide, by decide⟩
  | .list (.cons x xs), _ => exact ⟨'[', _, rfl, by decide, by decide, by decide, by decide⟩
  | .dict .nil, _ => exact ⟨'{', _, rfl, by decide, by decide, by decide, by decide⟩
  | .dict (.cons k v r), _ => exact ⟨'{', _, rfl, by decide, by decide, by decide, by decide⟩

theorem keySpanOK_app (A B : List Char) : keySpanOK (A ++ B) B = (decide (A.length ≤ 1024) && !(A.any isBreak)) := by
  have : (A ++ B).length - B.length = A.length := by simp [List.length_append]
  simp [keySpanOK, this]

theorem termJ_ws_app (w rest : List Char) (c : Char) (hw : w.all isJWs = true) (hc : c = ']' ∨ c = '}' ∨ c = ',') :
    termJ (w ++ c :: rest) = true := by
  cases w with
  | nil => rcases hc with e | e | e <;> (subst e; simp [termJ])
  | cons d t =>
    simp only [List.all_cons, Bool.and_eq_true] at hw
    simp [termJ, hw.1]

theorem hnw_of_head (v : V) (ind : Option Nat) (h : JOK v = true) (rest : List Char) : hnw (jDump ind v ++ rest) = true := by
  obtain ⟨c, r, e, hc, _⟩ := jDump_head v ind h
  simp [e, hnw, hc]

theorem jcolon_skip (ind : Option Nat) (r : List Char) (hr : hnw r = true) :
    ∃ w, jcolon ind ++ r = ':' :: (w ++ r) ∧ w.all isJWs = true := by
  cases ind with
  | none => exact ⟨[], rfl, rfl⟩
  | some n => exact ⟨[' '], rfl, by decide⟩

/-! ### the round trip -/

mutual
theorem jValue_dump : ∀ (v : V) (ind : Option Nat) (fuel : Nat) (rest : List Char), JOK v = true → szV v ≤ fuel →
    termJ rest = true → jValue fuel (jDump ind v ++ rest) = some (v, rest)
  | .sc s, ind, fuel, rest, hok, hf, hr => by
    cases fuel with
    | zero => simp [szV] at hf
    | succ f =>
      simp only [JOK] at hok
      by_cases hstr : s.tag = .str
      · have hs := JScOK_str s hstr hok
        have hq := qGo_jsonEscape s.text hs [] [] rest
        have : (⟨s.tag, s.text⟩ : Sc) = s := rfl
        simp only [jDump, jScalar, hstr, if_true, jsonEscape_eq, List.cons_append, List.append_assoc, List.singleton_append]
        simp only [jValue]
        simp [qStart, hq, ← hstr, this]
      · obtain ⟨hres, hall, hst⟩ := JScOK_nonstr s hstr hok
        obtain ⟨c, r, e⟩ := plainStartJ_ne _ hst
        have hfp := flowPlain_app s.text hall [] rest hr
        rw [e] at hall
        simp only [List.all_cons, Bool.and_eq_true] at hall
        obtain ⟨h1, h2, h3, _⟩ := jPlain_ne c hall.1
        have : (⟨s.tag, s.text⟩ : Sc) = s := rfl
        simp only [jDump, jScalar, hstr, if_false]
        rw [e] at hfp hst hres ⊢
        simp only [List.cons_append, List.nil_append] at hfp ⊢
        simp only [jValue, h1, h2, h3, if_false, hfp, hst, hr, Bool.and_self, if_true]
        rw [hres, ← e, this]
  | .list .nil, ind, fuel, rest, _, hf, _ => by
    cases fuel with
    | zero => simp [szV] at hf
    | succ f => simp [jDump, jValue, skipWs, isJWs]
  | .dict .nil, ind, fuel, rest, _, hf, _ => by
    cases fuel with
    | zero => simp [szV] at hf
    | succ f => simp [jDump, jValue, skipWs, isJWs]
  | .list (.cons x xs), ind, fuel, rest, hok, hf, hr => by
    cases fuel with
    | zero => simp [szV] at hf
    | succ f =>
      have hokx : JOK x = true := by simp only [JOK, JLOK, Bool.and_eq_true] at hok; exact hok.1
      have hs := jElems_dump (.cons x xs) (deeper ind) f (jnl ind) rest (by simpa [JOK] using hok)
        (by simp only [szV] at hf; omega) (jnl_ws ind)
      simp only at hs
      obtain ⟨c, r, e, hc, hc1, _, _⟩ := jDump_head x (deeper ind) hokx
      have hsk := skipWs_app (jnl (deeper ind)) (jDump (deeper ind) x ++ (jDumpL (deeper ind) xs ++ (jnl ind ++ ']' :: rest)))
        (jnl_ws _) (hnw_of_head x _ hokx _)
      simp only [jDump, List.cons_append, List.append_assoc, List.singleton_append, List.nil_append]
      simp only [jValue]
      rw [hsk]
      rw [e] at hs ⊢
      simp only [List.cons_append] at hs ⊢
      simp [hc1, hs]
  | .dict (.cons k v r), ind, fuel, rest, hok, hf, hr => by
    cases fuel with
    | zero => simp [szV] at hf
    | succ f =>
      have hs := jMembers_dump (.cons k v r) ind (deeper ind) f (jnl ind) rest (by simpa [JOK] using hok)
        (by simp only [szV] at hf; omega) (jnl_ws ind)
      simp only at hs
      have hsk := skipWs_app (jnl (deeper ind))
        (jKey k ++ (jcolon ind ++ (jDump (deeper ind) v ++ (jDumpM (deeper ind) r ++ (jnl ind ++ '}' :: rest)))))
        (jnl_ws _) (by simp [jKey, hnw, isJWs])
      simp only [jDump, List.cons_append, List.append_assoc, List.singleton_append, List.nil_append]
      simp only [jValue]
      rw [hsk]
      simp only [jKey, List.cons_append, List.append_assoc, List.singleton_append, List.nil_append] at hs ⊢
      simp [hs]
/-- the items of a non-empty array, white space, the closing bracket -/
theorem jElems_dump : ∀ (xs : VL) (ind : Option Nat) (fuel : Nat) (w rest : List Char), JLOK xs = true → szL xs ≤ fuel →
    w.all isJWs = true →
    (match xs with
     | .nil => True
     | .cons x xs' => jElems fuel (jDump ind x ++ (jDumpL ind xs' ++ (w ++ ']' :: rest))) = some (.cons x xs', rest))
  | .nil, _, _, _, _, _, _, _ => trivial
  | .cons x .nil, ind, fuel, w, rest, hok, hf, hw => by
    cases fuel with
    | zero => simp [szL] at hf
    | succ f =>
      simp only [JLOK, Bool.and_eq_true] at hok
      simp only [szL] at hf
      have h1 := jValue_dump x ind f (w ++ ']' :: rest) hok.1 (by omega) (termJ_ws_app w rest ']' hw (Or.inl rfl))
      have h2 := skipWs_app w (']' :: rest) hw (by simp [hnw, isJWs])
      simp [jDumpL, jElems, h1, h2]
  | .cons x (.cons y ys), ind, fuel, w, rest, hok, hf, hw => by
    cases fuel with
    | zero => simp [szL] at hf
    | succ f =>
      have hoky : JOK y = true := by simp only [JLOK, Bool.and_eq_true] at hok; exact hok.2.1
      have hokx : JOK x = true := by simp only [JLOK, Bool.and_eq_true] at hok; exact hok.1
      have hokt : JLOK (.cons y ys) = true := by simp only [JLOK, Bool.and_eq_true] at hok ⊢; exact hok.2
      have hfx : szV x ≤ f ∧ szL (.cons y ys) ≤ f := by simp only [szL] at hf ⊢; omega
      have h1 := jValue_dump x ind f (',' :: (jnl ind ++ (jDump ind y ++ (jDumpL ind ys ++ (w ++ ']' :: rest))))) hokx hfx.1
        (by simp [termJ])
      have h2 := jElems_dump (.cons y ys) ind f w rest hokt hfx.2 hw
      have h3 := skipWs_app (jnl ind) (jDump ind y ++ (jDumpL ind ys ++ (w ++ ']' :: rest))) (jnl_ws _) (hnw_of_head y _ hoky _)
      simp only at h2
      simp only [jDumpL, List.cons_append, List.append_assoc]
      simp only [jElems, h1]
      simp [skipWs, isJWs, h3, h2]
/-- the members of a non-empty object (`ind0`: the depth of the object itself, for the key separator) -/
theorem jMembers_dump : ∀ (kvs : KVL) (ind0 ind : Option Nat) (fuel : Nat) (w rest : List Char), JMOK kvs = true → szM kvs ≤ fuel →
    w.all isJWs = true →
    (match kvs with
     | .nil => True
     | .cons k v r => jMembers fuel (jKey k ++ (jcolon ind0 ++ (jDump ind v ++ (jDumpM ind r ++ (w ++ '}' :: rest)))))
        = some (.cons k v r, rest))
  | .nil, _, _, _, _, _, _, _, _ => trivial
  | .cons k v .nil, ind0, ind, fuel, w, rest, hok, hf, hw => by
    cases fuel with
    | zero => simp [szM] at hf
    | succ f =>
      simp only [JMOK, JKeyOK, Bool.and_eq_true, decide_eq_true_eq] at hok
      obtain ⟨⟨⟨⟨hstr, hsc⟩, hlen⟩, hv⟩, _⟩ := hok
      simp only [szM] at hf
      have hs := JScOK_str k hstr hsc
      obtain ⟨cw, hcw, hcws⟩ := jcolon_skip ind0 (jDump ind v ++ (w ++ '}' :: rest)) (hnw_of_head v _ hv _)
      have hq := qGo_jsonEscape k.text hs [] [] (':' :: (cw ++ (jDump ind v ++ (w ++ '}' :: rest))))
      have h1 := jValue_dump v ind f (w ++ '}' :: rest) hv (by omega) (termJ_ws_app w rest '}' hw (Or.inr (Or.inl rfl)))
      have h2 := skipWs_app w ('}' :: rest) hw (by simp [hnw, isJWs])
      have h3 := skipWs_app cw (jDump ind v ++ (w ++ '}' :: rest)) hcws (hnw_of_head v _ hv _)
      have hk : (⟨Tag.str, k.text⟩ : Sc) = k := by rw [← hstr]
      have hspan := keySpanOK_app ('"' :: (jsonEscapeWith false k.text ++ ['"'])) (':' :: (cw ++ (jDump ind v ++ (w ++ '}' :: rest))))
      have hnb : (('"' :: (jsonEscapeWith false k.text ++ ['"'])).any isBreak) = false := by
        have hb1 : isBreak '"' = false := by decide
        simp [List.any_append, escape_noBreak k.text hs, hb1]
      have hl : ('"' :: (jsonEscapeWith false k.text ++ ['"'])).length ≤ 1024 := by
        rw [jsonEscape_eq] at hlen; simp only [List.length_cons, List.length_append, List.length_nil]; omega
      rw [hnb] at hspan
      simp only [hl, decide_true, Bool.not_false, Bool.and_self] at hspan
      simp only [jDumpM, List.nil_append, jKey, hstr, if_true, jsonEscape_eq, List.cons_append, List.append_assoc,
        List.singleton_append] at hspan ⊢
      rw [hcw]
      simp only [jMembers, qStart, hq, if_true, skipSp]
      simp [hspan, h3, h1, h2, hk]
  | .cons k v (.cons k' v' r'), ind0, ind, fuel, w, rest, hok, hf, hw => by
    cases fuel with
    | zero => simp [szM] at hf
    | succ f =>
      have hokt : JMOK (.cons k' v' r') = true := by simp only [JMOK, Bool.and_eq_true] at hok ⊢; exact hok.2
      simp only [JMOK, JKeyOK, Bool.and_eq_true, decide_eq_true_eq] at hok
      obtain ⟨⟨⟨⟨hstr, hsc⟩, hlen⟩, hv⟩, _⟩ := hok
      have hfx : szV v ≤ f ∧ szM (.cons k' v' r') ≤ f := by simp only [szM] at hf ⊢; omega
      have hs := JScOK_str k hstr hsc
      obtain ⟨tailm, htm⟩ : ∃ t, t = jKey k' ++ (jcolon ind ++ (jDump ind v' ++ (jDumpM ind r' ++ (w ++ '}' :: rest)))) := ⟨_, rfl⟩
      obtain ⟨cw, hcw, hcws⟩ := jcolon_skip ind0 (jDump ind v ++ (',' :: (jnl ind ++ tailm))) (hnw_of_head v _ hv _)
      have hq := qGo_jsonEscape k.text hs [] [] (':' :: (cw ++ (jDump ind v ++ (',' :: (jnl ind ++ tailm)))))
      have h1 := jValue_dump v ind f (',' :: (jnl ind ++ tailm)) hv hfx.1 (by simp [termJ])
      have h2 := jMembers_dump (.cons k' v' r') ind ind f w rest hokt hfx.2 hw
      have h3 := skipWs_app cw (jDump ind v ++ (',' :: (jnl ind ++ tailm))) hcws (hnw_of_head v _ hv _)
      have h4 := skipWs_app (jnl ind) tailm (jnl_ws _) (by simp [htm, jKey, hnw, isJWs])
      have hk : (⟨Tag.str, k.text⟩ : Sc) = k := by rw [← hstr]
      have hspan := keySpanOK_app ('"' :: (jsonEscapeWith false k.text ++ ['"'])) (':' :: (cw ++ (jDump ind v ++ (',' :: (jnl ind ++ tailm)))))
      have hnb : (('"' :: (jsonEscapeWith false k.text ++ ['"'])).any isBreak) = false := by
        have hb1 : isBreak '"' = false := by decide
        simp [List.any_append, escape_noBreak k.text hs, hb1]
      have hl : ('"' :: (jsonEscapeWith false k.text ++ ['"'])).length ≤ 1024 := by
        rw [jsonEscape_eq] at hlen; simp only [List.length_cons, List.length_append, List.length_nil]; omega
      rw [hnb] at hspan
      simp only [hl, decide_true, Bool.not_false, Bool.and_self] at hspan
      simp only at h2
      rw [← htm] at h2
      have e1 : jDumpM ind (.cons k' v' r') ++ (w ++ '}' :: rest) = ',' :: (jnl ind ++ tailm) := by
        simp [jDumpM, htm]
      dsimp only
      rw [e1]
      simp only [jKey, hstr, if_true, jsonEscape_eq, List.cons_append, List.append_assoc, List.singleton_append, List.nil_append] at hspan ⊢
      rw [hcw]
      simp only [jMembers, qStart, hq, if_true, skipSp]
      simp [hspan, h3, h1, skipWs, isJWs, h4, h2, hk]
end

/-! ### the reader's character check, fuel, the top level -/

theorem jPlain_printable (c : Char) (h : jPlainChar c = true) : yamlPrintable c = true := by
  simp only [jPlainChar, Bool.or_eq_true, Bool.and_eq_true, decide_eq_true_eq] at h
  simp only [yamlPrintable, Gen.DumpCfg.readerPrintable, inRanges, Nat.ble_eq, Bool.or_eq_true, Bool.and_eq_true, Bool.or_false]
  omega

theorem all_app {p : Char → Bool} {a b : List Char} (ha : a.all p = true) (hb : b.all p = true) : (a ++ b).all p = true := by
  simp [List.all_append, ha, hb]

theorem jnl_printable (ind : Option Nat) : (jnl ind).all yamlPrintable = true := by
  cases ind with
  | none => rfl
  | some n =>
    simp only [jnl, List.all_cons, Bool.and_eq_true]
    refine ⟨by decide, ?_⟩
    rw [List.all_eq_true]
    intro c hc
    rw [List.mem_replicate] at hc
    rw [hc.2]; decide

theorem jcolon_printable (ind : Option Nat) : (jcolon ind).all yamlPrintable = true := by
  cases ind with
  | none => show [':'].all yamlPrintable = true; decide
  | some n => show [':', ' '].all yamlPrintable = true; decide

theorem jScalar_printable (s : Sc) (h : JScOK s = true) : (jScalar s).all yamlPrintable = true := by
  have hq : yamlPrintable '"' = true := by decide
  by_cases hstr : s.tag = .str
  · have := escapeWith_printable s.text (JScOK_str s hstr h)
    simp [jScalar, hstr, jsonEscape_eq, List.all_append, hq, this]
  · obtain ⟨_, hall, _⟩ := JScOK_nonstr s hstr h
    simp only [jScalar, hstr, if_false]
    rw [List.all_eq_true] at hall ⊢
    intro c hc
    exact jPlain_printable c (hall c hc)

theorem jKey_printable (k : Sc) (h : JKeyOK k = true) : (jKey k).all yamlPrintable = true := by
  have hq : yamlPrintable '"' = true := by decide
  simp only [JKeyOK, Bool.and_eq_true, decide_eq_true_eq] at h
  have := escapeWith_printable k.text (JScOK_str k h.1.1 h.1.2)
  simp [jKey, h.1.1, jsonEscape_eq, List.all_append, hq, this]

mutual
theorem jDump_printable : ∀ (v : V) (ind : Option Nat), JOK v = true → (jDump ind v).all yamlPrintable = true
  | .sc s, ind, h => by simpa [jDump] using jScalar_printable s (by simpa [JOK] using h)
  | .list .nil, ind, _ => by show ['[', ']'].all yamlPrintable = true; decide
  | .dict .nil, ind, _ => by show ['{', '}'].all yamlPrintable = true; decide
  | .list (.cons x xs), ind, h => by
    simp only [JOK, JLOK, Bool.and_eq_true] at h
    have hb : yamlPrintable '[' = true ∧ yamlPrintable ']' = true := by decide
    simp only [jDump, List.all_cons, Bool.and_eq_true]
    exact ⟨hb.1, all_app (jnl_printable _) (all_app (jDump_printable x _ h.1) (all_app (jDumpL_printable xs _ h.2)
      (all_app (jnl_printable _) (by simp [hb.2]))))⟩
  | .dict (.cons k v r), ind, h => by
    simp only [JOK, JMOK, Bool.and_eq_true] at h
    have hb : yamlPrintable '{' = true ∧ yamlPrintable '}' = true := by decide
    simp only [jDump, List.all_cons, Bool.and_eq_true]
    exact ⟨hb.1, all_app (jnl_printable _) (all_app (jKey_printable k h.1.1) (all_app (jcolon_printable _)
      (all_app (jDump_printable v _ h.1.2) (all_app (jDumpM_printable r _ h.2) (all_app (jnl_printable _) (by simp [hb.2]))))))⟩
theorem jDumpL_printable : ∀ (xs : VL) (ind : Option Nat), JLOK xs = true → (jDumpL ind xs).all yamlPrintable = true
  | .nil, _, _ => rfl
  | .cons x xs, ind, h => by
    simp only [JLOK, Bool.and_eq_true] at h
    have hb : yamlPrintable ',' = true := by decide
    simp only [jDumpL, List.all_cons, Bool.and_eq_true]
    exact ⟨hb, all_app (jnl_printable _) (all_app (jDump_printable x _ h.1) (jDumpL_printable xs _ h.2))⟩
theorem jDumpM_printable : ∀ (kvs : KVL) (ind : Option Nat), JMOK kvs = true → (jDumpM ind kvs).all yamlPrintable = true
  | .nil, _, _ => rfl
  | .cons k v r, ind, h => by
    simp only [JMOK, Bool.and_eq_true] at h
    have hb : yamlPrintable ',' = true := by decide
    simp only [jDumpM, List.all_cons, Bool.and_eq_true]
    exact ⟨hb, all_app (jnl_printable _) (all_app (jKey_printable k h.1.1) (all_app (jcolon_printable _)
      (all_app (jDump_printable v _ h.1.2) (jDumpM_printable r _ h.2))))⟩
end

mutual
theorem szV_jDump : ∀ (v : V) (ind : Option Nat), szV v ≤ 2 * (jDump ind v).length + 1
  | .sc s, ind => by simp [szV]
  | .list .nil, ind => by simp [szV, szL, jDump]
  | .dict .nil, ind => by simp [szV, szM, jDump]
  | .list (.cons x xs), ind => by
    have h1 := szV_jDump x (deeper ind)
    have h2 := szL_jDump xs (deeper ind)
    simp only [szV, szL, jDump, List.length_cons, List.length_append, List.length_nil]; omega
  | .dict (.cons k v r), ind => by
    have h1 := szV_jDump v (deeper ind)
    have h2 := szM_jDump r (deeper ind)
    simp only [szV, szM, jDump, List.length_cons, List.length_append, List.length_nil]; omega
theorem szL_jDump : ∀ (xs : VL) (ind : Option Nat), szL xs ≤ 2 * (jDumpL ind xs).length + 1
  | .nil, ind => by simp [szL, jDumpL]
  | .cons x xs, ind => by
    have h1 := szV_jDump x ind
    have h2 := szL_jDump xs ind
    simp only [szL, jDumpL, List.length_cons, List.length_append]; omega
theorem szM_jDump : ∀ (kvs : KVL) (ind : Option Nat), szM kvs ≤ 2 * (jDumpM ind kvs).length + 1
  | .nil, ind => by simp [szM, jDumpM]
  | .cons k v r, ind => by
    have h1 := szV_jDump v ind
    have h2 := szM_jDump r ind
    simp only [szM, jDumpM, List.length_cons, List.length_append]; omega
end

/-- a dumped collection begins with its bracket -/
theorem jDump_open (v : V) (ind : Option Nat) (hv : ∀ s, v ≠ .sc s) :
    ∃ c r, jDump ind v = c :: r ∧ (c = '{' || c = '[') = true := by
  match v, hv with
  | .sc s, hv => exact absurd rfl (hv s)
  | .list .nil, _ => exact ⟨'[', _, rfl, by decide⟩
  | .list (.cons x xs), _ => exact ⟨'[', _, rfl, by decide⟩
  | .dict .nil, _ => exact ⟨'{', _, rfl, by decide⟩
  | .dict (.cons k v r), _ => exact ⟨'{', _, rfl, by decide⟩

theorem jsonLoad_jDump (v : V) (ind : Option Nat) (rest : List Char) (hv : ∀ s, v ≠ .sc s) (hok : JOK v = true)
    (hrest : rest = [] ∨ rest = ['\n']) : jsonLoad (jDump ind v ++ rest) = some v := by
  have hp : (jDump ind v ++ rest).all yamlPrintable = true :=
    all_app (jDump_printable v ind hok) (by rcases hrest with e | e <;> (subst e; decide))
  have ht : termJ rest = true := by rcases hrest with e | e <;> (subst e; decide)
  have hf : szV v ≤ 2 * (jDump ind v ++ rest).length + 2 := by
    have := szV_jDump v ind
    simp only [List.length_append]; omega
  have hj := jValue_dump v ind _ rest hok hf ht
  obtain ⟨c, r, e, hc⟩ := jDump_open v ind hv
  unfold jsonLoad
  rw [if_pos hp, hj]
  rw [e] at *
  simp only [List.cons_append, hc, if_true]
  rcases hrest with e | e <;> (subst e; rfl)

end Jap.Scalar

import Jap.Core.Channels
import Jap.Lemmas.NamespaceSpec
/-!
Channels, assignment: `setK` on diverging keys commutes on a namespace that holds the keys, hence a list of
assignments to pairwise diverging keys may be permuted; document order is a permutation.
-/
namespace Jap.Channels

open Jap.NS

/-! ### D. assignments to diverging keys commute on a namespace that already holds the keys -/

theorem insert_comm {a b : SKey} (x y : V) (hab : a ≠ b) : ∀ kvs : KV, lookup a kvs ≠ .none → lookup b kvs ≠ .none →
    NS.insert a x (NS.insert b y kvs) = NS.insert b y (NS.insert a x kvs)
  | [], h, _ => by simp [lookup] at h
  | (k, v) :: r, ha, hb => by
    by_cases e1 : k = a
    · subst e1
      have e2 : ¬ k = b := hab
      simp [NS.insert, e2]
    · by_cases e2 : k = b
      · subst e2
        simp [NS.insert, e1]
      · simp only [lookup, e1, e2, if_false] at ha hb
        simp [NS.insert, e1, e2, insert_comm x y hab r ha hb]

/-- the value `setK (a :: p) v` stores under `a`, given what is there -/
def headVal (p : List SKey) (v : V) (old : Option V) : V :=
  match p with
  | [] => v
  | t :: rest =>
    match old with
    | some (.ns sub) => .ns (setK (t :: rest) v sub)
    | _ => .ns (setK (t :: rest) v [])

theorem setK_head (a : SKey) (p : List SKey) (v : V) (kvs : KV) :
    setK (a :: p) v kvs = NS.insert a (headVal p v (lookup a kvs)) kvs := by
  cases p with
  | nil => simp [setK, headVal]
  | cons t rest =>
    simp only [setK, headVal]
    split <;> simp_all

theorem lookup_of_getK_cons (a : SKey) (p : List SKey) (kvs : KV) (h : (getK (a :: p) kvs).isSome = true) :
    lookup a kvs ≠ .none := by
  cases p with
  | nil => simp only [getK] at h; intro e; simp [e] at h
  | cons t rest =>
    simp only [getK] at h
    intro e; simp [e] at h

theorem sub_of_getK_cons (s : SKey) (q : List SKey) (hq : q ≠ []) (kvs : KV) (h : (getK (s :: q) kvs).isSome = true) :
    ∃ sub, lookup s kvs = some (.ns sub) ∧ (getK q sub).isSome = true := by
  rw [getK_cons s q hq] at h
  split at h
  · rename_i sub hl; exact ⟨sub, hl, h⟩
  · simp at h

theorem setK_comm : ∀ (c : List SKey) (a b : SKey) (p q : List SKey) (v1 v2 : V) (ns : KV), a ≠ b →
    (getK (c ++ a :: p) ns).isSome = true → (getK (c ++ b :: q) ns).isSome = true →
    setK (c ++ a :: p) v1 (setK (c ++ b :: q) v2 ns) = setK (c ++ b :: q) v2 (setK (c ++ a :: p) v1 ns)
  | [], a, b, p, q, v1, v2, ns, hab, h1, h2 => by
    simp only [List.nil_append] at *
    rw [setK_head b q v2 ns, setK_head a p v1 ns, setK_head, setK_head,
      lookup_insert_other _ hab, lookup_insert_other _ (Ne.symm hab)]
    exact insert_comm _ _ hab ns (lookup_of_getK_cons a p ns h1) (lookup_of_getK_cons b q ns h2)
  | s :: c, a, b, p, q, v1, v2, ns, hab, h1, h2 => by
    have hq1 : c ++ a :: p ≠ [] := by simp
    have hq2 : c ++ b :: q ≠ [] := by simp
    simp only [List.cons_append] at *
    obtain ⟨sub, hl, g1⟩ := sub_of_getK_cons s _ hq1 ns h1
    obtain ⟨sub', hl', g2⟩ := sub_of_getK_cons s _ hq2 ns h2
    rw [hl] at hl'
    cases hl'
    have ih := setK_comm c a b p q v1 v2 sub hab g1 g2
    rw [setK_cons s _ hq2 v2 ns, setK_cons s _ hq1 v1 ns]
    simp only [hl]
    rw [setK_cons s _ hq1, setK_cons s _ hq2]
    simp only [lookup_insert_same, insert_insert_same, ih]

theorem diverge_symm {k k' : List SKey} (h : Diverge k k') : Diverge k' k := by
  obtain ⟨c, a, b, p, q, h1, h2, hab⟩ := h
  exact ⟨c, b, a, q, p, h2, h1, Ne.symm hab⟩

/-- pairwise diverging keys -/
def DivAsg (A : Asg) : Prop := A.Pairwise (fun x y => Diverge x.1 y.1)

def CoveredBy (A : Asg) (ns : KV) : Prop := ∀ a ∈ A, (getK a.1 ns).isSome = true

theorem covered_step (x : List SKey × V) (l : Asg) (ns : KV) (hd : ∀ a ∈ l, Diverge x.1 a.1) (hc : CoveredBy l ns) :
    CoveredBy l (setK x.1 x.2 ns) := by
  intro a ha
  obtain ⟨c, a', b', p, q, h1, h2, hab⟩ := hd a ha
  rw [h1, h2, getK_setK_diverge c a' b' p q x.2 ns hab, ← h2]
  exact hc a ha

theorem assign_perm {A B : Asg} (hp : A.Perm B) : ∀ ns, DivAsg A → CoveredBy A ns → assign A ns = assign B ns := by
  induction hp with
  | nil => intros; rfl
  | cons x _ ih =>
    intro ns hd hc
    simp only [assign, List.foldl_cons]
    have hd' := List.pairwise_cons.mp hd
    exact ih _ hd'.2 (covered_step x _ ns hd'.1 (fun a ha => hc a (List.mem_cons_of_mem _ ha)))
  | swap x y l =>
    intro ns hd hc
    simp only [assign, List.foldl_cons]
    have hd' := List.pairwise_cons.mp hd
    have hyx : Diverge y.1 x.1 := hd'.1 x (by simp)
    obtain ⟨c, a', b', p, q, h1, h2, hab⟩ := hyx
    have cy := hc y (by simp)
    have cx := hc x (by simp)
    rw [h1] at cy; rw [h2] at cx
    have := setK_comm c a' b' p q y.2 x.2 ns hab cy cx
    rw [← h1, ← h2] at this
    rw [this]
  | trans p1 _ ih1 ih2 =>
    intro ns hd hc
    rw [ih1 ns hd hc]
    apply ih2 ns
    · exact (List.Perm.pairwise_iff (fun h => diverge_symm h) p1).mp hd
    · intro a ha; exact hc a (p1.mem_iff.mpr ha)

/-! incomparable keys diverge -/

theorem diverge_of_not_prefix {α : Type} : ∀ (k k' : List α), ¬ k <+: k' → ¬ k' <+: k →
    ∃ c a b p q, k = c ++ a :: p ∧ k' = c ++ b :: q ∧ a ≠ b
  | [], k', h, _ => absurd (List.nil_prefix) h
  | _ :: _, [], _, h => absurd (List.nil_prefix) h
  | x :: r, y :: r', h1, h2 => by
    by_cases e : x = y
    · subst e
      have g1 : ¬ r <+: r' := fun g => h1 (List.cons_prefix_cons.mpr ⟨rfl, g⟩)
      have g2 : ¬ r' <+: r := fun g => h2 (List.cons_prefix_cons.mpr ⟨rfl, g⟩)
      obtain ⟨c, a, b, p, q, e1, e2, hab⟩ := diverge_of_not_prefix r r' g1 g2
      exact ⟨x :: c, a, b, p, q, by simp [e1], by simp [e2], hab⟩
    · exact ⟨[], x, y, r, r', rfl, rfl, e⟩

theorem mark_inj (clash : List String) {a b : String} (h : a ≠ b) : mark clash a ≠ mark clash b := by
  intro e
  have := congrArg SKey.name e
  exact h this

theorem diverge_skeys (P : Parser) (k k' : List String) (h : incomparable k k' = true) :
    Diverge (skeys P k) (skeys P k') := by
  simp only [incomparable, Bool.and_eq_true, Bool.not_eq_true', ← Bool.not_eq_true, List.isPrefixOf_iff_prefix] at h
  obtain ⟨c, a, b, p, q, e1, e2, hab⟩ := diverge_of_not_prefix k k' h.1 h.2
  exact ⟨skeys P c, mark P.clash a, mark P.clash b, skeys P p, skeys P q, by simp [skeys, e1], by simp [skeys, e2],
    mark_inj P.clash hab⟩

/-! ### E. document order is a permutation -/

theorem addHead_stripHead {α β : Type} [BEq α] [LawfulBEq α] (h : α) (e : List α × β) (he : hasHead h e = true) :
    addHead h (stripHead e) = e := by
  obtain ⟨k, v⟩ := e
  cases k with
  | nil => simp [hasHead] at he
  | cons x r =>
    simp only [hasHead, beq_iff_eq] at he
    subst he
    rfl

theorem groupOrder_perm {α β : Type} [BEq α] [LawfulBEq α] : ∀ (n : Nat) (l : List (List α × β)), (groupOrder n l).Perm l
  | 0, l => List.Perm.refl _
  | _ + 1, [] => List.Perm.refl _
  | n + 1, e :: r => by
    obtain ⟨k, v⟩ := e
    cases k with
    | nil =>
      simp only [groupOrder]
      exact (groupOrder_perm n r).cons _
    | cons h t =>
      simp only [groupOrder]
      have p1 := (groupOrder_perm n ((t, v) :: (r.filter (hasHead h)).map stripHead)).map (addHead h)
      have p2 := groupOrder_perm n (r.filter (fun x => !hasHead h x))
      have e1 : ((t, v) :: (r.filter (hasHead h)).map stripHead).map (addHead h) = (h :: t, v) :: r.filter (hasHead h) := by
        simp only [List.map_cons, addHead, List.map_map]
        congr 1
        have : ∀ x ∈ r.filter (hasHead h), (addHead h ∘ stripHead) x = x := by
          intro x hx
          exact addHead_stripHead h x (List.mem_filter.mp hx).2
        rw [List.map_congr_left this, List.map_id']
      rw [e1] at p1
      exact (p1.append p2).trans ((List.filter_append_perm (hasHead h) r).cons _)

theorem docOrder_perm {α β : Type} [BEq α] [LawfulBEq α] (l : List (List α × β)) : (docOrder l).Perm l :=
  groupOrder_perm _ l

end Jap.Channels

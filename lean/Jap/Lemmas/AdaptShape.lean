/-
Acceptance lemmas for the adapter model: outputs of hashable element types are hashable, a conforming value is
accepted, containers are accepted exactly when their elements are, a Union exactly when a member accepts
(or the original-string rescue applies), the `_check_type` wrapper.
-/
import Jap.Lemmas.AdaptSound
namespace Jap.Adapt

theorem hashableAll_iff : ∀ ys : List Val, hashableAll ys = true ↔ ∀ y ∈ ys, hashable y = true
  | [] => by simp [hashableAll]
  | y :: ys => by simp [hashableAll, hashableAll_iff ys]

/-! ### outputs of hashable element types -/

theorem hashTy_out (O : Oracle) : ∀ (t : Ty) (orig : Option String) (v w : Val),
    hashTy t = true → adapt O false orig t v = .ok w → hashable w = true
  | .any, _, _, _, ht, _ => by simp [hashTy] at ht
  | .list _, _, _, _, ht, _ => by simp [hashTy] at ht
  | .dict _ _, _, _, _, ht, _ => by simp [hashTy] at ht
  | .set _, _, _, _, ht, _ => by simp [hashTy] at ht
  | .literal ls, orig, v, w, _, h => by
    rw [adapt] at h; exact litMem_hashable ls w (adaptLiteral_litMem O ls v w h)
  | .str, _, v, w, _, h => by rw [adapt] at h; exact adaptLeaf_hashable O .str v w h
  | .int, _, v, w, _, h => by rw [adapt] at h; exact adaptLeaf_hashable O .int v w h
  | .float, _, v, w, _, h => by rw [adapt] at h; exact adaptLeaf_hashable O .float v w h
  | .bool, _, v, w, _, h => by rw [adapt] at h; exact adaptLeaf_hashable O .bool v w h
  | .none, _, v, w, _, h => by rw [adapt] at h; exact adaptLeaf_hashable O .none v w h
  | .enum c ms, _, v, w, _, h => by rw [adapt] at h; exact adaptEnum_hashable c ms v w h
  | .rnum b k, _, v, w, _, h => by
    rw [adapt] at h
    have := (adaptRnum_ok O b k v w h).1
    cases b <;> cases w <;> simp [RBase.has] at this <;> simp [hashable]
  | .reg k, _, v, w, _, h => by
    rw [adapt] at h
    obtain ⟨r, rfl⟩ := adaptReg_ok O k v w h
    simp [hashable]
  | .union ts, orig, v, w, ht, h => by
    rw [adapt_union_eq] at h
    split at h
    · rename_i w' hf
      simp at h; subst h
      obtain ⟨t, htm, hw⟩ := List.exists_of_findSome?_eq_some hf
      have htm := (mem_sortedMembers v ts t).mp htm
      have hlt : sizeOf t < sizeOf ts := List.sizeOf_lt_of_mem htm
      exact hashTy_out O t orig v w' (hashTyAll_mem (by simpa [hashTy] using ht) t htm) (okOf_eq_some.mp hw)
    · split at h
      · cases orig with
        | none => simp at h
        | some o => simp at h; subst h; simp [hashable]
      · simp at h
  | .tuple ts, orig, v, w, ht, h => by
    rw [adapt] at h
    cases hs : seqItems v with
    | none => simp [hs] at h
    | some xs =>
      simp only [hs] at h
      split at h
      · simp at h
      · cases hz : adaptZip O false ts xs with
        | error e => simp [hz] at h
        | ok ys =>
          simp [hz] at h; subst h
          simp only [hashable, hashableAll_iff]
          obtain ⟨hf, _⟩ := adaptZip_F2 O false ts xs ys hz
          refine hf.forall_right ?_
          intro tx htx y hy
          have htm : tx.1 ∈ ts := (List.of_mem_zip htx).1
          have hlt : sizeOf tx.1 < sizeOf ts := List.sizeOf_lt_of_mem htm
          exact hashTy_out O tx.1 .none tx.2 y (hashTyAll_mem (by simpa [hashTy] using ht) _ htm) hy
  | .tupleVar t, orig, v, w, ht, h => by
    rw [adapt] at h
    cases hs : seqItems v with
    | none => simp [hs] at h
    | some xs =>
      simp only [hs] at h
      cases hz : allM (fun x => adapt O false .none t x) xs with
      | error e => simp [hz] at h
      | ok ys =>
        simp [hz] at h; subst h
        simp only [hashable, hashableAll_iff]
        exact ((allM_ok_iff _ xs ys).mp hz).forall_right (fun x _ y hy =>
          hashTy_out O t .none x y (by simpa [hashTy] using ht) hy)
termination_by t => sizeOf t
decreasing_by all_goals simp_wf <;> omega

/-! ### the Union: accepted iff a member accepts or the rescue applies -/

theorem union_isOk (O : Oracle) (ser : Bool) (orig : Option String) (ts : List Ty) (v : Val) :
    isOk (adapt O ser orig (.union ts) v) = (ts.any (fun t => isOk (adapt O ser orig t v)) || rescued orig v ts) := by
  rw [adapt_union_eq]
  cases hf : (sortedMembers v id ts).findSome? (fun t => okOf (adapt O ser orig t v)) with
  | some w =>
    obtain ⟨t, htm, hw⟩ := List.exists_of_findSome?_eq_some hf
    have htm := (mem_sortedMembers v ts t).mp htm
    have : ts.any (fun t => isOk (adapt O ser orig t v)) = true :=
      List.any_eq_true.mpr ⟨t, htm, by rw [okOf_eq_some.mp hw]; rfl⟩
    simp [this]
  | none =>
    have hn : ts.any (fun t => isOk (adapt O ser orig t v)) = false := by
      rw [List.any_eq_false]
      intro t ht
      have := (List.findSome?_eq_none_iff.mp hf) t ((mem_sortedMembers v ts t).mpr ht)
      obtain ⟨e, he⟩ := okOf_eq_none.mp this
      simp [he]
    simp only [hn, Bool.false_or]
    cases hr : rescued orig v ts with
    | false => simp
    | true =>
      cases orig with
      | none => simp [rescued] at hr
      | some o => simp

theorem union_error_value (O : Oracle) (ser : Bool) (orig : Option String) (ts : List Ty) (v : Val) (e : Err)
    (h : adapt O ser orig (.union ts) v = .error e) : e = .value := by
  rw [adapt_union_eq] at h
  split at h
  · simp at h
  · split at h
    · cases orig <;> simp at h; exact h.symm
    · simp at h; exact h.symm

theorem union_members_error (O : Oracle) (ser : Bool) (orig : Option String) (ts : List Ty) (v : Val) (e : Err)
    (h : adapt O ser orig (.union ts) v = .error e) : ∀ t ∈ ts, ∃ e', adapt O ser orig t v = .error e' := by
  have := union_isOk O ser orig ts v
  rw [h] at this
  simp only [isOk_error, Bool.false_eq, Bool.or_eq_false_iff, List.any_eq_false] at this
  intro t ht
  exact (isOk_false_iff _).mp (by simpa using this.1 t ht)

/-- with no original string, the Union result comes from a member -/
theorem union_ok_member (O : Oracle) (ser : Bool) (ts : List Ty) (v w : Val)
    (h : adapt O ser .none (.union ts) v = .ok w) : ∃ t ∈ ts, adapt O ser .none t v = .ok w := by
  rw [adapt_union_eq] at h
  split at h
  · rename_i w' hf
    simp at h; subst h
    obtain ⟨t, htm, hw⟩ := List.exists_of_findSome?_eq_some hf
    exact ⟨t, (mem_sortedMembers v ts t).mp htm, okOf_eq_some.mp hw⟩
  · simp [rescued] at h

/-! ### containers -/

theorem adaptZip_isOk_iff (O : Oracle) (ser : Bool) : ∀ (ts : List Ty) (xs : List Val),
    isOk (adaptZip O ser ts xs) = true ↔
      xs.length = ts.length ∧ ∀ tx ∈ ts.zip xs, isOk (adapt O ser .none tx.1 tx.2) = true
  | [], [] => by simp [adaptZip]
  | [], _ :: _ => by simp [adaptZip]
  | _ :: _, [] => by simp [adaptZip]
  | t :: ts, x :: xs => by
    have ih := adaptZip_isOk_iff O ser ts xs
    simp only [adaptZip, List.zip_cons_cons, List.mem_cons, forall_eq_or_imp, List.length_cons, Nat.add_right_cancel_iff]
    cases hx : adapt O ser .none t x with
    | error e => simp
    | ok y =>
      cases hxs : adaptZip O ser ts xs with
      | error e =>
        rw [hxs] at ih
        simp only [isOk_error, Bool.false_eq_true, false_iff] at ih ⊢
        rintro ⟨hl, _, hall⟩; exact ih ⟨hl, hall⟩
      | ok ys =>
        rw [hxs] at ih
        simp only [isOk_ok, true_iff] at ih ⊢
        exact ⟨ih.1, trivial, ih.2⟩

theorem confLZip_iff {P : Nat → Val → Bool} (ll lk : Bool) : ∀ (ts : List Ty) (xs : List Val),
    confLZip P ll lk ts xs = true ↔ xs.length = ts.length ∧ ∀ tx ∈ ts.zip xs, confL P ll lk tx.1 tx.2 = true
  | [], [] => by simp [confLZip]
  | [], _ :: _ => by simp [confLZip]
  | _ :: _, [] => by simp [confLZip]
  | t :: ts, x :: xs => by
    simp only [confLZip, Bool.and_eq_true, confLZip_iff ll lk ts xs, List.zip_cons_cons, List.mem_cons,
      forall_eq_or_imp, List.length_cons, Nat.add_right_cancel_iff]
    constructor
    · rintro ⟨a, b, c⟩; exact ⟨b, a, c⟩
    · rintro ⟨b, a, c⟩; exact ⟨a, b, c⟩

theorem list_isOk (O : Oracle) (orig : Option String) (t : Ty) (v : Val) (xs : List Val) (hs : seqItems v = some xs) :
    isOk (adapt O false orig (.list t) v) = xs.all (fun x => isOk (adapt O false .none t x)) := by
  have key := allM_isOk (fun x => adapt O false .none t x) xs
  rw [adapt, hs]
  cases hz : allM (fun x => adapt O false .none t x) xs with
  | error e => rw [hz] at key; simp [hz, ← key]
  | ok ys => rw [hz] at key; simp [hz, ← key]

theorem tupleVar_isOk (O : Oracle) (orig : Option String) (t : Ty) (v : Val) (xs : List Val) (hs : seqItems v = some xs) :
    isOk (adapt O false orig (.tupleVar t) v) = xs.all (fun x => isOk (adapt O false .none t x)) := by
  have key := allM_isOk (fun x => adapt O false .none t x) xs
  rw [adapt, hs]
  cases hz : allM (fun x => adapt O false .none t x) xs with
  | error e => rw [hz] at key; simp [hz, ← key]
  | ok ys => rw [hz] at key; simp [hz, ← key]

theorem tuple_isOk_iff (O : Oracle) (orig : Option String) (ts : List Ty) (v : Val) (xs : List Val) (hs : seqItems v = some xs) :
    isOk (adapt O false orig (.tuple ts) v) = true ↔
      xs.length = ts.length ∧ ∀ tx ∈ ts.zip xs, isOk (adapt O false .none tx.1 tx.2) = true := by
  rw [← adaptZip_isOk_iff, adapt, hs]
  simp only
  by_cases hl : xs.length = ts.length
  · simp only [hl, bne_self_eq_false, Bool.false_eq_true, if_false]
    cases hz : adaptZip O false ts xs <;> simp
  · have : (xs.length != ts.length) = true := by simpa using hl
    simp only [this, if_true, isOk_error, Bool.false_eq_true, false_iff]
    intro h
    exact hl ((adaptZip_isOk_iff O false ts xs).mp h).1

/-- a Set also needs its converted elements to be hashable -/
theorem set_isOk (O : Oracle) (orig : Option String) (t : Ty) (v : Val) (xs : List Val) (hs : seqItems v = some xs) :
    isOk (adapt O false orig (.set t) v) =
      (match allM (fun x => adapt O false .none t x) xs with
       | .ok ys => hashableAll ys
       | .error _ => false) := by
  rw [adapt, hs]
  cases hz : allM (fun x => adapt O false .none t x) xs with
  | error e => simp [hz]
  | ok ys => cases hh : hashableAll ys <;> simp [hz, hh]

theorem set_isOk_hashTy (O : Oracle) (orig : Option String) (t : Ty) (v : Val) (xs : List Val) (hs : seqItems v = some xs)
    (ht : hashTy t = true) :
    isOk (adapt O false orig (.set t) v) = xs.all (fun x => isOk (adapt O false .none t x)) := by
  have key := allM_isOk (fun x => adapt O false .none t x) xs
  rw [set_isOk O orig t v xs hs]
  cases hz : allM (fun x => adapt O false .none t x) xs with
  | error e => rw [hz] at key; simp [hz, ← key]
  | ok ys =>
    rw [hz] at key
    simp only [hz, ← key, isOk_ok, hashableAll_iff]
    exact ((allM_ok_iff _ xs ys).mp hz).forall_right (fun x _ y hy => hashTy_out O t .none x y ht hy)

theorem kv_isOk (O : Oracle) (t : Ty) (kvs : List (DKey × Val)) :
    isOk (allM (fun (kx : DKey × Val) =>
        match adapt O false .none t kx.2 with
        | .error e => (.error e : Except Err (DKey × Val))
        | .ok y => .ok (kx.1, y)) kvs) = kvs.all (fun kv => isOk (adapt O false .none t kv.2)) := by
  rw [allM_isOk]
  congr 1; funext kx; cases adapt O false .none t kx.2 <;> rfl

theorem dictStr_isOk (O : Oracle) (orig : Option String) (t : Ty) (kvs : List (DKey × Val)) :
    isOk (adapt O false orig (.dict .str t) (.dict kvs)) = kvs.all (fun kv => isOk (adapt O false .none t kv.2)) := by
  have key := kv_isOk O t kvs
  simp only [adapt]
  cases hz : allM (fun (kx : DKey × Val) =>
        match adapt O false .none t kx.2 with
        | .error e => (.error e : Except Err (DKey × Val))
        | .ok y => .ok (kx.1, y)) kvs with
  | error e => rw [hz] at key; simp [hz, ← key]
  | ok ys => rw [hz] at key; simp [hz, ← key]

theorem dictInt_isOk (O : Oracle) (orig : Option String) (t : Ty) (kvs : List (DKey × Val)) :
    isOk (adapt O false orig (.dict .int t) (.dict kvs)) =
      (match castKeys O false kvs [] with
       | .ok kvs' => kvs'.all (fun kv => isOk (adapt O false .none t kv.2))
       | .error _ => false) := by
  simp only [adapt]
  cases castKeys O false kvs [] with
  | error e => simp
  | ok kvs' =>
    have key := kv_isOk O t kvs'
    simp only
    cases hz : allM (fun (kx : DKey × Val) =>
          match adapt O false .none t kx.2 with
          | .error e => (.error e : Except Err (DKey × Val))
          | .ok y => .ok (kx.1, y)) kvs' with
    | error e => rw [hz] at key; simp [hz, ← key]
    | ok ys => rw [hz] at key; simp [hz, ← key]

/-! ### a conforming value is accepted -/

theorem same_pyEq (l : Lit) (v : Val) (h : l.same v = true) : pyEq l.toVal v = true := by
  cases l <;> cases v <;> simp [Lit.same] at h <;> subst h <;> simp [Lit.toVal, pyEq, numOf]

theorem shape_gen (O : Oracle) : ∀ (t : Ty) (orig : Option String) (v : Val),
    conf O.rnumOk t v = true → setSafe t = true → isOk (adapt O false orig t v) = true
  | .any, _, v, _, _ => by simp [adapt]
  | .str, _, v, hc, _ => by cases v <;> simp [conf, confL] at hc; simp [adapt, adaptLeaf]
  | .int, _, v, hc, _ => by cases v <;> simp [conf, confL] at hc; simp [adapt, adaptLeaf, loadIfStr]
  | .float, _, v, hc, _ => by cases v <;> simp [conf, confL] at hc; simp [adapt, adaptLeaf, loadIfStr]
  | .bool, _, v, hc, _ => by cases v <;> simp [conf, confL] at hc; simp [adapt, adaptLeaf, loadIfStr]
  | .none, _, v, hc, _ => by cases v <;> simp [conf, confL] at hc; simp [adapt, adaptLeaf, loadIfStr]
  | .literal ls, _, v, hc, _ => by
    simp only [conf, confL, Bool.false_eq_true, if_false, List.any_eq_true] at hc
    obtain ⟨l, hm, hs⟩ := hc
    have hmem : litMem ls v = true := List.any_eq_true.mpr ⟨l, hm, same_pyEq l v hs⟩
    simp [adapt, adaptLiteral, hmem]
  | .enum c ms, _, v, hc, _ => by
    cases v <;> simp [conf, confL] at hc
    obtain ⟨rfl, hn⟩ := hc
    simp [adapt, adaptEnum, hn]
  | .rnum b k, _, v, hc, _ => by
    simp only [conf, confL, Bool.and_eq_true] at hc
    have hb : b.has v = true := by
      cases b <;> cases v <;> simp at hc <;> rfl
    simp [adapt, adaptRnum, rnumConv_fix O b v hb, hc.2]
  | .reg k, _, v, hc, _ => by
    cases v <;> simp [conf, confL] at hc
    subst hc
    simp [adapt, adaptReg_obj]
  | .union ts, orig, v, hc, hs => by
    rw [union_isOk]
    simp only [conf, confL, confLAny_iff] at hc
    obtain ⟨t, ht, hct⟩ := hc
    have hlt : sizeOf t < sizeOf ts := List.sizeOf_lt_of_mem ht
    have := shape_gen O t orig v hct (setSafeAll_mem (by simpa [setSafe] using hs) t ht)
    simp only [Bool.or_eq_true, List.any_eq_true]
    exact Or.inl ⟨t, ht, this⟩
  | .list t, orig, v, hc, hs => by
    cases v <;> simp [conf, confL] at hc
    rename_i xs
    rw [list_isOk O orig t (.list xs) xs rfl, List.all_eq_true]
    intro x hx
    exact shape_gen O t .none x (hc x hx) (by simpa [setSafe] using hs)
  | .tupleVar t, orig, v, hc, hs => by
    cases v <;> simp [conf, confL] at hc
    rename_i xs
    rw [tupleVar_isOk O orig t (.tuple xs) xs rfl, List.all_eq_true]
    intro x hx
    exact shape_gen O t .none x (hc x hx) (by simpa [setSafe] using hs)
  | .set t, orig, v, hc, hs => by
    cases v <;> simp [conf, confL] at hc
    rename_i xs
    simp only [setSafe, Bool.and_eq_true] at hs
    rw [set_isOk_hashTy O orig t (.set xs) xs rfl hs.1, List.all_eq_true]
    intro x hx
    exact shape_gen O t .none x (hc x hx) hs.2
  | .tuple ts, orig, v, hc, hs => by
    cases v <;> simp [conf, confL] at hc
    rename_i xs
    obtain ⟨hl, hall⟩ := (confLZip_iff _ _ ts xs).mp hc
    rw [tuple_isOk_iff O orig ts (.tuple xs) xs rfl]
    refine ⟨hl, ?_⟩
    intro tx htx
    have htm : tx.1 ∈ ts := (List.of_mem_zip htx).1
    have hlt : sizeOf tx.1 < sizeOf ts := List.sizeOf_lt_of_mem htm
    exact shape_gen O tx.1 .none tx.2 (hall tx htx) (setSafeAll_mem (by simpa [setSafe] using hs) _ htm)
  | .dict k t, orig, v, hc, hs => by
    cases v <;> simp [conf, confL] at hc
    rename_i kvs
    have hkv : ∀ kv ∈ kvs, DKey.conf k kv.1 = true ∧ confL O.rnumOk false false t kv.2 = true := fun kv hm => hc kv.1 kv.2 hm
    have hs' : setSafe t = true := by simpa [setSafe] using hs
    cases k with
    | str =>
      rw [dictStr_isOk, List.all_eq_true]
      intro kv hm
      exact shape_gen O t .none kv.2 (hkv kv hm).2 hs'
    | int =>
      rw [dictInt_isOk]
      have hint : ∀ kv ∈ kvs, kv.1.isInt = true := by
        intro kv hm
        have := (hkv kv hm).1
        cases hk1 : kv.1 <;> simp [hk1, DKey.conf] at this <;> simp [DKey.isInt]
      obtain ⟨r, hr⟩ := castKeys_int_ok O kvs [] hint
      simp only [hr, List.all_eq_true]
      intro kv hm
      obtain ⟨_, h2⟩ := castKeys_spec O kvs [] r hr (by simp) kv hm
      rcases h2 with h2 | ⟨kv0, hm0, he⟩
      · simp at h2
      · rw [he]; exact shape_gen O t .none kv0.2 (hkv kv0 hm0).2 hs'
termination_by t => sizeOf t
decreasing_by all_goals simp_wf <;> omega

/-! ### `_check_type` -/

theorem adapt_str_ok (O : Oracle) (ser : Bool) (orig : Option String) (s : String) :
    adapt O ser orig .str (.str s) = .ok (.str s) := by simp [adapt, adaptLeaf]

theorem adapt_str_error (O : Oracle) (ser : Bool) (orig : Option String) (v : Val) (h : isStr v = false) :
    adapt O ser orig .str v = .error .value := by
  cases v <;> simp [isStr] at h <;> simp [adapt, adaptLeaf]

theorem parseValueOrConfig_str (O : Oracle) (s : String) :
    parseValueOrConfig O (.str s) = .str s ∨ isStr (parseValueOrConfig O (.str s)) = false := by
  simp only [parseValueOrConfig]
  by_cases hb : isBlank s = true
  · simp [hb]
  · simp only [hb, Bool.false_eq_true, if_false]
    cases hl : loadValue O s with
    | none => simp
    | some w => cases w <;> simp [isStr]

/-- **a `str` argument is returned verbatim, whatever its text looks like** -/
theorem checkType_str (O : Oracle) (s : String) : checkType O .str (.str s) = .ok (.str s) := by
  unfold checkType
  simp only [origOf]
  rcases parseValueOrConfig_str O s with h | h
  · rw [h]; simp [adapt_str_ok]
  · rw [adapt_str_error O false (some s) _ h]
    simp [adapt_str_ok]

/-- acceptance of `_check_type` for a Union on an argument string, in closed form -/
theorem checkType_union_isOk (O : Oracle) (ts : List Ty) (s : String) :
    isOk (checkType O (.union ts) (.str s)) =
      (ts.any (fun t => isOk (adapt O false (some s) t (parseValueOrConfig O (.str s)))) ||
        (!isStr (parseValueOrConfig O (.str s)) && ts.any isStrTy) ||
       ts.any (fun t => isOk (adapt O false (some s) t (.str s))) ||
        (isStr (parseValueOrConfig O (.str s)) && ts.any isStrTy)) := by
  unfold checkType
  simp only [origOf]
  generalize parseValueOrConfig O (.str s) = val
  have h1 := union_isOk O false (some s) ts val
  have h2 := union_isOk O false (some s) ts (.str s)
  simp only [rescued, Option.isSome_some, Bool.true_and] at h1 h2
  have h2' : isOk (adapt O false (some s) (.union ts) (.str s)) =
      ts.any (fun t => isOk (adapt O false (some s) t (.str s))) := by
    rw [h2]; simp [isStr]
  cases ha : adapt O false (some s) (.union ts) val with
  | ok w =>
    rw [ha] at h1
    simp only [isOk_ok] at h1 ⊢
    rw [← h1]; simp
  | error e =>
    have he := union_error_value O false (some s) ts val e ha
    subst he
    rw [ha] at h1
    simp only [isOk_error] at h1
    cases hb : adapt O false (some s) (.union ts) (.str s) with
    | ok w =>
      rw [hb] at h2'
      simp only [isOk_ok] at h2' ⊢
      rw [← h1, ← h2']; simp
    | error e' =>
      rw [hb] at h2'
      simp only [isOk_error] at h2'
      rw [← h1, ← h2']
      simp only [isValidString, Bool.false_or]
      by_cases hv : (isStr val && ts.any isStrTy) = true
      · simp [hv]
      · simp only [hv, if_false, isOk_error]
        simpa using hv

end Jap.Adapt

import Jap.Core.ValidatePos
/-!
Helper lemmas for the engine "Validate" (C06).

* unfolding lemmas for the mutually recursive checker (`walk`, `chkCls`, `chkItems`, `chkVal`, `reqFields`);
* association lists: first occurrence, replacement, appending;
* leaves of configurations;
* subcommand selection is stable under changes that do not touch the selecting keys.
-/
namespace Jap.Validate

/-! ## the loop bodies, named -/

/-- the check of one entry of a namespace level (the body of the loop of `walk`) -/
def entry (ld : String → Val) (pre : Path) (cut : Nat) (fs : Fields) (sel : Option String) (k : String) (v : Val) : R :=
  match slotOf fs k with
  | .field n => chkVal ld (pre ++ [.key k]) cut false n v
  | .sect cfs => if sel = some k then chkVal ld (pre ++ [.key k]) cut false (.group false cfs) v else .ok ()
  | .none =>
    if metaLeaf k v then .ok () else
    match appendSlot fs k with
    | some (b, n) => if appendOk ld n v then .ok () else .error (.type (pre ++ [.key b]) cut)
    | none => if leafless v then .ok () else .error (.unknown (pre ++ [.key k] ++ (deepPath v).map .key) cut)

/-- the check of one entry of a class specification -/
def clsEntry (ld : String → Val) (pre : Path) (cfs : Fields) (k : String) (v : Val) : R :=
  if k = "class_path" then .ok ()
  else if k = "init_args" then chkVal ld (pre ++ [.key "init_args"]) pre.length true (.group true cfs) v
  else if k = "dict_kwargs" then .ok ()
  else if k = "__path__" then .ok ()
  else .error (.unknown (pre ++ [.key k]) pre.length)

/-- sequencing of checks -/
def andThen (a : R) (b : R) : R :=
  match a with
  | .error e => .error e
  | .ok () => b

@[simp] theorem andThen_ok (b : R) : andThen (.ok ()) b = b := rfl
@[simp] theorem andThen_error (e : Err) (b : R) : andThen (.error e) b = .error e := rfl

theorem andThen_eq_ok {a b : R} : andThen a b = .ok () ↔ a = .ok () ∧ b = .ok () := by
  cases a with
  | error e => simp [andThen]
  | ok u => cases u; simp [andThen]

theorem walk_nil (ld pre cut fs sel) : walk ld pre cut fs sel [] = .ok () := by
  rw [walk]

theorem walk_cons (ld pre cut fs sel k v r) :
    walk ld pre cut fs sel ((k, v) :: r) = andThen (entry ld pre cut fs sel k v) (walk ld pre cut fs sel r) := by
  rw [walk]
  unfold entry
  cases hs : slotOf fs k with
  | field n =>
    simp only []
    cases chkVal ld (pre ++ [.key k]) cut false n v with
    | error e => rfl
    | ok u => cases u; rfl
  | sect cfs =>
    simp only []
    by_cases h : sel = some k
    · simp only [h, if_true]
      cases chkVal ld (pre ++ [.key k]) cut false (.group false cfs) v with
      | error e => rfl
      | ok u => cases u; rfl
    · simp only [h]; rfl
  | none =>
    simp only []
    by_cases hm : metaLeaf k v = true
    · simp only [hm, if_true]; rfl
    · simp only [hm]
      cases ha : appendSlot fs k with
      | some bn =>
        obtain ⟨b, n⟩ := bn
        simp only []
        by_cases h : appendOk ld n v = true
        · simp only [h, if_true]; rfl
        · simp only [h]; rfl
      | none =>
        simp only []
        by_cases h : leafless v = true
        · simp only [h, if_true]; rfl
        · simp only [h]; rfl

theorem chkCls_nil (ld pre cfs) : chkCls ld pre cfs [] = .ok () := by
  rw [chkCls]

theorem chkCls_cons (ld pre cfs k v r) :
    chkCls ld pre cfs ((k, v) :: r) = andThen (clsEntry ld pre cfs k v) (chkCls ld pre cfs r) := by
  rw [chkCls]
  unfold clsEntry
  by_cases h1 : k = "class_path"
  · simp only [h1, if_true]; rfl
  · simp only [h1, if_false]
    by_cases h2 : k = "init_args"
    · simp only [h2, if_true]
      cases chkVal ld (pre ++ [.key "init_args"]) pre.length true (.group true cfs) v with
      | error e => rfl
      | ok u => cases u; rfl
    · simp only [h2, if_false]
      by_cases h3 : k = "dict_kwargs"
      · simp only [h3, if_true]; rfl
      · simp only [h3, if_false]
        by_cases h4 : k = "__path__"
        · simp only [h4, if_true]; rfl
        · simp only [h4, if_false]; rfl

theorem chkItems_nil (ld pre i it) : chkItems ld pre i it [] = .ok () := by
  rw [chkItems]

theorem chkItems_cons (ld pre i it x r) :
    chkItems ld pre i it (x :: r) =
      andThen (chkVal ld (pre ++ [.idx i]) (pre.length + 1) true it x) (chkItems ld pre (i + 1) it r) := by
  rw [chkItems]
  cases chkVal ld (pre ++ [.idx i]) (pre.length + 1) true it x with
  | error e => rfl
  | ok u => cases u; rfl

theorem reqFields_nil (pre cut kvs) : reqFields pre cut kvs [] = .ok () := by
  rw [reqFields]

theorem reqFields_cons (pre cut kvs name node r) :
    reqFields pre cut kvs ((name, node) :: r) = andThen (reqNode pre cut kvs name node) (reqFields pre cut kvs r) := by
  rw [reqFields]
  cases reqNode pre cut kvs name node with
  | error e => rfl
  | ok u => cases u; rfl

/-! ## `chkVal` by shape -/

theorem chkVal_group_dict (ld pre cut item whole fs kvs) :
    chkVal ld pre cut item (.group whole fs) (.dict kvs) =
      if item then andThen (walk ld pre pre.length fs (selected fs kvs) kvs) (reqFields pre pre.length kvs fs)
      else walk ld pre cut fs (selected fs kvs) kvs := by
  rw [chkVal]
  cases item with
  | false => simp
  | true =>
    simp only [if_true]
    cases walk ld pre pre.length fs (selected fs kvs) kvs with
    | error e => rfl
    | ok u => cases u; rfl

theorem validate_eq (ld fs kvs) :
    validate ld fs kvs = andThen (walk ld [] 0 fs (selected fs kvs) kvs) (reqFields [] 0 kvs fs) := by
  unfold validate
  rw [chkVal_group_dict]
  simp

theorem chkVal_list (ld pre cut item req it xs) :
    chkVal ld pre cut item (.listOf req it) (.list xs) = chkItems ld pre 0 it xs := by
  rw [chkVal]

/-- the check of a class specification given as a mapping -/
def clsDict (ld : String → Val) (pre : Path) (cut : Nat) (cls : Choices) (kvs : KV) : R :=
  match assoc "class_path" kvs with
  | some (.str c) =>
    match assoc c cls with
    | some cfs =>
      andThen (chkCls ld pre cfs kvs)
        (if hasKey "init_args" kvs then .ok () else reqFields (pre ++ [.key "init_args"]) (pre.length + 1) [] cfs)
    | none => .error (.type pre cut)
  | _ => .error (.type pre cut)

theorem chkVal_class_dict_of {ld pre cut item req imp cls kvs cfs} (h : classOf cls kvs = some cfs) :
    chkVal ld pre cut item (.classArg req imp cls) (.dict kvs) = clsDict ld pre cut cls kvs := by
  rw [chkVal]
  unfold clsDict
  unfold classOf at h
  cases h1 : assoc "class_path" kvs with
  | none => simp [h1] at h
  | some cv =>
    cases cv with
    | str c =>
      simp only []
      cases h2 : assoc c cls with
      | none => rfl
      | some cfs' =>
        simp only []
        cases chkCls ld pre cfs' kvs with
        | error e => rfl
        | ok u => cases u; rfl
    | null => simp [h1] at h
    | bool b => simp [h1] at h
    | int i => simp [h1] at h
    | flt r => simp [h1] at h
    | list xs => simp [h1] at h
    | dict d => simp [h1] at h

/-! ## an accepted level: every entry passed its check -/

theorem walk_ok_assoc {ld pre cut fs sel} : ∀ {kvs : KV} {k : String} {v : Val},
    walk ld pre cut fs sel kvs = .ok () → assoc k kvs = some v → entry ld pre cut fs sel k v = .ok ()
  | [], k, v, _, h => by simp [assoc] at h
  | (k', v') :: r, k, v, hw, h => by
    rw [walk_cons, andThen_eq_ok] at hw
    unfold assoc at h
    by_cases hk : k' = k
    · simp only [hk, if_true, Option.some.injEq] at h
      subst h; subst hk; exact hw.1
    · simp only [hk, if_false] at h
      exact walk_ok_assoc hw.2 h

theorem chkCls_ok_assoc {ld pre cfs} : ∀ {kvs : KV} {k : String} {v : Val},
    chkCls ld pre cfs kvs = .ok () → assoc k kvs = some v → clsEntry ld pre cfs k v = .ok ()
  | [], k, v, _, h => by simp [assoc] at h
  | (k', v') :: r, k, v, hw, h => by
    rw [chkCls_cons, andThen_eq_ok] at hw
    unfold assoc at h
    by_cases hk : k' = k
    · simp only [hk, if_true, Option.some.injEq] at h
      subst h; subst hk; exact hw.1
    · simp only [hk, if_false] at h
      exact chkCls_ok_assoc hw.2 h

theorem chkItems_ok_get {ld pre it} : ∀ {xs : List Val} {i j : Nat} {x : Val},
    chkItems ld pre i it xs = .ok () → xs[j]? = some x →
    chkVal ld (pre ++ [.idx (i + j)]) (pre.length + 1) true it x = .ok ()
  | [], i, j, x, _, h => by simp at h
  | y :: r, i, 0, x, hw, h => by
    rw [chkItems_cons, andThen_eq_ok] at hw
    simp only [List.getElem?_cons_zero, Option.some.injEq] at h
    subst h
    simpa using hw.1
  | y :: r, i, j + 1, x, hw, h => by
    rw [chkItems_cons, andThen_eq_ok] at hw
    simp only [List.getElem?_cons_succ] at h
    have := chkItems_ok_get (i := i + 1) (j := j) hw.2 h
    have e : i + 1 + j = i + (j + 1) := by omega
    rw [e] at this
    exact this

/-! ## leaves -/

theorem leafless_dict (kvs : KV) : leafless (.dict kvs) = leaflessKVs kvs := by
  rw [leafless]

theorem leaflessKVs_nil : leaflessKVs [] = true := by
  rw [leaflessKVs]

theorem leaflessKVs_cons (k : String) (v : Val) (r : KV) :
    leaflessKVs ((k, v) :: r) = (leafless v && leaflessKVs r) := by
  rw [leaflessKVs]

theorem leaflessKVs_assoc : ∀ {kvs : KV} {k : String} {v : Val},
    leaflessKVs kvs = true → assoc k kvs = some v → leafless v = true
  | [], k, v, _, h => by simp [assoc] at h
  | (k', v') :: r, k, v, hl, h => by
    rw [leaflessKVs_cons, Bool.and_eq_true] at hl
    unfold assoc at h
    by_cases hk : k' = k
    · simp only [hk, if_true, Option.some.injEq] at h
      subst h; exact hl.1
    · simp only [hk, if_false] at h
      exact leaflessKVs_assoc hl.2 h

theorem leafless_eq_true_dict {v : Val} (h : leafless v = true) : ∃ kvs, v = .dict kvs := by
  cases v with
  | dict kvs => exact ⟨kvs, rfl⟩
  | null => simp [leafless] at h
  | bool b => simp [leafless] at h
  | int i => simp [leafless] at h
  | str s => simp [leafless] at h
  | flt r => simp [leafless] at h
  | list xs => simp [leafless] at h

/-- everything inside a mapping without leaves is a mapping without leaves -/
theorem leafless_getPath : ∀ (p : Path) {v w : Val}, leafless v = true → getPath v p = some w → leafless w = true
  | [], v, w, hl, h => by
    simp only [getPath, Option.some.injEq] at h
    subst h; exact hl
  | seg :: r, v, w, hl, h => by
    obtain ⟨kvs, rfl⟩ := leafless_eq_true_dict hl
    cases seg with
    | idx i => simp [getPath] at h
    | key k =>
      simp only [getPath] at h
      cases ha : assoc k kvs with
      | none => simp [ha] at h
      | some v1 =>
        simp only [ha] at h
        rw [leafless_dict] at hl
        exact leafless_getPath r (leaflessKVs_assoc hl ha) h

/-! ## accepted positions -/

/-- the check applying at a position succeeds (for some prefix / cut) -/
def OkAt (ld : String → Val) (p : Pos) : Prop := ∃ pre cut, chkVal ld pre cut p.item p.node p.val = .ok ()

theorem walk_of_group_ok {ld pre cut item whole fs kvs}
    (h : chkVal ld pre cut item (.group whole fs) (.dict kvs) = .ok ()) :
    ∃ cut', walk ld pre cut' fs (selected fs kvs) kvs = .ok () := by
  rw [chkVal_group_dict] at h
  cases item with
  | false => exact ⟨cut, by simpa using h⟩
  | true =>
    simp only [if_true, andThen_eq_ok] at h
    exact ⟨_, h.1⟩

theorem clsDict_ok {ld pre cut cls kvs} (h : clsDict ld pre cut cls kvs = .ok ()) :
    ∃ cfs, classOf cls kvs = some cfs ∧ chkCls ld pre cfs kvs = .ok () := by
  unfold clsDict at h
  unfold classOf
  cases h1 : assoc "class_path" kvs with
  | none => simp [h1] at h
  | some cv =>
    cases cv with
    | str c =>
      simp only [h1] at h ⊢
      cases h2 : assoc c cls with
      | none => simp [h2] at h
      | some cfs =>
        simp only [h2, andThen_eq_ok] at h
        exact ⟨cfs, rfl, h.1⟩
    | null => simp [h1] at h
    | bool b => simp [h1] at h
    | int i => simp [h1] at h
    | flt r => simp [h1] at h
    | list xs => simp [h1] at h
    | dict d => simp [h1] at h

theorem okAt_child {ld} {p q : Pos} {seg : Seg} (hp : OkAt ld p) (hc : child p seg = .pos q) : OkAt ld q := by
  obtain ⟨item, node, val⟩ := p
  obtain ⟨pre, cut, hok⟩ := hp
  simp only at hok
  cases node with
  | leaf ty req d => simp [child] at hc
  | subcommands req cs => simp [child] at hc
  | group whole fs =>
    cases val with
    | dict kvs =>
      cases seg with
      | idx i => simp [child] at hc
      | key k =>
        obtain ⟨cut', hw⟩ := walk_of_group_ok hok
        simp only [child] at hc
        cases ha : assoc k kvs with
        | none => simp [ha] at hc
        | some v =>
          simp only [ha] at hc
          have he := walk_ok_assoc hw ha
          unfold entry at he
          cases hs : slotOf fs k with
          | field n =>
            simp only [hs, Next.pos.injEq] at hc he
            subst hc
            exact ⟨_, _, he⟩
          | sect cfs =>
            simp only [hs] at hc he
            by_cases hsel : selected fs kvs = some k
            · simp only [hsel, if_true, Next.pos.injEq] at hc he
              subst hc
              exact ⟨_, _, he⟩
            · simp [hsel] at hc
          | none => simp only [hs] at hc; split at hc <;> simp at hc
    | null => simp [child] at hc
    | bool b => simp [child] at hc
    | int i => simp [child] at hc
    | str s => simp [child] at hc
    | flt r => simp [child] at hc
    | list xs => simp [child] at hc
  | classArg req imp cls =>
    cases val with
    | dict kvs =>
      cases seg with
      | idx i => simp [child] at hc
      | key k =>
        have hsome : ∃ cfs0, classOf cls kvs = some cfs0 := by
          cases hh : classOf cls kvs with
          | some c0 => exact ⟨c0, rfl⟩
          | none =>
            exfalso
            simp only [child] at hc
            cases ha : assoc k kvs <;> simp [ha, hh] at hc
        obtain ⟨cfs0, hcls0⟩ := hsome
        rw [chkVal_class_dict_of hcls0] at hok
        obtain ⟨cfs, hcls, hck⟩ := clsDict_ok hok
        simp only [child] at hc
        cases ha : assoc k kvs with
        | none => simp [ha] at hc
        | some v =>
          simp only [ha, hcls] at hc
          have he := chkCls_ok_assoc hck ha
          unfold clsEntry at he
          by_cases h1 : k = "class_path"
          · simp [h1] at hc
          · simp only [h1, if_false] at hc he
            by_cases h2 : k = "init_args"
            · simp only [h2, if_true, Next.pos.injEq] at hc he
              subst hc
              exact ⟨_, _, he⟩
            · simp only [h2, if_false] at hc
              by_cases h3 : k = "dict_kwargs" <;> by_cases h4 : k = "__path__" <;> simp [h3, h4] at hc
    | null => simp [child] at hc
    | bool b => simp [child] at hc
    | int i => simp [child] at hc
    | str s => simp [child] at hc
    | flt r => simp [child] at hc
    | list xs => simp [child] at hc
  | optGroup req ogfs => simp [child] at hc
  | listOf req it =>
    cases val with
    | list xs =>
      cases seg with
      | key k => simp [child] at hc
      | idx i =>
        rw [chkVal_list] at hok
        simp only [child] at hc
        cases hx : xs[i]? with
        | none => simp [hx] at hc
        | some x =>
          simp only [hx, Next.pos.injEq] at hc
          subst hc
          have := chkItems_ok_get (i := 0) hok hx
          exact ⟨_, _, this⟩
    | null => simp [child] at hc
    | bool b => simp [child] at hc
    | int i => simp [child] at hc
    | str s => simp [child] at hc
    | flt r => simp [child] at hc
    | dict d => simp [child] at hc

/-- a child position holds the value found one step down -/
theorem child_pos_getPath {p q : Pos} {seg : Seg} (hc : child p seg = .pos q) (r : Path) :
    getPath p.val (seg :: r) = getPath q.val r := by
  obtain ⟨item, node, val⟩ := p
  cases node with
  | leaf ty req d => simp [child] at hc
  | subcommands req cs => simp [child] at hc
  | group whole fs =>
    cases val with
    | dict kvs =>
      cases seg with
      | idx i => simp [child] at hc
      | key k =>
        simp only [child] at hc
        cases ha : assoc k kvs with
        | none => simp [ha] at hc
        | some v =>
          simp only [ha] at hc
          simp only [getPath, ha]
          cases hs : slotOf fs k with
          | field n => simp only [hs, Next.pos.injEq] at hc; subst hc; rfl
          | sect cfs =>
            simp only [hs] at hc
            by_cases hsel : selected fs kvs = some k
            · simp only [hsel, if_true, Next.pos.injEq] at hc; subst hc; rfl
            · simp [hsel] at hc
          | none => simp only [hs] at hc; split at hc <;> simp at hc
    | null => simp [child] at hc
    | bool b => simp [child] at hc
    | int i => simp [child] at hc
    | str s => simp [child] at hc
    | flt r => simp [child] at hc
    | list xs => simp [child] at hc
  | classArg req imp cls =>
    cases val with
    | dict kvs =>
      cases seg with
      | idx i => simp [child] at hc
      | key k =>
        simp only [child] at hc
        cases ha : assoc k kvs with
        | none => simp [ha] at hc
        | some v =>
          simp only [ha] at hc
          simp only [getPath, ha]
          cases hcls : classOf cls kvs with
          | none => simp [hcls] at hc
          | some cfs =>
            simp only [hcls] at hc
            by_cases h1 : k = "class_path"
            · simp [h1] at hc
            · simp only [h1, if_false] at hc
              by_cases h2 : k = "init_args"
              · simp only [h2, if_true, Next.pos.injEq] at hc; subst hc; rfl
              · simp only [h2, if_false] at hc
                by_cases h3 : k = "dict_kwargs" <;> by_cases h4 : k = "__path__" <;> simp [h3, h4] at hc
    | null => simp [child] at hc
    | bool b => simp [child] at hc
    | int i => simp [child] at hc
    | str s => simp [child] at hc
    | flt r => simp [child] at hc
    | list xs => simp [child] at hc
  | optGroup req ogfs => simp [child] at hc
  | listOf req it =>
    cases val with
    | list xs =>
      cases seg with
      | key k => simp [child] at hc
      | idx i =>
        simp only [child] at hc
        cases hx : xs[i]? with
        | none => simp [hx] at hc
        | some x =>
          simp only [hx, Next.pos.injEq] at hc
          subst hc
          simp only [getPath, hx]
    | null => simp [child] at hc
    | bool b => simp [child] at hc
    | int i => simp [child] at hc
    | str s => simp [child] at hc
    | flt r => simp [child] at hc
    | dict d => simp [child] at hc

/-- at an accepted position a key without definition holds no leaf -/
theorem okAt_child_undefined {ld} {p : Pos} {seg : Seg} {r : Path} {w : Val}
    (hp : OkAt ld p) (hc : child p seg = .undefinedKey) (hg : getPath p.val (seg :: r) = some w) :
    leafless w = true := by
  obtain ⟨item, node, val⟩ := p
  obtain ⟨pre, cut, hok⟩ := hp
  simp only at hok hg
  cases node with
  | leaf ty req d => simp [child] at hc
  | subcommands req cs => simp [child] at hc
  | group whole fs =>
    cases val with
    | dict kvs =>
      cases seg with
      | idx i => simp [child] at hc
      | key k =>
        obtain ⟨cut', hw⟩ := walk_of_group_ok hok
        simp only [child] at hc
        cases ha : assoc k kvs with
        | none => simp [ha] at hc
        | some v =>
          simp only [ha] at hc
          simp only [getPath, ha] at hg
          have he := walk_ok_assoc hw ha
          unfold entry at he
          cases hs : slotOf fs k with
          | field n => simp [hs] at hc
          | sect cfs =>
            simp only [hs] at hc
            by_cases hsel : selected fs kvs = some k <;> simp [hsel] at hc
          | none =>
            simp only [hs] at he hc
            cases hap : appendSlot fs k with
            | some bn => simp [hap] at hc
            | none =>
              simp only [hap] at he
              by_cases hm : metaLeaf k v = true
              · simp [hm] at hc
              · simp only [hm] at he
                by_cases hl : leafless v = true
                · exact leafless_getPath r hl hg
                · simp [hl] at he
    | null => simp [child] at hc
    | bool b => simp [child] at hc
    | int i => simp [child] at hc
    | str s => simp [child] at hc
    | flt r => simp [child] at hc
    | list xs => simp [child] at hc
  | classArg req imp cls =>
    cases val with
    | dict kvs =>
      cases seg with
      | idx i => simp [child] at hc
      | key k =>
        have hsome : ∃ cfs0, classOf cls kvs = some cfs0 := by
          cases hh : classOf cls kvs with
          | some c0 => exact ⟨c0, rfl⟩
          | none =>
            exfalso
            simp only [child] at hc
            cases ha : assoc k kvs <;> simp [ha, hh] at hc
        obtain ⟨cfs0, hcls0⟩ := hsome
        rw [chkVal_class_dict_of hcls0] at hok
        obtain ⟨cfs, hcls, hck⟩ := clsDict_ok hok
        simp only [child] at hc
        cases ha : assoc k kvs with
        | none => simp [ha] at hc
        | some v =>
          simp only [ha, hcls] at hc
          have he := chkCls_ok_assoc hck ha
          unfold clsEntry at he
          by_cases h1 : k = "class_path"
          · simp [h1] at hc
          · simp only [h1, if_false] at hc he
            by_cases h2 : k = "init_args"
            · simp [h2] at hc
            · simp only [h2, if_false] at hc he
              by_cases h3 : k = "dict_kwargs"
              · simp [h3] at hc
              · by_cases h4 : k = "__path__"
                · simp [h3, h4] at hc
                · simp [h3, h4] at he
    | null => simp [child] at hc
    | bool b => simp [child] at hc
    | int i => simp [child] at hc
    | str s => simp [child] at hc
    | flt r => simp [child] at hc
    | list xs => simp [child] at hc
  | optGroup req ogfs => simp [child] at hc
  | listOf req it =>
    cases val with
    | list xs =>
      cases seg with
      | key k => simp [child] at hc
      | idx i =>
        simp only [child] at hc
        cases hx : xs[i]? <;> simp [hx] at hc
    | null => simp [child] at hc
    | bool b => simp [child] at hc
    | int i => simp [child] at hc
    | str s => simp [child] at hc
    | flt r => simp [child] at hc
    | dict d => simp [child] at hc

/-- **no key with a leaf below it is left without definition** at or below an accepted position -/
theorem reach_ne_undefined {ld} : ∀ (path : Path) {p : Pos} {w : Val},
    OkAt ld p → getPath p.val path = some w → leafless w = false → reach p path ≠ .undefinedKey
  | [], p, w, _, _, _ => by simp [reach]
  | seg :: r, p, w, hp, hg, hl => by
    cases hc : child p seg with
    | pos q =>
      simp only [reach, hc]
      rw [child_pos_getPath hc] at hg
      exact reach_ne_undefined r (okAt_child hp hc) hg hl
    | undefinedKey =>
      have := okAt_child_undefined hp hc hg
      rw [this] at hl
      cases hl
    | data => simp [reach, hc]
    | unselected => simp [reach, hc]
    | dictKwargs => simp [reach, hc]
    | absent => simp [reach, hc]

/-! ## required keys -/

theorem assoc_mem {β : Type} : ∀ {l : List (String × β)} {k : String} {v : β}, assoc k l = some v → (k, v) ∈ l
  | [], k, v, h => by simp [assoc] at h
  | (k', v') :: r, k, v, h => by
    unfold assoc at h
    by_cases hk : k' = k
    · simp only [hk, if_true, Option.some.injEq] at h
      subst h; subst hk; exact List.mem_cons_self
    · simp only [hk, if_false] at h
      exact List.mem_cons_of_mem _ (assoc_mem h)

theorem reqFields_ok_mem {pre cut kvs} : ∀ {fs : Fields} {name : String} {node : Node},
    reqFields pre cut kvs fs = .ok () → (name, node) ∈ fs → reqNode pre cut kvs name node = .ok ()
  | [], _, _, _, h => by simp at h
  | (n', nd') :: r, name, node, hr, h => by
    rw [reqFields_cons, andThen_eq_ok] at hr
    rcases List.mem_cons.mp h with h | h
    · cases h; exact hr.1
    · exact reqFields_ok_mem hr.2 h

theorem subOf_mem : ∀ {fs : Fields} {d : String} {rq : Bool} {cs : Choices},
    subOf fs = some (d, rq, cs) → (d, Node.subcommands rq cs) ∈ fs
  | [], _, _, _, h => by simp [subOf] at h
  | (n, nd) :: r, d, rq, cs, h => by
    cases nd with
    | subcommands rq' cs' =>
      simp only [subOf, Option.some.injEq, Prod.mk.injEq] at h
      obtain ⟨rfl, rfl, rfl⟩ := h
      exact List.mem_cons_self
    | leaf ty req dflt => simp only [subOf] at h; exact List.mem_cons_of_mem _ (subOf_mem h)
    | group w gfs => simp only [subOf] at h; exact List.mem_cons_of_mem _ (subOf_mem h)
    | classArg req imp cls => simp only [subOf] at h; exact List.mem_cons_of_mem _ (subOf_mem h)
    | listOf req it => simp only [subOf] at h; exact List.mem_cons_of_mem _ (subOf_mem h)
    | optGroup req ogfs => simp only [subOf] at h; exact List.mem_cons_of_mem _ (subOf_mem h)

theorem reqChoices_ok {pre cut kvs dest req c} : ∀ {cs : Choices} {cfs : Fields},
    reqChoices pre cut kvs dest req c cs = .ok () → assoc c cs = some cfs →
    reqFields (pre ++ [.key c]) cut (kvsOf (assoc c kvs)) cfs = .ok ()
  | [], _, _, h => by simp [assoc] at h
  | (c', cfs') :: r, cfs, hr, h => by
    rw [reqChoices] at hr
    unfold assoc at h
    by_cases hc : c' = c
    · simp only [hc, if_true, Option.some.injEq] at h hr
      subst h; exact hr
    · simp only [hc, if_false] at h hr
      exact reqChoices_ok hr h

theorem reqNode_group {pre cut kvs name w gfs} :
    reqNode pre cut kvs name (.group w gfs) = reqFields (pre ++ [.key name]) cut (kvsOf (assoc name kvs)) gfs := by
  rw [reqNode]

theorem reqNode_sub {pre cut kvs name rq cs} :
    reqNode pre cut kvs name (.subcommands rq cs) =
      match selectedOf name cs kvs with
      | none => if rq then .error (.noSubcommand (pre ++ [.key name]) cut) else .ok ()
      | some c => reqChoices pre cut kvs name rq c cs := by
  rw [reqNode]
  cases selectedOf name cs kvs <;> rfl

/-- an accepted parser level: each level reached through groups and the selected section is accepted -/
theorem reqFields_levelIn {cut} : ∀ (ks : List String) {pre : Path} {fs : Fields} {kvs : KV} {fs2 : Fields} {kvs2 : KV},
    reqFields pre cut kvs fs = .ok () → levelIn fs kvs ks = some (fs2, kvs2) →
    reqFields (pre ++ ks.map .key) cut kvs2 fs2 = .ok ()
  | [], pre, fs, kvs, fs2, kvs2, hr, hl => by
    simp only [levelIn, Option.some.injEq, Prod.mk.injEq] at hl
    obtain ⟨rfl, rfl⟩ := hl
    simpa using hr
  | k :: rest, pre, fs, kvs, fs2, kvs2, hr, hl => by
    simp only [levelIn] at hl
    have e : pre ++ (k :: rest).map Seg.key = (pre ++ [.key k]) ++ rest.map Seg.key := by simp
    rw [e]
    cases hs : slotOf fs k with
    | none => simp [hs] at hl
    | field n =>
      cases n with
      | group w gfs =>
        simp only [hs] at hl
        have ha : assoc k fs = some (.group w gfs) := by
          unfold slotOf at hs
          cases h : assoc k fs with
          | some n' => simp only [h, Slot.field.injEq] at hs; rw [hs]
          | none =>
            simp only [h] at hs
            cases h2 : subOf fs with
            | none => simp [h2] at hs
            | some t =>
              obtain ⟨d, rq, cs⟩ := t
              simp only [h2] at hs
              cases h3 : assoc k cs <;> simp [h3] at hs
        have := reqFields_ok_mem hr (assoc_mem ha)
        rw [reqNode_group] at this
        exact reqFields_levelIn rest this hl
      | leaf ty req d => simp [hs] at hl
      | classArg req imp cls => simp [hs] at hl
      | listOf req it => simp [hs] at hl
      | optGroup req ogfs => simp [hs] at hl
      | subcommands rq cs => simp [hs] at hl
    | sect cfs =>
      simp only [hs] at hl
      by_cases hsel : selected fs kvs = some k
      · simp only [hsel, if_true] at hl
        unfold slotOf at hs
        cases h : assoc k fs with
        | some n' => simp [h] at hs
        | none =>
          simp only [h] at hs
          cases h2 : subOf fs with
          | none => simp [h2] at hs
          | some t =>
            obtain ⟨d, rq, cs⟩ := t
            simp only [h2] at hs
            cases h3 : assoc k cs with
            | none => simp [h3] at hs
            | some cfs' =>
              simp only [h3, Slot.sect.injEq] at hs
              subst hs
              have hn := reqFields_ok_mem hr (subOf_mem h2)
              rw [reqNode_sub] at hn
              unfold selected at hsel
              simp only [h2] at hsel
              simp only [hsel] at hn
              exact reqFields_levelIn rest (reqChoices_ok hn h3) hl
      · simp [hsel] at hl

theorem getPath_dict_cons (kvs : KV) (k : String) (r : Path) :
    getPath (.dict kvs) (.key k :: r) = match assoc k kvs with | some v => getPath v r | none => none := by
  rw [getPath]
  cases assoc k kvs <;> rfl

theorem getPath_nil (v : Val) : getPath v [] = some v := by
  cases v <;> rw [getPath]

theorem getPath_append : ∀ (p q : Path) (v : Val), getPath v (p ++ q) = (getPath v p).bind (fun w => getPath w q)
  | [], q, v => by simp [getPath_nil]
  | seg :: r, q, v => by
    cases v with
    | dict kvs =>
      cases seg with
      | key k =>
        simp only [List.cons_append, getPath_dict_cons]
        cases assoc k kvs with
        | none => rfl
        | some v1 => exact getPath_append r q v1
      | idx i => simp [getPath]
    | list xs =>
      cases seg with
      | key k => simp [getPath]
      | idx i =>
        simp only [List.cons_append, getPath]
        cases xs[i]? with
        | none => rfl
        | some v1 => exact getPath_append r q v1
    | null => simp [getPath]
    | bool b => simp [getPath]
    | int i => simp [getPath]
    | str s => simp [getPath]
    | flt r => simp [getPath]

/-- the part of the configuration at a level of the parser: what is found at the dotted key (or nothing) -/
theorem levelIn_getPath : ∀ (ks : List String) {fs : Fields} {kvs : KV} {fs2 : Fields} {kvs2 : KV},
    levelIn fs kvs ks = some (fs2, kvs2) → kvs2 = [] ∨ getPath (.dict kvs) (ks.map .key) = some (.dict kvs2)
  | [], fs, kvs, fs2, kvs2, hl => by
    simp only [levelIn, Option.some.injEq, Prod.mk.injEq] at hl
    obtain ⟨rfl, rfl⟩ := hl
    right; simp [getPath_nil]
  | k :: rest, fs, kvs, fs2, kvs2, hl => by
    simp only [levelIn] at hl
    have step : ∀ {fs1 : Fields}, levelIn fs1 (kvsOf (assoc k kvs)) rest = some (fs2, kvs2) →
        kvs2 = [] ∨ getPath (.dict kvs) ((k :: rest).map .key) = some (.dict kvs2) := by
      intro fs1 h
      rcases levelIn_getPath rest h with h0 | h1
      · exact Or.inl h0
      · simp only [List.map_cons, getPath_dict_cons]
        cases ha : assoc k kvs with
        | none =>
          simp only [ha, kvsOf] at h1
          cases rest with
          | nil =>
            simp only [List.map_nil, getPath_nil, Option.some.injEq, Val.dict.injEq] at h1
            exact Or.inl h1.symm
          | cons r rs => simp [getPath_dict_cons, assoc] at h1
        | some v1 =>
          cases v1 with
          | dict g => simp only [ha, kvsOf] at h1; exact Or.inr h1
          | null =>
            simp only [ha, kvsOf] at h1
            cases rest with
            | nil => simp only [List.map_nil, getPath_nil, Option.some.injEq, Val.dict.injEq] at h1; exact Or.inl h1.symm
            | cons r rs => simp [getPath_dict_cons, assoc] at h1
          | bool b =>
            simp only [ha, kvsOf] at h1
            cases rest with
            | nil => simp only [List.map_nil, getPath_nil, Option.some.injEq, Val.dict.injEq] at h1; exact Or.inl h1.symm
            | cons r rs => simp [getPath_dict_cons, assoc] at h1
          | int i =>
            simp only [ha, kvsOf] at h1
            cases rest with
            | nil => simp only [List.map_nil, getPath_nil, Option.some.injEq, Val.dict.injEq] at h1; exact Or.inl h1.symm
            | cons r rs => simp [getPath_dict_cons, assoc] at h1
          | str s =>
            simp only [ha, kvsOf] at h1
            cases rest with
            | nil => simp only [List.map_nil, getPath_nil, Option.some.injEq, Val.dict.injEq] at h1; exact Or.inl h1.symm
            | cons r rs => simp [getPath_dict_cons, assoc] at h1
          | flt f =>
            simp only [ha, kvsOf] at h1
            cases rest with
            | nil => simp only [List.map_nil, getPath_nil, Option.some.injEq, Val.dict.injEq] at h1; exact Or.inl h1.symm
            | cons r rs => simp [getPath_dict_cons, assoc] at h1
          | list xs =>
            simp only [ha, kvsOf] at h1
            cases rest with
            | nil => simp only [List.map_nil, getPath_nil, Option.some.injEq, Val.dict.injEq] at h1; exact Or.inl h1.symm
            | cons r rs => simp [getPath_dict_cons, assoc] at h1
    cases hs : slotOf fs k with
    | none => simp [hs] at hl
    | field n =>
      cases n with
      | group w gfs => simp only [hs] at hl; exact step hl
      | leaf ty req d => simp [hs] at hl
      | classArg req imp cls => simp [hs] at hl
      | listOf req it => simp [hs] at hl
      | optGroup req ogfs => simp [hs] at hl
      | subcommands rq cs => simp [hs] at hl
    | sect cfs =>
      simp only [hs] at hl
      by_cases hsel : selected fs kvs = some k
      · simp only [hsel, if_true] at hl; exact step hl
      · simp [hsel] at hl

theorem isNullOrMissing_false {o : Option Val} (h : isNullOrMissing o = false) : ∃ v, o = some v ∧ v ≠ .null := by
  cases o with
  | none => simp [isNullOrMissing] at h
  | some v =>
    cases v with
    | null => simp [isNullOrMissing] at h
    | bool b => exact ⟨_, rfl, by simp⟩
    | int i => exact ⟨_, rfl, by simp⟩
    | str s => exact ⟨_, rfl, by simp⟩
    | flt r => exact ⟨_, rfl, by simp⟩
    | list xs => exact ⟨_, rfl, by simp⟩
    | dict d => exact ⟨_, rfl, by simp⟩

/-- `reqNode` on a node that can be required -/
def reqLeafLike (pre : Path) (cut : Nat) (kvs : KV) (name : String) (req : Bool) : R :=
  if req && isNullOrMissing (assoc name kvs) then .error (.required (pre ++ [.key name]) cut) else .ok ()

theorem reqNode_required_err {pre cut kvs name} {n : Node} (hn : isRequiredNode n = true)
    (hm : isNullOrMissing (assoc name kvs) = true) :
    reqNode pre cut kvs name n = .error (.required (pre ++ [.key name]) cut) := by
  cases n with
  | leaf ty req d => simp only [isRequiredNode] at hn; subst hn; rw [reqNode]; simp [hm]
  | classArg req imp cls => simp only [isRequiredNode] at hn; subst hn; rw [reqNode]; simp [hm]
  | listOf req it => simp only [isRequiredNode] at hn; subst hn; rw [reqNode]; simp [hm]
  | optGroup req ogfs => simp only [isRequiredNode] at hn; subst hn; rw [reqNode]; simp [hm]
  | group w gfs => simp [isRequiredNode] at hn
  | subcommands rq cs => simp [isRequiredNode] at hn

theorem reqNode_required_ok {pre cut kvs name} {n : Node} (hn : isRequiredNode n = true)
    (h : reqNode pre cut kvs name n = .ok ()) : isNullOrMissing (assoc name kvs) = false := by
  cases hm : isNullOrMissing (assoc name kvs) with
  | false => rfl
  | true => rw [reqNode_required_err hn hm] at h; cases h

/-- an accepted level holds a non-null value for each of its required keys -/
theorem reqFields_required {pre cut kvs fs r n} (hr : reqFields pre cut kvs fs = .ok ())
    (ha : assoc r fs = some n) (hn : isRequiredNode n = true) : ∃ v, assoc r kvs = some v ∧ v ≠ .null := by
  have := reqFields_ok_mem hr (assoc_mem ha)
  exact isNullOrMissing_false (reqNode_required_ok hn this)

/-- walking down from an accepted position keeps to accepted positions and to the values of the configuration -/
theorem okAt_reach {ld} : ∀ (path : Path) {p q : Pos}, OkAt ld p → reach p path = .pos q →
    OkAt ld q ∧ ∀ r, getPath p.val (path ++ r) = getPath q.val r
  | [], p, q, hp, hr => by
    simp only [reach, Next.pos.injEq] at hr
    subst hr
    exact ⟨hp, fun r => by simp⟩
  | seg :: rest, p, q, hp, hr => by
    cases hc : child p seg with
    | pos p1 =>
      simp only [reach, hc] at hr
      obtain ⟨h1, h2⟩ := okAt_reach rest (okAt_child hp hc) hr
      refine ⟨h1, fun r => ?_⟩
      rw [List.cons_append, child_pos_getPath hc]
      exact h2 r
    | undefinedKey => simp [reach, hc] at hr
    | data => simp [reach, hc] at hr
    | unselected => simp [reach, hc] at hr
    | dictKwargs => simp [reach, hc] at hr
    | absent => simp [reach, hc] at hr

/-- a parser position (a per-class parser, or the top-level parser) that is accepted has passed `check_required` -/
theorem okAt_parser_req {ld w fs kvs} (h : OkAt ld ⟨true, .group w fs, .dict kvs⟩) :
    ∃ pre cut, reqFields pre cut kvs fs = .ok () := by
  obtain ⟨pre, cut, hok⟩ := h
  rw [chkVal_group_dict] at hok
  simp only [if_true, andThen_eq_ok] at hok
  exact ⟨_, _, hok.2⟩

theorem reqChoices_required_mem {pre cut kvs dest c} : ∀ {cs : Choices},
    reqChoices pre cut kvs dest true c cs = .ok () → ∃ cfs, assoc c cs = some cfs
  | [], h => by rw [reqChoices] at h; simp at h
  | (c', cfs') :: r, h => by
    rw [reqChoices] at h
    unfold assoc
    by_cases hc : c' = c
    · exact ⟨cfs', by simp [hc]⟩
    · simp only [hc, if_false] at h ⊢
      exact reqChoices_required_mem h

theorem root_okAt {ld fs kvs} (h : validate ld fs kvs = .ok ()) : OkAt ld (root fs kvs) :=
  ⟨[], 0, h⟩

/-! ## association lists under replacement and appending -/

theorem assoc_append_ne {β : Type} {k z : String} {w : β} (h : k ≠ z) : ∀ (l : List (String × β)),
    assoc k (l ++ [(z, w)]) = assoc k l
  | [] => by simp [assoc, Ne.symm h]
  | (k', v') :: r => by
    simp only [List.cons_append, assoc]
    by_cases hk : k' = k
    · simp [hk]
    · simp only [hk, if_false]; exact assoc_append_ne h r

theorem assoc_replace_ne {k k' : String} {v : Val} (h : k' ≠ k) : ∀ (l : KV), assoc k' (replace k v l) = assoc k' l
  | [] => by simp [replace]
  | (k0, v0) :: r => by
    unfold replace
    by_cases h0 : k0 = k
    · simp only [h0, if_true, assoc]
      have : ¬ k = k' := fun e => h e.symm
      simp [this]
    · simp only [h0, if_false, assoc]
      by_cases h1 : k0 = k'
      · simp [h1]
      · simp only [h1, if_false]; exact assoc_replace_ne h r

theorem assoc_replace_same {k : String} {v v1 : Val} : ∀ {l : KV}, assoc k l = some v1 → assoc k (replace k v l) = some v
  | [], h => by simp [assoc] at h
  | (k0, v0) :: r, h => by
    unfold replace
    unfold assoc at h
    by_cases h0 : k0 = k
    · simp [h0, assoc]
    · simp only [h0, if_false] at h ⊢
      simp only [assoc, h0, if_false]
      exact assoc_replace_same h

theorem mem_assoc_isSome {β : Type} : ∀ {l : List (String × β)} {k : String} {v : β}, (k, v) ∈ l → (assoc k l).isSome = true
  | [], _, _, h => by simp at h
  | (k', v') :: r, k, v, h => by
    unfold assoc
    by_cases hk : k' = k
    · simp [hk]
    · simp only [hk, if_false]
      rcases List.mem_cons.mp h with h | h
      · cases h; exact absurd rfl hk
      · exact mem_assoc_isSome h

/-! ## the loops under replacement and appending -/

theorem walk_append {ld pre cut fs sel} : ∀ (l1 l2 : KV),
    walk ld pre cut fs sel (l1 ++ l2) = andThen (walk ld pre cut fs sel l1) (walk ld pre cut fs sel l2)
  | [], l2 => by simp [walk_nil]
  | (k, v) :: r, l2 => by
    simp only [List.cons_append, walk_cons, walk_append r l2]
    cases entry ld pre cut fs sel k v with
    | error e => rfl
    | ok u => cases u; rfl

theorem walk_replace_err {ld pre cut fs sel k v1 v1' e} : ∀ {kvs : KV},
    walk ld pre cut fs sel kvs = .ok () → assoc k kvs = some v1 → entry ld pre cut fs sel k v1' = .error e →
    walk ld pre cut fs sel (replace k v1' kvs) = .error e
  | [], _, h, _ => by simp [assoc] at h
  | (k0, v0) :: r, hw, ha, he => by
    rw [walk_cons, andThen_eq_ok] at hw
    unfold replace
    unfold assoc at ha
    by_cases h0 : k0 = k
    · simp only [h0, if_true]
      rw [walk_cons, he]; rfl
    · simp only [h0, if_false] at ha ⊢
      rw [walk_cons, hw.1]
      exact walk_replace_err hw.2 ha he

theorem walk_replace_ok {ld pre cut fs sel k v1 v1'} : ∀ {kvs : KV},
    walk ld pre cut fs sel kvs = .ok () → assoc k kvs = some v1 → entry ld pre cut fs sel k v1' = .ok () →
    walk ld pre cut fs sel (replace k v1' kvs) = .ok ()
  | [], _, h, _ => by simp [assoc] at h
  | (k0, v0) :: r, hw, ha, he => by
    rw [walk_cons, andThen_eq_ok] at hw
    unfold replace
    unfold assoc at ha
    by_cases h0 : k0 = k
    · simp only [h0, if_true]
      rw [walk_cons, he]; exact hw.2
    · simp only [h0, if_false] at ha ⊢
      rw [walk_cons, hw.1]
      exact walk_replace_ok hw.2 ha he

theorem chkCls_append {ld pre cfs} : ∀ (l1 l2 : KV),
    chkCls ld pre cfs (l1 ++ l2) = andThen (chkCls ld pre cfs l1) (chkCls ld pre cfs l2)
  | [], l2 => by simp [chkCls_nil]
  | (k, v) :: r, l2 => by
    simp only [List.cons_append, chkCls_cons, chkCls_append r l2]
    cases clsEntry ld pre cfs k v with
    | error e => rfl
    | ok u => cases u; rfl

theorem chkCls_replace_err {ld pre cfs k v1 v1' e} : ∀ {kvs : KV},
    chkCls ld pre cfs kvs = .ok () → assoc k kvs = some v1 → clsEntry ld pre cfs k v1' = .error e →
    chkCls ld pre cfs (replace k v1' kvs) = .error e
  | [], _, h, _ => by simp [assoc] at h
  | (k0, v0) :: r, hw, ha, he => by
    rw [chkCls_cons, andThen_eq_ok] at hw
    unfold replace
    unfold assoc at ha
    by_cases h0 : k0 = k
    · simp only [h0, if_true]
      rw [chkCls_cons, he]; rfl
    · simp only [h0, if_false] at ha ⊢
      rw [chkCls_cons, hw.1]
      exact chkCls_replace_err hw.2 ha he

theorem chkItems_set_err {ld pre it x' e} : ∀ {xs : List Val} {i j : Nat} {x : Val},
    chkItems ld pre i it xs = .ok () → xs[j]? = some x →
    chkVal ld (pre ++ [.idx (i + j)]) (pre.length + 1) true it x' = .error e →
    chkItems ld pre i it (xs.set j x') = .error e
  | [], i, j, x, _, h, _ => by simp at h
  | y :: r, i, 0, x, hw, h, he => by
    simp only [List.set_cons_zero]
    rw [chkItems_cons]
    simp only [Nat.add_zero] at he
    rw [he]; rfl
  | y :: r, i, j + 1, x, hw, h, he => by
    rw [chkItems_cons, andThen_eq_ok] at hw
    simp only [List.getElem?_cons_succ] at h
    simp only [List.set_cons_succ]
    rw [chkItems_cons, hw.1]
    have e1 : i + (j + 1) = i + 1 + j := by omega
    rw [e1] at he
    exact chkItems_set_err hw.2 h he

/-! ## subcommand selection is stable under changes elsewhere -/

theorem firstSection_congr {kvs kvs' : KV} : ∀ (cs : Choices),
    (∀ c f, (c, f) ∈ cs → isSection (assoc c kvs') = isSection (assoc c kvs)) →
    firstSection kvs' cs = firstSection kvs cs
  | [], _ => rfl
  | (c, f) :: r, h => by
    simp only [firstSection]
    rw [h c f List.mem_cons_self, firstSection_congr r (fun c' f' hm => h c' f' (List.mem_cons_of_mem _ hm))]

theorem selectedOf_congr {d : String} {cs : Choices} {kvs kvs' : KV} (hd : assoc d kvs' = assoc d kvs)
    (hc : ∀ c f, (c, f) ∈ cs → isSection (assoc c kvs') = isSection (assoc c kvs)) :
    selectedOf d cs kvs' = selectedOf d cs kvs := by
  unfold selectedOf
  rw [hd, firstSection_congr cs hc]

theorem firstSection_some_isSection {kvs : KV} {k : String} : ∀ {cs : Choices},
    firstSection kvs cs = some k → isSection (assoc k kvs) = true
  | [], h => by simp [firstSection] at h
  | (c, f) :: r, h => by
    simp only [firstSection] at h
    by_cases hs : isSection (assoc c kvs) = true
    · simp only [hs, if_true, Option.some.injEq] at h; subst h; exact hs
    · simp only [hs] at h; exact firstSection_some_isSection h

theorem firstSection_replace_sel {kvs : KV} {k : String} {v1' : Val} (hv : isSection (some v1') = true)
    (hk : (assoc k kvs).isSome = true) : ∀ {cs : Choices},
    firstSection kvs cs = some k → firstSection (replace k v1' kvs) cs = some k
  | [], h => by simp [firstSection] at h
  | (c, f) :: r, h => by
    simp only [firstSection] at h ⊢
    have hsome : ∃ v1, assoc k kvs = some v1 := by
      cases hh : assoc k kvs with
      | none => simp [hh] at hk
      | some v1 => exact ⟨v1, rfl⟩
    obtain ⟨v1, hv1⟩ := hsome
    by_cases hck : c = k
    · subst hck
      rw [assoc_replace_same hv1, hv]; rfl
    · rw [assoc_replace_ne hck]
      by_cases hs : isSection (assoc c kvs) = true
      · simp only [hs, if_true, Option.some.injEq] at h; exact absurd h hck
      · simp only [hs] at h ⊢
        exact firstSection_replace_sel hv hk h

/-- the `dest` of the subcommands action is a field name of the level -/
theorem subOf_assoc_isSome {fs : Fields} {d : String} {rq : Bool} {cs : Choices} (h : subOf fs = some (d, rq, cs)) :
    (assoc d fs).isSome = true := mem_assoc_isSome (subOf_mem h)

theorem slotOf_sect {fs : Fields} {k : String} {cfs : Fields} (hs : slotOf fs k = .sect cfs) :
    assoc k fs = none ∧ ∃ d rq cs, subOf fs = some (d, rq, cs) ∧ assoc k cs = some cfs := by
  unfold slotOf at hs
  cases h : assoc k fs with
  | some n' => simp [h] at hs
  | none =>
    simp only [h] at hs
    cases h2 : subOf fs with
    | none => simp [h2] at hs
    | some t =>
      obtain ⟨d, rq, cs⟩ := t
      simp only [h2] at hs
      cases h3 : assoc k cs with
      | none => simp [h3] at hs
      | some cfs' =>
        simp only [h3, Slot.sect.injEq] at hs
        subst hs
        exact ⟨rfl, d, rq, cs, rfl, h3⟩

theorem slotOf_field {fs : Fields} {k : String} {n : Node} (hs : slotOf fs k = .field n) : assoc k fs = some n := by
  unfold slotOf at hs
  cases h : assoc k fs with
  | some n' => simp only [h, Slot.field.injEq] at hs; rw [hs]
  | none =>
    simp only [h] at hs
    cases h2 : subOf fs with
    | none => simp [h2] at hs
    | some t =>
      obtain ⟨d, rq, cs⟩ := t
      simp only [h2] at hs
      cases h3 : assoc k cs <;> simp [h3] at hs

theorem slotOf_none {fs : Fields} {k : String} (hs : slotOf fs k = .none) :
    assoc k fs = none ∧ ∀ d rq cs, subOf fs = some (d, rq, cs) → assoc k cs = none := by
  unfold slotOf at hs
  cases h : assoc k fs with
  | some n' => simp [h] at hs
  | none =>
    refine ⟨rfl, ?_⟩
    intro d rq cs h2
    simp only [h, h2] at hs
    cases h3 : assoc k cs with
    | none => rfl
    | some cfs' => simp [h3] at hs

/-- changing the value under the key of the selected section keeps it selected, provided it stays a section when it was one -/
theorem selected_replace_sect {fs : Fields} {kvs : KV} {k : String} {cfs : Fields} {v1 v1' : Val}
    (hs : slotOf fs k = .sect cfs) (hsel : selected fs kvs = some k) (ha : assoc k kvs = some v1)
    (hmono : isSection (some v1) = true → isSection (some v1') = true) :
    selected fs (replace k v1' kvs) = some k := by
  obtain ⟨hnone, d, rq, cs, hsub, _⟩ := slotOf_sect hs
  have hdk : d ≠ k := by
    intro e
    have := subOf_assoc_isSome hsub
    rw [e, hnone] at this
    cases this
  unfold selected at hsel ⊢
  simp only [hsub] at hsel ⊢
  unfold selectedOf at hsel ⊢
  rw [assoc_replace_ne hdk]
  have hfs : firstSection kvs cs = some k → firstSection (replace k v1' kvs) cs = some k := by
    intro h
    have h1 := firstSection_some_isSection h
    rw [ha] at h1
    exact firstSection_replace_sel (hmono h1) (by simp [ha]) h
  cases hd : assoc d kvs with
  | none => simp only [hd] at hsel ⊢; exact hfs hsel
  | some dv =>
    cases dv with
    | str c => simp only [hd] at hsel ⊢; exact hsel
    | null => simp only [hd] at hsel ⊢; exact hfs hsel
    | bool b => simp [hd] at hsel
    | int i => simp [hd] at hsel
    | flt r => simp [hd] at hsel
    | list xs => simp [hd] at hsel
    | dict dd => simp [hd] at hsel

/-- neither a string nor null: what the selection reads from the `dest` key does not distinguish such values -/
def isContainer : Val → Bool
  | .dict _ => true
  | .list _ => true
  | _ => false

theorem subChoicesOk_mem {fs : Fields} : ∀ {l : Fields} {nm : String} {rq : Bool} {cs : Choices},
    subChoicesOk fs l = true → (nm, Node.subcommands rq cs) ∈ l → ∀ c f, (c, f) ∈ cs → assoc c fs = none
  | [], _, _, _, _, h => by simp at h
  | (n0, nd0) :: r, nm, rq, cs, hok, hm => by
    intro c f hcf
    rcases List.mem_cons.mp hm with h | h
    · cases h
      simp only [subChoicesOk, Bool.and_eq_true, List.all_eq_true] at hok
      have := hok.1 (c, f) hcf
      simp only [hasKey, Bool.not_eq_true', Option.isSome_eq_false_iff, Option.isNone_iff_eq_none] at this
      exact this
    · cases nd0 with
      | subcommands rq0 cs0 =>
        simp only [subChoicesOk, Bool.and_eq_true] at hok
        exact subChoicesOk_mem hok.2 h c f hcf
      | leaf ty req d => simp only [subChoicesOk] at hok; exact subChoicesOk_mem hok h c f hcf
      | group w g => simp only [subChoicesOk] at hok; exact subChoicesOk_mem hok h c f hcf
      | classArg req imp cls => simp only [subChoicesOk] at hok; exact subChoicesOk_mem hok h c f hcf
      | listOf req it => simp only [subChoicesOk] at hok; exact subChoicesOk_mem hok h c f hcf
      | optGroup req ogfs => simp only [subChoicesOk] at hok; exact subChoicesOk_mem hok h c f hcf

theorem noClash_choices {fs : Fields} (hn : noClash fs = true) {nm : String} {rq : Bool} {cs : Choices}
    (hm : (nm, Node.subcommands rq cs) ∈ fs) {c : String} {f : Fields} (hcf : (c, f) ∈ cs) : assoc c fs = none := by
  unfold noClash at hn
  simp only [Bool.and_eq_true] at hn
  exact subChoicesOk_mem hn.1 hm c f hcf

theorem noClash_choice_ne {fs : Fields} {d : String} {rq : Bool} {cs : Choices} (hn : noClash fs = true)
    (hsub : subOf fs = some (d, rq, cs)) {c : String} {f : Fields} (hm : (c, f) ∈ cs) : assoc c fs = none :=
  noClash_choices hn (subOf_mem hsub) hm

theorem noClash_dest {fs : Fields} {d : String} {rq : Bool} {cs : Choices} (hn : noClash fs = true)
    (hsub : subOf fs = some (d, rq, cs)) : ∃ rq' cs', assoc d fs = some (.subcommands rq' cs') := by
  unfold noClash at hn
  simp only [Bool.and_eq_true, hsub] at hn
  cases h : assoc d fs with
  | none => simp [h] at hn
  | some nd =>
    cases nd with
    | subcommands rq' cs' => exact ⟨rq', cs', rfl⟩
    | leaf ty req dd => simp [h] at hn
    | group w g => simp [h] at hn
    | classArg req imp cls => simp [h] at hn
    | listOf req it => simp [h] at hn
    | optGroup req ogfs => simp [h] at hn

/-- changing a container value under an argument key (not a section) does not change the selection -/
theorem selected_replace_field {fs : Fields} {kvs : KV} {k : String} {n : Node} {v1 v1' : Val}
    (hs : slotOf fs k = .field n) (hn : noClash fs = true) (ha : assoc k kvs = some v1)
    (hc1 : isContainer v1 = true) (hc2 : isContainer v1' = true) :
    selected fs (replace k v1' kvs) = selected fs kvs := by
  unfold selected
  cases hsub : subOf fs with
  | none => rfl
  | some t =>
    obtain ⟨d, rq, cs⟩ := t
    simp only []
    have hkf := slotOf_field hs
    have hcs : ∀ c f, (c, f) ∈ cs → isSection (assoc c (replace k v1' kvs)) = isSection (assoc c kvs) := by
      intro c f hm
      have hcn := noClash_choice_ne hn hsub hm
      have : c ≠ k := by
        intro e; rw [e, hkf] at hcn; cases hcn
      rw [assoc_replace_ne this]
    by_cases hdk : d = k
    · subst hdk
      unfold selectedOf
      rw [assoc_replace_same ha, ha]
      cases v1 <;> simp [isContainer] at hc1 <;> cases v1' <;> simp [isContainer] at hc2 <;> rfl
    · exact selectedOf_congr (assoc_replace_ne hdk kvs) hcs

/-- appending a key that the level does not define does not change the selection -/
theorem selected_append_foreign {fs : Fields} {kvs : KV} {z : String} {w : Val} (hs : slotOf fs z = .none) :
    selected fs (kvs ++ [(z, w)]) = selected fs kvs := by
  unfold selected
  cases hsub : subOf fs with
  | none => rfl
  | some t =>
    obtain ⟨d, rq, cs⟩ := t
    simp only []
    obtain ⟨hnone, hcs⟩ := slotOf_none hs
    have hzc := hcs d rq cs hsub
    have hdz : d ≠ z := by
      intro e
      have := subOf_assoc_isSome hsub
      rw [e, hnone] at this
      cases this
    refine selectedOf_congr (assoc_append_ne hdz kvs) ?_
    intro c f hm
    have : c ≠ z := by
      intro e
      have := mem_assoc_isSome hm
      rw [e, hzc] at this
      cases this
    rw [assoc_append_ne this]

/-! ## modifications that keep the enclosing levels checked as before -/

def SameKind (v v' : Val) : Prop := (∃ a b, v = .dict a ∧ v' = .dict b) ∨ (∃ a b, v = .list a ∧ v' = .list b)

/-- a container stays a container of the same kind, and keeps a leaf when it had one -/
def GoodPair (v v' : Val) : Prop := SameKind v v' ∧ (leafless v = false → leafless v' = false)

theorem SameKind.container {v v' : Val} (h : SameKind v v') : isContainer v = true ∧ isContainer v' = true := by
  rcases h with ⟨a, b, rfl, rfl⟩ | ⟨a, b, rfl, rfl⟩ <;> simp [isContainer]

theorem GoodPair.section_mono {v v' : Val} (h : GoodPair v v') : isSection (some v) = true → isSection (some v') = true := by
  rcases h.1 with ⟨a, b, rfl, rfl⟩ | ⟨a, b, rfl, rfl⟩
  · intro hs
    simp only [isSection, Bool.not_eq_true'] at hs ⊢
    have := h.2 (by rw [leafless_dict]; exact hs)
    rw [leafless_dict] at this; exact this
  · intro hs; simp [isSection] at hs

theorem leafless_list (xs : List Val) : leafless (.list xs) = false := by simp [leafless]

theorem leaflessKVs_replace_mono {k : String} {v1 v1' : Val} (hm : leafless v1 = false → leafless v1' = false) :
    ∀ {kvs : KV}, assoc k kvs = some v1 → leaflessKVs kvs = false → leaflessKVs (replace k v1' kvs) = false
  | [], h, _ => by simp [assoc] at h
  | (k0, v0) :: r, ha, hl => by
    unfold replace
    unfold assoc at ha
    rw [leaflessKVs_cons] at hl
    by_cases h0 : k0 = k
    · simp only [h0, if_true, Option.some.injEq] at ha ⊢
      subst ha
      rw [leaflessKVs_cons]
      cases h1 : leafless v0 with
      | false => simp [hm h1]
      | true =>
        simp only [h1, Bool.true_and] at hl
        simp [hl]
    · simp only [h0, if_false] at ha ⊢
      rw [leaflessKVs_cons]
      cases h1 : leafless v0 with
      | false => simp
      | true =>
        simp only [h1, Bool.true_and] at hl ⊢
        exact leaflessKVs_replace_mono hm ha hl

theorem modifyAt_good {f : Val → Option Val} :
    ∀ (path : Path) {v v' : Val}, (∀ vq vq', getPath v path = some vq → f vq = some vq' → GoodPair vq vq') →
    modifyAt f path v = some v' → GoodPair v v'
  | [], v, v', hf, h => by
    simp only [modifyAt] at h
    exact hf v v' (getPath_nil v) h
  | seg :: rest, v, v', hf, h => by
    cases v with
    | dict kvs =>
      cases seg with
      | idx i => simp [modifyAt] at h
      | key k =>
        simp only [modifyAt] at h
        cases ha : assoc k kvs with
        | none => simp [ha] at h
        | some v1 =>
          simp only [ha] at h
          cases hm : modifyAt f rest v1 with
          | none => simp [hm] at h
          | some v1' =>
            simp only [hm, Option.some.injEq] at h
            subst h
            have ih := modifyAt_good rest (fun vq vq' hg hfq => hf vq vq' (by rw [getPath_dict_cons, ha]; exact hg) hfq) hm
            refine ⟨Or.inl ⟨_, _, rfl, rfl⟩, ?_⟩
            intro hl
            rw [leafless_dict] at hl ⊢
            exact leaflessKVs_replace_mono ih.2 ha hl
    | list xs =>
      cases seg with
      | key k => simp [modifyAt] at h
      | idx i =>
        simp only [modifyAt] at h
        cases hx : xs[i]? with
        | none => simp [hx] at h
        | some x =>
          simp only [hx] at h
          cases hm : modifyAt f rest x with
          | none => simp [hm] at h
          | some x' =>
            simp only [hm, Option.some.injEq] at h
            subst h
            exact ⟨Or.inr ⟨_, _, rfl, rfl⟩, fun _ => leafless_list _⟩
    | null => simp [modifyAt] at h
    | bool b => simp [modifyAt] at h
    | int i => simp [modifyAt] at h
    | str s => simp [modifyAt] at h
    | flt r => simp [modifyAt] at h

/-- the value at the position reached -/
theorem reach_getPath : ∀ (path : Path) {p q : Pos}, reach p path = .pos q → getPath p.val path = some q.val
  | [], p, q, hr => by
    simp only [reach, Next.pos.injEq] at hr
    subst hr; exact getPath_nil _
  | seg :: rest, p, q, hr => by
    cases hc : child p seg with
    | pos p1 =>
      simp only [reach, hc] at hr
      rw [child_pos_getPath hc]
      exact reach_getPath rest hr
    | undefinedKey => simp [reach, hc] at hr
    | data => simp [reach, hc] at hr
    | unselected => simp [reach, hc] at hr
    | dictKwargs => simp [reach, hc] at hr
    | absent => simp [reach, hc] at hr

theorem chkVal_group_dict_err {ld pre cut item whole fs kvs e}
    (h : walk ld pre (if item then pre.length else cut) fs (selected fs kvs) kvs = .error e) :
    chkVal ld pre cut item (.group whole fs) (.dict kvs) = .error e := by
  rw [chkVal_group_dict]
  cases item with
  | false => simpa using h
  | true => simp only [if_true] at h ⊢; rw [h]; rfl

theorem walk_of_group_ok' {ld pre cut item whole fs kvs}
    (h : chkVal ld pre cut item (.group whole fs) (.dict kvs) = .ok ()) :
    walk ld pre (if item then pre.length else cut) fs (selected fs kvs) kvs = .ok () := by
  rw [chkVal_group_dict] at h
  cases item with
  | false => simpa using h
  | true =>
    simp only [if_true, andThen_eq_ok] at h
    exact h.1

/-- **propagation**: an error raised at the modified position is the result at the top -/
theorem modify_prop {ld} {f : Val → Option Val} :
    ∀ (path : Path) {p q : Pos} {pre : Path} {cut : Nat} {v' : Val},
    (∀ vq', f q.val = some vq' → GoodPair q.val vq') →
    chkVal ld pre cut p.item p.node p.val = .ok () →
    reach p path = .pos q → stableAlong p path = true →
    modifyAt f path p.val = some v' →
    ∃ cut1 vq', f q.val = some vq' ∧ chkVal ld (pre ++ path) cut1 q.item q.node q.val = .ok () ∧
      ∀ e, chkVal ld (pre ++ path) cut1 q.item q.node vq' = .error e → chkVal ld pre cut p.item p.node v' = .error e
  | [], p, q, pre, cut, v', _, hok, hr, _, hm => by
    simp only [reach, Next.pos.injEq] at hr
    subst hr
    simp only [modifyAt] at hm
    exact ⟨cut, v', hm, by simpa using hok, fun e he => by simpa using he⟩
  | seg :: rest, p, q, pre, cut, v', hf, hok, hr, hst, hm => by
    obtain ⟨item, node, val⟩ := p
    simp only at hok hm
    simp only [stableAlong, Bool.and_eq_true] at hst
    cases hc : child ⟨item, node, val⟩ seg with
    | undefinedKey => simp [reach, hc] at hr
    | data => simp [reach, hc] at hr
    | unselected => simp [reach, hc] at hr
    | dictKwargs => simp [reach, hc] at hr
    | absent => simp [reach, hc] at hr
    | pos p1 =>
      simp only [reach, hc] at hr
      have hst1 : stableAlong p1 rest = true := by
        have := hst.2; simp only [hc] at this; exact this
      have hsta := hst.1
      have hpath : ∀ (x : Seg), pre ++ x :: rest = (pre ++ [x]) ++ rest := by intro x; simp
      cases node with
      | leaf ty req d => simp [child] at hc
      | subcommands req cs => simp [child] at hc
      | group whole fs =>
        cases val with
        | dict kvs =>
          cases seg with
          | idx i => simp [child] at hc
          | key k =>
            simp only [stableAt] at hsta
            simp only [child] at hc
            simp only [modifyAt] at hm
            cases ha : assoc k kvs with
            | none => simp [ha] at hc
            | some v1 =>
              simp only [ha] at hc hm
              cases hm1 : modifyAt f rest v1 with
              | none => simp [hm1] at hm
              | some v1' =>
                simp only [hm1, Option.some.injEq] at hm
                subst hm
                have hgood : GoodPair v1 v1' := by
                  have hq1 : getPath v1 rest = some q.val := by
                    have := reach_getPath rest hr
                    cases hs : slotOf fs k with
                    | field n => simp only [hs, Next.pos.injEq] at hc; rw [← hc] at this; exact this
                    | sect cfs =>
                      simp only [hs] at hc
                      by_cases hsel : selected fs kvs = some k
                      · simp only [hsel, if_true, Next.pos.injEq] at hc; rw [← hc] at this; exact this
                      · simp [hsel] at hc
                    | none => simp only [hs] at hc; split at hc <;> simp at hc
                  refine modifyAt_good rest ?_ hm1
                  intro vq vq' hg hfq
                  rw [hq1, Option.some.injEq] at hg
                  subst hg
                  exact hf vq' hfq
                have hw := walk_of_group_ok' hok
                have he := walk_ok_assoc hw ha
                -- the child position and the stability of the selection
                have key : ∃ n1, p1 = ⟨false, n1, v1⟩ ∧
                    (∀ x, entry ld pre (if item then pre.length else cut) fs (selected fs kvs) k x =
                          chkVal ld (pre ++ [.key k]) (if item then pre.length else cut) false n1 x) ∧
                    selected fs (replace k v1' kvs) = selected fs kvs := by
                  cases hs : slotOf fs k with
                  | field n =>
                    simp only [hs, Next.pos.injEq] at hc
                    refine ⟨n, hc.symm, ?_, ?_⟩
                    · intro x; unfold entry; simp only [hs]
                    · exact selected_replace_field hs hsta ha hgood.1.container.1 hgood.1.container.2
                  | sect cfs =>
                    simp only [hs] at hc
                    by_cases hsel : selected fs kvs = some k
                    · simp only [hsel, if_true, Next.pos.injEq] at hc
                      refine ⟨.group false cfs, hc.symm, ?_, ?_⟩
                      · intro x; unfold entry; simp only [hs, hsel, if_true]
                      · rw [selected_replace_sect hs hsel ha hgood.section_mono, hsel]
                    · simp [hsel] at hc
                  | none => simp only [hs] at hc; split at hc <;> simp at hc
                obtain ⟨n1, hp1, hentry, hselEq⟩ := key
                subst hp1
                rw [hentry] at he
                obtain ⟨cut1, vq', hfq, hqok, hprop⟩ := modify_prop rest (p := ⟨false, n1, v1⟩) hf he hr hst1 hm1
                refine ⟨cut1, vq', hfq, by rw [hpath]; exact hqok, ?_⟩
                intro e hee
                rw [hpath] at hee
                have h1 := hprop e hee
                apply chkVal_group_dict_err
                rw [hselEq]
                exact walk_replace_err hw ha (by rw [hentry]; exact h1)
        | null => simp [child] at hc
        | bool b => simp [child] at hc
        | int i => simp [child] at hc
        | str s => simp [child] at hc
        | flt r => simp [child] at hc
        | list xs => simp [child] at hc
      | classArg req imp cls =>
        cases val with
        | dict kvs =>
          cases seg with
          | idx i => simp [child] at hc
          | key k =>
            have hsome : ∃ cfs0, classOf cls kvs = some cfs0 := by
              cases hh : classOf cls kvs with
              | some c0 => exact ⟨c0, rfl⟩
              | none =>
                exfalso
                simp only [child] at hc
                cases ha : assoc k kvs <;> simp [ha, hh] at hc
            obtain ⟨cfs0, hcls0⟩ := hsome
            rw [chkVal_class_dict_of hcls0] at hok
            obtain ⟨cfs, hcls, hck⟩ := clsDict_ok hok
            simp only [child] at hc
            simp only [modifyAt] at hm
            cases ha : assoc k kvs with
            | none => simp [ha] at hc
            | some v1 =>
              simp only [ha, hcls] at hc hm
              cases hm1 : modifyAt f rest v1 with
              | none => simp [hm1] at hm
              | some v1' =>
                simp only [hm1, Option.some.injEq] at hm
                subst hm
                have he := chkCls_ok_assoc hck ha
                by_cases h1 : k = "class_path"
                · simp [h1] at hc
                · simp only [h1, if_false] at hc
                  by_cases h2 : k = "init_args"
                  · simp only [h2, if_true, Next.pos.injEq] at hc
                    subst hc
                    subst h2
                    have hentry : ∀ x, clsEntry ld pre cfs "init_args" x =
                        chkVal ld (pre ++ [.key "init_args"]) pre.length true (.group true cfs) x := by
                      intro x; unfold clsEntry; simp
                    rw [hentry] at he
                    obtain ⟨cut1, vq', hfq, hqok, hprop⟩ :=
                      modify_prop rest (p := ⟨true, .group true cfs, v1⟩) hf he hr hst1 hm1
                    refine ⟨cut1, vq', hfq, by rw [hpath]; exact hqok, ?_⟩
                    intro e hee
                    rw [hpath] at hee
                    have h1' := hprop e hee
                    have hcp : assoc "class_path" (replace "init_args" v1' kvs) = assoc "class_path" kvs :=
                      assoc_replace_ne (by decide) kvs
                    have hcls' : classOf cls (replace "init_args" v1' kvs) = some cfs := by
                      unfold classOf; rw [hcp]; exact hcls
                    rw [chkVal_class_dict_of hcls']
                    unfold clsDict
                    rw [hcp]
                    unfold classOf at hcls
                    cases hcv : assoc "class_path" kvs with
                    | none => simp [hcv] at hcls
                    | some cv =>
                      cases cv with
                      | str c =>
                        simp only [hcv] at hcls
                        simp only [hcls]
                        rw [chkCls_replace_err hck ha (by rw [hentry]; exact h1')]
                        rfl
                      | null => simp [hcv] at hcls
                      | bool b => simp [hcv] at hcls
                      | int i => simp [hcv] at hcls
                      | flt r => simp [hcv] at hcls
                      | list xs => simp [hcv] at hcls
                      | dict d => simp [hcv] at hcls
                  · simp only [h2, if_false] at hc
                    by_cases h3 : k = "dict_kwargs" <;> by_cases h4 : k = "__path__" <;> simp [h3, h4] at hc
        | null => simp [child] at hc
        | bool b => simp [child] at hc
        | int i => simp [child] at hc
        | str s => simp [child] at hc
        | flt r => simp [child] at hc
        | list xs => simp [child] at hc
      | optGroup req ogfs => simp [child] at hc
      | listOf req it =>
        cases val with
        | list xs =>
          cases seg with
          | key k => simp [child] at hc
          | idx i =>
            rw [chkVal_list] at hok
            simp only [child] at hc
            simp only [modifyAt] at hm
            cases hx : xs[i]? with
            | none => simp [hx] at hc
            | some x =>
              simp only [hx, Next.pos.injEq] at hc hm
              subst hc
              cases hm1 : modifyAt f rest x with
              | none => simp [hm1] at hm
              | some x' =>
                simp only [hm1, Option.some.injEq] at hm
                subst hm
                have he := chkItems_ok_get (i := 0) hok hx
                simp only [Nat.zero_add] at he
                obtain ⟨cut1, vq', hfq, hqok, hprop⟩ :=
                  modify_prop rest (p := ⟨true, it, x⟩) hf he hr hst1 hm1
                refine ⟨cut1, vq', hfq, by rw [hpath]; exact hqok, ?_⟩
                intro e hee
                rw [hpath] at hee
                have h1' := hprop e hee
                rw [chkVal_list]
                exact chkItems_set_err (i := 0) hok hx (by simpa using h1')
        | null => simp [child] at hc
        | bool b => simp [child] at hc
        | int i => simp [child] at hc
        | str s => simp [child] at hc
        | flt r => simp [child] at hc
        | dict d => simp [child] at hc

/-! ## inserting one foreign key -/

theorem leaflessKVs_append_false {z : String} {w : Val} (hl : leafless w = false) : ∀ (kvs : KV),
    leaflessKVs (kvs ++ [(z, w)]) = false
  | [] => by simp [leaflessKVs_cons, hl]
  | (k, v) :: r => by
    simp only [List.cons_append, leaflessKVs_cons, leaflessKVs_append_false hl r, Bool.and_false]

theorem insertF_good {z : String} {w : Val} (hl : leafless w = false) :
    ∀ v v', insertF z w v = some v' → GoodPair v v' := by
  intro v v' h
  cases v with
  | dict kvs =>
    simp only [insertF] at h
    by_cases hk : hasKey z kvs = true
    · simp [hk] at h
    · simp only [hk, Bool.false_eq_true, if_false, Option.some.injEq] at h
      subst h
      exact ⟨Or.inl ⟨_, _, rfl, rfl⟩, fun _ => by rw [leafless_dict]; exact leaflessKVs_append_false hl kvs⟩
  | null => simp [insertF] at h
  | bool b => simp [insertF] at h
  | int i => simp [insertF] at h
  | str s => simp [insertF] at h
  | flt r => simp [insertF] at h
  | list xs => simp [insertF] at h

theorem insert_end_group {ld pre cut item whole fs kvs z w}
    (hok : chkVal ld pre cut item (.group whole fs) (.dict kvs) = .ok ()) (hs : slotOf fs z = .none)
    (hap : appendSlot fs z = none) (hmz : isMeta z = false) (hl : leafless w = false) :
    chkVal ld pre cut item (.group whole fs) (.dict (kvs ++ [(z, w)])) =
      .error (.unknown (pre ++ [.key z] ++ (deepPath w).map .key) (if item then pre.length else cut)) := by
  apply chkVal_group_dict_err
  rw [selected_append_foreign hs, walk_append, walk_of_group_ok' hok, walk_cons, walk_nil]
  unfold entry
  have hm : metaLeaf z w = false := by cases w <;> simp [metaLeaf, hmz]
  simp [hs, hap, hl, hm]

theorem insert_end_class {ld pre cut item req imp cls kvs z w}
    (hok : chkVal ld pre cut item (.classArg req imp cls) (.dict kvs) = .ok ())
    (hsome : (classOf cls kvs).isSome = true)
    (h1 : z ≠ "class_path") (h2 : z ≠ "init_args") (h3 : z ≠ "dict_kwargs") (h4 : z ≠ "__path__") :
    chkVal ld pre cut item (.classArg req imp cls) (.dict (kvs ++ [(z, w)])) =
      .error (.unknown (pre ++ [.key z]) pre.length) := by
  obtain ⟨cfs0, hcls0⟩ : ∃ c, classOf cls kvs = some c := by
    cases hh : classOf cls kvs with
    | some c => exact ⟨c, rfl⟩
    | none => simp [hh] at hsome
  have hcls1 : classOf cls (kvs ++ [(z, w)]) = some cfs0 := by
    unfold classOf at hcls0 ⊢
    rw [assoc_append_ne (Ne.symm h1)]; exact hcls0
  rw [chkVal_class_dict_of hcls0] at hok
  rw [chkVal_class_dict_of hcls1]
  obtain ⟨cfs, hcls, hck⟩ := clsDict_ok hok
  unfold clsDict
  rw [assoc_append_ne (Ne.symm h1)]
  unfold classOf at hcls
  cases hcv : assoc "class_path" kvs with
  | none => simp [hcv] at hcls
  | some cv =>
    cases cv with
    | str c =>
      simp only [hcv] at hcls
      simp only [hcls]
      rw [chkCls_append, hck, chkCls_cons, chkCls_nil]
      unfold clsEntry
      simp [h1, h2, h3, h4]
    | null => simp [hcv] at hcls
    | bool b => simp [hcv] at hcls
    | int i => simp [hcv] at hcls
    | flt r => simp [hcv] at hcls
    | list xs => simp [hcv] at hcls
    | dict d => simp [hcv] at hcls

/-- **one foreign key with a leaf, inserted at any position that has a definition, is reported** -/
theorem insert_reported {ld fs kvs path q z w v'}
    (h : validate ld fs kvs = .ok ()) (hr : reach (root fs kvs) path = .pos q)
    (hst : stableAlong (root fs kvs) path = true) (hfor : foreignAt q z = true)
    (hins : insertAt z w path (.dict kvs) = some v') (hl : leafless w = false) :
    ∃ tail cut, chkVal ld [] 0 true (.group false fs) v' = .error (.unknown (path ++ [.key z] ++ tail) cut) := by
  have hok : chkVal ld [] 0 (root fs kvs).item (root fs kvs).node (root fs kvs).val = .ok () := h
  obtain ⟨cut1, vq', hfq, hqok, hprop⟩ := modify_prop path (fun vq' hh => insertF_good hl _ _ hh) hok hr hst hins
  simp only [List.nil_append] at hqok hprop
  obtain ⟨qi, qn, qv⟩ := q
  simp only at hfq hqok hprop
  unfold foreignAt at hfor
  simp only at hfor
  cases qn with
  | group whole gfs =>
    cases qv with
    | dict qkvs =>
      simp only at hfor
      cases hs : slotOf gfs z with
      | none =>
        simp only [insertF] at hfq
        by_cases hk : hasKey z qkvs = true
        · simp [hk] at hfq
        · simp only [hk, Bool.false_eq_true, if_false, Option.some.injEq] at hfq
          subst hfq
          have hap : appendSlot gfs z = none := by
            simp only [hs] at hfor
            cases hh : appendSlot gfs z with
            | none => rfl
            | some bn => simp [hh] at hfor
          have hmz : isMeta z = false := by
            simp only [hs] at hfor
            cases hh : isMeta z with
            | false => rfl
            | true => simp [hh] at hfor
          have := insert_end_group (w := w) hqok hs hap hmz hl
          exact ⟨_, _, hprop _ (by rw [this])⟩
      | field n => simp [hs] at hfor
      | sect cfs => simp [hs] at hfor
    | null => simp at hfor
    | bool b => simp at hfor
    | int i => simp at hfor
    | str s => simp at hfor
    | flt r => simp at hfor
    | list xs => simp at hfor
  | classArg req imp cls =>
    cases qv with
    | dict qkvs =>
      simp only [Bool.and_eq_true, Bool.not_eq_true', decide_eq_false_iff_not] at hfor
      obtain ⟨⟨⟨⟨hcsome, h1⟩, h2⟩, h3⟩, h4⟩ := hfor
      simp only [insertF] at hfq
      by_cases hk : hasKey z qkvs = true
      · simp [hk] at hfq
      · simp only [hk, Bool.false_eq_true, if_false, Option.some.injEq] at hfq
        subst hfq
        have := insert_end_class (w := w) hqok hcsome h1 h2 h3 h4
        refine ⟨[], path.length, ?_⟩
        simp only [List.append_nil]
        exact hprop _ this
    | null => simp at hfor
    | bool b => simp at hfor
    | int i => simp at hfor
    | str s => simp at hfor
    | flt r => simp at hfor
    | list xs => simp at hfor
  | leaf ty req d => simp at hfor
  | listOf req it => simp at hfor
  | optGroup req ogfs => simp at hfor
  | subcommands rq cs => simp at hfor

theorem modifyAt_dict {f : Val → Option Val} {path : Path} {kvs : KV} {v' : Val}
    (hf : ∀ vq vq', getPath (.dict kvs) path = some vq → f vq = some vq' → GoodPair vq vq')
    (h : modifyAt f path (.dict kvs) = some v') : ∃ kvs', v' = .dict kvs' := by
  rcases (modifyAt_good path hf h).1 with ⟨a, b, _, rfl⟩ | ⟨a, b, h1, _⟩
  · exact ⟨b, rfl⟩
  · cases h1

/-! ## nulling / removing one required key -/

theorem reqChoices_congr {pre cut kvs kvs' dest rq c} : ∀ (cs : Choices),
    (∀ c' f, (c', f) ∈ cs → assoc c' kvs' = assoc c' kvs) →
    reqChoices pre cut kvs' dest rq c cs = reqChoices pre cut kvs dest rq c cs
  | [], _ => by rw [reqChoices, reqChoices]
  | (c0, f0) :: r, h => by
    rw [reqChoices, reqChoices]
    by_cases hc : c0 = c
    · simp only [hc, if_true]
      have := h c0 f0 List.mem_cons_self
      rw [hc] at this
      rw [this]
    · simp only [hc, if_false]
      exact reqChoices_congr r (fun c' f hm => h c' f (List.mem_cons_of_mem _ hm))

theorem reqChoices_eq {pre cut kvs dest rq c} : ∀ {cs : Choices} {cfs : Fields}, assoc c cs = some cfs →
    reqChoices pre cut kvs dest rq c cs = reqFields (pre ++ [.key c]) cut (kvsOf (assoc c kvs)) cfs
  | [], _, h => by simp [assoc] at h
  | (c0, f0) :: r, cfs, h => by
    rw [reqChoices]
    unfold assoc at h
    by_cases hc : c0 = c
    · simp only [hc, if_true, Option.some.injEq] at h ⊢
      rw [h]
    · simp only [hc, if_false] at h ⊢
      exact reqChoices_eq h

theorem reqNode_congr {pre cut kvs kvs' nm} {nd : Node} (hA : assoc nm kvs' = assoc nm kvs)
    (hC : ∀ rq cs, nd = .subcommands rq cs → ∀ c f, (c, f) ∈ cs → assoc c kvs' = assoc c kvs) :
    reqNode pre cut kvs' nm nd = reqNode pre cut kvs nm nd := by
  cases nd with
  | leaf ty req d => rw [reqNode, reqNode, hA]
  | classArg req imp cls => rw [reqNode, reqNode, hA]
  | listOf req it => rw [reqNode, reqNode, hA]
  | optGroup req ogfs => rw [reqNode, reqNode, hA]
  | group w g => rw [reqNode_group, reqNode_group, hA]
  | subcommands rq cs =>
    rw [reqNode_sub, reqNode_sub]
    have h1 := hC rq cs rfl
    rw [selectedOf_congr hA (fun c f hm => by rw [h1 c f hm])]
    cases selectedOf nm cs kvs with
    | none => rfl
    | some c => exact reqChoices_congr cs h1

theorem reqFields_prefix_err {pre cut kvs n0 nd0 e B} : ∀ (A : Fields),
    (∀ nm nd, (nm, nd) ∈ A → reqNode pre cut kvs nm nd = .ok ()) → reqNode pre cut kvs n0 nd0 = .error e →
    reqFields pre cut kvs (A ++ (n0, nd0) :: B) = .error e
  | [], _, he => by
    simp only [List.nil_append]
    rw [reqFields_cons, he]; rfl
  | (nm, nd) :: r, h, he => by
    simp only [List.cons_append]
    rw [reqFields_cons, h nm nd List.mem_cons_self]
    exact reqFields_prefix_err r (fun a b hm => h a b (List.mem_cons_of_mem _ hm)) he

theorem assoc_split {β : Type} : ∀ {l : List (String × β)} {k : String} {v : β}, assoc k l = some v →
    ∃ A B, l = A ++ (k, v) :: B ∧ ∀ nm nd, (nm, nd) ∈ A → nm ≠ k
  | [], _, _, h => by simp [assoc] at h
  | (k0, v0) :: r, k, v, h => by
    unfold assoc at h
    by_cases hk : k0 = k
    · simp only [hk, if_true, Option.some.injEq] at h
      subst h; subst hk
      exact ⟨[], r, rfl, fun _ _ hm => by simp at hm⟩
    · simp only [hk, if_false] at h
      obtain ⟨A, B, hl, hA⟩ := assoc_split h
      refine ⟨(k0, v0) :: A, B, by rw [hl]; rfl, ?_⟩
      intro nm nd hm
      rcases List.mem_cons.mp hm with h1 | h1
      · cases h1; exact hk
      · exact hA nm nd h1

def isSub : Node → Bool
  | .subcommands _ _ => true
  | _ => false

theorem subOf_split : ∀ {fs : Fields} {d : String} {rq : Bool} {cs : Choices}, subOf fs = some (d, rq, cs) →
    ∃ A B, fs = A ++ (d, Node.subcommands rq cs) :: B ∧ ∀ nm nd, (nm, nd) ∈ A → isSub nd = false
  | [], _, _, _, h => by simp [subOf] at h
  | (n, nd) :: r, d, rq, cs, h => by
    have rec_case : subOf r = some (d, rq, cs) → isSub nd = false →
        ∃ A B, (n, nd) :: r = A ++ (d, Node.subcommands rq cs) :: B ∧ ∀ nm nd', (nm, nd') ∈ A → isSub nd' = false := by
      intro h' hns
      obtain ⟨A, B, hl, hA⟩ := subOf_split h'
      refine ⟨(n, nd) :: A, B, by rw [hl]; rfl, ?_⟩
      intro nm nd' hm
      rcases List.mem_cons.mp hm with h1 | h1
      · cases h1; exact hns
      · exact hA nm nd' h1
    cases nd with
    | subcommands rq' cs' =>
      simp only [subOf, Option.some.injEq, Prod.mk.injEq] at h
      obtain ⟨rfl, rfl, rfl⟩ := h
      exact ⟨[], r, rfl, fun _ _ hm => by simp at hm⟩
    | leaf ty req dflt => simp only [subOf] at h; exact rec_case h rfl
    | group w gfs => simp only [subOf] at h; exact rec_case h rfl
    | classArg req imp cls => simp only [subOf] at h; exact rec_case h rfl
    | listOf req it => simp only [subOf] at h; exact rec_case h rfl
    | optGroup req ogfs => simp only [subOf] at h; exact rec_case h rfl

theorem slotOf_of_assoc {fs : Fields} {k : String} {n : Node} (h : assoc k fs = some n) : slotOf fs k = .field n := by
  unfold slotOf; simp [h]

theorem chkVal_null_required {ld pre cut} {n : Node} (hn : isRequiredNode n = true) :
    chkVal ld pre cut false n .null = .ok () := by
  cases n with
  | leaf ty req d => rw [chkVal]; simp [chkLeaf]
  | classArg req imp cls => rw [chkVal]; simp
  | listOf req it => rw [chkVal]; simp
  | optGroup req ogfs => rw [chkVal]; simp
  | group w g => simp [isRequiredNode] at hn
  | subcommands rq cs => simp [isRequiredNode] at hn

/-- what the end of a "make the key `r` missing" modification must do -/
structure EndOK (f : Val → Option Val) (r : String) : Prop where
  onlyDict : ∀ v v', f v = some v' → ∃ kvs kvs', v = .dict kvs ∧ v' = .dict kvs'
  missing : ∀ kvs kvs', f (.dict kvs) = some (.dict kvs') → isNullOrMissing (assoc r kvs') = true
  other : ∀ kvs kvs' nm, f (.dict kvs) = some (.dict kvs') → nm ≠ r → assoc nm kvs' = assoc nm kvs
  walk : ∀ ld pre cut fs sel kvs kvs', f (.dict kvs) = some (.dict kvs') → walk ld pre cut fs sel kvs = .ok () →
    entry ld pre cut fs sel r .null = .ok () → walk ld pre cut fs sel kvs' = .ok ()

/-- when the modification succeeds the levels it runs through are the mappings found in the configuration -/
theorem levelIn_modify_getPath {f : Val → Option Val} (hd : ∀ v v', f v = some v' → ∃ kvs kvs', v = .dict kvs ∧ v' = .dict kvs') :
    ∀ (ks : List String) {fs : Fields} {kvs : KV} {fs2 : Fields} {kvs2 : KV} {v' : Val},
    levelIn fs kvs ks = some (fs2, kvs2) → modifyAt f (ks.map .key) (.dict kvs) = some v' →
    getPath (.dict kvs) (ks.map .key) = some (.dict kvs2)
  | [], fs, kvs, fs2, kvs2, v', hl, _ => by
    simp only [levelIn, Option.some.injEq, Prod.mk.injEq] at hl
    obtain ⟨_, rfl⟩ := hl
    simp [getPath_nil]
  | k :: rest, fs, kvs, fs2, kvs2, v', hl, hm => by
    simp only [List.map_cons, modifyAt] at hm
    simp only [List.map_cons, getPath_dict_cons]
    cases ha : assoc k kvs with
    | none => simp [ha] at hm
    | some v1 =>
      simp only [ha] at hm ⊢
      cases hm1 : modifyAt f (rest.map .key) v1 with
      | none => simp [hm1] at hm
      | some v1' =>
        have hv1 : ∃ g, v1 = .dict g := by
          cases rest with
          | nil =>
            simp only [List.map_nil, modifyAt] at hm1
            obtain ⟨a, b, h1, _⟩ := hd _ _ hm1
            exact ⟨a, h1⟩
          | cons k2 rs =>
            cases v1 with
            | dict g => exact ⟨g, rfl⟩
            | null => simp [modifyAt] at hm1
            | bool b => simp [modifyAt] at hm1
            | int i => simp [modifyAt] at hm1
            | str s => simp [modifyAt] at hm1
            | flt r => simp [modifyAt] at hm1
            | list xs => simp [modifyAt] at hm1
        obtain ⟨g, rfl⟩ := hv1
        simp only [levelIn] at hl
        have step : ∀ {fs1 : Fields}, levelIn fs1 (kvsOf (assoc k kvs)) rest = some (fs2, kvs2) →
            getPath (.dict g) (rest.map .key) = some (.dict kvs2) := by
          intro fs1 h
          rw [ha] at h
          exact levelIn_modify_getPath hd rest h hm1
        cases hs : slotOf fs k with
        | none => simp [hs] at hl
        | field n =>
          cases n with
          | group w gfs => simp only [hs] at hl; exact step hl
          | leaf ty req d => simp [hs] at hl
          | classArg req imp cls => simp [hs] at hl
          | listOf req it => simp [hs] at hl
          | optGroup req ogfs => simp [hs] at hl
          | subcommands rq cs => simp [hs] at hl
        | sect cfs =>
          simp only [hs] at hl
          by_cases hsel : selected fs kvs = some k
          · simp only [hsel, if_true] at hl; exact step hl
          · simp [hsel] at hl

/-- the selection of a level does not read a required argument key -/
theorem selected_end_stable {fs : Fields} {kvs kvs' : KV} {r : String} {n : Node}
    (hn : noClash fs = true) (ha : assoc r fs = some n) (hreq : isRequiredNode n = true)
    (hother : ∀ nm, nm ≠ r → assoc nm kvs' = assoc nm kvs) : selected fs kvs' = selected fs kvs := by
  unfold selected
  cases hsub : subOf fs with
  | none => rfl
  | some t =>
    obtain ⟨d, rq, cs⟩ := t
    simp only []
    obtain ⟨rq', cs', hd⟩ := noClash_dest hn hsub
    have hdr : d ≠ r := by
      intro e
      rw [e, ha, Option.some.injEq] at hd
      subst hd
      simp [isRequiredNode] at hreq
    refine selectedOf_congr (hother d hdr) ?_
    intro c f hm
    have hc := noClash_choice_ne hn hsub hm
    have : c ≠ r := by intro e; rw [e, ha] at hc; cases hc
    rw [hother c this]

/-- **inside one parser**: making a required key missing keeps `check_values` passing and makes `check_required`
    report exactly that key -/
theorem req_level {ld} {f : Val → Option Val} {r : String} {n : Node} (hE : EndOK f r) :
    ∀ (ks : List String) {fs : Fields} {kvs : KV} {fs2 : Fields} {kvs2 : KV} {pre : Path} {cut : Nat} {preR : Path} {cutR : Nat}
      {kvs' : KV},
    walk ld pre cut fs (selected fs kvs) kvs = .ok () →
    reqFields preR cutR kvs fs = .ok () →
    levelIn fs kvs ks = some (fs2, kvs2) →
    stableLevels fs kvs ks = true →
    assoc r fs2 = some n → isRequiredNode n = true →
    (∀ vq', f (.dict kvs2) = some vq' → GoodPair (.dict kvs2) vq') →
    modifyAt f (ks.map .key) (.dict kvs) = some (.dict kvs') →
    walk ld pre cut fs (selected fs kvs') kvs' = .ok () ∧
    reqFields preR cutR kvs' fs = .error (.required (preR ++ (ks ++ [r]).map .key) cutR)
  | [], fs, kvs, fs2, kvs2, pre, cut, preR, cutR, kvs', hw, hr, hl, hst, ha, hreq, _, hm => by
    simp only [levelIn, Option.some.injEq, Prod.mk.injEq] at hl
    obtain ⟨rfl, rfl⟩ := hl
    simp only [stableLevels] at hst
    simp only [List.map_nil, modifyAt] at hm
    have hother : ∀ nm, nm ≠ r → assoc nm kvs' = assoc nm kvs := fun nm h => hE.other _ _ nm hm h
    have hsel := selected_end_stable hst ha hreq hother
    refine ⟨?_, ?_⟩
    · rw [hsel]
      refine hE.walk _ _ _ _ _ _ _ hm hw ?_
      unfold entry
      rw [slotOf_of_assoc ha]
      exact chkVal_null_required hreq
    · obtain ⟨A, B, hfs, hA⟩ := assoc_split ha
      rw [hfs]
      have hmem : ∀ nm nd, (nm, nd) ∈ A → (nm, nd) ∈ fs := by
        intro nm nd h; rw [hfs]; exact List.mem_append_left _ h
      refine reqFields_prefix_err A ?_ ?_
      · intro nm nd hmm
        rw [reqNode_congr (hother nm (hA nm nd hmm))]
        · exact reqFields_ok_mem hr (hmem nm nd hmm)
        · intro rq cs hnd c f hcf
          subst hnd
          have hc := noClash_choices hst (hmem nm _ hmm) hcf
          have : c ≠ r := by intro e; rw [e, ha] at hc; cases hc
          exact hother c this
      · exact reqNode_required_err hreq (hE.missing _ _ hm)
  | k :: rest, fs, kvs, fs2, kvs2, pre, cut, preR, cutR, kvs', hw, hr, hl, hst, ha, hreq, hgoodEnd, hm => by
    have hgp := levelIn_modify_getPath hE.onlyDict (k :: rest) hl hm
    simp only [List.map_cons, modifyAt] at hm
    simp only [List.map_cons, getPath_dict_cons] at hgp
    simp only [stableLevels, Bool.and_eq_true] at hst
    obtain ⟨hnc, hstRest⟩ := hst
    cases hak : assoc k kvs with
    | none => simp [hak] at hm
    | some v1 =>
      simp only [hak] at hm hgp
      cases hm1 : modifyAt f (rest.map .key) v1 with
      | none => simp [hm1] at hm
      | some v1' =>
        simp only [hm1, Option.some.injEq, Val.dict.injEq] at hm
        subst hm
        have hgood : GoodPair v1 v1' := by
          refine modifyAt_good (rest.map .key) ?_ hm1
          intro vq vq' hg hfq
          rw [hgp, Option.some.injEq] at hg
          subst hg
          exact hgoodEnd vq' hfq
        -- the value under `k` is a mapping before and after
        have hkind : ∃ g g', v1 = .dict g ∧ v1' = .dict g' := by
          rcases hgood.1 with ⟨a, b, h1, h2⟩ | ⟨a, b, h1, _⟩
          · exact ⟨a, b, h1, h2⟩
          · subst h1
            cases rest with
            | nil =>
              simp only [List.map_nil, modifyAt] at hm1
              obtain ⟨x, y, hx, _⟩ := hE.onlyDict _ _ hm1
              cases hx
            | cons k2 rs => simp [modifyAt] at hm1
        obtain ⟨g, g', rfl, rfl⟩ := hkind
        have hpathR : preR ++ ((k :: rest) ++ [r]).map Seg.key = (preR ++ [.key k]) ++ (rest ++ [r]).map Seg.key := by simp
        rw [hpathR]
        simp only [levelIn] at hl
        have hent := walk_ok_assoc hw hak
        cases hs : slotOf fs k with
        | none => simp [hs] at hl
        | field nd =>
          cases nd with
          | group w gfs =>
            simp only [hs, hak, kvsOf] at hl hstRest
            have hkf := slotOf_field hs
            have hselEq : selected fs (replace k (.dict g') kvs) = selected fs kvs :=
              selected_replace_field hs hnc hak (by simp [isContainer]) (by simp [isContainer])
            have hentry : ∀ x, entry ld pre cut fs (selected fs kvs) k x =
                chkVal ld (pre ++ [.key k]) cut false (.group w gfs) x := by
              intro x; unfold entry; simp only [hs]
            rw [hentry, chkVal_group_dict] at hent
            simp only [Bool.false_eq_true, if_false] at hent
            have hrsub : reqFields (preR ++ [.key k]) cutR g gfs = .ok () := by
              have := reqFields_ok_mem hr (assoc_mem hkf)
              rw [reqNode_group, hak] at this
              exact this
            obtain ⟨ih1, ih2⟩ := req_level hE rest (pre := pre ++ [.key k]) (cut := cut) (preR := preR ++ [.key k])
              (cutR := cutR) hent hrsub hl hstRest ha hreq hgoodEnd hm1
            refine ⟨?_, ?_⟩
            · rw [hselEq]
              refine walk_replace_ok hw hak ?_
              rw [hentry, chkVal_group_dict]
              simp only [Bool.false_eq_true, if_false]
              exact ih1
            · obtain ⟨A, B, hfs, hA⟩ := assoc_split hkf
              rw [hfs]
              have hmem : ∀ nm nd, (nm, nd) ∈ A → (nm, nd) ∈ fs := by
                intro nm nd h; rw [hfs]; exact List.mem_append_left _ h
              refine reqFields_prefix_err A ?_ ?_
              · intro nm nd hmm
                rw [reqNode_congr (assoc_replace_ne (hA nm nd hmm) kvs)]
                · exact reqFields_ok_mem hr (hmem nm nd hmm)
                · intro rq cs hnd c f hcf
                  subst hnd
                  have hc := noClash_choices hnc (hmem nm _ hmm) hcf
                  have : c ≠ k := by intro e; rw [e, hkf] at hc; cases hc
                  exact assoc_replace_ne this kvs
              · rw [reqNode_group, assoc_replace_same hak]
                exact ih2
          | leaf ty req d => simp [hs] at hl
          | classArg req imp cls => simp [hs] at hl
          | listOf req it => simp [hs] at hl
          | optGroup req ogfs => simp [hs] at hl
          | subcommands rq cs => simp [hs] at hl
        | sect cfs =>
          simp only [hs] at hl hstRest
          by_cases hsel : selected fs kvs = some k
          · simp only [hsel, if_true, hak, kvsOf] at hl hstRest
            obtain ⟨hknone, d, rq, cs, hsub, hkcs⟩ := slotOf_sect hs
            have hselEq : selected fs (replace k (.dict g') kvs) = some k :=
              selected_replace_sect hs hsel hak hgood.section_mono
            have hentry : ∀ x, entry ld pre cut fs (some k) k x =
                chkVal ld (pre ++ [.key k]) cut false (.group false cfs) x := by
              intro x; unfold entry; simp only [hs, if_true]
            rw [hsel, hentry, chkVal_group_dict] at hent
            simp only [Bool.false_eq_true, if_false] at hent
            have hseld : selectedOf d cs kvs = some k := by
              unfold selected at hsel; simp only [hsub] at hsel; exact hsel
            have hseld' : selectedOf d cs (replace k (.dict g') kvs) = some k := by
              unfold selected at hselEq; simp only [hsub] at hselEq; exact hselEq
            have hrsub : reqFields (preR ++ [.key k]) cutR g cfs = .ok () := by
              have := reqFields_ok_mem hr (subOf_mem hsub)
              rw [reqNode_sub, hseld] at this
              have := reqChoices_ok this hkcs
              rw [hak] at this
              exact this
            obtain ⟨ih1, ih2⟩ := req_level hE rest (pre := pre ++ [.key k]) (cut := cut) (preR := preR ++ [.key k])
              (cutR := cutR) hent hrsub hl hstRest ha hreq hgoodEnd hm1
            refine ⟨?_, ?_⟩
            · rw [hselEq]
              rw [hsel] at hw
              refine walk_replace_ok hw hak ?_
              rw [hentry, chkVal_group_dict]
              simp only [Bool.false_eq_true, if_false]
              exact ih1
            · obtain ⟨A, B, hfs, hA⟩ := subOf_split hsub
              rw [hfs]
              have hmem : ∀ nm nd, (nm, nd) ∈ A → (nm, nd) ∈ fs := by
                intro nm nd h; rw [hfs]; exact List.mem_append_left _ h
              refine reqFields_prefix_err A ?_ ?_
              · intro nm nd hmm
                have hnk : nm ≠ k := by
                  intro e
                  have := mem_assoc_isSome (hmem nm nd hmm)
                  rw [e, hknone] at this
                  cases this
                rw [reqNode_congr (assoc_replace_ne hnk kvs)]
                · exact reqFields_ok_mem hr (hmem nm nd hmm)
                · intro rq' cs' hnd
                  have := hA nm nd hmm
                  rw [hnd] at this
                  simp [isSub] at this
              · rw [reqNode_sub, hseld']
                simp only []
                rw [reqChoices_eq hkcs, assoc_replace_same hak]
                exact ih2
          · simp [hsel] at hl

theorem modifyAt_append {f : Val → Option Val} : ∀ (p q : Path) (v : Val),
    modifyAt f (p ++ q) v = modifyAt (modifyAt f q) p v
  | [], q, v => by simp [modifyAt]
  | seg :: rest, q, v => by
    cases v with
    | dict kvs =>
      cases seg with
      | idx i => simp [modifyAt]
      | key k =>
        simp only [List.cons_append, modifyAt]
        cases assoc k kvs with
        | none => rfl
        | some v1 => simp only []; rw [modifyAt_append rest q v1]
    | list xs =>
      cases seg with
      | key k => simp [modifyAt]
      | idx i =>
        simp only [List.cons_append, modifyAt]
        cases xs[i]? with
        | none => rfl
        | some x => simp only []; rw [modifyAt_append rest q x]
    | null => simp [modifyAt]
    | bool b => simp [modifyAt]
    | int i => simp [modifyAt]
    | str s => simp [modifyAt]
    | flt r => simp [modifyAt]

theorem assoc_append_new {β : Type} {k : String} {v : β} : ∀ {l : List (String × β)}, assoc k l = none →
    assoc k (l ++ [(k, v)]) = some v
  | [], _ => by simp [assoc]
  | (k0, v0) :: r, h => by
    unfold assoc at h
    by_cases h0 : k0 = k
    · simp [h0] at h
    · simp only [h0, if_false] at h
      simp only [List.cons_append, assoc, h0, if_false]
      exact assoc_append_new h

theorem leaflessKVs_replace_leaf {k : String} {v v0 : Val} (hv : leafless v = false) : ∀ {kvs : KV},
    assoc k kvs = some v0 → leaflessKVs (replace k v kvs) = false
  | [], h => by simp [assoc] at h
  | (k0, w0) :: r, h => by
    unfold replace
    unfold assoc at h
    by_cases h0 : k0 = k
    · simp only [h0, if_true]; rw [leaflessKVs_cons, hv]; rfl
    · simp only [h0, if_false] at h ⊢
      rw [leaflessKVs_cons, leaflessKVs_replace_leaf hv h]; simp

theorem nullF_dict (r : String) (kvs : KV) :
    nullF r (.dict kvs) = some (.dict (if hasKey r kvs then replace r .null kvs else kvs ++ [(r, .null)])) := rfl

theorem nullF_endOK (r : String) : EndOK (nullF r) r where
  onlyDict := by
    intro v v' h
    cases v with
    | dict kvs => rw [nullF_dict, Option.some.injEq] at h; exact ⟨kvs, _, rfl, h.symm⟩
    | null => simp [nullF] at h
    | bool b => simp [nullF] at h
    | int i => simp [nullF] at h
    | str s => simp [nullF] at h
    | flt x => simp [nullF] at h
    | list xs => simp [nullF] at h
  missing := by
    intro kvs kvs' h
    rw [nullF_dict, Option.some.injEq, Val.dict.injEq] at h
    subst h
    cases ha : assoc r kvs with
    | none =>
      have : hasKey r kvs = false := by simp [hasKey, ha]
      simp only [this, Bool.false_eq_true, if_false]
      rw [assoc_append_new ha]; rfl
    | some v0 =>
      have : hasKey r kvs = true := by simp [hasKey, ha]
      simp only [this, if_true]
      rw [assoc_replace_same ha]; rfl
  other := by
    intro kvs kvs' nm h hne
    rw [nullF_dict, Option.some.injEq, Val.dict.injEq] at h
    subst h
    by_cases hk : hasKey r kvs = true
    · simp only [hk, if_true]; exact assoc_replace_ne hne kvs
    · simp only [hk, Bool.false_eq_true, if_false]; exact assoc_append_ne hne kvs
  walk := by
    intro ld pre cut fs sel kvs kvs' h hw he
    rw [nullF_dict, Option.some.injEq, Val.dict.injEq] at h
    subst h
    cases ha : assoc r kvs with
    | none =>
      have : hasKey r kvs = false := by simp [hasKey, ha]
      simp only [this, Bool.false_eq_true, if_false]
      rw [walk_append, hw, walk_cons, he, walk_nil]; rfl
    | some v0 =>
      have : hasKey r kvs = true := by simp [hasKey, ha]
      simp only [this, if_true]
      exact walk_replace_ok hw ha he

theorem nullF_good (r : String) : ∀ v v', nullF r v = some v' → GoodPair v v' := by
  intro v v' h
  obtain ⟨kvs, kvs', rfl, rfl⟩ := (nullF_endOK r).onlyDict v v' h
  refine ⟨Or.inl ⟨_, _, rfl, rfl⟩, fun _ => ?_⟩
  rw [nullF_dict, Option.some.injEq, Val.dict.injEq] at h
  subst h
  rw [leafless_dict]
  cases ha : assoc r kvs with
  | none =>
    have : hasKey r kvs = false := by simp [hasKey, ha]
    simp only [this, Bool.false_eq_true, if_false]
    exact leaflessKVs_append_false (by simp [leafless]) kvs
  | some v0 =>
    have : hasKey r kvs = true := by simp [hasKey, ha]
    simp only [this, if_true]
    exact leaflessKVs_replace_leaf (by simp [leafless]) ha

theorem assoc_erase_same {k : String} : ∀ (l : KV), assoc k (erase k l) = none
  | [] => by simp [erase, assoc]
  | (k0, v0) :: r => by
    unfold erase
    by_cases h0 : k0 = k
    · simp only [h0, if_true]; exact assoc_erase_same r
    · simp only [h0, if_false, assoc]; exact assoc_erase_same r

theorem assoc_erase_ne {k k' : String} (h : k' ≠ k) : ∀ (l : KV), assoc k' (erase k l) = assoc k' l
  | [] => by simp [erase]
  | (k0, v0) :: r => by
    unfold erase
    by_cases h0 : k0 = k
    · simp only [h0, if_true, assoc]
      have : ¬ k = k' := fun e => h e.symm
      simp only [this, if_false]
      exact assoc_erase_ne h r
    · simp only [h0, if_false, assoc]
      by_cases h1 : k0 = k'
      · simp [h1]
      · simp only [h1, if_false]; exact assoc_erase_ne h r

theorem walk_erase_ok {ld pre cut fs sel k} : ∀ {kvs : KV},
    walk ld pre cut fs sel kvs = .ok () → walk ld pre cut fs sel (erase k kvs) = .ok ()
  | [], _ => by simp [erase, walk_nil]
  | (k0, v0) :: r, hw => by
    rw [walk_cons, andThen_eq_ok] at hw
    unfold erase
    by_cases h0 : k0 = k
    · simp only [h0, if_true]; exact walk_erase_ok hw.2
    · simp only [h0, if_false]
      rw [walk_cons, hw.1]; exact walk_erase_ok hw.2

theorem removeF_dict (r : String) (kvs : KV) : removeF r (.dict kvs) = some (.dict (erase r kvs)) := rfl

theorem removeF_endOK (r : String) : EndOK (removeF r) r where
  onlyDict := by
    intro v v' h
    cases v with
    | dict kvs => rw [removeF_dict, Option.some.injEq] at h; exact ⟨kvs, _, rfl, h.symm⟩
    | null => simp [removeF] at h
    | bool b => simp [removeF] at h
    | int i => simp [removeF] at h
    | str s => simp [removeF] at h
    | flt x => simp [removeF] at h
    | list xs => simp [removeF] at h
  missing := by
    intro kvs kvs' h
    rw [removeF_dict, Option.some.injEq, Val.dict.injEq] at h
    subst h
    rw [assoc_erase_same]; rfl
  other := by
    intro kvs kvs' nm h hne
    rw [removeF_dict, Option.some.injEq, Val.dict.injEq] at h
    subst h
    exact assoc_erase_ne hne kvs
  walk := by
    intro ld pre cut fs sel kvs kvs' h hw _
    rw [removeF_dict, Option.some.injEq, Val.dict.injEq] at h
    subst h
    exact walk_erase_ok hw

/-- **a required key made missing at any position is reported with its full position** -/
theorem missing_reported {ld fs kvs} {f : Val → Option Val} {r : String} {n : Node} {p0 : Path} {w : Bool}
    {fs1 : Fields} {kvs1 : KV} {ks : List String} {fs2 : Fields} {kvs2 : KV} {v' : Val}
    (hE : EndOK f r)
    (h : validate ld fs kvs = .ok ())
    (hp : reach (root fs kvs) p0 = .pos ⟨true, .group w fs1, .dict kvs1⟩)
    (hst : stableAlong (root fs kvs) p0 = true)
    (hl : levelIn fs1 kvs1 ks = some (fs2, kvs2)) (hsl : stableLevels fs1 kvs1 ks = true)
    (ha : assoc r fs2 = some n) (hreq : isRequiredNode n = true)
    (hgood : ∀ vq', f (.dict kvs2) = some vq' → GoodPair (.dict kvs2) vq')
    (hm : modifyAt f (p0 ++ ks.map .key) (.dict kvs) = some v') :
    chkVal ld [] 0 true (.group false fs) v' = .error (.required (p0 ++ (ks ++ [r]).map .key) p0.length) := by
  rw [modifyAt_append] at hm
  have hok : chkVal ld [] 0 (root fs kvs).item (root fs kvs).node (root fs kvs).val = .ok () := h
  have hgoodQ : ∀ vq', modifyAt f (ks.map .key) (.dict kvs1) = some vq' → GoodPair (.dict kvs1) vq' := by
    intro vq' hq
    refine modifyAt_good (ks.map .key) ?_ hq
    intro vq vq'' hg hfq
    rw [levelIn_modify_getPath hE.onlyDict ks hl hq, Option.some.injEq] at hg
    subst hg
    exact hgood vq'' hfq
  obtain ⟨cut1, vq', hfq, hqok, hprop⟩ :=
    modify_prop p0 (q := ⟨true, .group w fs1, .dict kvs1⟩) hgoodQ hok hp hst hm
  simp only [List.nil_append] at hqok hprop
  simp only at hfq
  have hkind : ∃ kvs1', vq' = .dict kvs1' := by
    rcases (hgoodQ vq' hfq).1 with ⟨a, b, _, h2⟩ | ⟨a, b, h1, _⟩
    · exact ⟨b, h2⟩
    · cases h1
  obtain ⟨kvs1', rfl⟩ := hkind
  apply hprop
  rw [chkVal_group_dict] at hqok ⊢
  simp only [if_true, andThen_eq_ok] at hqok
  simp only [if_true]
  obtain ⟨ih1, ih2⟩ := req_level hE ks hqok.1 hqok.2 hl hsl ha hreq hgood hfq
  rw [ih1, ih2]; rfl

end Jap.Validate

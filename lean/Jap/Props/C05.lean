import Jap.Core.Channels
import Jap.Gen.NsTables
import Jap.Lemmas.ChannelsText
import Jap.Lemmas.ChannelsKeys
import Jap.Lemmas.ChannelsAssign
import Jap.Lemmas.ChannelsDecode
import Jap.Lemmas.ChannelsEnc
import Jap.Lemmas.ChannelsTyped
import Jap.Lemmas.ChannelsSrcTie
/-!
# C05 — The same settings give the same configuration through every input channel

Model: `Jap.Channels` (Core/Channels.lean): renderings of a settings list for six channels (command line,
config document nested / dotted, Python object nested / dotted, environment), the addressing (`dest`,
`splitDot`, `envVar` = `get_env_var`), the canonical text of a value and its reader, `load_basic`, and
`apply` = decode + assignment with the Namespace model's `setK`.

FULL STATEMENT (what the property asks, on the model): for all parsers `P`, settings `S`, base namespaces
`ns` and channels `c c'`:  `apply P (render P c S) ns = apply P (render P c' S) ns`.

It needs hypotheses, all decidable and all met by the generated parsers (non-vacuity examples below):
* `goodParser P`   — key segments can be spelled in every channel (non-empty, no `.`/space/`=`), no `__`
                     inside and no `_` at the end of a segment, no key a prefix of another, keys distinct up
                     to letter case.  Dropped ⇒ environment variable names collide
                     (`C05_envvar_collision_*`, by `decide`).
* `goodSettings P S` — declared keys, each at most once, values with an unambiguous text (strings exactly at
                     the str-typed positions, JSON-safe ASCII).  Text outside the canonical image is not
                     read (`C05_ambiguous_0123`: DESIGN §7 row 5d, first half).
* `covers P S ns`  — the base holds every key (the defaults do).  Dropped ⇒ the namespaces are equal only
                     up to the order of their keys (`C05_order_without_cover`); the stored values still
                     agree on every base: `C05_channels_reads`.
The type adapter (what a text means at a typed position, rejections by type) is C02's, scalar resolution of
arbitrary text C01's; jsonnet / omegaconf evaluation is outside (oracle).
-/
namespace Jap.Props.C05
open Jap.NS Jap.Channels

/-! ## the unambiguous textual form -/

/-- the canonical JSON text of every value of the grammar is read back to exactly that value
    (`norm`: a yes/no setting is carried by documents as its boolean; every other value is itself) -/
theorem C05_text_roundtrip (v : Val) (h : safeVal v = true) : loadText (textOf v) = some (norm v) :=
  loadText_textOf v h

/-- the text of an environment variable (or of `--k=text`) is read back at a position of the matching kind: a string as
    it is at a str-typed position, a word at a yes/no option, the JSON list at a list-valued option, canonical JSON elsewhere -/
theorem C05_env_text_roundtrip (kind : Kind) (v : Val) (hm : kindMatches kind v = true) (h : safeVal v = true) :
    (readLeafK kind (envChars kind v)).map enc = some (enc v) :=
  readLeafK_envChars kind v hm h

/-- `load_basic` returns the same as the reader on the canonical text of every int, bool and null -/
theorem C05_load_basic_agrees (s : Scalar) (h : ∀ x, s ≠ .str x) (h' : ∀ t, s ≠ .num t) :
    loadBasic (textOf (.sc s)) = basicOf s := by
  have : (textOf (.sc s)).toList = scalarChars s := by simp [textOf, valChars, String.toList_ofList]
  unfold loadBasic
  rw [this]
  rcases loadBasicL_scalarChars s with e | ⟨x, e⟩ | ⟨t, e⟩
  · exact e
  · exact absurd e (h x)
  · exact absurd e (h' t)

/-! ## floats as exact JSON number tokens

A float setting is the TOKEN as written (sign, integer digits, optional fraction, optional exponent with optional sign).
That every such token resolves as a float under the yaml loader is C01's certificate `C05_json_float_sub`
(JSON numbers ⊆ the loader's float resolver; lean/Jap/Props/C01.lean) — cited, not re-proved here. -/

/-- the reader returns the token, for every token of the JSON number grammar — unsigned exponents included -/
theorem C05_float_token_roundtrip (t : NumTok) (h : wfTok t = true) :
    loadText (textOf (.sc (.num t))) = some (.sc (.num t)) :=
  loadText_textOf (.sc (.num t)) h

/-- `1e5`, `2E3`, `1E-3`, `-1.50E+03` are tokens of the grammar (what `json.dumps` never writes, hand-written documents do);
    `01.5`, `1.`, `.5`, `1e` are not -/
theorem C05_float_token_examples :
    loadText "1e5" = some (.sc (.num ⟨false, ['1'], none, some ⟨false, none, ['5']⟩⟩))
    ∧ loadText "2E3" = some (.sc (.num ⟨false, ['2'], none, some ⟨true, none, ['3']⟩⟩))
    ∧ loadText "1E-3" = some (.sc (.num ⟨false, ['1'], none, some ⟨true, some false, ['3']⟩⟩))
    ∧ loadText "-1.50E+03" = some (.sc (.num ⟨true, ['1'], some ['5', '0'], some ⟨true, some true, ['0', '3']⟩⟩))
    ∧ loadText "[1e5, 0.5]" = some (.list [.num ⟨false, ['1'], none, some ⟨false, none, ['5']⟩⟩, .num ⟨false, ['0'], some ['5'], none⟩])
    ∧ loadText "01.5" = none ∧ loadText "1." = none ∧ loadText ".5" = none ∧ loadText "1e" = none := by decide

/-! ## `ActionYesNo._boolean_type` (word table regenerated from the source: Gen/YesNoWords) -/

/-- the word is compared lower-cased in BOTH membership tests: every capitalisation gives the same answer -/
theorem C05_yesno_case_insensitive (w w' : List Char) (h : lower w = lower w') : boolWord w = boolWord w' := by
  simp only [boolWord, Jap.Gen.ynAcceptedLowered, Jap.Gen.ynTrueLowered, if_true, h]

/-- … so every capitalisation of true / yes gives True and every capitalisation of false / no gives False -/
theorem C05_yesno_words (w : List Char) :
    (lower w = ['t', 'r', 'u', 'e'] → boolWord w = some true) ∧ (lower w = ['y', 'e', 's'] → boolWord w = some true)
    ∧ (lower w = ['f', 'a', 'l', 's', 'e'] → boolWord w = some false) ∧ (lower w = ['n', 'o'] → boolWord w = some false) := by
  refine ⟨fun h => ?_, fun h => ?_, fun h => ?_, fun h => ?_⟩ <;>
  · simp only [boolWord, Jap.Gen.ynAcceptedLowered, Jap.Gen.ynTrueLowered, if_true, h]
    decide

theorem C05_yesno_examples :
    boolWord "True".toList = some true ∧ boolWord "YES".toList = some true ∧ boolWord "tRuE".toList = some true
    ∧ boolWord "False".toList = some false ∧ boolWord "NO".toList = some false ∧ boolWord "maybe".toList = none
    ∧ boolWord "1".toList = none := by decide

/-- `--no_k=w` gives the negation of what `--k=w` gives (and the bare flags `--k` / `--no_k` give True / False) -/
theorem C05_yesno_negation (P : Parser) (k : Key) (d : Decl) (n : YN) (t : List Char)
    (hwf : wfKey k = true) (hno : stripNo (destL k) = none)
    (hf : findDecl k.segs P.decls = some d) (hk : d.kind = .yesno n) (hn : n ≠ .bare) :
    decodeArg P [String.ofList (optChars k ++ '=' :: t)]
      = (boolWord t).map (fun b => (skeys P d.key.segs, encScalar (.bool b)))
    ∧ decodeArg P [String.ofList (noChars k ++ '=' :: t)]
      = (boolWord t).map (fun b => (skeys P d.key.segs, encScalar (.bool (!b)))) := by
  have hK := destL_notEq hwf
  have hf' : findDecl (segsOf (destL k)) P.decls = some d := by rw [segsOf_destL k (wfKey_noDot hwf)]; exact hf
  have h1 := decodeArg_eq P (destL k) t hK
  have h2 := decodeArg_eq P ('n' :: 'o' :: '_' :: destL k) t (no_notEq _ hK)
  simp only [List.cons_append] at h2
  constructor
  · simp only [optChars, List.cons_append]
    rw [h1, decodeOpt_pos P k d _ _ hno hf', hk]
    cases hb : boolWord t with
    | none => simp [readOpt, hn, hb]
    | some b => cases b <;> simp [readOpt, hn, hb, enc]
  · simp only [noChars, List.cons_append]
    rw [h2, decodeOpt_neg P k d n _ _ hf' hk]
    cases hb : boolWord t with
    | none => simp [readOpt, hn, hb]
    | some b => cases b <;> simp [readOpt, hn, hb, enc]

theorem C05_yesno_bare_flags (P : Parser) (k : Key) (d : Decl) (n : YN)
    (hwf : wfKey k = true) (hno : stripNo (destL k) = none)
    (hf : findDecl k.segs P.decls = some d) (hk : d.kind = .yesno n) (hn : n ≠ .one) :
    decodeArg P [String.ofList (optChars k)] = some (skeys P d.key.segs, encScalar (.bool true))
    ∧ decodeArg P [String.ofList (noChars k)] = some (skeys P d.key.segs, encScalar (.bool false)) := by
  have hK := destL_notEq hwf
  have hf' : findDecl (segsOf (destL k)) P.decls = some d := by rw [segsOf_destL k (wfKey_noDot hwf)]; exact hf
  constructor
  · simp only [optChars]
    rw [decodeArg_bare P (destL k) [] hK, decodeOpt_pos P k d _ _ hno hf', hk]
    simp [readOpt, hn, enc]
  · simp only [noChars]
    rw [decodeArg_bare P _ [] (no_notEq _ hK), decodeOpt_neg P k d n _ _ hf' hk]
    simp [readOpt, hn, enc]

/-! ## list-valued options: `_is_action_value_list` -/

/-- nargs 1, 2, '+', '*' are list-valued; no nargs, '?', 0 are not -/
theorem C05_is_action_value_list :
    (∀ n : NArgs, isActionValueList n.raw = true) ∧ isActionValueList .none = false ∧ isActionValueList .q = false
    ∧ isActionValueList (.int 0) = false ∧ isActionValueList (.int 1) = true := by
  refine ⟨fun n => ?_, rfl, rfl, rfl, rfl⟩
  cases n <;> rfl

/-- row 5d, first half: `0123` is not the text of any value of the grammar — `load_basic` reads 123 (YAML reads 83) -/
theorem C05_ambiguous_0123 : loadText "0123" = none ∧ loadBasic "0123" = .int 123 ∧ loadText "123" = some (.sc (.int 123)) := by
  decide

/-- look-alikes that `load_basic` must NOT take for a value: `True`, `yes`, `Null`, padded keywords are fine -/
theorem C05_load_basic_lookalikes :
    loadBasic "True" = .notLoaded ∧ loadBasic "yes" = .notLoaded ∧ loadBasic "Null" = .notLoaded
    ∧ loadBasic " true " = .bool true ∧ loadBasic "1e3" = .float ∧ loadBasic "1e" = .notLoaded := by decide

/-! ## addressing -/

/-- the dotted spelling of a key splits back into its segments -/
theorem C05_dotted_key (k : Key) (h : wfKey k = true) : segsOf (dest k).toList = k.segs := by
  simp only [dest, String.toList_ofList]
  exact segsOf_destL k (wfKey_noDot h)

/-- distinct keys (up to letter case) have distinct variable names -/
theorem C05_envvar_inj (pfx : Option String) (k k' : Key) (h : envSafe k = true) (h' : envSafe k' = true)
    (hne : foldKey k ≠ foldKey k') : envVar pfx k ≠ envVar pfx k' := by
  intro e
  have hl : envVarL pfx k = envVarL pfx k' := by
    have := congrArg String.toList e
    simpa [envVar, String.toList_ofList] using this
  exact hne (envVarL_inj pfx k k' h h' hl)

/-- … and for keys without upper-case letters, distinct keys suffice -/
theorem C05_envvar_inj_lower (pfx : Option String) (k k' : Key) (h : envSafe k = true) (h' : envSafe k' = true)
    (hu : noUpper k = true) (hu' : noUpper k' = true) (hne : k ≠ k') : envVar pfx k ≠ envVar pfx k' :=
  C05_envvar_inj pfx k k' h h' (fun e => hne (foldKey_inj_of_noUpper k k' hu hu' e))

/-- the key is recoverable from the variable name -/
theorem C05_envvar_roundtrip (pfx : Option String) (k : Key) (h : envSafe k = true) (hu : noUpper k = true) :
    keyOfEnvVar pfx (envVar pfx k) = some k :=
  keyOfEnvVar_envVar pfx k h hu

/-- without the hypothesis: `a.b` and `a__b` share a variable name -/
theorem C05_envvar_collision_dunder :
    (⟨"a", ["b"]⟩ : Key) ≠ ⟨"a__b", []⟩ ∧ envVar (some "app") ⟨"a", ["b"]⟩ = envVar (some "app") ⟨"a__b", []⟩
    ∧ envSafe ⟨"a__b", []⟩ = false := by decide

/-- … `a_.b` and `a._b` share one (a trailing underscore) -/
theorem C05_envvar_collision_trailing :
    (⟨"a_", ["b"]⟩ : Key) ≠ ⟨"a", ["_b"]⟩ ∧ envVar (some "app") ⟨"a_", ["b"]⟩ = envVar (some "app") ⟨"a", ["_b"]⟩
    ∧ envSafe ⟨"a_", ["b"]⟩ = false := by decide

/-- … and names that differ only by case share one -/
theorem C05_envvar_collision_case :
    (⟨"Ab", []⟩ : Key) ≠ ⟨"ab", []⟩ ∧ envVar none ⟨"Ab", []⟩ = envVar none ⟨"ab", []⟩
    ∧ envSafe ⟨"Ab", []⟩ = true ∧ foldKey ⟨"Ab", []⟩ = foldKey ⟨"ab", []⟩ := by decide

/-! ## every channel delivers the settings -/

/-- equal leaves hold equal values: the tagging of booleans and strings inside the Namespace model loses nothing -/
theorem C05_enc_injective (v w : Val) (sv : safeVal v = true) (sw : safeVal w = true) (h : enc v = enc w) : norm v = norm w :=
  enc_inj sv sw h

/-- every channel accepts the settings and yields the namespace obtained by assigning them to the base -/
theorem C05_apply_render (P : Parser) (S : Settings) (ns : KV) (c : Channel)
    (hp : goodParser P = true) (hs : goodSettings P S = true) (hc : covers P S ns = true) :
    apply P (render P c S) ns = some (assign (asgOf P S) ns) := by
  have g := good_of_bool P S hp hs
  obtain ⟨A, hA, hperm⟩ := decode_render P S g c
  simp only [apply, hA]
  congr 1
  exact (assign_perm hperm.symm ns (divAsg_asgOf P S g) (covered_asgOf P S ns hc)).symm

/-- THE PROPERTY on the model: any two channels give the same namespace -/
theorem C05_channels (P : Parser) (S : Settings) (ns : KV) (c c' : Channel)
    (hp : goodParser P = true) (hs : goodSettings P S = true) (hc : covers P S ns = true) :
    apply P (render P c S) ns = apply P (render P c' S) ns := by
  rw [C05_apply_render P S ns c hp hs hc, C05_apply_render P S ns c' hp hs hc]

/-- nested keys spelled with dots or as a nested mapping: the same namespace (config document and Python object) -/
theorem C05_dotted_nested (P : Parser) (S : Settings) (ns : KV)
    (hp : goodParser P = true) (hs : goodSettings P S = true) (hc : covers P S ns = true) :
    apply P (render P .cfgNested S) ns = apply P (render P .cfgDotted S) ns
    ∧ apply P (render P .objNested S) ns = apply P (render P .objDotted S) ns :=
  ⟨C05_channels P S ns _ _ hp hs hc, C05_channels P S ns _ _ hp hs hc⟩

/-! on ANY base namespace (no covering): every channel accepts, and stores exactly the given value at every key -/

theorem C05_channels_reads (P : Parser) (S : Settings) (ns : KV) (c : Channel)
    (hp : goodParser P = true) (hs : goodSettings P S = true) :
    ∃ r, apply P (render P c S) ns = some r ∧ ∀ kv ∈ S, getK (skeys P kv.1.segs) r = some (enc kv.2) := by
  have g := good_of_bool P S hp hs
  obtain ⟨A, hA, hperm⟩ := decode_render P S g c
  refine ⟨assign A ns, by simp [apply, hA], ?_⟩
  intro kv hkv
  have hdA : DivAsg A := (List.Perm.pairwise_iff (fun h => diverge_symm h) hperm.symm).mp (divAsg_asgOf P S g)
  have hmem : (skeys P kv.1.segs, enc kv.2) ∈ A := by
    apply hperm.mem_iff.mpr
    rw [asgOf_eq]; exact List.mem_map.mpr ⟨kv, hkv, rfl⟩
  have hk : skeys P kv.1.segs ≠ [] := by simp [skeys, Key.segs]
  have hall : ∀ a ∈ A, a.1 = skeys P kv.1.segs ∨ Diverge a.1 (skeys P kv.1.segs) := by
    intro a ha
    rcases pairwise_mem (R := fun x y : List SKey × V => Diverge x.1 y.1) (fun h => diverge_symm h) hdA ha hmem with e | r
    · exact Or.inl (by rw [e])
    · exact Or.inr r
  have := fold_last (skeys P kv.1.segs) hk A ns hall
  simp only [foldSet] at this
  simp only [assign]
  rw [this, lastWrite_of_mem _ _ A hdA hmem]
  rfl

/-- a float setting: every channel delivers the same TOKEN at the float position (and all channels give the same namespace) -/
theorem C05_float_token_channels (P : Parser) (S : Settings) (ns : KV) (k : Key) (t : NumTok) (c c' : Channel)
    (hp : goodParser P = true) (hs : goodSettings P S = true) (hc : covers P S ns = true) (hmem : (k, .sc (.num t)) ∈ S) :
    apply P (render P c S) ns = apply P (render P c' S) ns
    ∧ ∃ r, apply P (render P c S) ns = some r ∧ getK (skeys P k.segs) r = some (enc (.sc (.num t))) := by
  refine ⟨C05_channels P S ns c c' hp hs hc, ?_⟩
  obtain ⟨r, hr, hall⟩ := C05_channels_reads P S ns c hp hs
  exact ⟨r, hr, hall _ hmem⟩

/-- a yes/no setting: whatever the word, its capitalisation and the option spelling (`--k`, `--no_k`, `--k=word`, `--no_k=word`,
    the variable's word, the JSON boolean of a document, the bool of an object), every channel stores the same boolean -/
theorem C05_yesno_channels (P : Parser) (S : Settings) (ns : KV) (k : Key) (w : YWord) (c c' : Channel)
    (hp : goodParser P = true) (hs : goodSettings P S = true) (hc : covers P S ns = true) (hmem : (k, .yesno w) ∈ S) :
    apply P (render P c S) ns = apply P (render P c' S) ns
    ∧ ∃ r, apply P (render P c S) ns = some r ∧ getK (skeys P k.segs) r = some (encScalar (.bool (ynBool w))) := by
  refine ⟨C05_channels P S ns c c' hp hs hc, ?_⟩
  obtain ⟨r, hr, hall⟩ := C05_channels_reads P S ns c hp hs
  exact ⟨r, hr, hall _ hmem⟩

/-- a list-valued option (nargs 1, 2, '+', '*'): `--k v1 v2 …` (or `--k=v` for one item), the variable's JSON list, the list of
    a document / object: every channel stores the same list -/
theorem C05_nargs_channels (P : Parser) (S : Settings) (ns : KV) (k : Key) (xs : List Scalar) (c c' : Channel)
    (hp : goodParser P = true) (hs : goodSettings P S = true) (hc : covers P S ns = true) (hmem : (k, .list xs) ∈ S) :
    apply P (render P c S) ns = apply P (render P c' S) ns
    ∧ ∃ r, apply P (render P c S) ns = some r ∧ getK (skeys P k.segs) r = some (.lst (xs.map encScalar)) := by
  refine ⟨C05_channels P S ns c c' hp hs hc, ?_⟩
  obtain ⟨r, hr, hall⟩ := C05_channels_reads P S ns c hp hs
  exact ⟨r, hr, hall _ hmem⟩

/-- the bare item of a list-valued option in an environment variable (`APP_SEED=5` for `nargs=1`) is the one-item list -/
theorem C05_nargs_env_bare (n : NArgs) (er : Bool) (x : Scalar) (hm : scalarIsStr x = er) (hsafe : safeScalar x = true)
    (hnl : ∀ xs, loadL (argChars (.sc x)) ≠ some (.list xs)) :
    readLeafK (.nlist n er) (argChars (.sc x)) = some (.list [x]) := by
  have e : readLeafK (.nlist n er) (argChars (.sc x))
      = (match loadL (argChars (.sc x)) with
         | some (.list xs) => some (.list xs)
         | _ => (readElem er (argChars (.sc x))).map (fun s => .list [s])) := rfl
  rw [e]
  split
  · rename_i xs h; exact absurd h (hnl xs)
  · simp only [readElem_ok er x hm hsafe, Option.map_some]

/-- an undeclared key is rejected on the command line, in a document and in an object (dotted spelling) -/
theorem C05_unknown_rejected (P : Parser) (S : Settings) (ns : KV) (kv : Key × Val) (hkv : kv ∈ S)
    (hwf : wfKey kv.1 = true) (hno : stripNo (destL kv.1) = none) (hun : findDecl kv.1.segs P.decls = none) :
    apply P (render P .argv S) ns = none ∧ apply P (render P .cfgDotted S) ns = none
    ∧ apply P (render P .objDotted S) ns = none := by
  have tr : ∀ {α β : Type} (f : α → Option β) (l : List α) (a : α), a ∈ l → f a = none → traverse f l = none := by
    intro α β f l
    induction l with
    | nil => intro a h; simp at h
    | cons x r ih =>
      intro a ha hf
      rcases List.mem_cons.mp ha with e | h'
      · subst e; simp [traverse, hf]
      · simp only [traverse]
        cases f x with
        | none => rfl
        | some b => simp [ih a h' hf]
  have hseg : segsOf (dest kv.1).toList = kv.1.segs := C05_dotted_key kv.1 hwf
  refine ⟨?_, ?_, ?_⟩
  · have hkind : kindOf P kv.1 = .json := by simp [kindOf, hun]
    have hg : argGroup .json kv.1 kv.2 = [String.ofList (optChars kv.1 ++ '=' :: argChars kv.2)] := by
      cases kv.2 <;> rfl
    have : decodeArg P (argGroup (kindOf P kv.1) kv.1 kv.2) = none := by
      have h1 := decodeArg_eq P (destL kv.1) (argChars kv.2) (destL_notEq hwf)
      rw [hkind, hg]
      simp only [optChars, List.cons_append]
      rw [h1]
      simp only [decodeOpt, negTarget, hno, segsOf_destL kv.1 (wfKey_noDot hwf), hun]
    simp only [apply, decode, render,
      tr (decodeArg P) (S.map fun kv => argGroup (kindOf P kv.1) kv.1 kv.2) _ (List.mem_map.mpr ⟨kv, hkv, rfl⟩) this]
  · have hm : (segsOf (dest kv.1).toList, textOf kv.2) ∈ (S.map fun kv => (dest kv.1, textOf kv.2)).map (fun e => (segsOf e.1.toList, e.2)) := by
      simp only [List.map_map, List.mem_map]
      exact ⟨kv, hkv, rfl⟩
    have : decodeLeafText P (segsOf (dest kv.1).toList, textOf kv.2) = none := by simp [decodeLeafText, hseg, hun]
    simp only [apply, decode, render, tr (decodeLeafText P) _ _ hm this, Option.map_none]
  · have hm : (segsOf (dest kv.1).toList, kv.2) ∈ (S.map fun kv => (dest kv.1, kv.2)).map (fun e => (segsOf e.1.toList, e.2)) := by
      simp only [List.map_map, List.mem_map]
      exact ⟨kv, hkv, rfl⟩
    have : decodeLeafVal P (segsOf (dest kv.1).toList, kv.2) = none := by simp [decodeLeafVal, hseg, hun]
    simp only [apply, decode, render, tr (decodeLeafVal P) _ _ hm this, Option.map_none]

/-! ## typed positions: the text channels and the value channels end in the same `_check_type`

`Jap.Channels.Typed` (Core/ChannelsTyped.lean) transcribes `ActionTypeHint._check_type`, `parse_value_or_config`,
`load_value` and `adapt_typehints` for int | float | bool | str | NoneType | Enum | Union | List | Dict | Tuple[T, …] |
Tuple[T1..Tn] | TypedDict, with the `orig_val` mechanism.  The command line and the environment call `_check_type` with the
option's TEXT, documents and objects with the loaded VALUE.  The loaders `L` (`load_value`) and `Y` (`json_or_yaml_load`)
are parameters: the theorems hold for EVERY loader.

FULL STATEMENT: for every type `t`, every value `v` (valid or not) and every text `s` that both loaders read as `v`:
`viaText L Y t s = viaValue L Y t v` (same configuration, or rejected by both).  It fails exactly where the text can be
taken for a `str` member (`C05_union_str_takes_text`: the documented ambiguity, outside the quantifier).  Proved for every type
without a `str` reachable from the top through Unions (`noStrTop`; all container types qualify, whatever their item types —
TypedDicts included since repair F62, /repo 6fc0048; `C05_tdict_field_leak` keeps the old behaviour as a regression witness). -/

section typed
open Jap.Channels.Typed

/-- a string at a `str` position is stored as it is, whatever the loaders make of it (`""`, `" "`, `null`, `[1]`, `1e3`, `{}` …) -/
theorem C05_str_position_keeps_text (L Y : String → PV) (s : String) : checkType L Y .str (.str s) = some (.str s) := by
  rcases parseValue_str L s with h | h
  · simp [checkType, h, adapt]
  · generalize hp : parseValue L (.str s) = p at h
    cases p <;> simp_all [checkType, adapt, PV.isStr]

/-- a string at an `Optional[str]` position is kept as it is unless the loaders read it as null (then it is None through every
    channel: strings take the same path whatever the channel) -/
theorem C05_optional_str_position (L Y : String → PV) (s : String)
    (hY : yload Y s ≠ .none) (hL : parseValue L (.str s) ≠ .none) :
    checkType L Y (.union [.str, .none]) (.str s) = some (.str s) :=
  optional_str_position L Y s hY hL

/-- the items of a List / Dict / Tuple and the fields of a TypedDict never see the text of the whole option (`orig_val` is reset for
    them; the four facts are regenerated from `adapt_typehints`: Gen/ChannelSrc) — for EVERY item type, Unions with `str` included -/
theorem C05_items_never_see_option_text (Y : String → PV) (o : Option String) (t : Ty) (ts : List Ty) (names : List String) (x : PV) :
    adapt Y o (.list t) x = adapt Y Option.none (.list t) x
    ∧ adapt Y o (.dict t) x = adapt Y Option.none (.dict t) x
    ∧ adapt Y o (.tupleVar t) x = adapt Y Option.none (.tupleVar t) x
    ∧ adapt Y o (.tuple ts) x = adapt Y Option.none (.tuple ts) x
    ∧ adapt Y o (.tdict names ts) x = adapt Y Option.none (.tdict names ts) x :=
  ⟨adapt_orig Y o _ x rfl, adapt_orig Y o _ x rfl, adapt_orig Y o _ x rfl, adapt_orig Y o _ x rfl, adapt_orig Y o _ x rfl⟩

/-- `orig_val` is irrelevant at every type without a `str` reachable from the top -/
theorem C05_orig_val_irrelevant (Y : String → PV) (o : Option String) (t : Ty) (x : PV) (h : noStrTop t = true) :
    adapt Y o t x = adapt Y Option.none t x :=
  adapt_orig Y o t x h

/-- a value channel is `adapt_typehints` on the value -/
theorem C05_value_channel (L Y : String → PV) (t : Ty) (v : PV) (hv : v.isStr = false) (ht : noStrTop t = true) :
    viaValue L Y t v = adapt Y Option.none t v :=
  checkType_value L Y t v hv ht

/-- THE PROPERTY at typed positions: the option's text through `--k=s` / the environment, and the value it stands for through a
    document / an object, give the same configuration or are both rejected — valid and invalid values alike -/
theorem C05_typed_channels (L Y : String → PV) (t : Ty) (s : String) (v : PV)
    (ht : noStrTop t = true) (he : noEnumName s t = true) (hv : jsonTop v = true)
    (hs1 : strip s.toList ≠ []) (hs2 : strip s.toList ≠ ['-']) (hL : L s = v) (hY : Y s = v) :
    viaText L Y t s = viaValue L Y t v :=
  typed_channels L Y t s v ht he hv hs1 hs2 hL hY

def optStr : Ty := .union [.str, .none]
def tok2p5 : NumTok := ⟨false, ['2'], some ['5'], Option.none⟩
def exLoader : String → PV :=
  tableLoader [("[\"a\", 2.5]", .list [.str "a", .num tok2p5]), ("[\"a\", null]", .list [.str "a", .none]), ("2.5", .num tok2p5),
               ("{\"a\": 2.5, \"n\": 1}", .dict [("a", .num tok2p5), ("n", .int 1)]), ("null", .none), ("7", .int 7)]

/-- non-vacuity: `List[Optional[str]]` meets the hypotheses; `["a", 2.5]` is rejected through both kinds of channel (seed C05-5A
    makes the text channel return `["a", "[\"a\", 2.5]"]`), `["a", null]` is accepted by both with the same result -/
example : noStrTop (.list optStr) = true ∧ noEnumName "[\"a\", 2.5]" (.list optStr) = true
    ∧ strip "[\"a\", 2.5]".toList ≠ [] ∧ strip "[\"a\", 2.5]".toList ≠ ['-']
    ∧ jsonTop (.list [.str "a", .num tok2p5]) = true ∧ exLoader "[\"a\", 2.5]" = .list [.str "a", .num tok2p5] := by
  refine ⟨rfl, rfl, by decide, by decide, rfl, rfl⟩

example : (viaText exLoader exLoader (.list optStr) "[\"a\", 2.5]").isNone = true
    ∧ (viaValue exLoader exLoader (.list optStr) (.list [.str "a", .num tok2p5])).isNone = true
    ∧ (viaText exLoader exLoader (.list optStr) "[\"a\", null]").isSome = true
    ∧ (viaText exLoader exLoader (.union [.int, .none]) "7").isSome = true
    ∧ (viaText exLoader exLoader (.dict (.union [.int, .str])) "[\"a\", 2.5]").isNone = true := by decide

example : checkType exLoader exLoader (.union [.str, .none]) (.str "") = some (.str "")
    ∧ checkType exLoader exLoader (.union [.str, .none]) (.str "[\"a\", 2.5]") = some (.str "[\"a\", 2.5]")
    ∧ checkType exLoader exLoader (.union [.str, .none]) (.str "null") = some .none := ⟨rfl, rfl, rfl⟩

/-- the hypothesis `noStrTop` can not be dropped: at `Union[int, str]` the text `2.5` IS a string (accepted), the float 2.5 of a
    document fits no member (rejected); likewise `null` at `Union[int, str]`.  The documented ambiguity of text at positions
    that admit `str` (outside the property's quantifier: "strings at str-typed positions") -/
theorem C05_union_str_takes_text :
    viaText exLoader exLoader (.union [.int, .str]) "2.5" = some (.str "2.5")
    ∧ (viaValue exLoader exLoader (.union [.int, .str]) (.num tok2p5)).isNone = true
    ∧ viaText exLoader exLoader (.union [.int, .str]) "null" = some (.str "null")
    ∧ (viaValue exLoader exLoader (.union [.int, .str]) .none).isNone = true
    ∧ noStrTop (.union [.int, .str]) = false := ⟨rfl, by decide, rfl, by decide, rfl⟩

/-- REGRESSION WITNESS of repaired finding C05-typeddict-field-orig-val (F62, /repo 6fc0048).  With the OLD value of the fact
    (`origResetTypedDict = false`: the per-field call kept `orig_val`) the field `a: Optional[str]` given 2.5 received the text of
    the WHOLE option; with the value the source has now (`true`, regenerated) the field is rejected, as in a document / an object -/
theorem C05_tdict_field_leak :
    adaptField exLoader (itemOrig false (some "{\"a\": 2.5, \"n\": 1}")) ["a", "n"] [optStr, .int] "a" (.num tok2p5)
      = some (.str "{\"a\": 2.5, \"n\": 1}")
    ∧ (adaptField exLoader (itemOrig true (some "{\"a\": 2.5, \"n\": 1}")) ["a", "n"] [optStr, .int] "a" (.num tok2p5)).isNone = true
    ∧ Jap.Gen.ChannelSrc.origResetTypedDict = true := ⟨rfl, by decide, rfl⟩

/-- … so every TypedDict is covered by `C05_typed_channels`: the old witness is now rejected through both kinds of channel -/
example : noStrTop (.tdict ["a", "n"] [optStr, .int]) = true
    ∧ (viaText exLoader exLoader (.tdict ["a", "n"] [optStr, .int]) "{\"a\": 2.5, \"n\": 1}").isNone = true
    ∧ (viaValue exLoader exLoader (.tdict ["a", "n"] [optStr, .int]) (.dict [("a", .num tok2p5), ("n", .int 1)])).isNone = true := by
  refine ⟨rfl, by decide, by decide⟩

end typed

/-- a present-but-empty environment variable is a setting: the empty string at a str-typed position, a rejection at a
    position that loads its text (seed C05-5B skips it) -/
theorem C05_env_empty_variable (P : Parser) (d : Decl) (hk : d.kind = .raw) :
    decodeEnv P [(envVar P.pfx d.key, "")] [d] = some [(skeys P d.key.segs, enc (.sc (.str "")))]
    ∧ readLeafK .json "".toList = Option.none := by
  refine ⟨?_, rfl⟩
  simp [decodeEnv, lookupS, hk, readLeafK]

/-! ## branch keys and `ActionParser` groups (facts regenerated from `_actions.py`: Gen/ChannelTables) -/

/-- `_is_branch_key` has the dot boundary: a key is an inner node only if some dest starts with `key + "."` -/
theorem C05_branch_key_boundary (P : Parser) (key : List Char) :
    isBranchKey P key = P.decls.any (fun d => (key ++ ['.']).isPrefixOf (destL d.key)) := by
  simp [isBranchKey, Jap.Gen.branchKeyDotBoundary]

/-- … so a branch key is followed by a dot in some dest: a truncated name (`mod` for `model.x`) is not one -/
theorem C05_branch_key_dot (P : Parser) (key : List Char) (h : isBranchKey P key = true) :
    ∃ d ∈ P.decls, ∃ rest, destL d.key = key ++ '.' :: rest := by
  rw [C05_branch_key_boundary] at h
  obtain ⟨d, hd, hp⟩ := List.any_eq_true.mp h
  obtain ⟨t, ht⟩ := List.isPrefixOf_iff_prefix.mp hp
  exact ⟨d, hd, t, by rw [← ht]; simp⟩

theorem C05_branch_key_examples :
    let P : Parser := ⟨[], none, [⟨⟨"model", ["x"]⟩, .json⟩, ⟨⟨"model", ["y"]⟩, .json⟩, ⟨⟨"trainer", ["optimizer", "lr"]⟩, .json⟩]⟩
    isBranchKey P "model".toList = true ∧ isBranchKey P "mod".toList = false ∧ isBranchKey P "model.x".toList = false
    ∧ isBranchKey P "trainer.optimizer".toList = true ∧ isBranchKey P "trainer.opt".toList = false := by decide

/-- the group-level variable is applied before the leaf variables of the group: the leaf variable wins -/
theorem C05_group_env_leaf_wins (g rest : List SKey) (hr : rest ≠ []) (v : V) (mapping ns : KV) :
    getK (g ++ rest) (envGroupCode g mapping [(g ++ rest, v)] ns) = some v := by
  have hk : g ++ rest ≠ [] := by
    cases g <;> simp [hr]
  simp only [envGroupCode, envGroup, Jap.Gen.groupActionFirst, if_true, assign, List.foldl_cons, List.foldl_nil]
  exact getK_setK_same (g ++ rest) v _ hk

/-- with the other order the leaf variable is lost: the branch given by the group variable comes back -/
theorem C05_group_env_order_matters :
    let g := [mark [] "inner"]
    let k := [mark [] "inner", mark [] "x"]
    let mapping : KV := [(mark [] "x", .atom 0), (mark [] "y", .atom 1)]
    let ns : KV := [(mark [] "inner", .ns [(mark [] "x", .atom 0), (mark [] "y", .atom 0)])]
    getK k (envGroup true g mapping [(k, .atom 2)] ns) = some (.atom 2)
    ∧ getK k (envGroup false g mapping [(k, .atom 2)] ns) = some (.atom 0) := ⟨rfl, rfl⟩

/-! ## non-vacuity: the hypotheses hold for a non-trivial parser with the regenerated clash table -/

def tok1e5 : NumTok := ⟨false, ['1'], none, some ⟨false, none, ['5']⟩⟩

def exParser : Parser :=
  ⟨Jap.Gen.clashNames, some "my-app",
   [⟨⟨"lr", []⟩, .json⟩, ⟨⟨"g", ["name"]⟩, .raw⟩, ⟨⟨"g", ["s", "items"]⟩, .json⟩, ⟨⟨"keys", []⟩, .json⟩, ⟨⟨"opt", []⟩, .json⟩,
    ⟨⟨"verbose", []⟩, .yesno .opt⟩, ⟨⟨"g", ["color"]⟩, .yesno .bare⟩, ⟨⟨"size", []⟩, .nlist .n2 false⟩, ⟨⟨"tags", []⟩, .nlist .plus true⟩]⟩

def exSettings : Settings :=
  [(⟨"g", ["s", "items"]⟩, .list [.int 1, .bool true, .null, .str "a, b", .num tok1e5]), (⟨"keys", []⟩, .dict [("a", 1), ("b c", -2)]),
   (⟨"g", ["name"]⟩, .sc (.str "0123")), (⟨"lr", []⟩, .sc (.num ⟨true, ['2'], some ['5'], some ⟨true, some true, ['0', '3']⟩⟩)),
   (⟨"verbose", []⟩, .yesno ⟨"YES", some "False"⟩), (⟨"g", ["color"]⟩, .yesno ⟨"No", none⟩),
   (⟨"size", []⟩, .list [.int 3, .int 4]), (⟨"tags", []⟩, .list [.str "exp 1"])]

def exBase : KV :=
  [(mark Jap.Gen.clashNames "lr", .atom 0),
   (mark Jap.Gen.clashNames "g", .ns [(mark Jap.Gen.clashNames "name", enc (.sc (.str "x"))),
      (mark Jap.Gen.clashNames "s", .ns [(mark Jap.Gen.clashNames "items", .lst [])]),
      (mark Jap.Gen.clashNames "color", enc (.sc (.bool true)))]),
   (mark Jap.Gen.clashNames "keys", .dct []), (mark Jap.Gen.clashNames "opt", .none),
   (mark Jap.Gen.clashNames "verbose", enc (.sc (.bool false))), (mark Jap.Gen.clashNames "size", .lst [.atom 1, .atom 1]),
   (mark Jap.Gen.clashNames "tags", .lst [])]

example : goodParser exParser = true ∧ goodSettings exParser exSettings = true ∧ covers exParser exSettings exBase = true
    ∧ (mark Jap.Gen.clashNames "keys").marked = true := by decide

example : render exParser .argv exSettings
    = .argv [["--g.s.items=[1, true, null, \"a, b\", 1e5]"], ["--keys={\"a\": 1, \"b c\": -2}"], ["--g.name=0123"], ["--lr=-2.5E+03"],
             ["--no_verbose=False"], ["--no_g.color"], ["--size", "3", "4"], ["--tags=exp 1"]] := by decide

example : render exParser .env exSettings
    = .env [("MY_APP_G__S__ITEMS", "[1, true, null, \"a, b\", 1e5]"), ("MY_APP_KEYS", "{\"a\": 1, \"b c\": -2}"),
            ("MY_APP_G__NAME", "0123"), ("MY_APP_LR", "-2.5E+03"), ("MY_APP_VERBOSE", "YES"), ("MY_APP_G__COLOR", "No"),
            ("MY_APP_SIZE", "[3, 4]"), ("MY_APP_TAGS", "[\"exp 1\"]")] := by decide

/-- document order of the nested mapping: the `g.*` keys become neighbours; yes/no settings are JSON booleans -/
example : render exParser .cfgNested exSettings
    = .cfgNested [(["g", "s", "items"], "[1, true, null, \"a, b\", 1e5]"), (["g", "name"], "\"0123\""), (["g", "color"], "false"),
                  (["keys"], "{\"a\": 1, \"b c\": -2}"), (["lr"], "-2.5E+03"), (["verbose"], "true"), (["size"], "[3, 4]"),
                  (["tags"], "[\"exp 1\"]")] := by decide

/-! ## without a covering base the namespaces agree only up to key order -/

def keyOrder (r : Option KV) : Option (List String) := r.map (fun kvs => kvs.map (·.1.name))

theorem C05_order_without_cover :
    keyOrder (apply exParser (render exParser .argv exSettings) []) = some ["g", "keys", "lr", "verbose", "size", "tags"]
    ∧ keyOrder (apply exParser (render exParser .env exSettings) []) = some ["lr", "g", "keys", "verbose", "size", "tags"]
    ∧ covers exParser exSettings [] = false := by decide

end Jap.Props.C05

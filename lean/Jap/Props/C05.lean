import Jap.Core.Channels
import Jap.Gen.NsTables
import Jap.Lemmas.ChannelsText
import Jap.Lemmas.ChannelsKeys
import Jap.Lemmas.ChannelsAssign
import Jap.Lemmas.ChannelsDecode
import Jap.Lemmas.ChannelsEnc
/-!
# C05 — The same settings give the same configuration through every input channel

Model: `Jap.Channels` (Core/Channels.lean): renderings of a settings list for six channels (command line,
config document nested / dotted, Python object nested / dotted, environment), the addressing (`dest`,
`splitDot`, `envVar` = `get_env_var`), the canonical text of a value and its reader, `load_basic`, and
`apply` = decode + assignment with the Namespace model's `setK`.

FULL STATEMENT (what the property asks, on the model): for all parsers `P`, settings `S`, base namespaces
`ns` and channels `c c'`:  `apply P (render P c S) ns = apply P (render P c' S) ns`.

It needs hypotheses, all decidable and all met by the generated parsers (non-vacuity examples below):
* `goodParser P`   — key segments can be spelled in every channel (non-empty, no `.`/space/`=`), no `__`
                     inside and no `_` at the end of a segment, no key a prefix of another, keys distinct up
                     to letter case.  Dropped ⇒ environment variable names collide
                     (`C05_envvar_collision_*`, by `decide`).
* `goodSettings P S` — declared keys, each at most once, values with an unambiguous text (strings exactly at
                     the str-typed positions, JSON-safe ASCII).  Text outside the canonical image is not
                     read (`C05_ambiguous_0123`: DESIGN §7 row 5d, first half).
* `covers P S ns`  — the base holds every key (the defaults do).  Dropped ⇒ the namespaces are equal only
                     up to the order of their keys (`C05_order_without_cover`); the stored values still
                     agree on every base: `C05_channels_reads`.
The type adapter (what a text means at a typed position, rejections by type) is C02's, scalar resolution of
arbitrary text C01's; jsonnet / omegaconf evaluation is outside (oracle).
-/
namespace Jap.Props.C05
open Jap.NS Jap.Channels

/-! ## the unambiguous textual form -/

/-- the canonical JSON text of every value of the grammar is read back to exactly that value -/
theorem C05_text_roundtrip (v : Val) (h : safeVal v = true) : loadText (textOf v) = some v :=
  loadText_textOf v h

/-- the text of an option / environment variable is read back at a position of the matching kind
    (a string as it is at a str-typed position, canonical JSON elsewhere) -/
theorem C05_arg_text_roundtrip (raw : Bool) (v : Val) (hr : raw = isStrVal v) (h : safeVal v = true) :
    readLeaf raw (argText v).toList = some v := by
  have : (argText v).toList = argChars v := by simp [argText, String.toList_ofList]
  rw [this]; exact readLeaf_argChars raw v hr h

/-- `load_basic` returns the same as the reader on the canonical text of every non-string scalar -/
theorem C05_load_basic_agrees (s : Scalar) (h : ∀ x, s ≠ .str x) : loadBasic (textOf (.sc s)) = basicOf s := by
  have : (textOf (.sc s)).toList = scalarChars s := by simp [textOf, valChars, String.toList_ofList]
  unfold loadBasic
  rw [this]
  rcases loadBasicL_scalarChars s with e | ⟨x, e⟩
  · exact e
  · exact absurd e (h x)

/-- row 5d, first half: `0123` is not the text of any value of the grammar — `load_basic` reads 123 (YAML reads 83) -/
theorem C05_ambiguous_0123 : loadText "0123" = none ∧ loadBasic "0123" = .int 123 ∧ loadText "123" = some (.sc (.int 123)) := by
  decide

/-- look-alikes that `load_basic` must NOT take for a value: `True`, `yes`, `Null`, padded keywords are fine -/
theorem C05_load_basic_lookalikes :
    loadBasic "True" = .notLoaded ∧ loadBasic "yes" = .notLoaded ∧ loadBasic "Null" = .notLoaded
    ∧ loadBasic " true " = .bool true ∧ loadBasic "1e3" = .float ∧ loadBasic "1e" = .notLoaded := by decide

/-! ## addressing -/

/-- the dotted spelling of a key splits back into its segments -/
theorem C05_dotted_key (k : Key) (h : wfKey k = true) : segsOf (dest k).toList = k.segs := by
  simp only [dest, String.toList_ofList]
  exact segsOf_destL k (wfKey_noDot h)

/-- distinct keys (up to letter case) have distinct variable names -/
theorem C05_envvar_inj (pfx : Option String) (k k' : Key) (h : envSafe k = true) (h' : envSafe k' = true)
    (hne : foldKey k ≠ foldKey k') : envVar pfx k ≠ envVar pfx k' := by
  intro e
  have hl : envVarL pfx k = envVarL pfx k' := by
    have := congrArg String.toList e
    simpa [envVar, String.toList_ofList] using this
  exact hne (envVarL_inj pfx k k' h h' hl)

/-- … and for keys without upper-case letters, distinct keys suffice -/
theorem C05_envvar_inj_lower (pfx : Option String) (k k' : Key) (h : envSafe k = true) (h' : envSafe k' = true)
    (hu : noUpper k = true) (hu' : noUpper k' = true) (hne : k ≠ k') : envVar pfx k ≠ envVar pfx k' :=
  C05_envvar_inj pfx k k' h h' (fun e => hne (foldKey_inj_of_noUpper k k' hu hu' e))

/-- the key is recoverable from the variable name -/
theorem C05_envvar_roundtrip (pfx : Option String) (k : Key) (h : envSafe k = true) (hu : noUpper k = true) :
    keyOfEnvVar pfx (envVar pfx k) = some k :=
  keyOfEnvVar_envVar pfx k h hu

/-- without the hypothesis: `a.b` and `a__b` share a variable name -/
theorem C05_envvar_collision_dunder :
    (⟨"a", ["b"]⟩ : Key) ≠ ⟨"a__b", []⟩ ∧ envVar (some "app") ⟨"a", ["b"]⟩ = envVar (some "app") ⟨"a__b", []⟩
    ∧ envSafe ⟨"a__b", []⟩ = false := by decide

/-- … `a_.b` and `a._b` share one (a trailing underscore) -/
theorem C05_envvar_collision_trailing :
    (⟨"a_", ["b"]⟩ : Key) ≠ ⟨"a", ["_b"]⟩ ∧ envVar (some "app") ⟨"a_", ["b"]⟩ = envVar (some "app") ⟨"a", ["_b"]⟩
    ∧ envSafe ⟨"a_", ["b"]⟩ = false := by decide

/-- … and names that differ only by case share one -/
theorem C05_envvar_collision_case :
    (⟨"Ab", []⟩ : Key) ≠ ⟨"ab", []⟩ ∧ envVar none ⟨"Ab", []⟩ = envVar none ⟨"ab", []⟩
    ∧ envSafe ⟨"Ab", []⟩ = true ∧ foldKey ⟨"Ab", []⟩ = foldKey ⟨"ab", []⟩ := by decide

/-! ## every channel delivers the settings -/

/-- equal leaves hold equal values: the tagging of booleans and strings inside the Namespace model loses nothing -/
theorem C05_enc_injective (v w : Val) (h : enc v = enc w) : v = w := enc_inj h

/-- every channel accepts the settings and yields the namespace obtained by assigning them to the base -/
theorem C05_apply_render (P : Parser) (S : Settings) (ns : KV) (c : Channel)
    (hp : goodParser P = true) (hs : goodSettings P S = true) (hc : covers P S ns = true) :
    apply P (render P c S) ns = some (assign (asgOf P S) ns) := by
  have g := good_of_bool P S hp hs
  obtain ⟨A, hA, hperm⟩ := decode_render P S g c
  simp only [apply, hA]
  congr 1
  exact (assign_perm hperm.symm ns (divAsg_asgOf P S g) (covered_asgOf P S ns hc)).symm

/-- THE PROPERTY on the model: any two channels give the same namespace -/
theorem C05_channels (P : Parser) (S : Settings) (ns : KV) (c c' : Channel)
    (hp : goodParser P = true) (hs : goodSettings P S = true) (hc : covers P S ns = true) :
    apply P (render P c S) ns = apply P (render P c' S) ns := by
  rw [C05_apply_render P S ns c hp hs hc, C05_apply_render P S ns c' hp hs hc]

/-- nested keys spelled with dots or as a nested mapping: the same namespace (config document and Python object) -/
theorem C05_dotted_nested (P : Parser) (S : Settings) (ns : KV)
    (hp : goodParser P = true) (hs : goodSettings P S = true) (hc : covers P S ns = true) :
    apply P (render P .cfgNested S) ns = apply P (render P .cfgDotted S) ns
    ∧ apply P (render P .objNested S) ns = apply P (render P .objDotted S) ns :=
  ⟨C05_channels P S ns _ _ hp hs hc, C05_channels P S ns _ _ hp hs hc⟩

/-! on ANY base namespace (no covering): every channel accepts, and stores exactly the given value at every key -/

theorem C05_channels_reads (P : Parser) (S : Settings) (ns : KV) (c : Channel)
    (hp : goodParser P = true) (hs : goodSettings P S = true) :
    ∃ r, apply P (render P c S) ns = some r ∧ ∀ kv ∈ S, getK (skeys P kv.1.segs) r = some (enc kv.2) := by
  have g := good_of_bool P S hp hs
  obtain ⟨A, hA, hperm⟩ := decode_render P S g c
  refine ⟨assign A ns, by simp [apply, hA], ?_⟩
  intro kv hkv
  have hdA : DivAsg A := (List.Perm.pairwise_iff (fun h => diverge_symm h) hperm.symm).mp (divAsg_asgOf P S g)
  have hmem : (skeys P kv.1.segs, enc kv.2) ∈ A := by
    apply hperm.mem_iff.mpr
    rw [asgOf_eq]; exact List.mem_map.mpr ⟨kv, hkv, rfl⟩
  have hk : skeys P kv.1.segs ≠ [] := by simp [skeys, Key.segs]
  have hall : ∀ a ∈ A, a.1 = skeys P kv.1.segs ∨ Diverge a.1 (skeys P kv.1.segs) := by
    intro a ha
    rcases pairwise_mem (R := fun x y : List SKey × V => Diverge x.1 y.1) (fun h => diverge_symm h) hdA ha hmem with e | r
    · exact Or.inl (by rw [e])
    · exact Or.inr r
  have := fold_last (skeys P kv.1.segs) hk A ns hall
  simp only [foldSet] at this
  simp only [assign]
  rw [this, lastWrite_of_mem _ _ A hdA hmem]
  rfl

/-- an undeclared key is rejected on the command line, in a document and in an object (dotted spelling) -/
theorem C05_unknown_rejected (P : Parser) (S : Settings) (ns : KV) (kv : Key × Val) (hkv : kv ∈ S)
    (hwf : wfKey kv.1 = true) (hun : findDecl kv.1.segs P.decls = none) :
    apply P (render P .argv S) ns = none ∧ apply P (render P .cfgDotted S) ns = none
    ∧ apply P (render P .objDotted S) ns = none := by
  have tr : ∀ {α β : Type} (f : α → Option β) (l : List α) (a : α), a ∈ l → f a = none → traverse f l = none := by
    intro α β f l
    induction l with
    | nil => intro a h; simp at h
    | cons x r ih =>
      intro a ha hf
      rcases List.mem_cons.mp ha with e | h'
      · subst e; simp [traverse, hf]
      · simp only [traverse]
        cases f x with
        | none => rfl
        | some b => simp [ih a h' hf]
  have hseg : segsOf (dest kv.1).toList = kv.1.segs := C05_dotted_key kv.1 hwf
  refine ⟨?_, ?_, ?_⟩
  · have : decodeArg P (argTok kv) = none := by
      have tw := takeWhile_stop' (p := notEq) (destL kv.1) '=' (argChars kv.2) (destL_notEq hwf) (by decide)
      simp only [decodeArg, argTok, String.toList_ofList, and_self, if_true, tw.1, tw.2,
        segsOf_destL kv.1 (wfKey_noDot hwf), hun]
    simp only [apply, decode, render, tr (decodeArg P) (S.map argTok) (argTok kv) (List.mem_map.mpr ⟨kv, hkv, rfl⟩) this]
  · have hm : (segsOf (dest kv.1).toList, textOf kv.2) ∈ (S.map fun kv => (dest kv.1, textOf kv.2)).map (fun e => (segsOf e.1.toList, e.2)) := by
      simp only [List.map_map, List.mem_map]
      exact ⟨kv, hkv, rfl⟩
    have : decodeLeafText P (segsOf (dest kv.1).toList, textOf kv.2) = none := by simp [decodeLeafText, hseg, hun]
    simp only [apply, decode, render, tr (decodeLeafText P) _ _ hm this, Option.map_none]
  · have hm : (segsOf (dest kv.1).toList, kv.2) ∈ (S.map fun kv => (dest kv.1, kv.2)).map (fun e => (segsOf e.1.toList, e.2)) := by
      simp only [List.map_map, List.mem_map]
      exact ⟨kv, hkv, rfl⟩
    have : decodeLeafVal P (segsOf (dest kv.1).toList, kv.2) = none := by simp [decodeLeafVal, hseg, hun]
    simp only [apply, decode, render, tr (decodeLeafVal P) _ _ hm this, Option.map_none]

/-! ## non-vacuity: the hypotheses hold for a non-trivial parser with the regenerated clash table -/

def exParser : Parser :=
  ⟨Jap.Gen.clashNames, some "my-app",
   [⟨⟨"lr", []⟩, false⟩, ⟨⟨"g", ["name"]⟩, true⟩, ⟨⟨"g", ["s", "items"]⟩, false⟩, ⟨⟨"keys", []⟩, false⟩, ⟨⟨"opt", []⟩, false⟩]⟩

def exSettings : Settings :=
  [(⟨"g", ["s", "items"]⟩, .list [.int 1, .bool true, .null, .str "a, b"]), (⟨"keys", []⟩, .dict [("a", 1), ("b c", -2)]),
   (⟨"g", ["name"]⟩, .sc (.str "0123")), (⟨"lr", []⟩, .sc (.int (-5)))]

def exBase : KV :=
  [(mark Jap.Gen.clashNames "lr", .atom 0),
   (mark Jap.Gen.clashNames "g", .ns [(mark Jap.Gen.clashNames "name", enc (.sc (.str "x"))),
      (mark Jap.Gen.clashNames "s", .ns [(mark Jap.Gen.clashNames "items", .lst [])])]),
   (mark Jap.Gen.clashNames "keys", .dct []), (mark Jap.Gen.clashNames "opt", .none)]

example : goodParser exParser = true ∧ goodSettings exParser exSettings = true ∧ covers exParser exSettings exBase = true
    ∧ (mark Jap.Gen.clashNames "keys").marked = true := by decide

example : render exParser .argv exSettings
    = .argv ["--g.s.items=[1, true, null, \"a, b\"]", "--keys={\"a\": 1, \"b c\": -2}", "--g.name=0123", "--lr=-5"] := by decide

example : render exParser .env exSettings
    = .env [("MY_APP_G__S__ITEMS", "[1, true, null, \"a, b\"]"), ("MY_APP_KEYS", "{\"a\": 1, \"b c\": -2}"),
            ("MY_APP_G__NAME", "0123"), ("MY_APP_LR", "-5")] := by decide

/-- document order of the nested mapping: `g.s.items` and `g.name` become neighbours -/
example : render exParser .cfgNested exSettings
    = .cfgNested [(["g", "s", "items"], "[1, true, null, \"a, b\"]"), (["g", "name"], "\"0123\""),
                  (["keys"], "{\"a\": 1, \"b c\": -2}"), (["lr"], "-5")] := by decide

/-! ## without a covering base the namespaces agree only up to key order -/

def keyOrder (r : Option KV) : Option (List String) := r.map (fun kvs => kvs.map (·.1.name))

theorem C05_order_without_cover :
    keyOrder (apply exParser (render exParser .argv exSettings) []) = some ["g", "keys", "lr"]
    ∧ keyOrder (apply exParser (render exParser .env exSettings) []) = some ["lr", "g", "keys"]
    ∧ covers exParser exSettings [] = false := by decide

end Jap.Props.C05

/-
C10 — parse results are fixed points: re-parsing or validating changes nothing.
Property theorems only; the proofs are in Jap/Lemmas/AdaptIdem.lean.

`adapt O false none t` is the adapter as `validate` / `parse_object` apply it to a value that is already in the
configuration (no original string).  `good t`: every Union member inside `t` is `uSafe`, i.e. free of `Any`,
`Set`, `Dict[int, _]` and of `Literal`s with non-string members; outside Unions every construct of the
grammar is allowed (`Any`, `Set`, `Dict[int, _]`, arbitrary `Literal`s included).
-/
import Jap.Core.Adapt
import Jap.Gen.AdaptTables
import Jap.Lemmas.AdaptIdem
namespace Jap.Props.C10
open Jap.Adapt

/-- the model was written against the current branch order of `adapt_typehints` -/
theorem tie_branch_order : Jap.Gen.adaptBranches = branchOrder := by rfl

/-! ### the theorems -/

/-- **C10_adapt_mono**: a Union member that rejected the raw value also rejects the value another member
    made of it (all loaders, all values; both types `uSafe`) -/
theorem C10_adapt_mono (O : Oracle) (t t' : Ty) (v w : Val) (e : Err)
    (hu : uSafe t = true) (hu' : uSafe t' = true)
    (h1 : adapt O false .none t v = .ok w) (h2 : adapt O false .none t' v = .error e) :
    ∃ e', adapt O false .none t' w = .error e' :=
  mono O t t' v w e hu hu' h1 h2

/-- **C10_adapt_idem**: adapting an adapted value returns it unchanged — for every loader, every value and every
    type hint whose Union members are `uSafe` -/
theorem C10_adapt_idem (O : Oracle) (t : Ty) (v w : Val) (hg : good t = true)
    (h : adapt O false .none t v = .ok w) : adapt O false .none t w = .ok w :=
  idem O t v w hg h

/-- in particular a result passes the validation pass and `parse_object` returns it unchanged -/
theorem C10_validate (O : Oracle) (t : Ty) (v w : Val) (hg : good t = true)
    (h : adapt O false .none t v = .ok w) : accepts O t w = true := by
  simp [accepts, idem O t v w hg h]

/-- the hypothesis covers every construct of the grammar, at any depth, outside Union members … -/
example : good (.dict .int (.set (.tuple [.any, .literal [.int 1, .bool true], .union [.int, .float, .str, .none]]))) = true := by rfl

/-- … and Unions over everything but Any / Set / Dict[int, _] / non-string Literals -/
example : good (.union [.list (.union [.int, .enum 0 ["a"]]), .dict .str (.tuple [.float, .literal [.str "x"]]),
    .tupleVar .bool, .none, .str]) = true := by rfl

/-- a non-trivial instance: text → int, int → float, list → tuple, name → member, all fixed by the second pass -/
example :
    let O : Oracle := ⟨fun s => if s = "1" then some (.int 1) else some (.str s), fun s => some (.str s), fun _ => some "?", fun _ => .none⟩
    let t : Ty := .list (.union [.tuple [.float, .enum 0 ["red"]], .int, .str])
    adapt O false .none t (.list [.list [.str "1", .str "red"], .str "1", .str "x"])
      = .ok (.list [.tuple [.flt "1.0", .enum 0 "red"], .int 1, .str "x"]) ∧
    adapt O false .none t (.list [.tuple [.flt "1.0", .enum 0 "red"], .int 1, .str "x"])
      = .ok (.list [.tuple [.flt "1.0", .enum 0 "red"], .int 1, .str "x"]) := by
  exact ⟨rfl, rfl⟩

/-! ### where the full statement fails

Full statement (FALSE for the code and hence for the model):
  `theorem C10_adapt_idem_full : adapt O false none t v = .ok w → adapt O false none t w = .ok w`
Each excluded construct has a counterexample; all four are reproduced on the real parser by the harness
(known findings C10-union-set-dedup-second-pass, C10-union-any-second-pass, C10-literal-pyeq-second-pass). -/

def O0 : Oracle where
  yaml s := if s = "1" then some (.int 1) else if s = "[1]" then some (.list [.int 1]) else some (.str s)
  loadAny s := if s = "[1]" then some (.list [.int 1]) else some (.str s)
  bigFlt _ := some "?"
  intOf s := if s = "1" then some 1 else if s = "01" then some 1 else .none

/-- Set: `Union[Set[float], Set[Union[int, bool]]]` on `[1, True]` — the element that made the first member
    reject is dropped by `set()`, the second pass stops at the first member and converts -/
theorem C10_idem_fails_set :
    let t : Ty := .union [.set .float, .set (.union [.int, .bool])]
    adapt O0 false .none t (.list [.int 1, .bool true]) = .ok (.set [.int 1]) ∧
    adapt O0 false .none t (.set [.int 1]) = .ok (.set [.flt "1.0"]) := by
  exact ⟨rfl, rfl⟩

/-- Dict[int, _]: two keys that cast to the same int — the value that made the first member reject is overwritten -/
theorem C10_idem_fails_intkey :
    let t : Ty := .union [.dict .str .float, .dict .int .int]
    adapt O0 false .none t (.dict [(.str "1", .str "a"), (.str "01", .int 5)]) = .ok (.dict [(.int 1, .int 5)]) ∧
    adapt O0 false .none t (.dict [(.int 1, .int 5)]) = .ok (.dict [(.int 1, .flt "5.0")]) := by
  exact ⟨rfl, rfl⟩

/-- Any: `List[Union[Tuple[int, ...], Any]]` on `['[1]']` — Any loads the text, the Tuple member takes the result -/
theorem C10_idem_fails_any :
    let t : Ty := .list (.union [.tupleVar .int, .any])
    adapt O0 false .none t (.list [.str "[1]"]) = .ok (.list [.list [.int 1]]) ∧
    adapt O0 false .none t (.list [.list [.int 1]]) = .ok (.list [.tuple [.int 1]]) := by
  exact ⟨rfl, rfl⟩

/-- Literal with `==`: the text `'1'` is not `True`, the int `1` is -/
theorem C10_idem_fails_literal :
    let t : Ty := .union [.list (.union [.literal [.bool true], .tupleVar .int]), .list (.union [.int, .list .int])]
    adapt O0 false .none t (.list [.str "1", .list [.int 5]]) = .ok (.list [.int 1, .list [.int 5]]) ∧
    adapt O0 false .none t (.list [.int 1, .list [.int 5]]) = .ok (.list [.int 1, .tuple [.int 5]]) := by
  exact ⟨rfl, rfl⟩

/-- monotonicity itself fails there (the second pass of the Set example, seen from the first member) -/
theorem C10_mono_fails_set :
    adapt O0 false .none (.set (.union [.int, .bool])) (.list [.int 1, .bool true]) = .ok (.set [.int 1]) ∧
    adapt O0 false .none (.set .float) (.list [.int 1, .bool true]) = .error .value ∧
    adapt O0 false .none (.set .float) (.set [.int 1]) = .ok (.set [.flt "1.0"]) := by
  exact ⟨rfl, rfl, rfl⟩

/-! ### serialisation (the same function with `serialize = true`), the root of the Union serialisation family

`ser O t w = adapt O true none t w`.  When serialising, the Enum branch returns a non-member unchanged, so a
Union stops there (row 5f of DESIGN section 7; known finding C10-union-serialisation). -/

/-- fine as long as no later member needs a conversion … -/
theorem C10_ser_union_enum_ok : ser O0 (.union [.enum 0 ["red"], .int]) (.int 5) = .ok (.int 5) := by rfl

/-- … but the member of another Enum class is left in the data (`dump` then raises) -/
theorem C10_ser_union_enum_swallows :
    ser O0 (.union [.enum 2 ["a"], .enum 0 ["red", "green"]]) (.enum 0 "green") = .ok (.enum 0 "green") ∧
    ser O0 (.union [.enum 0 ["red", "green"], .enum 2 ["a"]]) (.enum 0 "green") = .ok (.str "green") := by
  exact ⟨rfl, rfl⟩

/-- and a tuple that a later member would have written as a list stays a tuple -/
theorem C10_ser_union_enum_tuple :
    ser O0 (.union [.enum 0 ["red"], .tupleVar .int]) (.tuple [.int 1]) = .ok (.tuple [.int 1]) := by rfl

end Jap.Props.C10

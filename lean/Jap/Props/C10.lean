/-
C10 — parse results are fixed points.  Property theorems only.
-/
import Jap.Core.Adapt
import Jap.Gen.AdaptTables
namespace Jap.Props.C10
open Jap.Adapt

theorem tie_branch_order : Jap.Gen.adaptBranches = branchOrder := by rfl

end Jap.Props.C10

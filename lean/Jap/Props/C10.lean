/-
C10 — parse results are fixed points: re-parsing or validating changes nothing.
Property theorems only; the proofs are in Jap/Lemmas/AdaptIdem.lean.

`adapt O false none t` is the adapter as `validate` / `parse_object` apply it to a value that is already in the
configuration (no original string).  `good t`: every Union member inside `t` is `uSafe`, i.e. free of `Any`,
`Set`, `Dict[int, _]`, of `Literal`s with non-string members, of restricted NUMBER types and of registered types
(restricted STRING types are allowed in Union members since session 2); outside Unions every construct of the
grammar is allowed (`Any`, `Set`, `Dict[int, _]`, arbitrary `Literal`s, restricted and registered types included).
-/
import Jap.Core.Adapt
import Jap.Core.AdaptPins
import Jap.Gen.AdaptTables
import Jap.Lemmas.AdaptIdem
import Jap.Lemmas.AdaptSer
import Jap.Lemmas.AdaptRestr
namespace Jap.Props.C10
open Jap.Adapt

/-- the model was written against the current branch order of `adapt_typehints` -/
theorem tie_branch_order : Jap.Gen.adaptBranches = branchOrder := by rfl

/-! the per-branch "already adapted" tests (`isinstance` checks, `is_value_of_type`, `val not in subtypehints`), the
    conversions next to them and the retry of `_check_type` are what makes a result a fixed point: every statement of
    the transcribed branches is pinned here too (the same regenerated constants as in Props/C02) -/
theorem tie_prologue : Jap.Gen.adaptPrologueSrc = Pins.adaptPrologueSrc ∧ Jap.Gen.adaptEpilogueSrc = Pins.adaptEpilogueSrc := ⟨rfl, rfl⟩
theorem tie_leaf_branch : Jap.Gen.leafBranchSrc = Pins.leafBranchSrc := by rfl
theorem tie_literal_enum_branches : Jap.Gen.literalBranchSrc = Pins.literalBranchSrc ∧ Jap.Gen.enumBranchSrc = Pins.enumBranchSrc := ⟨rfl, rfl⟩
theorem tie_any_registered_branches : Jap.Gen.anyBranchSrc = Pins.anyBranchSrc ∧ Jap.Gen.registeredBranchSrc = Pins.registeredBranchSrc
    ∧ Jap.Gen.registeredTypeSrc = Pins.registeredTypeSrc := ⟨rfl, rfl, rfl⟩
theorem tie_union_branch : Jap.Gen.unionBranchSrc = Pins.unionBranchSrc ∧ Jap.Gen.sortSrc = Pins.sortSrc := ⟨rfl, rfl⟩
theorem tie_container_branches : Jap.Gen.tupleSetBranchSrc = Pins.tupleSetBranchSrc ∧ Jap.Gen.sequenceBranchSrc = Pins.sequenceBranchSrc
    ∧ Jap.Gen.mappingBranchSrc = Pins.mappingBranchSrc := ⟨rfl, rfl, rfl⟩
theorem tie_check_type : Jap.Gen.checkTypeSrc = Pins.checkTypeSrc ∧ Jap.Gen.parseValueOrConfigSrc = Pins.parseValueOrConfigSrc
    ∧ Jap.Gen.loadValueSrc = Pins.loadValueSrc := ⟨rfl, rfl, rfl⟩
theorem tie_restricted_validation : Jap.Gen.restrictedNumberValidationSrc = Pins.restrictedNumberValidationSrc
    ∧ Jap.Gen.restrictedStringValidationSrc = Pins.restrictedStringValidationSrc ∧ Jap.Gen.typeCoreNewSrc = Pins.typeCoreNewSrc := ⟨rfl, rfl, rfl⟩

/-! ### the theorems -/

/-- **C10_adapt_mono**: a Union member that rejected the raw value also rejects the value another member
    made of it (all loaders, all values; both types `uSafe`) -/
theorem C10_adapt_mono (O : Oracle) (t t' : Ty) (v w : Val) (e : Err)
    (hu : uSafe t = true) (hu' : uSafe t' = true)
    (h1 : adapt O false .none t v = .ok w) (h2 : adapt O false .none t' v = .error e) :
    ∃ e', adapt O false .none t' w = .error e' :=
  mono O t t' v w e hu hu' h1 h2

/-- **C10_adapt_idem**: adapting an adapted value returns it unchanged — for every loader, every value and every
    type hint whose Union members are `uSafe` -/
theorem C10_adapt_idem (O : Oracle) (t : Ty) (v w : Val) (hg : good t = true)
    (h : adapt O false .none t v = .ok w) : adapt O false .none t w = .ok w :=
  idem O t v w hg h

/-- in particular a result passes the validation pass and `parse_object` returns it unchanged -/
theorem C10_validate (O : Oracle) (t : Ty) (v w : Val) (hg : good t = true)
    (h : adapt O false .none t v = .ok w) : accepts O t w = true := by
  simp [accepts, idem O t v w hg h]

/-- restricted and registered types are leaves of the grammar: `PositiveInt`-like (`rnum`), `timedelta`-like (`reg`) -/
example : good (.list (.tuple [.rnum .int 0, .reg 3, .union [.none, .str]])) = true := by rfl

/-- a restricted number given as text is converted once and then fixed; a registered value passes by the
    `is_value_of_type` early-out -/
example :
    let O : Oracle := { yaml := fun s => some (.str s), loadAny := fun s => some (.str s), bigFlt := fun _ => .none,
                        intOf := fun _ => .none,
                        numStr := fun _ s => if s = "3" then some (.int 3) else .none,
                        rnumOk := fun _ v => match v with | .int i => decide (i > 0) | _ => false,
                        regDeser := fun k v => match v with | .str s => some (.obj k s) | _ => .none }
    adapt O false .none (.tuple [.rnum .int 0, .reg 3]) (.list [.str "3", .str "1:00:00"])
      = .ok (.tuple [.int 3, .obj 3 "1:00:00"]) ∧
    adapt O false .none (.tuple [.rnum .int 0, .reg 3]) (.tuple [.int 3, .obj 3 "1:00:00"])
      = .ok (.tuple [.int 3, .obj 3 "1:00:00"]) ∧
    adapt O false .none (.rnum .int 0) (.int (-5)) = .error .value := by
  exact ⟨rfl, rfl, rfl⟩

/-- the hypothesis covers every construct of the grammar, at any depth, outside Union members … -/
example : good (.dict .int (.set (.tuple [.any, .literal [.int 1, .bool true], .union [.int, .float, .str, .none]]))) = true := by rfl

/-- … and Unions over everything but Any / Set / Dict[int, _] / non-string Literals -/
example : good (.union [.list (.union [.int, .enum 0 ["a"]]), .dict .str (.tuple [.float, .literal [.str "x"]]),
    .tupleVar .bool, .none, .str]) = true := by rfl

/-- a non-trivial instance: text → int, int → float, list → tuple, name → member, all fixed by the second pass -/
example :
    let O : Oracle := { yaml := fun s => if s = "1" then some (.int 1) else some (.str s), loadAny := fun s => some (.str s),
                        bigFlt := fun _ => some "?", intOf := fun _ => .none }
    let t : Ty := .list (.union [.tuple [.float, .enum 0 ["red"]], .int, .str])
    adapt O false .none t (.list [.list [.str "1", .str "red"], .str "1", .str "x"])
      = .ok (.list [.tuple [.flt "1.0", .enum 0 "red"], .int 1, .str "x"]) ∧
    adapt O false .none t (.list [.tuple [.flt "1.0", .enum 0 "red"], .int 1, .str "x"])
      = .ok (.list [.tuple [.flt "1.0", .enum 0 "red"], .int 1, .str "x"]) := by
  exact ⟨rfl, rfl⟩

/-- restricted STRING types may be Union members, at any depth (session 2) … -/
example : good (.union [.rnum .str 0, .int, .list (.union [.rnum .str 1, .float]), .none]) = true ∧
    uSafe (.tuple [.rnum .str 0, .enum 0 ["a"]]) = true ∧ uSafe (.rnum .int 0) = false ∧ uSafe (.reg 0) = false := by
  refine ⟨rfl, rfl, rfl, rfl⟩

/-- … with a non-trivial instance of `C10_adapt_idem` / `C10_adapt_mono`: `Union[Hex, int]` on `'0x10'` (the
    restricted string member refuses the text, `int` loads it; the second pass keeps `16`) -/
example :
    let O : Oracle := { yaml := fun s => if s = "0x10" then some (.int 16) else some (.str s), loadAny := fun s => some (.str s),
                        bigFlt := fun _ => .none, intOf := fun _ => .none,
                        rnumOk := fun _ v => match v with | .str s => s == "ff" | _ => false }
    adapt O false .none (.union [.rnum .str 0, .int]) (.str "0x10") = .ok (.int 16) ∧
    adapt O false .none (.union [.rnum .str 0, .int]) (.int 16) = .ok (.int 16) ∧
    adapt O false .none (.union [.rnum .str 0, .int]) (.str "ff") = .ok (.str "ff") := by
  exact ⟨rfl, rfl, rfl⟩

/-- registered types stay excluded from Union members: the deserializer is an arbitrary function of the value, it may
    refuse the text and take the number another member made of it (`Union[Decimal, int]`, `'0x10'`: `16`, then
    `Decimal(16)`) -/
theorem C10_idem_fails_reg_union :
    let O : Oracle := { yaml := fun s => if s = "0x10" then some (.int 16) else some (.str s), loadAny := fun s => some (.str s),
                        bigFlt := fun _ => .none, intOf := fun _ => .none,
                        regDeser := fun k v => match v with | .int i => some (.obj k (toString i)) | _ => .none }
    adapt O false .none (.union [.reg 2, .int]) (.str "0x10") = .ok (.int 16) ∧
    adapt O false .none (.union [.reg 2, .int]) (.int 16) = .ok (.obj 2 "16") := by
  exact ⟨rfl, rfl⟩

/-! ### the whole `_check_type` / `parse_object` on values (session 2)

`checkType O t v` is `ActionTypeHint._check_type`, `parseObj O t v` is `parser.parse_object({k: v})` for one key (apply
pass + validation pass).  For a value that is not a string `_check_type` is the adapter without an original
string, so the fixed-point theorems lift to the entry points: -/

/-- `_check_type` on a value that is not a `str` is `adapt_typehints` (no retry, no fallback) -/
theorem C10_checkType_value (O : Oracle) (t : Ty) (v w : Val) (hv : isStr v = false) :
    checkType O t v = .ok w ↔ adapt O false .none t v = .ok w :=
  checkType_nonstr_eq O t v w hv

/-- **C10_reparse_value**: what `_check_type` returned for a value is returned unchanged when it is checked again
    (`good t`; the input and the result are not strings) -/
theorem C10_reparse_value (O : Oracle) (t : Ty) (v w : Val) (hg : good t = true) (hv : isStr v = false) (hw : isStr w = false)
    (h : checkType O t v = .ok w) : checkType O t w = .ok w := by
  rw [checkType_nonstr_eq O t v w hv] at h
  rw [checkType_nonstr_eq O t w w hw]
  exact idem O t v w hg h

/-- **C10_validation_pass_accepts**: the validation pass of `parse_object` never rejects what the apply pass produced:
    when `_check_type` accepts a value, `parse_object` returns exactly its result -/
theorem C10_validation_pass_accepts (O : Oracle) (t : Ty) (v w : Val) (hg : good t = true) (hv : isStr v = false)
    (hn : v ≠ .null) (hw : isStr w = false) (h : checkType O t v = .ok w) : parseObj O t v = .ok w := by
  have h2 := C10_reparse_value O t v w hg hv hw h
  cases v <;> first
    | exact absurd rfl hn
    | (simp only [parseObj, h]; cases w <;> simp_all)

/-- **C10_reparse_object**: `parse_object` applied to its own result returns it unchanged -/
theorem C10_reparse_object (O : Oracle) (t : Ty) (v w : Val) (hg : good t = true) (hv : isStr v = false)
    (hw : isStr w = false) (h : checkType O t v = .ok w) : parseObj O t w = .ok w := by
  have h2 := C10_reparse_value O t v w hg hv hw h
  cases w <;> first
    | rfl
    | (simp only [parseObj, h2])

/-- non-vacuity: a list of tuples given as lists, numbers as text -/
example :
    let O : Oracle := { yaml := fun s => if s = "1" then some (.int 1) else some (.str s), loadAny := fun s => some (.str s),
                        bigFlt := fun _ => some "?", intOf := fun _ => .none }
    let t : Ty := .list (.union [.tuple [.float, .enum 0 ["red"]], .int])
    good t = true ∧
    checkType O t (.list [.list [.str "1", .str "red"], .str "1"]) = .ok (.list [.tuple [.flt "1.0", .enum 0 "red"], .int 1]) ∧
    parseObj O t (.list [.tuple [.flt "1.0", .enum 0 "red"], .int 1]) = .ok (.list [.tuple [.flt "1.0", .enum 0 "red"], .int 1]) := by
  exact ⟨rfl, rfl, rfl⟩

/-- a result of a restricted STRING type is a fixed point of `_check_type` (every predicate, every loader): only the
    text itself gets through, and it is judged on the text alone (`C02_restricted_str_verbatim`) -/
theorem C10_restricted_str_fixed (O : Oracle) (k : Nat) (v w : Val) (h : checkType O (.rnum .str k) v = .ok w) :
    checkType O (.rnum .str k) w = .ok w :=
  checkType_rstr_fixed O k v w h

/-- a restricted NUMBER type outside a Union is covered by `C10_adapt_idem` (`good (.rnum b k)`); INSIDE a Union the
    second pass can move the value (the restricted member rejects the text but takes the number a later member made of
    it): `Union[PositiveFloat, int]`, value `'0x10'` — first `16`, then `16.0` (reproduced on the real parser) -/
theorem C10_idem_fails_rnum_union :
    let O : Oracle := { yaml := fun s => if s = "0x10" then some (.int 16) else some (.str s), loadAny := fun s => some (.str s),
                        bigFlt := fun _ => .none, intOf := fun _ => .none,
                        rnumOk := fun _ v => match v with | .flt r => r != "0.0" | _ => false }
    adapt O false .none (.union [.rnum .float 0, .int]) (.str "0x10") = .ok (.int 16) ∧
    adapt O false .none (.union [.rnum .float 0, .int]) (.int 16) = .ok (.flt "16.0") := by
  exact ⟨rfl, rfl⟩

/-! ### where the full statement fails

Full statement (FALSE for the code and hence for the model):
  `theorem C10_adapt_idem_full : adapt O false none t v = .ok w → adapt O false none t w = .ok w`
Each excluded construct has a counterexample; all four are reproduced on the real parser by the harness
(known findings C10-union-set-dedup-second-pass, C10-union-any-second-pass, C10-literal-pyeq-second-pass). -/

def O0 : Oracle where
  yaml s := if s = "1" then some (.int 1) else if s = "[1]" then some (.list [.int 1]) else some (.str s)
  loadAny s := if s = "[1]" then some (.list [.int 1]) else some (.str s)
  bigFlt _ := some "?"
  intOf s := if s = "1" then some 1 else if s = "01" then some 1 else .none

/-- Set: `Union[Set[float], Set[Union[int, bool]]]` on `[1, True]` — the element that made the first member
    reject is dropped by `set()`, the second pass stops at the first member and converts -/
theorem C10_idem_fails_set :
    let t : Ty := .union [.set .float, .set (.union [.int, .bool])]
    adapt O0 false .none t (.list [.int 1, .bool true]) = .ok (.set [.int 1]) ∧
    adapt O0 false .none t (.set [.int 1]) = .ok (.set [.flt "1.0"]) := by
  exact ⟨rfl, rfl⟩

/-- Dict[int, _]: two keys that cast to the same int — the value that made the first member reject is overwritten -/
theorem C10_idem_fails_intkey :
    let t : Ty := .union [.dict .str .float, .dict .int .int]
    adapt O0 false .none t (.dict [(.str "1", .str "a"), (.str "01", .int 5)]) = .ok (.dict [(.int 1, .int 5)]) ∧
    adapt O0 false .none t (.dict [(.int 1, .int 5)]) = .ok (.dict [(.int 1, .flt "5.0")]) := by
  exact ⟨rfl, rfl⟩

/-- Any: `List[Union[Tuple[int, ...], Any]]` on `['[1]']` — Any loads the text, the Tuple member takes the result -/
theorem C10_idem_fails_any :
    let t : Ty := .list (.union [.tupleVar .int, .any])
    adapt O0 false .none t (.list [.str "[1]"]) = .ok (.list [.list [.int 1]]) ∧
    adapt O0 false .none t (.list [.list [.int 1]]) = .ok (.list [.tuple [.int 1]]) := by
  exact ⟨rfl, rfl⟩

/-- Literal with `==`: the text `'1'` is not `True`, the int `1` is -/
theorem C10_idem_fails_literal :
    let t : Ty := .union [.list (.union [.literal [.bool true], .tupleVar .int]), .list (.union [.int, .list .int])]
    adapt O0 false .none t (.list [.str "1", .list [.int 5]]) = .ok (.list [.int 1, .list [.int 5]]) ∧
    adapt O0 false .none t (.list [.int 1, .list [.int 5]]) = .ok (.list [.int 1, .tuple [.int 5]]) := by
  exact ⟨rfl, rfl⟩

/-- monotonicity itself fails there (the second pass of the Set example, seen from the first member) -/
theorem C10_mono_fails_set :
    adapt O0 false .none (.set (.union [.int, .bool])) (.list [.int 1, .bool true]) = .ok (.set [.int 1]) ∧
    adapt O0 false .none (.set .float) (.list [.int 1, .bool true]) = .error .value ∧
    adapt O0 false .none (.set .float) (.set [.int 1]) = .ok (.set [.flt "1.0"]) := by
  exact ⟨rfl, rfl, rfl⟩

/-! ### serialisation (the same function with `serialize = true`), the root of the Union serialisation family

`ser O t w = adapt O true none t w`.  When serialising, the Enum branch returns a non-member unchanged, so a
Union stops there (row 5f of DESIGN section 7; known finding C10-union-serialisation). -/

/-- fine as long as no later member needs a conversion … -/
theorem C10_ser_union_enum_ok : ser O0 (.union [.enum 0 ["red"], .int]) (.int 5) = .ok (.int 5) := by rfl

/-- … but the member of another Enum class is left in the data (`dump` then raises) -/
theorem C10_ser_union_enum_swallows :
    ser O0 (.union [.enum 2 ["a"], .enum 0 ["red", "green"]]) (.enum 0 "green") = .ok (.enum 0 "green") ∧
    ser O0 (.union [.enum 0 ["red", "green"], .enum 2 ["a"]]) (.enum 0 "green") = .ok (.str "green") := by
  exact ⟨rfl, rfl⟩

/-- and a tuple that a later member would have written as a list stays a tuple -/
theorem C10_ser_union_enum_tuple :
    ser O0 (.union [.enum 0 ["red"], .tupleVar .int]) (.tuple [.int 1]) = .ok (.tuple [.int 1]) := by rfl


/-! ### serialise, then parse again (the L1 theorem of C01, `C01_ser_adapt`, on the adapter model)

`rt false t`: leaves, Literal, Enum, List, Tuple (both kinds), Dict[str, _] at any depth, and Unions whose
members are Enum-free and satisfy `unionCond` (no member changes a value when serialising, or at most one
member is not scalar-like).  Outside: Any, Set, Dict[int, _] (not proved; for Any see the witness below), and
the Union serialisation family of row 5f (Enum as a Union member: witness below). -/

/-- **C10_ser_adapt_roundtrip** (= `C01_ser_adapt`): every value the adapter returns is accepted by the
    serialiser, and adapting what the serialiser wrote gives the value back — for every loader -/
theorem C10_ser_adapt_roundtrip (O : Oracle) (t : Ty) (v w : Val) (hg : good t = true) (hr : rt false t = true)
    (h : adapt O false .none t v = .ok w) :
    ∃ z, ser O t w = .ok z ∧ adapt O false .none t z = .ok w := by
  obtain ⟨z, h1, h2, _⟩ := ser_rt O t false w hr (idem O t v w hg h)
  exact ⟨z, h1, h2⟩

/-- **C10_ser_idem**: serialising a serialised value changes nothing -/
theorem C10_ser_idem (O : Oracle) (t : Ty) (v w : Val) (hg : good t = true) (hr : rt false t = true)
    (h : adapt O false .none t v = .ok w) :
    ∃ z, ser O t w = .ok z ∧ ser O t z = .ok z := by
  obtain ⟨z, h1, _, _, _, h5⟩ := ser_rt O t false w hr (idem O t v w hg h)
  exact ⟨z, h1, h5⟩

/-- on types without Enum / Tuple (`serId`) the serialiser is the identity on results -/
theorem C10_ser_identity (O : Oracle) (t : Ty) (v w : Val) (hg : good t = true) (hr : rt false t = true)
    (hs : serId t = true) (h : adapt O false .none t v = .ok w) : ser O t w = .ok w := by
  obtain ⟨z, h1, _, h3, _⟩ := ser_rt O t false w hr (idem O t v w hg h)
  have := h3 hs; subst this; exact h1

/-- the hypotheses hold for, e.g., `Dict[str, Union[None, str, Tuple[Color, List[Tuple[int, ...]]]]]` -/
example : good (.dict .str (.union [.none, .str, .tuple [.float, .list (.tupleVar .int)]])) = true ∧
    rt false (.dict .str (.union [.none, .str, .tuple [.float, .list (.tupleVar .int)]])) = true ∧
    rt false (.list (.tuple [.enum 0 ["red"], .literal [.int 1]])) = true := by
  refine ⟨rfl, rfl, rfl⟩

/-- registered types: serialise-then-adapt is exactly the codec law of the type (C20 proves the laws of the
    built-in codecs); restricted types are covered by `C10_ser_adapt_roundtrip` outside Unions -/
theorem C10_ser_reg_roundtrip (O : Oracle) (k : Nat) (r : String) (p : Val)
    (hs : O.regSer k (.obj k r) = some p) (hp : ∀ k' r', p ≠ .obj k' r')
    (law : O.regDeser k p = some (.obj k r)) :
    ser O (.reg k) (.obj k r) = .ok p ∧ adapt O false .none (.reg k) p = .ok (.obj k r) :=
  reg_roundtrip O k r p hs hp law

/-- row 5f with a restricted type: `Union[PositiveInt, float]`, value `0.5` — the serializer of the first member is
    `int`, it takes the float and writes `0` -/
theorem C10_ser_union_rnum_corrupts :
    let O : Oracle := { yaml := fun s => some (.str s), loadAny := fun s => some (.str s), bigFlt := fun _ => .none,
                        intOf := fun _ => .none, rnumOk := fun _ v => match v with | .int i => decide (i > 0) | _ => false,
                        baseOf := fun b v => match b, v with | .int, .flt "0.5" => some (.int 0) | _, _ => .none }
    adapt O false .none (.union [.rnum .int 0, .float]) (.flt "0.5") = .ok (.flt "0.5") ∧
    ser O (.union [.rnum .int 0, .float]) (.flt "0.5") = .ok (.int 0) := by
  exact ⟨rfl, rfl⟩

def O2 : Oracle where
  yaml s := if s = "on" then some (.bool true) else some (.str s)
  loadAny s := some (.str s)
  bigFlt _ := some "?"
  intOf _ := .none

/-- where it fails (row 5f, finding C10-union-serialisation): an Enum member of a Union is written as its
    name, which an earlier member claims on the way back — `Union[bool, Mode]`, `Mode.on` -/
theorem C10_ser_roundtrip_fails_enum_union :
    let t : Ty := .union [.bool, .enum 1 ["on", "null", "x1"]]
    adapt O2 false .none t (.enum 1 "on") = .ok (.enum 1 "on") ∧
    ser O2 t (.enum 1 "on") = .ok (.str "on") ∧
    adapt O2 false .none t (.str "on") = .ok (.bool true) := by
  exact ⟨rfl, rfl, rfl⟩

/-- and for Any: an Enum member is written as its name and read back as text -/
theorem C10_ser_roundtrip_fails_any :
    adapt O2 false .none .any (.enum 0 "red") = .ok (.enum 0 "red") ∧
    ser O2 .any (.enum 0 "red") = .ok (.str "red") ∧
    adapt O2 false .none .any (.str "red") = .ok (.str "red") := by
  exact ⟨rfl, rfl, rfl⟩

end Jap.Props.C10

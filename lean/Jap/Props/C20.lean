/-
C20 — Restricted and registered scalar types validate exactly, serialise losslessly.

Model: `Jap/Core/Typing.lean` (E8).  Helper lemmas: `Jap/Lemmas/Typing{Num,Codec,Td}.lean`.
Tie to /repo: `Jap/Gen/Registered.lean` is regenerated from `jsonargparse/typing.py`
on every run; the `*_tie` theorems below compare the regenerated constants with
the ones the model was written and proved against, so an edit of an operator,
a predefined type, a registered serializer or one of the regex literals makes
this file fail to compile.  All theorems hold for unbounded inputs.
-/
import Jap.Core.Typing
import Jap.Lemmas.TypingNum
import Jap.Lemmas.TypingCodec
import Jap.Lemmas.TypingTd
import Jap.Lemmas.TypingB64
import Jap.Lemmas.TypingUuid
import Jap.Lemmas.TypingText
import Jap.Lemmas.TypingComplex
import Jap.Lemmas.TypingReg
import Jap.Lemmas.TypingDec
import Jap.Gen.Registered
import Jap.Gen.TypingSrc

namespace Jap.Props.C20
open Jap.Typing

/-! ## restricted numbers -/

/-- `T(v)` succeeds with `x` iff `v` denotes the number `x` of the base type (booleans, non-integral floats
for `int`, non-literals and other objects denote none) and the comparisons, joined by and/or, hold for `x`. -/
theorem C20_num_iff (b : Base) (rs : List Restr) (j : Join) (v : PyVal) (x : BVal) :
    validateNum b rs j v = .ok x ↔ asBase b v = some x ∧ joinSat j rs x :=
  validateNum_iff b rs j v x

/-- casting an accepted value again changes nothing -/
theorem C20_num_idem (b : Base) (rs : List Restr) (j : Join) (v : PyVal) (x : BVal)
    (h : validateNum b rs j v = .ok x) : validateNum b rs j x.toPy = .ok x := by
  obtain ⟨ha, hj⟩ := (validateNum_iff b rs j v x).mp h
  exact (validateNum_iff b rs j x.toPy x).mpr ⟨asBase_toPy ha, hj⟩

/-- for base `int` the accepted value is an `int` with exactly the value of a numeric input
(no truncation, `1.0 ↦ 1`) -/
theorem C20_num_int_exact (rs : List Restr) (j : Join) (v : PyVal) (x : BVal) (y : XNum)
    (h : validateNum .int rs j v = .ok x) (hv : v.exact? = some y) : x.toX = y ∧ ∃ n, x = .i n := by
  have ha := ((validateNum_iff .int rs j v x).mp h).1
  cases v <;> simp [PyVal.exact?] at hv
  · subst hv
    simp [asBase] at ha
    subst ha
    exact ⟨rfl, _, rfl⟩
  · subst hv
    rename_i z
    cases z <;> simp [asBase] at ha
    obtain ⟨hden, rfl⟩ := ha
    exact ⟨by simp [BVal.toX, rat_of_den_one _ hden], _, rfl⟩

/-- for base `float` a float input is returned unchanged -/
theorem C20_num_float_exact (rs : List Restr) (j : Join) (y : XNum) (x : BVal)
    (h : validateNum .float rs j (.float y) = .ok x) : x = .f y := by
  have ha := ((validateNum_iff .float rs j _ x).mp h).1
  simp [asBase] at ha
  exact ha.symm

/-- the accepted value is of the base type -/
theorem C20_num_base_type (b : Base) (rs : List Restr) (j : Join) (v : PyVal) (x : BVal)
    (h : validateNum b rs j v = .ok x) :
    match b with
    | .int => ∃ n, x = .i n
    | .float => ∃ y, x = .f y := by
  have ha := asBase_toPy ((validateNum_iff b rs j v x).mp h).1
  cases b <;> cases x <;> simp only [BVal.toPy] at ha ⊢
  · exact ⟨_, rfl⟩
  · rename_i y
    cases y <;> simp [asBase] at ha
  · rename_i n
    simp only [asBase] at ha
    split at ha <;> simp at ha
  · exact ⟨_, rfl⟩

/-- booleans are never accepted -/
theorem C20_num_bool_rejected (b : Base) (rs : List Restr) (j : Join) (t : Bool) (x : BVal) :
    validateNum b rs j (.bool t) ≠ .ok x := by
  intro h
  have ha := ((validateNum_iff b rs j _ x).mp h).1
  cases b <;> simp [asBase] at ha

/-- `T(v)` never raises `OverflowError`: an integer beyond the float range (and everything else that does not convert)
is an ordinary rejection (`ValueError`), or a `TypeError` for objects that are no number or text at all -/
theorem C20_num_no_overflow (b : Base) (rs : List Restr) (j : Join) (v : PyVal) :
    validateNum b rs j v ≠ .error .overflow := by
  intro h
  unfold validateNum at h
  cases hv : validationFn b rs j v with
  | error e =>
    simp only [hv] at h
    cases h
    unfold validationFn at hv
    split at hv
    · cases hv
    · split at hv
      · cases hv
      · cases hc : castBase b v with
        | error e' =>
          simp only [hc] at hv
          cases e' <;> cases hv
        | ok vv =>
          simp only [hc] at hv
          split at hv <;> cases hv
  | ok u =>
    simp only [hv] at h
    -- validation passed, so the second `cls._type(v)` is the conversion that already succeeded
    unfold validationFn at hv
    split at hv
    · cases hv
    · split at hv
      · cases hv
      · cases hc : castBase b v with
        | error e' => simp only [hc] at hv; cases hv
        | ok vv => rw [hc] at h; cases h

/-- non-vacuity: accepted and rejected inputs of every kind -/
example : validateNum .int [(.gt, .fin 0)] .and (.int 5) = .ok (.i 5) := by decide +kernel
example : validateNum .int [(.gt, .fin 0)] .and (.int 0) = .error .value := by decide +kernel
example : validateNum .int [(.gt, .fin 0)] .and (.float (.fin 3)) = .ok (.i 3) := by decide +kernel
example : validateNum .int [(.gt, .fin 0)] .and (.float (.fin (mkRat 3 2))) = .error .value := by decide +kernel
example : validateNum .int [(.gt, .fin 0)] .and (.bool true) = .error .value := by decide +kernel
example : validateNum .int [(.gt, .fin 0)] .and (.str " 1_0 ".toList) = .ok (.i 10) := by decide +kernel
example : validateNum .int [(.gt, .fin 0)] .and (.str "1.0".toList) = .error .value := by decide +kernel
example : validateNum .int [(.gt, .fin 0)] .and .other = .error .type := by decide +kernel
example : validateNum .float [(.lt, .fin 0), (.ge, .fin 1)] .or (.int 2) = .ok (.f (.fin 2)) := by decide +kernel
example : validateNum .float [(.lt, .fin 0), (.ge, .fin 1)] .or (.float (.fin (mkRat 1 2))) = .error .value := by decide +kernel
example : validateNum .float [(.lt, .fin 0), (.ge, .fin 1)] .and (.int 2) = .error .value := by decide +kernel
example : validateNum .float [(.ne, .fin 0)] .and (.float .nan) = .ok (.f .nan) := by decide +kernel
example : validateNum .float [(.ge, .fin 0)] .and (.str "1e400".toList) = .ok (.f (.inf false)) := by decide +kernel
example : validateNum .float [(.ge, .fin 0)] .and (.int (10 ^ 400)) = .error .value := by decide +kernel
example : validateNum .float [] .and (.int (2 ^ 53 + 1)) = .ok (.f (.fin (2 ^ 53 : Nat))) := by decide +kernel

/-! ### tie: operator table and predefined number types -/

/-- `_operators1` is the table the model's `cmp` implements: `operator.<name>` ↦ symbol, in this order -/
theorem C20_operators_tie :
    Jap.Gen.Registered.operators = Op.all.map (fun o => (o.pyName, o.symbol)) := by decide

def parseBase (s : String) : Option Base :=
  if s = "int" then some .int else if s = "float" then some .float else none

def parseJoin (s : String) : Option Join :=
  if s = "and" then some .and else if s = "or" then some .or else none

def parseRestr (p : String × Int × Nat) : Option Restr :=
  (Op.ofSymbol p.1).map fun o => (o, .fin (mkRat p.2.1 p.2.2))

/-- the predefined type `name` of `jsonargparse.typing` as extracted from the source -/
def predefined (name : String) : Option (Base × List Restr × Join) :=
  match Jap.Gen.Registered.predefinedNum.find? (fun r => r.1 = name) with
  | none => none
  | some (_, b, rs, j) =>
    match parseBase b, rs.mapM parseRestr, parseJoin j with
    | some b', some rs', some j' => some (b', rs', j')
    | _, _, _ => none

theorem C20_predefined_tie :
    predefined "PositiveInt" = some (.int, [(.gt, .fin 0)], .and) ∧
    predefined "NonNegativeInt" = some (.int, [(.ge, .fin 0)], .and) ∧
    predefined "PositiveFloat" = some (.float, [(.gt, .fin 0)], .and) ∧
    predefined "NonNegativeFloat" = some (.float, [(.ge, .fin 0)], .and) ∧
    predefined "ClosedUnitInterval" = some (.float, [(.ge, .fin 0), (.le, .fin 1)], .and) ∧
    predefined "OpenUnitInterval" = some (.float, [(.gt, .fin 0), (.lt, .fin 1)], .and) := by
  refine ⟨?_, ?_, ?_, ?_, ?_, ?_⟩ <;> decide +kernel

/-- `PositiveInt(v)` succeeds iff `v` denotes an integer `n > 0`, and returns it -/
theorem C20_PositiveInt (v : PyVal) (x : BVal) :
    validateNum .int [(.gt, .fin 0)] .and v = .ok x ↔ ∃ n : Int, asBase .int v = some (.i n) ∧ x = .i n ∧ 0 < n := by
  rw [validateNum_iff]
  constructor
  · rintro ⟨ha, hj⟩
    have hx : ∃ n, x = .i n := by
      cases v <;> simp [asBase] at ha
      · exact ⟨_, ha.symm⟩
      · rename_i z
        cases z <;> simp at ha
        exact ⟨_, ha.2.symm⟩
      · obtain ⟨n, _, rfl⟩ := ha
        exact ⟨n, rfl⟩
    obtain ⟨n, rfl⟩ := hx
    refine ⟨n, ha, rfl, ?_⟩
    have := hj (.gt, .fin 0) (by simp)
    simpa [cmp, XNum.lt, BVal.toX, Rat.intCast_pos] using this
  · rintro ⟨n, ha, rfl, hn⟩
    refine ⟨ha, ?_⟩
    intro r hr
    simp only [List.mem_singleton] at hr
    subst hr
    simpa [cmp, XNum.lt, BVal.toX, Rat.intCast_pos] using hn

/-- on finite numbers the six operators of `_operators1` are the exact order / equality their symbols state
(an `int` and a `float` are compared by value, never after rounding) -/
theorem C20_cmp_meaning (op : Op) (a b : Rat) :
    cmp op (.fin a) (.fin b) = true ↔
      (match op with
        | .gt => b < a
        | .ge => b ≤ a
        | .lt => a < b
        | .le => a ≤ b
        | .eq => a = b
        | .ne => a ≠ b) :=
  cmp_fin op a b

/-- `nan` passes `!=` only -/
theorem C20_cmp_nan (op : Op) (y : XNum) : cmp op .nan y = true ↔ op = .ne := cmp_nan op y

/-- `ClosedUnitInterval(q)` for a float `q`: accepted, unchanged, iff `0 ≤ q ≤ 1` -/
theorem C20_ClosedUnitInterval_float (q : Rat) (x : BVal) :
    validateNum .float [(.ge, .fin 0), (.le, .fin 1)] .and (.float (.fin q)) = .ok x ↔
      x = .f (.fin q) ∧ 0 ≤ q ∧ q ≤ 1 := by
  rw [validateNum_iff]
  simp only [asBase, Option.some.injEq, joinSat]
  constructor
  · rintro ⟨rfl, hj⟩
    have h0 := (cmp_fin .ge q 0).mp (hj (.ge, .fin 0) (by simp))
    have h1 := (cmp_fin .le q 1).mp (hj (.le, .fin 1) (by simp))
    exact ⟨rfl, h0, h1⟩
  · rintro ⟨rfl, h0, h1⟩
    refine ⟨rfl, ?_⟩
    intro r hr
    simp only [List.mem_cons, List.not_mem_nil, or_false] at hr
    rcases hr with rfl | rfl
    · exact (cmp_fin .ge q 0).mpr h0
    · exact (cmp_fin .le q 1).mpr h1

/-- `OpenUnitInterval(q)` for a float `q`: accepted, unchanged, iff `0 < q < 1` -/
theorem C20_OpenUnitInterval_float (q : Rat) (x : BVal) :
    validateNum .float [(.gt, .fin 0), (.lt, .fin 1)] .and (.float (.fin q)) = .ok x ↔
      x = .f (.fin q) ∧ 0 < q ∧ q < 1 := by
  rw [validateNum_iff]
  simp only [asBase, Option.some.injEq, joinSat]
  constructor
  · rintro ⟨rfl, hj⟩
    have h0 := (cmp_fin .gt q 0).mp (hj (.gt, .fin 0) (by simp))
    have h1 := (cmp_fin .lt q 1).mp (hj (.lt, .fin 1) (by simp))
    exact ⟨rfl, h0, h1⟩
  · rintro ⟨rfl, h0, h1⟩
    refine ⟨rfl, ?_⟩
    intro r hr
    simp only [List.mem_cons, List.not_mem_nil, or_false] at hr
    rcases hr with rfl | rfl
    · exact (cmp_fin .gt q 0).mpr h0
    · exact (cmp_fin .lt q 1).mpr h1

/-! ## restricted strings -/

/-- `T(v)` succeeds iff `v` is a text the pattern matches; the result is the text itself -/
theorem C20_str_iff (acc : List Char → Bool) (v : PyVal) (x : List Char) :
    validateStr acc v = .ok x ↔ v = .str x ∧ acc x = true := by
  cases v <;> simp [validateStr]
  rename_i s
  by_cases h : acc s = true
  · simp only [h, ↓reduceIte, Except.ok.injEq]
    constructor
    · rintro rfl; exact ⟨rfl, h⟩
    · rintro ⟨rfl, _⟩; rfl
  · simp only [h]
    constructor
    · intro h'; cases h'
    · rintro ⟨rfl, h'⟩; exact absurd h' h

theorem C20_str_idem (acc : List Char → Bool) (v : PyVal) (x : List Char)
    (h : validateStr acc v = .ok x) : validateStr acc (.str x) = .ok x := by
  obtain ⟨_, hx⟩ := (C20_str_iff acc v x).mp h
  simp [validateStr, hx]

/-- the patterns of the predefined string types are the ones translated into `Gen.predefinedStrRe` -/
theorem C20_predefined_str_tie :
    Jap.Gen.Registered.predefinedStr
      = [("NotEmptyStr", "^.*[^ ].*$"), ("Email", "^[^@ ]+@[^@ ]+\\.[^@ ]+$")] ∧
    Jap.Gen.Registered.predefinedStrRe.map (·.1) = ["NotEmptyStr", "Email"] := by decide

def predefinedRe (name : String) : Re :=
  ((Jap.Gen.Registered.predefinedStrRe.find? (fun p => p.1 = name)).map (·.2)).getD .eps

example : (predefinedRe "Email").accepts "a@b.c".toList = true := by decide +kernel
example : (predefinedRe "Email").accepts "a@b".toList = false := by decide +kernel
example : (predefinedRe "Email").accepts "a b@c.d".toList = false := by decide +kernel
example : (predefinedRe "NotEmptyStr").accepts " x ".toList = true := by decide +kernel
example : (predefinedRe "NotEmptyStr").accepts "  ".toList = false := by decide +kernel
example : (predefinedRe "NotEmptyStr").accepts [] = false := by decide +kernel

/-! ## `range` -/

/-- the serialised form of every range (empty ones, negative steps, all three forms) parses back to the same
`(start, stop, step)`; `step ≠ 0` is what makes `r` a range -/
theorem C20_range_rt (r : Range) (hstep : r.step ≠ 0) : rangeDeser (rangeSer r) = .ok r :=
  rangeDeser_rangeSer r hstep

/-- the hypothesis is satisfiable by empty ranges and negative steps … -/
example : (⟨5, 0, -2⟩ : Range).step ≠ 0 ∧ (⟨0, 0, 1⟩ : Range).step ≠ 0 := by decide
/-- … and it is needed: `range(0, 1, 0)` does not exist, its text is rejected like `range()` rejects it -/
example : rangeDeser (rangeSer ⟨0, 1, 0⟩) = .error .value := by decide +kernel
example : rangeSer ⟨0, 5, 1⟩ = "range(5)".toList := by decide +kernel
example : rangeSer ⟨2, 5, 1⟩ = "range(2, 5)".toList := by decide +kernel
example : rangeSer ⟨5, 0, -2⟩ = "range(5, 0, -2)".toList := by decide +kernel
example : rangeSer ⟨0, 0, 1⟩ = "range(0)".toList := by decide +kernel
example : rangeDeser " range( 5 ,0, -2) ".toList = .ok ⟨5, 0, -2⟩ := by decide +kernel
example : rangeDeser "range(1, 2, 0)".toList = .error .value := by decide +kernel
example : rangeDeser "range(1.5)".toList = .error .value := by decide +kernel

/-- consequently the serialised form determines the range -/
theorem C20_range_ser_injective (r₁ r₂ : Range) (h₁ : r₁.step ≠ 0) (h₂ : r₂.step ≠ 0)
    (h : rangeSer r₁ = rangeSer r₂) : r₁ = r₂ := by
  have e₁ := C20_range_rt r₁ h₁
  rw [h, C20_range_rt r₂ h₂] at e₁
  exact (Except.ok.inj e₁).symm

/-- the literals of `range_deserializer` / `range_serializer` are the ones the model was proved against -/
theorem C20_range_tie :
    Jap.Gen.Registered.rangePatterns = [reRangeStop, reRangeStartStop, reRangeStartStopStep] ∧
    Jap.Gen.Registered.rangePrefix.toList = rangePre ∧
    Jap.Gen.Registered.rangeSuffix = ")" ∧
    Jap.Gen.Registered.rangeSlice = ((rangePre.length : Int), -1) ∧
    Jap.Gen.Registered.rangeReplace = (" ", "") ∧
    Jap.Gen.Registered.rangeSerTemplates =
      ["f'range({value.start}, {value.stop}, {value.step})'", "f'range({value.start}, {value.stop})'",
       "f'range({value.stop})'"] := by decide

/-! ## `datetime.timedelta` -/

/-- every normalised timedelta (negative, sub-second, multi-day, zero) comes back from its `str` form -/
theorem C20_td_rt (t : TD) (h : t.Normalised) : tdDeser (tdStr t) = .ok t :=
  tdDeser_tdStr t h

/-- normalisation is needed: other field values denote a timedelta whose normal form comes back -/
example : tdDeser (tdStr ⟨0, 86400, 0⟩) = .ok ⟨1, 0, 0⟩ := by decide +kernel
example : tdStr ⟨-1, 86399, 999999⟩ = "-1 day, 23:59:59.999999".toList := by decide +kernel
example : tdStr ⟨2, 3661, 0⟩ = "2 days, 1:01:01".toList := by decide +kernel
example : tdStr ⟨0, 0, 5⟩ = "0:00:00.000005".toList := by decide +kernel
example : tdStr ⟨0, 0, 0⟩ = "0:00:00".toList := by decide +kernel
example : (⟨-999999999, 0, 1⟩ : TD).Normalised := by decide
example : tdDeser "2 days, 100:99:99.5".toList = .ok ⟨6, 20439, 500000⟩ := by decide +kernel
example : tdDeser "1:2:3xyz".toList = .ok ⟨0, 3723, 0⟩ := by decide +kernel
example : tdDeser "1 week, 0:00:00".toList = .error .value := by decide +kernel
example : tdDeser "0:00:1.2.3".toList = .error .value := by decide +kernel

/-- consequently `str` is injective on normalised timedeltas -/
theorem C20_td_str_injective (t₁ t₂ : TD) (h₁ : t₁.Normalised) (h₂ : t₂.Normalised)
    (h : tdStr t₁ = tdStr t₂) : t₁ = t₂ := by
  have e₁ := C20_td_rt t₁ h₁
  rw [h, C20_td_rt t₂ h₂] at e₁
  exact (Except.ok.inj e₁).symm

/-- the literals of `timedelta_deserializer` are the ones the model's matcher was proved against -/
theorem C20_td_tie :
    Jap.Gen.Registered.tdPattern = tdPattern ∧
    Jap.Gen.Registered.tdDaysPrefix = tdDaysPrefix ∧
    Jap.Gen.Registered.tdDayTrigger = tdDayTrigger ∧
    Jap.Gen.Registered.tdReFunction = "match" ∧
    Jap.Gen.Registered.tdConversion = "float" := by decide

/-! ## `bytes` / `bytearray` (base64, standard alphabet, padding) -/

/-- every byte string (empty, every length modulo 3) comes back from its base64 text -/
theorem C20_bytes_rt (bs : List Nat) (h : ∀ b ∈ bs, b < 256) : b64decode (b64encode bs) = .ok bs :=
  b64decode_b64encode bs h

/-- the hypothesis (the list is a byte string) is satisfiable, by all residues of the length -/
example : (∀ b ∈ ([] : List Nat), b < 256) ∧ (∀ b ∈ [255], b < 256) ∧ (∀ b ∈ [0, 255], b < 256) ∧ (∀ b ∈ [1, 2, 3], b < 256) := by
  decide
example : b64encode [] = [] ∧ b64encode [104, 105] = "aGk=".toList ∧ b64encode [255] = "/w==".toList ∧
    b64encode [0, 16, 131] = "ABCD".toList := by decide +kernel
/-- the decoder as it is: junk is skipped, input after a completed pad is ignored, a dangling sextet is an error -/
example : b64decode "a G\nk=".toList = .ok [104, 105] ∧ b64decode "aGk=aGk=".toList = .ok [104, 105] ∧
    b64decode "aGk".toList = .error .value ∧ b64decode "a".toList = .error .value ∧ b64decode "=aGk=".toList = .ok [104, 105] := by
  decide +kernel

/-! ## `uuid.UUID` (canonical 8-4-4-4-12 lower-case text ↔ 128-bit value) -/

theorem C20_uuid_rt (n : Nat) (h : n < 2 ^ 128) : uuidDeser (uuidStr n) = .ok n :=
  uuidDeser_uuidStr n h

theorem C20_uuid_str_injective (m n : Nat) (hm : m < 2 ^ 128) (hn : n < 2 ^ 128) (h : uuidStr m = uuidStr n) : m = n := by
  have e := C20_uuid_rt m hm
  rw [h, C20_uuid_rt n hn] at e
  exact (Except.ok.inj e).symm

example : uuidStr 0 = "00000000-0000-0000-0000-000000000000".toList := by decide +kernel
example : uuidStr (2 ^ 128 - 1) = "ffffffff-ffff-ffff-ffff-ffffffffffff".toList := by decide +kernel
example : uuidStr 0x12345678123456781234567812345678 = "12345678-1234-5678-1234-567812345678".toList := by decide +kernel
/-- the constructor as it is: braces, `urn:uuid:`, upper case, a `0x` prefix; 31 digits are rejected -/
example : uuidDeser "{urn:uuid:12345678-1234-5678-1234-56781234567F}".toList = .ok 0x1234567812345678123456781234567f ∧
    uuidDeser "0x345678123456781234567812345678".toList = .ok 0x345678123456781234567812345678 ∧
    uuidDeser "12345678-1234-5678-1234-56781234567".toList = .error .value ∧
    uuidDeser "-0000000000000000000000000000001".toList = .error .value := by decide +kernel

/-! ## `complex` (on decimal tokens)

A part is a sign and the token `repr` writes for the magnitude.  FLOAT ASSUMPTION (outside the model, Python's
documented guarantee): `float(repr(x)) == x` for every float, so that equal signed tokens denote equal floats;
under it the theorem is the round trip of every complex number whose parts are finite, infinite or nan. -/

/-- every well-formed pair of parts (integral, decimal, exponent, `inf`, `nan`; both signs; zero parts, incl. the
`<im>j` form of a `+0.0` real part and the `(-0+…j)` form of `-0.0`) is read back from its text -/
theorem C20_complex_rt (re im : Part) (hr : re.tok.Valid) (hi : im.tok.Valid) :
    complexParse (complexStr re im) = some (re, im) :=
  complexParse_complexStr re im hr hi

/-- the hypotheses are satisfiable by every kind of token -/
example : (Tok.dec "12".toList [] none).Valid ∧ (Tok.dec "1".toList "5".toList none).Valid ∧
    (Tok.dec "1".toList "5".toList (some (true, "07".toList))).Valid ∧ Tok.inf.Valid ∧ Tok.nan.Valid := by
  refine ⟨⟨by decide, by decide, by decide, trivial⟩, ⟨by decide, by decide, by decide, trivial⟩,
    ⟨by decide, by decide, by decide, by decide, by decide⟩, trivial, trivial⟩

example : complexStr Part.zero ⟨false, .dec "2".toList [] none⟩ = "2j".toList := by decide +kernel
example : complexStr ⟨true, .dec "0".toList [] none⟩ ⟨false, .dec "0".toList [] none⟩ = "(-0+0j)".toList := by decide +kernel
example : complexStr ⟨false, .dec "1".toList [] (some (false, "22".toList))⟩ ⟨true, .dec "1".toList "5".toList (some (true, "07".toList))⟩
    = "(1e+22-1.5e-07j)".toList := by decide +kernel
example : complexStr ⟨false, .nan⟩ ⟨true, .inf⟩ = "(nan-infj)".toList := by decide +kernel
/-- the parser as it is: blanks only outside the number, `j` alone, a missing bracket is an error -/
example : complexParse " ( 1+2J ) ".toList = some (⟨false, .dec "1".toList [] none⟩, ⟨false, .dec "2".toList [] none⟩) ∧
    complexParse "-j".toList = some (Part.zero, Part.one true) ∧ complexParse "1+j".toList = some (Part.one false, Part.one false) ∧
    complexParse "(1+2j".toList = none ∧ complexParse "1 + 2j".toList = none ∧ complexParse "1e".toList = none := by
  decide +kernel

/-! ## a dumped registered value written plain is read back as a string (`C20_text_safe`)

`resolveLoad` / `resolveDump` are the scalar-resolution model of engine "Scalar" (C01) over the tables
regenerated from the live Loader and Dumper classes (`Jap.Gen.Resolvers`). -/

open Jap.Scalar in
/-- for EVERY text (hence for the serialised form of every registered type): either the dumper's own resolver
does not give `str` — then the emitter cannot write it plain and quotes it — or the loader reads it as a string.
(C01_resolver_agreement; `analyze_scalar`'s additional quoting can only add quotes.) -/
theorem C20_text_safe (s : String) : resolveDump s ≠ .str ∨ resolveLoad s = .str := by
  by_cases h : resolveDump s = .str
  · exact Or.inr (agree_words _ h)
  · exact Or.inl h

open Jap.Scalar Jap.TextSafe in
/-- `range(…)`: always a plain string for the loader (all three forms, every sign) -/
theorem C20_text_plain_range (r : Range) : resolveLoad (String.ofList (rangeSer r)) = .str := by
  simpa [resolveLoad] using safe_of_accepts mRange _ range_cert _ (range_accepts r)

open Jap.Scalar Jap.TextSafe in
/-- UUID text: always a plain string (also `12345678-…`, `1234567e-1234-…`, `0e123456-…`) -/
theorem C20_text_plain_uuid (n : Nat) : resolveLoad (String.ofList (uuidStr n)) = .str := by
  simpa [resolveLoad] using safe_of_accepts mUuid _ uuid_cert _ (uuid_accepts n)

open Jap.Scalar Jap.TextSafe in
/-- timedelta with a day part (`D day(s), H:MM:SS[.ffffff]`): a plain string -/
theorem C20_text_plain_td_days (t : TD) (h : t.days ≠ 0) : resolveLoad (String.ofList (tdStr t)) = .str := by
  have e : tdStr t = tdDayPart t.days ++ (tdClock t.secs ++ tdFrac t.us) := by simp [tdStr, h]
  rw [e]
  simpa [resolveLoad] using safe_of_accepts mTdDays _ tdDays_cert _ (tdDays_accepts t.days _)

open Jap.Scalar Jap.TextSafe in
/-- base64 text that ends in padding (length of the byte string not a multiple of 3): a plain string -/
theorem C20_text_plain_b64_padded (bs : List Nat) (h : ∀ b ∈ bs, b < 256) (hl : bs.length % 3 ≠ 0) :
    resolveLoad (String.ofList (b64encode bs)) = .str := by
  simpa [resolveLoad] using safe_of_accepts mB64Pad _ b64Pad_cert _ (b64Pad_accepts bs h hl 0 (Or.inl rfl))

open Jap.Scalar Jap.TextSafe in
/-- `str(complex)`: a plain string in both forms (`(…j)` starts with a bracket, `<im>j` contains `j`) -/
theorem C20_text_plain_complex (re im : Part) : resolveLoad (String.ofList (complexStr re im)) = .str := by
  unfold complexStr
  split
  · have := safe_of_accepts mHasJ _ hasJ_cert _ (hasJ_accepts ((if im.neg then ['-'] else []) ++ im.tok.text) [])
    simpa [resolveLoad] using this
  · simpa [resolveLoad] using safe_of_accepts mParen _ paren_cert _ (paren_accepts _)

open Jap.Scalar Jap.TextSafe in
/-- ANY text that contains a character no resolver pattern mentions is a plain string for the loader -/
theorem C20_text_plain_other_char (x : Char) (hx : charClass x = cJ) (a b : List Char) :
    resolveLoad (String.ofList (a ++ x :: b)) = .str := by
  simpa [resolveLoad] using safe_of_accepts mHasJ _ hasJ_cert _ (hasOther_accepts x hx a b)

open Jap.Scalar Jap.TextSafe in
/-- which characters these are, with the resolver tables as regenerated from the live Loader -/
theorem C20_other_chars_tie :
    ("GHJKMPQVWXghjkmpqvwz/@,()\\".toList.all fun c => charClass c = cJ) = true ∧
    ("0123456789+-.:=_eEtTfFnNyYoOxbBaAlLsSuUrRiI~ ".toList.all fun c => charClass c ≠ cJ) = true := by decide +kernel

open Jap.Scalar Jap.TextSafe in
/-- every path text with a separator (all absolute paths), every text with an `@` (all `Email` values), and every
base64 text — padded or not — that contains `/` or one of the letters above is read back as a string -/
theorem C20_text_plain_sep_at_b64 :
    (∀ a b : List Char, resolveLoad (String.ofList (a ++ '/' :: b)) = .str) ∧
    (∀ a b : List Char, resolveLoad (String.ofList (a ++ '@' :: b)) = .str) ∧
    (∀ (bs : List Nat) (c : Char), c ∈ b64encode bs → charClass c = cJ → resolveLoad (String.ofList (b64encode bs)) = .str) := by
  refine ⟨fun a b => C20_text_plain_other_char '/' (by decide +kernel) a b,
    fun a b => C20_text_plain_other_char '@' (by decide +kernel) a b, ?_⟩
  intro bs c hc hcls
  obtain ⟨a, b, hab⟩ := List.append_of_mem hc
  rw [hab]
  exact C20_text_plain_other_char c hcls a b

example : 'G' ∈ b64encode [24, 97, 255] ∧ Jap.Scalar.charClass 'G' = Jap.TextSafe.cJ := by decide +kernel

example : (⟨-3, 0, 5⟩ : TD).days ≠ 0 := by decide
example : [1, 2].length % 3 ≠ 0 := by decide

/- Full statements, FALSE:
     ∀ t, t.Normalised → resolveLoad (tdStr t) = .str        (clock-only forms are YAML 1.1 sexagesimal numbers)
     ∀ bs, resolveLoad (b64encode bs) = .str                  (unpadded base64 can spell a number / bool / null)
   Witnesses below; for these texts `resolveDump` is not `str` either, so the dump quotes them (`C20_text_safe`),
   and from the command line the text reaches the deserializer without going through the YAML loader. -/
open Jap.Scalar in
theorem C20_text_plain_counterexamples :
    tdStr ⟨0, 3600, 0⟩ = "1:00:00".toList ∧ resolveLoad "1:00:00" = .int ∧ resolveDump "1:00:00" = .int ∧
    tdStr ⟨0, 0, 500000⟩ = "0:00:00.500000".toList ∧ resolveLoad "0:00:00.500000" = .float ∧
      resolveDump "0:00:00.500000" = .float ∧
    b64encode [0xd7, 0x6d, 0xf8] = "1234".toList ∧ resolveLoad "1234" = .int ∧ resolveDump "1234" = .int ∧
    b64encode [0xb6, 0xbb, 0x9e] = "true".toList ∧ resolveLoad "true" = .bool ∧
    b64encode [0x9e, 0xe9, 0x65] = "null".toList ∧ resolveLoad "null" = .null ∧
    b64encode [0xd5, 0xed, 0x74] = "1e10".toList ∧ resolveLoad "1e10" = .float := by
  decide +kernel

/-- … while the zero clock and the texts of the other forms are plain strings -/
example : Jap.Scalar.resolveLoad "0:00:00" = .str ∧ Jap.Scalar.resolveLoad "aGk=" = .str ∧
    Jap.Scalar.resolveLoad "-1 day, 23:59:59.999999" = .str := by decide +kernel

/-! ## registered serializers / deserializers -/

def handlerOf (name : String) : Option (String × String) :=
  (Jap.Gen.Registered.registered.find? (fun r => r.1 = name)).map fun r => (r.2.1, r.2.2.1)

/-- which function serialises / deserialises each built-in registered type (`Decimal`: see below) -/
theorem C20_handlers_tie :
    handlerOf "datetime.timedelta" = some ("str", "timedelta_deserializer") ∧
    handlerOf "builtins.range" = some ("range_serializer", "range_deserializer") ∧
    handlerOf "jsonargparse.typing.SecretStr" = some ("str", "SecretStr") ∧
    handlerOf "builtins.complex" = some ("str", "complex") ∧
    handlerOf "uuid.UUID" = some ("str", "UUID") ∧
    handlerOf "builtins.bytes" = some ("bytes_serializer", "bytes_deserializer") ∧
    handlerOf "builtins.bytearray" = some ("bytes_serializer", "bytearray_deserializer") ∧
    handlerOf "pathlib.Path" = some ("str", "Path") ∧
    handlerOf "pathlib.PosixPath" = some ("str", "PosixPath") ∧
    handlerOf "os.PathLike" = some ("str", "str") := by decide

def excOf (name : String) : Option (List String) :=
  (Jap.Gen.Registered.registeredExc.find? (fun r => r.1 = name)).map (·.2)

/-- the declared exceptions of each built-in handler (`RegisteredType.deserializer` turns exactly these into the
parser's `ValueError`): the arithmetic types also declare `ArithmeticError` (`OverflowError`, `decimal.InvalidOperation`) -/
theorem C20_handler_exceptions_tie :
    excOf "builtins.complex" = some ["ValueError", "TypeError", "AttributeError", "ArithmeticError"] ∧
    excOf "decimal.Decimal" = some ["ValueError", "TypeError", "AttributeError", "ArithmeticError"] ∧
    excOf "datetime.timedelta" = some ["ValueError", "TypeError", "AttributeError", "ArithmeticError"] ∧
    excOf "uuid.UUID" = some ["ValueError", "TypeError", "AttributeError"] ∧
    excOf "builtins.range" = some ["ValueError", "TypeError", "AttributeError"] ∧
    excOf "builtins.bytes" = some ["ValueError", "TypeError", "AttributeError"] ∧
    excOf "builtins.bytearray" = some ["ValueError", "TypeError", "AttributeError"] ∧
    excOf "pathlib.Path" = some ["ValueError", "TypeError", "AttributeError"] ∧
    excOf "jsonargparse.typing.SecretStr" = some ["ValueError", "TypeError", "AttributeError"] := by decide

/-! ### `SecretStr` -/

/-- the serialised form does not depend on the secret -/
theorem C20_secret (s₁ s₂ : String) : secretSer s₁ = secretSer s₂ := rfl

/-- `SecretStr.__str__` returns the constant mask, and `str` is the registered serializer -/
theorem C20_secret_tie :
    Jap.Gen.Registered.secretStrConstant = some secretMask ∧
    (handlerOf "jsonargparse.typing.SecretStr").map (·.1) = some "str" := by decide

/-! ### `Decimal` (open finding: the registered serializer is `float`)

Full statement, not satisfied by the code:
  `∀ d, decimalRoundTrip (serializer registered for Decimal) d = .fin d`.
`register_type_on_first_use("decimal.Decimal", float)` sends the value through the nearest double;
the existing test suite pins the float form of the dump, so this stays a finding. -/

/-- the kind of the serializer registered for `Decimal` (from the regenerated table) -/
def decimalSerKind : Option SerKind := (handlerOf "decimal.Decimal").bind fun p => SerKind.ofName p.1

/-- the table names a serializer the model knows (`float` today, `str` after a repair),
and the deserializer is the `Decimal` constructor -/
theorem C20_decimal_tie :
    decimalSerKind.isSome = true ∧ (handlerOf "decimal.Decimal").map (·.2) = some "Decimal" := by decide

/-- partial: with an exact serializer every decimal number comes back unchanged -/
theorem C20_decimal_rt (k : SerKind) (d : Rat) (h : k.Exact) : decimalRoundTrip k d = .fin d := by
  cases k
  · rfl
  · exact absurd h (by simp [SerKind.Exact])

/-- the hypothesis is satisfiable -/
example : SerKind.str.Exact := trivial

/-- witness of the negation for the `float` serializer: `Decimal('0.1')` returns as
`Decimal(0.1000000000000000055511151231257827…)` = 3602879701896397 / 2^55 -/
theorem C20_decimal_float_lossy :
    decimalRoundTrip .float (mkRat 1 10) = .fin (mkRat 3602879701896397 36028797018963968) ∧
    decimalRoundTrip .float (mkRat 1 10) ≠ .fin (mkRat 1 10) := by decide +kernel

/-- … while decimals that are doubles survive -/
example : decimalRoundTrip .float (mkRat 1 2) = .fin (mkRat 1 2) := by decide +kernel

/-! ## the type registry: same key = same class, and the class validates what its creator stated -/

/-- the whole outcome of `T(v)` does not depend on the order in which the restrictions were given -/
theorem C20_num_perm (b : Base) (rs₁ rs₂ : List Restr) (j : Join) (v : PyVal) (p : rs₁.Perm rs₂) :
    validateNum b rs₁ j v = validateNum b rs₂ j v :=
  validateNum_perm p b j v

/-- two requests that share a register key `(tuple(sorted(restrictions)), base, join)` state the same predicate -/
theorem C20_key_sound (b b' : Base) (rs rs' : List Restr) (j j' : Join) (v : PyVal)
    (h : numKey b rs j = numKey b' rs' j') : validateNum b rs j v = validateNum b' rs' j' v := by
  obtain ⟨rfl, rfl, p⟩ := numKey_eq h
  exact validateNum_perm p b j v

/-- `restricted_number_type` returns (freshly or from the registry) a class that validates exactly the
restrictions stated in THIS call, and keeps the registry well-filed -/
theorem C20_create_sound (r r' : TReg) (name : String) (b : Base) (rs : List Restr) (j : Join) (c : NumCls)
    (hr : r.OK) (h : createNum r name b rs j = .ok (r', c)) :
    r'.OK ∧ ∀ v, c.call v = validateNum b rs j v := by
  rcases (createNum_ok_iff r r' name b rs j c).mp h with ⟨hf, _, rfl⟩ | ⟨_, _, rfl, rfl⟩
  · refine ⟨hr, fun v => ?_⟩
    have hk := hr _ (TReg.find_some hf)
    exact (C20_key_sound _ _ _ _ _ _ v hk).symm
  · refine ⟨?_, fun v => rfl⟩
    intro e he
    simp only [List.mem_append, List.mem_singleton] at he
    rcases he with he | rfl
    · exact hr e he
    · rfl

/-- asking again under the same name with a key-equal restriction list gives the very same class and leaves the
registry as it is ("two types with the same name/restrictions are the same class") -/
theorem C20_create_same_class (r r' : TReg) (name : String) (b : Base) (rs rs' : List Restr) (j : Join) (c : NumCls)
    (h : createNum r name b rs j = .ok (r', c)) (hk : numKey b rs' j = numKey b rs j) :
    createNum r' name b rs' j = .ok (r', c) ∧ c.name = name := by
  rcases (createNum_ok_iff r r' name b rs j c).mp h with ⟨hf, hn, rfl⟩ | ⟨hf, _, rfl, rfl⟩
  · exact ⟨(createNum_ok_iff _ _ _ _ _ _ _).mpr (Or.inl ⟨hk ▸ hf, hn, rfl⟩), hn⟩
  · refine ⟨(createNum_ok_iff _ _ _ _ _ _ _).mpr (Or.inl ⟨?_, rfl, rfl⟩), rfl⟩
    rw [hk]
    exact TReg.find_append_new _ hf

/-- … and under another name it is refused (`ValueError`: same type already registered with a different name) -/
theorem C20_create_other_name (r r' : TReg) (name name' : String) (b : Base) (rs rs' : List Restr) (j : Join) (c : NumCls)
    (h : createNum r name b rs j = .ok (r', c)) (hk : numKey b rs' j = numKey b rs j) (hn : name' ≠ name) :
    createNum r' name' b rs' j = .error .value := by
  obtain ⟨h2, hc⟩ := C20_create_same_class r r' name b rs rs' j c h hk
  have hf : r'.find (numKey b rs' j) = some c := by
    rcases (createNum_ok_iff _ _ _ _ _ _ _).mp h2 with ⟨hf, _, _⟩ | ⟨_, _, he, _⟩
    · exact hf
    · exact absurd (congrArg TReg.next he) (by simp)
  unfold createNum
  have : c.name ≠ name' := by rw [hc]; exact Ne.symm hn
  simp [hf, this]

/-- creating a type never changes a class that is already registered (any key) -/
theorem C20_create_frame (r r' : TReg) (name : String) (b : Base) (rs : List Restr) (j : Join) (c c0 : NumCls) (k : NumKey)
    (h : createNum r name b rs j = .ok (r', c)) (h0 : r.find k = some c0) : r'.find k = some c0 := by
  rcases (createNum_ok_iff r r' name b rs j c).mp h with ⟨_, _, rfl⟩ | ⟨_, _, rfl, rfl⟩
  · exact h0
  · exact TReg.find_append _ h0

/-- the caller's list is read once: whatever the heap cell holds later, the class keeps validating the restrictions
that were in the cell at creation (model statement of "immune to later mutation of the caller's list"; the tie
`C20_src_restricted_number_type_tie` pins the comprehension that makes the private copy) -/
theorem C20_create_ignores_later_mutation (heap heap' : Nat → List Restr) (r r' : TReg) (name : String) (b : Base)
    (a : Nat) (j : Join) (c : NumCls) (hr : r.OK) (h : createNumFrom heap r name b a j = .ok (r', c)) (v : PyVal) :
    c.call v = validateNum b (heap a) j v ∧
      (∀ k c0, r'.find k = some c0 → ∀ r'' c', createNumFrom heap' r' name b a j = .ok (r'', c') → r''.find k = some c0) := by
  refine ⟨(C20_create_sound r r' name b (heap a) j c hr h).2 v, ?_⟩
  intro k c0 h0 r'' c' h'
  exact C20_create_frame r' r'' name b (heap' a) j c' c0 k h' h0

def reg0 : TReg := ⟨[], ["PositiveInt", "register_type"], 0⟩
def gt0 : Restr := (.gt, .fin 0)
def lt9 : Restr := (.lt, .fin 9)

/-- non-vacuity: creation, the same class for a permuted list, another name refused, a name that clashes with a
global of the module refused, and the hypothesis `r.OK` holds for the empty registry -/
example : reg0.OK := by intro e he; cases he
example : ∃ r' c, createNum reg0 "A" .int [gt0, lt9] .and = .ok (r', c) ∧ c.id = 0 ∧
    createNum r' "A" .int [lt9, gt0] .and = .ok (r', c) ∧
    createNum r' "B" .int [lt9, gt0] .and = .error .value ∧
    (∃ r'' c', createNum r' "B" .int [lt9, gt0] .or = .ok (r'', c') ∧ c'.id = 1) ∧
    createNum r' "register_type" .int [gt0] .and = .error .value := by
  refine ⟨_, _, rfl, rfl, by decide +kernel, by decide +kernel, ⟨_, _, rfl, rfl⟩, by decide +kernel⟩
example : sortR [(.gt, .fin 1), (.lt, .fin 9), (.gt, .fin 0), (.ne, .inf true)] = [(.ne, .inf true), (.lt, .fin 9), (.gt, .fin 0), (.gt, .fin 1)] := by
  decide +kernel
example : autoName .int [(.gt, 0), (.lt, 10)] .and = "int_gt0_and_lt10" ∧ autoName .float [(.ge, -2)] .or = "float_ge-2" ∧
    exprText [(.gt, 0), (.lt, 10)] .or = "v>0 or v<10" := by decide +kernel

/-- the rank used by `sortR` is Python's order of the operator symbols -/
theorem C20_sort_rank_tie : ∀ a ∈ Op.all, ∀ b ∈ Op.all, (decide (a.symbol < b.symbol)) = decide (a.sortRank < b.sortRank) := by
  decide +kernel

/-! ### restricted strings: the register key is the pattern TEXT (finding `C20-str-key-ignores-flags`)

Full statement, not satisfied by the code:
  `createStr r name p f = .ok (r', c) → c.pattern = p ∧ c.flags = f`
(the class returned validates with the pattern object of this call). -/

/-- witness of the negation: the second call asks for `re.compile("^a$", re.IGNORECASE)` (flags 34) under the same
name and gets the class of the first call, whose pattern object has no IGNORECASE (flags 32) -/
theorem C20_str_key_ignores_flags :
    ∃ r₁ c₁ c₂, createStr ⟨[], [], 0⟩ "T" "^a$" 32 = .ok (r₁, c₁) ∧ createStr r₁ "T" "^a$" 34 = .ok (r₁, c₂) ∧
      c₂ = c₁ ∧ c₂.flags ≠ 34 := by
  exact ⟨_, _, _, rfl, by decide +kernel, rfl, by decide⟩

/-- partial: a pattern text that is not registered yet gives a class with the pattern object of this call -/
theorem C20_create_str_fresh (r r' : SReg) (name pattern : String) (flags : Nat) (c : StrCls)
    (hf : r.find ("matching " ++ pattern) = none) (h : createStr r name pattern flags = .ok (r', c)) :
    c.pattern = pattern ∧ c.flags = flags ∧ c.name = name := by
  unfold createStr at h
  simp only [hf] at h
  split at h
  · cases h
  · cases h; exact ⟨rfl, rfl, rfl⟩

example : (⟨[], [], 0⟩ : SReg).find ("matching " ++ "^a$") = none := by decide +kernel

/-! ## `register_type` -/

theorem getRegistered_snd (st : HReg) (t : Nat) : (getRegistered st t).2 = (getRegistered st t).1.handlerOf t := by
  unfold getRegistered
  cases (assocGet st.handlers t).isNone with
  | false => rfl
  | true =>
    simp only [↓reduceIte]
    cases assocGet st.pending t with
    | none => rfl
    | some p => rfl

theorem storeH_lookup (s : HReg) (h : HandlerId) (ukey : Option (Nat × Bool)) : (storeH s h ukey).handlerOf h.cls = some h := by
  cases ukey with
  | none => exact assocGet_assocSet_same _ _ _
  | some p => exact assocGet_assocSet_same _ _ _

/-- after a `register_type` that did not raise, the class has a handler that is `==` the requested one
(`RegisteredType.__eq__`: class, serializer, deserializer) -/
theorem C20_register_lookup (st st' : HReg) (h : HandlerId) (fail : Bool) (ukey : Option (Nat × Bool))
    (hr : registerType st h fail ukey = (st', none)) : ∃ h', st'.handlerOf h.cls = some h' ∧ h.eq3 h' = true := by
  have heq : h.eq3 h = true := by simp [HandlerId.eq3]
  unfold registerType registerWith at hr
  split at hr
  · cases hg : (getRegistered st h.cls).2 with
    | some old =>
      simp only [hg] at hr
      split at hr
      · rename_i he
        cases hr
        exact ⟨old, by rw [← getRegistered_snd]; exact hg, he⟩
      · cases hr
    | none =>
      simp only [hg] at hr
      cases hr
      exact ⟨h, storeH_lookup _ _ _, heq⟩
  · cases hr
    exact ⟨h, storeH_lookup _ _ _, heq⟩

theorem getRegistered_of_handler (st : HReg) (t : Nat) (old : HandlerId) (ho : assocGet st.handlers t = some old) :
    getRegistered st t = (st, some old) := by
  unfold getRegistered
  simp [ho, HReg.handlerOf]

/-- with `fail_already_registered` in force and no uniqueness key, a class that has a handler which differs in
serializer or deserializer cannot be re-registered: `ValueError`, nothing changes -/
theorem C20_register_conflict (st : HReg) (h old : HandlerId) (hg : st.globalFail = none)
    (ho : assocGet st.handlers h.cls = some old) (hne : h.eq3 old = false) :
    registerType st h true none = (st, some .value) := by
  unfold registerType registerWith
  simp [hg, getRegistered_of_handler st h.cls old ho, hne, noKey]

/-- … and registering an `==` handler again is a no-op -/
theorem C20_register_again_noop (st : HReg) (h old : HandlerId) (hg : st.globalFail = none)
    (ho : assocGet st.handlers h.cls = some old) (he : h.eq3 old = true) :
    registerType st h true none = (st, none) := by
  unfold registerType registerWith
  simp [hg, getRegistered_of_handler st h.cls old ho, he, noKey]

/-- while the module body runs (`_fail_already_registered = False`) the new handler simply replaces the old one,
whatever the caller passed for `fail_already_registered` -/
theorem C20_register_override (st : HReg) (h : HandlerId) (fail : Bool) (ukey : Option (Nat × Bool))
    (hg : st.globalFail = some false) : registerType st h fail ukey = (storeH st h ukey, none) ∧
      (storeH st h ukey).handlerOf h.cls = some h := by
  unfold registerType registerWith
  simp [hg, storeH_lookup]

def hreg0 : HReg := ⟨[(1, ⟨1, 10, 11, 0, 0⟩)], [], [(2, ⟨⟨2, 20, 21, 0, 0⟩, true, none⟩)], none⟩

/-- non-vacuity: first use of a pending type registers it; a second registration with another serializer is refused,
with another `type_check` only it is silently ignored (the `==` of handlers does not look at it) -/
example : (getRegistered hreg0 2).2 = some ⟨2, 20, 21, 0, 0⟩ ∧ (getRegistered hreg0 2).1.pending = [] ∧
    registerType hreg0 ⟨1, 12, 11, 0, 0⟩ true none = (hreg0, some .value) ∧
    registerType hreg0 ⟨1, 10, 11, 5, 7⟩ true none = (hreg0, none) ∧
    (registerType hreg0 ⟨2, 99, 21, 0, 0⟩ true none).2 = some .value ∧
    (registerType hreg0 ⟨2, 99, 21, 0, 0⟩ true none).1.handlerOf 2 = some ⟨2, 20, 21, 0, 0⟩ ∧
    (registerType hreg0 ⟨1, 12, 11, 0, 0⟩ false none).1.handlerOf 1 = some ⟨1, 12, 11, 0, 0⟩ := by
  refine ⟨?_, ?_, ?_, ?_, ?_, ?_, ?_⟩ <;> decide +kernel

/-! ## the registered-type branch of `adapt_typehints`, for ANY serializer / deserializer pair -/

/-- if the deserializer inverts the serializer on the instances, basic values are not instances
(`type_check`), and the channel (config text or command-line word) hands the basic value back unchanged, then
value → dump → parse returns the value, as an instance -/
theorem C20_registered_rt {α β : Type} (h : Handler α β) (chan : β → β) (a : α)
    (hinv : h.deser (.basic (h.ser (.inst a))) = .ok a)
    (hb : ∀ b, h.isType (.basic b) = false)
    (hch : chan (h.ser (.inst a)) = h.ser (.inst a)) :
    regRoundTrip h chan a = .ok (.inst a) := by
  simp [regRoundTrip, adaptReg, hch, hb, Handler.deserializer, hinv]

/-- parsing a parsed value again changes nothing (instances pass `type_check`) -/
theorem C20_registered_parse_idem {α β : Type} (h : Handler α β) (v w : RVal α β)
    (hi : ∀ a, h.isType (.inst a) = true) (hp : adaptReg h false v = .ok w) (hw : ∃ a, w = .inst a) :
    adaptReg h false w = .ok w := by
  obtain ⟨a, rfl⟩ := hw
  simp [adaptReg, hi]

/-- the parser reports `ValueError` exactly when the value is not an instance and the deserializer raised one of
its declared exceptions; other exceptions pass through -/
theorem C20_registered_parse_error {α β : Type} (h : Handler α β) (v : RVal α β) :
    (adaptReg h false v = .error .valueError ↔ h.isType v = false ∧ h.deser v = .error .listed) ∧
    (adaptReg h false v = .error .propagated ↔ h.isType v = false ∧ h.deser v = .error .unlisted) := by
  unfold adaptReg Handler.deserializer
  cases ht : h.isType v <;> cases hd : h.deser v with
  | ok a => simp
  | error e => cases e <;> simp

/-- the hypothesis on `type_check` is needed: a handler whose `type_check` also accepts basic values gets the basic
value back, not an instance -/
example : regRoundTrip (⟨fun _ => 7, fun _ => .ok 1, fun _ => true⟩ : Handler Nat Nat) id 1 = .ok (.basic 7) := by decide

/-- the built-in codecs of the model through the adapter branch: every range, normalised timedelta, byte string and
UUID comes back as an instance when the channel preserves the text -/
theorem C20_builtin_rt_through_adapter (chan : List Char → List Char) (hch : ∀ s, chan s = s) :
    (∀ r : Range, r.step ≠ 0 → regRoundTrip (codecHandler rangeSer rangeDeser) chan r = .ok (.inst r)) ∧
    (∀ t : TD, t.Normalised → regRoundTrip (codecHandler tdStr tdDeser) chan t = .ok (.inst t)) ∧
    (∀ bs : List Nat, (∀ b ∈ bs, b < 256) → regRoundTrip (codecHandler b64encode b64decode) chan bs = .ok (.inst bs)) ∧
    (∀ n : Nat, n < 2 ^ 128 → regRoundTrip (codecHandler uuidStr uuidDeser) chan n = .ok (.inst n)) := by
  refine ⟨fun r hr => ?_, fun t ht => ?_, fun bs hbs => ?_, fun n hn => ?_⟩
  · exact C20_registered_rt _ chan r (by simp [codecHandler, C20_range_rt r hr]) (fun _ => rfl) (hch _)
  · exact C20_registered_rt _ chan t (by simp [codecHandler, C20_td_rt t ht]) (fun _ => rfl) (hch _)
  · exact C20_registered_rt _ chan bs (by simp [codecHandler, C20_bytes_rt bs hbs]) (fun _ => rfl) (hch _)
  · exact C20_registered_rt _ chan n (by simp [codecHandler, C20_uuid_rt n hn]) (fun _ => rfl) (hch _)

/-- the hypotheses of `C20_registered_rt` are satisfiable (identity channel, the range codec) -/
example : regRoundTrip (codecHandler rangeSer rangeDeser) id ⟨5, 0, -2⟩ = .ok (.inst ⟨5, 0, -2⟩) := by decide +kernel
/-- a text that is no range: the adapter's `ValueError` -/
example : adaptReg (codecHandler rangeSer rangeDeser) false (.basic "range(1.5)".toList) = .error .valueError := by decide +kernel

/-! ### `Decimal` through `float`: which decimals survive -/

set_option exponentiation.threshold 2000 in
/-- a decimal survives the registered `float` serializer only if it is a dyadic rational on the grid of the doubles:
its reduced denominator divides 2^1074 -/
theorem C20_decimal_float_survivors_dyadic (d : Rat) (h : decimalRoundTrip .float d = .fin d) : d.den ∣ 2 ^ 1074 :=
  roundDouble_den h

set_option exponentiation.threshold 2000 in
/-- hence EVERY decimal whose reduced denominator contains a factor 5 (0.1, 0.3, 1.10, 3.14, … — all decimals that
are no finite binary fraction) comes back changed -/
theorem C20_decimal_float_lossy_class (d : Rat) (h5 : 5 ∣ d.den) : decimalRoundTrip .float d ≠ .fin d := by
  intro h
  have h2 : 5 ∣ 2 ^ 1074 := Nat.dvd_trans h5 (C20_decimal_float_survivors_dyadic d h)
  revert h2
  decide +kernel

/-- the condition is not sufficient: 53 significant bits and the exponent range bound the survivors too -/
theorem C20_decimal_float_more_witnesses :
    decimalRoundTrip .float ((2 ^ 53 + 1 : Nat) : Rat) = .fin ((2 ^ 53 : Nat) : Rat) ∧
    decimalRoundTrip .float (mkRat 1 (2 ^ 1075)) = .fin 0 ∧
    decimalRoundTrip .float ((10 ^ 400 : Nat) : Rat) = .inf false ∧
    decimalRoundTrip .float (mkRat 1 (2 ^ 1074)) = .fin (mkRat 1 (2 ^ 1074)) ∧
    decimalRoundTrip .float ((2 ^ 53 : Nat) : Rat) = .fin ((2 ^ 53 : Nat) : Rat) ∧
    decimalRoundTrip .float (mkRat (-9) 4) = .fin (mkRat (-9) 4) := by
  refine ⟨?_, ?_, ?_, ?_, ?_, ?_⟩ <;> decide +kernel

example : 5 ∣ (mkRat 1 10).den ∧ 5 ∣ (mkRat 314 100).den := by decide +kernel

/-! ### predefined number types on the special floats and on the other input kinds -/

/-- `nan`, `+inf`, `-inf` against the four predefined float types (the complete table) -/
theorem C20_predefined_float_specials :
    validateNum .float [(.gt, .fin 0)] .and (.float .nan) = .error .value ∧
    validateNum .float [(.ge, .fin 0)] .and (.float .nan) = .error .value ∧
    validateNum .float [(.ge, .fin 0), (.le, .fin 1)] .and (.float .nan) = .error .value ∧
    validateNum .float [(.gt, .fin 0), (.lt, .fin 1)] .and (.float .nan) = .error .value ∧
    validateNum .float [(.gt, .fin 0)] .and (.float (.inf false)) = .ok (.f (.inf false)) ∧
    validateNum .float [(.ge, .fin 0)] .and (.float (.inf false)) = .ok (.f (.inf false)) ∧
    validateNum .float [(.ge, .fin 0), (.le, .fin 1)] .and (.float (.inf false)) = .error .value ∧
    validateNum .float [(.gt, .fin 0), (.lt, .fin 1)] .and (.float (.inf false)) = .error .value ∧
    validateNum .float [(.gt, .fin 0)] .and (.float (.inf true)) = .error .value ∧
    validateNum .float [(.ge, .fin 0)] .and (.float (.inf true)) = .error .value ∧
    validateNum .float [(.ge, .fin 0), (.le, .fin 1)] .and (.float (.inf true)) = .error .value ∧
    validateNum .float [(.gt, .fin 0), (.lt, .fin 1)] .and (.float (.inf true)) = .error .value := by
  refine ⟨?_, ?_, ?_, ?_, ?_, ?_, ?_, ?_, ?_, ?_, ?_, ?_⟩ <;> decide +kernel

/-- zero (the sign is not represented: `0.0` and `-0.0` compare equal to 0 in Python too), the smallest subnormal, the
texts `"inf"`, `"nan"`, `"1e400"` (= inf), `"-0.0"`, a huge int, `True` -/
theorem C20_predefined_boundaries :
    validateNum .float [(.ge, .fin 0)] .and (.float (.fin 0)) = .ok (.f (.fin 0)) ∧
    validateNum .float [(.gt, .fin 0)] .and (.float (.fin 0)) = .error .value ∧
    validateNum .float [(.gt, .fin 0), (.lt, .fin 1)] .and (.float (.fin (mkRat 1 (2 ^ 1074)))) = .ok (.f (.fin (mkRat 1 (2 ^ 1074)))) ∧
    validateNum .float [(.gt, .fin 0), (.lt, .fin 1)] .and (.str "1e-400".toList) = .error .value ∧
    validateNum .float [(.gt, .fin 0)] .and (.str "inf".toList) = .ok (.f (.inf false)) ∧
    validateNum .float [(.gt, .fin 0)] .and (.str "nan".toList) = .error .value ∧
    validateNum .float [(.ge, .fin 0)] .and (.str "-0.0".toList) = .ok (.f (.fin 0)) ∧
    validateNum .float [(.ge, .fin 0), (.le, .fin 1)] .and (.int 1) = .ok (.f (.fin 1)) ∧
    validateNum .float [(.ge, .fin 0), (.le, .fin 1)] .and (.bool true) = .error .value ∧
    validateNum .int [(.ge, .fin 0)] .and (.int (10 ^ 400)) = .ok (.i (10 ^ 400)) ∧
    validateNum .float [(.ge, .fin 0)] .and (.int (10 ^ 400)) = .error .value ∧
    validateNum .float [(.gt, .fin 0)] .and (.int (-(10 ^ 400))) = .error .value ∧
    validateNum .float [(.ge, .fin 0)] .and (.int (2 ^ 1024 - 2 ^ 970 - 1)) = .ok (.f (.fin ((2 ^ 1024 - 2 ^ 971 : Nat) : Rat))) ∧
    validateNum .int [(.ge, .fin 0)] .and (.float (.fin ((10 ^ 22 : Nat) : Rat))) = .ok (.i (10 ^ 22)) ∧
    validateNum .int [(.ge, .fin 0)] .and (.float (.inf false)) = .error .value ∧
    validateNum .int [(.ge, .fin 0)] .and (.str "0".toList) = .ok (.i 0) ∧
    validateNum .int [(.ge, .fin 0)] .and (.str "0.0".toList) = .error .value ∧
    validateNum .int [(.ge, .fin 0)] .and (.bool false) = .error .value := by
  refine ⟨?_, ?_, ?_, ?_, ?_, ?_, ?_, ?_, ?_, ?_, ?_, ?_, ?_, ?_, ?_, ?_, ?_, ?_⟩ <;> decide +kernel

/-- `NonNegativeInt(v)` succeeds iff `v` denotes an integer `n ≥ 0`, and returns it -/
theorem C20_NonNegativeInt (v : PyVal) (x : BVal) :
    validateNum .int [(.ge, .fin 0)] .and v = .ok x ↔ ∃ n : Int, asBase .int v = some (.i n) ∧ x = .i n ∧ 0 ≤ n := by
  rw [validateNum_iff]
  constructor
  · rintro ⟨ha, hj⟩
    have hx : ∃ n, x = .i n := by
      have := C20_num_base_type .int [(.ge, .fin 0)] .and v x ((validateNum_iff _ _ _ _ _).mpr ⟨ha, hj⟩)
      exact this
    obtain ⟨n, rfl⟩ := hx
    refine ⟨n, ha, rfl, ?_⟩
    have := (cmp_fin .ge (n : Rat) 0).mp (hj (.ge, .fin 0) (by simp))
    exact Rat.intCast_nonneg.mp this
  · rintro ⟨n, ha, rfl, hn⟩
    refine ⟨ha, ?_⟩
    intro r hr
    simp only [List.mem_singleton] at hr
    subst hr
    exact (cmp_fin .ge (n : Rat) 0).mpr (Rat.intCast_nonneg.mpr hn)

/-- `join="or"` over the empty list rejects everything, `join="and"` over it accepts every number of the base type -/
theorem C20_empty_restrictions (b : Base) (v : PyVal) (x : BVal) :
    (validateNum b [] .or v ≠ .ok x) ∧ (validateNum b [] .and v = .ok x ↔ asBase b v = some x) := by
  constructor
  · intro h
    obtain ⟨_, r, hr, _⟩ := (validateNum_iff b [] .or v x).mp h
    cases hr
  · rw [validateNum_iff]
    simp [joinSat]

example : validateNum .int [] .and (.int 3) = .ok (.i 3) ∧ validateNum .int [] .or (.int 3) = .error .value := by decide +kernel

/-! ## the statements the model transcribes (regenerated from `typing.py` / `_typehints.py`)

`Jap.Gen.TypingSrc` is regenerated from /repo on every run (harness/extractors/typing_src.py: one string per statement;
docstrings, imports, annotations and the arguments of `raise` dropped).  Each theorem states the text the model was written
against; an edit of any of these statements makes the theorem fail, i.e. breaks the tie and triggers the boosted
failing-input search. -/

/-- `extend_base_type` + `TypeCore.__new__` (validate, then cast with the base type; registry lookup by key, name check) as transcribed by `validateNum`/`validateStr` and the registry part of `createNum`/`createStr` -/
theorem C20_src_extend_base_type_tie : Jap.Gen.TypingSrc.extendBaseType = [
  "def extend_base_type(name, base_type, validation_fn, docstring=None, extra_attrs=None, register_key=None):",
  "  if register_key in registered_types:",
  "    registered_type = registered_types[register_key]",
  "    if registered_type.__name__ != name:",
  "      raise ValueError(...)",
  "    return registered_type",
  "  class TypeCore():",
  "    _validation_fn = validation_fn",
  "    _type = base_type",
  "    def __new__(cls, v):",
  "      cls._validation_fn(cls, v)",
  "      return super().__new__(cls, cls._type(v))",
  "  if extra_attrs is not None:",
  "    for (key, value) in extra_attrs.items():",
  "      setattr(TypeCore, key, value)",
  "  created_type = type(name, (TypeCore, base_type), {'__doc__': docstring})",
  "  add_type(created_type, register_key)",
  "  return created_type"] := rfl

/-- `restricted_number_type` + its `validation_fn` as transcribed by `numKey` (sorted restrictions), `NumCls.rs` (the comprehension makes a PRIVATE list: later mutation of the caller's list cannot reach the class), `validationFn`, `autoName`, `exprText` -/
theorem C20_src_restricted_number_type_tie : Jap.Gen.TypingSrc.restrictedNumberType = [
  "def restricted_number_type(name, base_type, restrictions, join='and', docstring=None):",
  "  if base_type not in {int, float}:",
  "    raise ValueError(...)",
  "  if join not in {'or', 'and'}:",
  "    raise ValueError(...)",
  "  restrictions = [restrictions] if isinstance(restrictions, tuple) else restrictions",
  "  if not isinstance(restrictions, list) or not all((isinstance(x, tuple) and len(x) == 2 for x in restrictions)) or (not all((x[0] in _operators2 and x[1] == base_type(x[1]) for x in restrictions))):",
  "    raise ValueError(...)",
  "  register_key = (tuple(sorted(restrictions)), base_type, join)",
  "  restrictions = [(_operators2[x[0]], x[1]) for x in restrictions]",
  "  expression = (' ' + join + ' ').join(['v' + _operators1[op] + str(ref) for op, ref in restrictions])",
  "  if name is None:",
  "    name = base_type.__name__",
  "    for (num, (comparison, ref)) in enumerate(restrictions):",
  "      name += '_' + join + '_' if num > 0 else '_'",
  "      name += comparison.__name__ + str(ref).replace('.', '')",
  "  extra_attrs = {'_restrictions': restrictions, '_expression': expression, '_join': join, '_type': base_type}",
  "  def validation_fn(cls, v):",
  "    if isinstance(v, bool):",
  "      raise ValueError(...)",
  "    if cls._type == int and isinstance(v, float) and (not float.is_integer(v)):",
  "      raise ValueError(...)",
  "    try:",
  "      vv = cls._type(v)",
  "    except OverflowError as ex:",
  "      raise ValueError(...) from ex",
  "    check = [comparison(vv, ref) for comparison, ref in cls._restrictions]",
  "    if cls._join == 'and' and (not all(check)) or (cls._join == 'or' and (not any(check))):",
  "      raise ValueError(...)",
  "  return extend_base_type(name=name, base_type=base_type, validation_fn=validation_fn, register_key=register_key, docstring=docstring, extra_attrs=extra_attrs)"] := rfl

/-- `restricted_string_type` + its `validation_fn` (`regex.match`; the key is the pattern text) as transcribed by `validateStr` / `createStr` -/
theorem C20_src_restricted_string_type_tie : Jap.Gen.TypingSrc.restrictedStringType = [
  "def restricted_string_type(name, regex, docstring=None):",
  "  if isinstance(regex, str):",
  "    regex = re.compile(regex)",
  "  expression = 'matching ' + regex.pattern",
  "  extra_attrs = {'_regex': regex, '_expression': expression, '_type': str}",
  "  def validation_fn(cls, v):",
  "    if not cls._regex.match(v):",
  "      raise ValueError(...)",
  "  return extend_base_type(name=name, base_type=str, validation_fn=validation_fn, register_key=(expression, str), docstring=docstring, extra_attrs=extra_attrs)"] := rfl

/-- `RegisteredType` as transcribed by `HandlerId.eq3` (three attributes) and `Handler.deserializer` (declared exceptions become ValueError) -/
theorem C20_src_registered_type_class_tie : Jap.Gen.TypingSrc.registeredTypeClass = [
  "def __init__(self, type_class, serializer, deserializer, deserializer_exceptions, type_check):",
  "  self.type_class = type_class",
  "  self.serializer = serializer",
  "  self.base_deserializer = type_class if deserializer is None else deserializer",
  "  self.deserializer_exceptions = deserializer_exceptions",
  "  self.type_check = type_check",
  "def __eq__(self, other):",
  "  return all((getattr(self, k) == getattr(other, k) for k in ['type_class', 'serializer', 'base_deserializer']))",
  "def is_value_of_type(self, value):",
  "  return self.type_check(value, self.type_class)",
  "def deserializer(self, value):",
  "  try:",
  "    return self.base_deserializer(value)",
  "  except self.deserializer_exceptions as ex:",
  "    type_class_name = getattr(self.type_class, '__name__', str(self.type_class))",
  "    ex2 = ValueError(f'Not of type {type_class_name}: {ex}')",
  "    ex2.parent = ex",
  "    raise ex2 from ex"] := rfl

/-- `register_type` as transcribed by `registerWith` / `noKey` / `storeH` -/
theorem C20_src_register_type_tie : Jap.Gen.TypingSrc.registerType = [
  "def register_type(type_class, serializer=str, deserializer=None, deserializer_exceptions=(ValueError, TypeError, AttributeError), type_check=lambda v, t: v.__class__ == t, fail_already_registered=True, uniqueness_key=None):",
  "  type_handler = RegisteredType(type_class, serializer, deserializer, deserializer_exceptions, type_check)",
  "  fail_already_registered = globals().get('_fail_already_registered', fail_already_registered)",
  "  if not uniqueness_key and fail_already_registered and get_registered_type(type_class):",
  "    if type_handler == registered_type_handlers[type_class]:",
  "      return",
  "    raise ValueError(...)",
  "  registered_type_handlers[type_class] = type_handler",
  "  if uniqueness_key is not None:",
  "    registered_types[uniqueness_key] = type_class"] := rfl

/-- `register_type_on_first_use` as transcribed by `Pending` -/
theorem C20_src_register_on_first_use_tie : Jap.Gen.TypingSrc.registerOnFirstUse = [
  "def register_type_on_first_use(import_path, *args, **kwargs):",
  "  registration_pending[import_path] = lambda: register_type(import_object(import_path), *args, **kwargs)"] := rfl

/-- `get_registered_type` as transcribed by `getRegistered` (pop, run, suppress ValueError, look up) -/
theorem C20_src_get_registered_type_tie : Jap.Gen.TypingSrc.getRegisteredType = [
  "def get_registered_type(type_class):",
  "  if type_class not in registered_type_handlers:",
  "    with suppress(AttributeError, ValueError):",
  "      import_path = get_import_path(type_class)",
  "      if import_path in registration_pending:",
  "        registration_pending.pop(import_path)()",
  "  return registered_type_handlers.get(type_class)"] := rfl

/-- `add_type` as transcribed by the name-clash test of `createNum` / `createStr` and the registration under the key -/
theorem C20_src_add_type_tie : Jap.Gen.TypingSrc.addType = [
  "def add_type(type_class, uniqueness_key, type_check=None):",
  "  assert uniqueness_key not in registered_types",
  "  if type_class.__name__ in globals():",
  "    raise ValueError(...)",
  "  globals()[type_class.__name__] = type_class",
  "  kwargs = {'uniqueness_key': uniqueness_key}",
  "  if type_check is not None:",
  "    kwargs['type_check'] = type_check",
  "  register_type(type_class, type_class._type, **kwargs)"] := rfl

/-- `timedelta_deserializer` as transcribed by `tdDeser` -/
theorem C20_src_timedelta_deserializer_tie : Jap.Gen.TypingSrc.timedeltaDeserializer = [
  "def timedelta_deserializer(value):",
  "  def raise_error():",
  "    raise ValueError(...)",
  "  if not isinstance(value, str):",
  "    raise_error()",
  "  pattern = '(?P<hours>\\\\d+):(?P<minutes>\\\\d+):(?P<seconds>\\\\d[\\\\.\\\\d+]*)'",
  "  if 'day' in value:",
  "    pattern = '(?P<days>[-\\\\d]+) day[s]*, ' + pattern",
  "  match = re.match(pattern, value)",
  "  if not match:",
  "    raise_error()",
  "  kwargs = {key: float(val) for key, val in match.groupdict().items()}",
  "  return timedelta(**kwargs)"] := rfl

/-- `bytes_serializer` as transcribed by `b64encode` -/
theorem C20_src_bytes_serializer_tie : Jap.Gen.TypingSrc.bytesSerializer = [
  "def bytes_serializer(value):",
  "  return b64encode(value).decode()"] := rfl

/-- `bytes_deserializer` as transcribed by `b64decode` (nothing but `b64decode`: no second notation) -/
theorem C20_src_bytes_deserializer_tie : Jap.Gen.TypingSrc.bytesDeserializer = [
  "def bytes_deserializer(value):",
  "  return b64decode(value)"] := rfl

/-- `bytearray_deserializer`: the same decoder -/
theorem C20_src_bytearray_deserializer_tie : Jap.Gen.TypingSrc.bytearrayDeserializer = [
  "def bytearray_deserializer(value):",
  "  return bytearray(b64decode(value))"] := rfl

/-- `range_serializer` as transcribed by `rangeSer` -/
theorem C20_src_range_serializer_tie : Jap.Gen.TypingSrc.rangeSerializer = [
  "def range_serializer(value):",
  "  if value.step == 1:",
  "    if value.start == 0:",
  "      return f'range({value.stop})'",
  "    return f'range({value.start}, {value.stop})'",
  "  return f'range({value.start}, {value.stop}, {value.step})'"] := rfl

/-- `range_deserializer` as transcribed by `rangeDeser` -/
theorem C20_src_range_deserializer_tie : Jap.Gen.TypingSrc.rangeDeserializer = [
  "def range_deserializer(value):",
  "  value = value.strip()",
  "  if value.startswith('range(') and value.endswith(')'):",
  "    value = value[6:-1].replace(' ', '')",
  "    match = re_range_stop.match(value)",
  "    if match:",
  "      return range(int(match[1]))",
  "    match = re_range_start_stop.match(value)",
  "    if match:",
  "      return range(int(match[1]), int(match[2]))",
  "    match = re_range_start_stop_step.match(value)",
  "    if match:",
  "      return range(int(match[1]), int(match[2]), int(match[3]))",
  "  raise ValueError(...)"] := rfl

/-- `SecretStr` as transcribed by `secretSer` (constant mask; the value is only reachable through `get_secret_value`) -/
theorem C20_src_secret_str_tie : Jap.Gen.TypingSrc.secretStr = [
  "def __init__(self, value):",
  "  self._value = value",
  "def __str__(self):",
  "  return '**********'",
  "def __len__(self):",
  "  return len(self._value)",
  "def __eq__(self, other):",
  "  return isinstance(other, self.__class__) and self._value == other._value",
  "def __hash__(self):",
  "  return hash(self._value)",
  "def get_secret_value(self):",
  "  return self._value"] := rfl

/-- the module-level statements that predefine and register types, in source order (`Decimal` through `float`; `_fail_already_registered = False` … `del`) -/
theorem C20_src_module_registrations_tie : Jap.Gen.TypingSrc.moduleRegistrations = [
  "_operators1 = {operator.gt: '>', operator.ge: '>=', operator.lt: '<', operator.le: '<=', operator.eq: '==', operator.ne: '!='}",
  "_operators2 = {v: k for k, v in _operators1.items()}",
  "registered_types = {}",
  "registered_type_handlers = {}",
  "registration_pending = {}",
  "_fail_already_registered = False",
  "PositiveInt = restricted_number_type('PositiveInt', int, ('>', 0))",
  "NonNegativeInt = restricted_number_type('NonNegativeInt', int, ('>=', 0))",
  "PositiveFloat = restricted_number_type('PositiveFloat', float, ('>', 0))",
  "NonNegativeFloat = restricted_number_type('NonNegativeFloat', float, ('>=', 0))",
  "ClosedUnitInterval = restricted_number_type('ClosedUnitInterval', float, [('>=', 0), ('<=', 1)])",
  "OpenUnitInterval = restricted_number_type('OpenUnitInterval', float, [('>', 0), ('<', 1)])",
  "NotEmptyStr = restricted_string_type('NotEmptyStr', '^.*[^ ].*$')",
  "Email = restricted_string_type('Email', '^[^@ ]+@[^@ ]+\\\\.[^@ ]+$')",
  "Path_fr = path_type('fr')",
  "Path_fc = path_type('fc')",
  "Path_dw = path_type('dw')",
  "Path_dc = path_type('dc')",
  "Path_drw = path_type('drw')",
  "register_type(os.PathLike, str, str)",
  "arithmetic_deserializer_exceptions = (ValueError, TypeError, AttributeError, ArithmeticError)",
  "register_type(complex, deserializer_exceptions=arithmetic_deserializer_exceptions)",
  "register_type_on_first_use('decimal.Decimal', float, deserializer_exceptions=arithmetic_deserializer_exceptions)",
  "register_type_on_first_use('uuid.UUID')",
  "for _path in [pathlib.Path, pathlib.PosixPath, pathlib.WindowsPath]:",
  "  register_type(_path, str, _path, type_check=isinstance)",
  "register_type_on_first_use('datetime.timedelta', deserializer=timedelta_deserializer, deserializer_exceptions=arithmetic_deserializer_exceptions)",
  "register_type_on_first_use('builtins.bytes', serializer=bytes_serializer, deserializer=bytes_deserializer)",
  "register_type_on_first_use('builtins.bytearray', serializer=bytes_serializer, deserializer=bytearray_deserializer)",
  "re_range_stop = re.compile('^(-?\\\\d+)$')",
  "re_range_start_stop = re.compile('^(-?\\\\d+),(-?\\\\d+)$')",
  "re_range_start_stop_step = re.compile('^(-?\\\\d+),(-?\\\\d+),(-?\\\\d+)$')",
  "register_type(range, serializer=range_serializer, deserializer=range_deserializer)",
  "register_type(SecretStr)",
  "register_type_on_first_use('pydantic.SecretStr')",
  "del _fail_already_registered"] := rfl

/-- the registered-type branch of `adapt_typehints` as transcribed by `adaptReg` -/
theorem C20_src_adapt_registered_branch_tie : Jap.Gen.TypingSrc.adaptRegisteredBranch = [
  "elif get_registered_type(typehint):",
  "  registered_type = get_registered_type(typehint)",
  "  if serialize:",
  "    val = registered_type.serializer(val)",
  "  else:",
  "    if not serialize and (not registered_type.is_value_of_type(val)):",
  "      val = registered_type.deserializer(val)"] := rfl

end Jap.Props.C20

/-
C20 — Restricted and registered scalar types validate exactly, serialise losslessly.

Model: `Jap/Core/Typing.lean` (E8).  Helper lemmas: `Jap/Lemmas/Typing{Num,Codec,Td}.lean`.
Tie to /repo: `Jap/Gen/Registered.lean` is regenerated from `jsonargparse/typing.py`
on every run; the `*_tie` theorems below compare the regenerated constants with
the ones the model was written and proved against, so an edit of an operator,
a predefined type, a registered serializer or one of the regex literals makes
this file fail to compile.  All theorems hold for unbounded inputs.
-/
import Jap.Core.Typing
import Jap.Lemmas.TypingNum
import Jap.Lemmas.TypingCodec
import Jap.Lemmas.TypingTd
import Jap.Lemmas.TypingB64
import Jap.Lemmas.TypingUuid
import Jap.Lemmas.TypingText
import Jap.Lemmas.TypingComplex
import Jap.Gen.Registered

namespace Jap.Props.C20
open Jap.Typing

/-! ## restricted numbers -/

/-- `T(v)` succeeds with `x` iff `v` denotes the number `x` of the base type (booleans, non-integral floats
for `int`, non-literals and other objects denote none) and the comparisons, joined by and/or, hold for `x`. -/
theorem C20_num_iff (b : Base) (rs : List Restr) (j : Join) (v : PyVal) (x : BVal) :
    validateNum b rs j v = .ok x ↔ asBase b v = some x ∧ joinSat j rs x :=
  validateNum_iff b rs j v x

/-- casting an accepted value again changes nothing -/
theorem C20_num_idem (b : Base) (rs : List Restr) (j : Join) (v : PyVal) (x : BVal)
    (h : validateNum b rs j v = .ok x) : validateNum b rs j x.toPy = .ok x := by
  obtain ⟨ha, hj⟩ := (validateNum_iff b rs j v x).mp h
  exact (validateNum_iff b rs j x.toPy x).mpr ⟨asBase_toPy ha, hj⟩

/-- for base `int` the accepted value is an `int` with exactly the value of a numeric input
(no truncation, `1.0 ↦ 1`) -/
theorem C20_num_int_exact (rs : List Restr) (j : Join) (v : PyVal) (x : BVal) (y : XNum)
    (h : validateNum .int rs j v = .ok x) (hv : v.exact? = some y) : x.toX = y ∧ ∃ n, x = .i n := by
  have ha := ((validateNum_iff .int rs j v x).mp h).1
  cases v <;> simp [PyVal.exact?] at hv
  · subst hv
    simp [asBase] at ha
    subst ha
    exact ⟨rfl, _, rfl⟩
  · subst hv
    rename_i z
    cases z <;> simp [asBase] at ha
    obtain ⟨hden, rfl⟩ := ha
    exact ⟨by simp [BVal.toX, rat_of_den_one _ hden], _, rfl⟩

/-- for base `float` a float input is returned unchanged -/
theorem C20_num_float_exact (rs : List Restr) (j : Join) (y : XNum) (x : BVal)
    (h : validateNum .float rs j (.float y) = .ok x) : x = .f y := by
  have ha := ((validateNum_iff .float rs j _ x).mp h).1
  simp [asBase] at ha
  exact ha.symm

/-- the accepted value is of the base type -/
theorem C20_num_base_type (b : Base) (rs : List Restr) (j : Join) (v : PyVal) (x : BVal)
    (h : validateNum b rs j v = .ok x) :
    match b with
    | .int => ∃ n, x = .i n
    | .float => ∃ y, x = .f y := by
  have ha := asBase_toPy ((validateNum_iff b rs j v x).mp h).1
  cases b <;> cases x <;> simp only [BVal.toPy] at ha ⊢
  · exact ⟨_, rfl⟩
  · rename_i y
    cases y <;> simp [asBase] at ha
  · rename_i n
    simp only [asBase] at ha
    split at ha <;> simp at ha
  · exact ⟨_, rfl⟩

/-- booleans are never accepted -/
theorem C20_num_bool_rejected (b : Base) (rs : List Restr) (j : Join) (t : Bool) (x : BVal) :
    validateNum b rs j (.bool t) ≠ .ok x := by
  intro h
  have ha := ((validateNum_iff b rs j _ x).mp h).1
  cases b <;> simp [asBase] at ha

/-- non-vacuity: accepted and rejected inputs of every kind -/
example : validateNum .int [(.gt, .fin 0)] .and (.int 5) = .ok (.i 5) := by decide +kernel
example : validateNum .int [(.gt, .fin 0)] .and (.int 0) = .error .value := by decide +kernel
example : validateNum .int [(.gt, .fin 0)] .and (.float (.fin 3)) = .ok (.i 3) := by decide +kernel
example : validateNum .int [(.gt, .fin 0)] .and (.float (.fin (mkRat 3 2))) = .error .value := by decide +kernel
example : validateNum .int [(.gt, .fin 0)] .and (.bool true) = .error .value := by decide +kernel
example : validateNum .int [(.gt, .fin 0)] .and (.str " 1_0 ".toList) = .ok (.i 10) := by decide +kernel
example : validateNum .int [(.gt, .fin 0)] .and (.str "1.0".toList) = .error .value := by decide +kernel
example : validateNum .int [(.gt, .fin 0)] .and .other = .error .type := by decide +kernel
example : validateNum .float [(.lt, .fin 0), (.ge, .fin 1)] .or (.int 2) = .ok (.f (.fin 2)) := by decide +kernel
example : validateNum .float [(.lt, .fin 0), (.ge, .fin 1)] .or (.float (.fin (mkRat 1 2))) = .error .value := by decide +kernel
example : validateNum .float [(.lt, .fin 0), (.ge, .fin 1)] .and (.int 2) = .error .value := by decide +kernel
example : validateNum .float [(.ne, .fin 0)] .and (.float .nan) = .ok (.f .nan) := by decide +kernel
example : validateNum .float [(.ge, .fin 0)] .and (.str "1e400".toList) = .ok (.f (.inf false)) := by decide +kernel
example : validateNum .float [(.ge, .fin 0)] .and (.int (10 ^ 400)) = .error .overflow := by decide +kernel
example : validateNum .float [] .and (.int (2 ^ 53 + 1)) = .ok (.f (.fin (2 ^ 53 : Nat))) := by decide +kernel

/-! ### tie: operator table and predefined number types -/

/-- `_operators1` is the table the model's `cmp` implements: `operator.<name>` ↦ symbol, in this order -/
theorem C20_operators_tie :
    Jap.Gen.Registered.operators = Op.all.map (fun o => (o.pyName, o.symbol)) := by decide

def parseBase (s : String) : Option Base :=
  if s = "int" then some .int else if s = "float" then some .float else none

def parseJoin (s : String) : Option Join :=
  if s = "and" then some .and else if s = "or" then some .or else none

def parseRestr (p : String × Int × Nat) : Option Restr :=
  (Op.ofSymbol p.1).map fun o => (o, .fin (mkRat p.2.1 p.2.2))

/-- the predefined type `name` of `jsonargparse.typing` as extracted from the source -/
def predefined (name : String) : Option (Base × List Restr × Join) :=
  match Jap.Gen.Registered.predefinedNum.find? (fun r => r.1 = name) with
  | none => none
  | some (_, b, rs, j) =>
    match parseBase b, rs.mapM parseRestr, parseJoin j with
    | some b', some rs', some j' => some (b', rs', j')
    | _, _, _ => none

theorem C20_predefined_tie :
    predefined "PositiveInt" = some (.int, [(.gt, .fin 0)], .and) ∧
    predefined "NonNegativeInt" = some (.int, [(.ge, .fin 0)], .and) ∧
    predefined "PositiveFloat" = some (.float, [(.gt, .fin 0)], .and) ∧
    predefined "NonNegativeFloat" = some (.float, [(.ge, .fin 0)], .and) ∧
    predefined "ClosedUnitInterval" = some (.float, [(.ge, .fin 0), (.le, .fin 1)], .and) ∧
    predefined "OpenUnitInterval" = some (.float, [(.gt, .fin 0), (.lt, .fin 1)], .and) := by
  refine ⟨?_, ?_, ?_, ?_, ?_, ?_⟩ <;> decide +kernel

/-- `PositiveInt(v)` succeeds iff `v` denotes an integer `n > 0`, and returns it -/
theorem C20_PositiveInt (v : PyVal) (x : BVal) :
    validateNum .int [(.gt, .fin 0)] .and v = .ok x ↔ ∃ n : Int, asBase .int v = some (.i n) ∧ x = .i n ∧ 0 < n := by
  rw [validateNum_iff]
  constructor
  · rintro ⟨ha, hj⟩
    have hx : ∃ n, x = .i n := by
      cases v <;> simp [asBase] at ha
      · exact ⟨_, ha.symm⟩
      · rename_i z
        cases z <;> simp at ha
        exact ⟨_, ha.2.symm⟩
      · obtain ⟨n, _, rfl⟩ := ha
        exact ⟨n, rfl⟩
    obtain ⟨n, rfl⟩ := hx
    refine ⟨n, ha, rfl, ?_⟩
    have := hj (.gt, .fin 0) (by simp)
    simpa [cmp, XNum.lt, BVal.toX, Rat.intCast_pos] using this
  · rintro ⟨n, ha, rfl, hn⟩
    refine ⟨ha, ?_⟩
    intro r hr
    simp only [List.mem_singleton] at hr
    subst hr
    simpa [cmp, XNum.lt, BVal.toX, Rat.intCast_pos] using hn

/-- on finite numbers the six operators of `_operators1` are the exact order / equality their symbols state
(an `int` and a `float` are compared by value, never after rounding) -/
theorem C20_cmp_meaning (op : Op) (a b : Rat) :
    cmp op (.fin a) (.fin b) = true ↔
      (match op with
        | .gt => b < a
        | .ge => b ≤ a
        | .lt => a < b
        | .le => a ≤ b
        | .eq => a = b
        | .ne => a ≠ b) :=
  cmp_fin op a b

/-- `nan` passes `!=` only -/
theorem C20_cmp_nan (op : Op) (y : XNum) : cmp op .nan y = true ↔ op = .ne := cmp_nan op y

/-- `ClosedUnitInterval(q)` for a float `q`: accepted, unchanged, iff `0 ≤ q ≤ 1` -/
theorem C20_ClosedUnitInterval_float (q : Rat) (x : BVal) :
    validateNum .float [(.ge, .fin 0), (.le, .fin 1)] .and (.float (.fin q)) = .ok x ↔
      x = .f (.fin q) ∧ 0 ≤ q ∧ q ≤ 1 := by
  rw [validateNum_iff]
  simp only [asBase, Option.some.injEq, joinSat]
  constructor
  · rintro ⟨rfl, hj⟩
    have h0 := (cmp_fin .ge q 0).mp (hj (.ge, .fin 0) (by simp))
    have h1 := (cmp_fin .le q 1).mp (hj (.le, .fin 1) (by simp))
    exact ⟨rfl, h0, h1⟩
  · rintro ⟨rfl, h0, h1⟩
    refine ⟨rfl, ?_⟩
    intro r hr
    simp only [List.mem_cons, List.not_mem_nil, or_false] at hr
    rcases hr with rfl | rfl
    · exact (cmp_fin .ge q 0).mpr h0
    · exact (cmp_fin .le q 1).mpr h1

/-- `OpenUnitInterval(q)` for a float `q`: accepted, unchanged, iff `0 < q < 1` -/
theorem C20_OpenUnitInterval_float (q : Rat) (x : BVal) :
    validateNum .float [(.gt, .fin 0), (.lt, .fin 1)] .and (.float (.fin q)) = .ok x ↔
      x = .f (.fin q) ∧ 0 < q ∧ q < 1 := by
  rw [validateNum_iff]
  simp only [asBase, Option.some.injEq, joinSat]
  constructor
  · rintro ⟨rfl, hj⟩
    have h0 := (cmp_fin .gt q 0).mp (hj (.gt, .fin 0) (by simp))
    have h1 := (cmp_fin .lt q 1).mp (hj (.lt, .fin 1) (by simp))
    exact ⟨rfl, h0, h1⟩
  · rintro ⟨rfl, h0, h1⟩
    refine ⟨rfl, ?_⟩
    intro r hr
    simp only [List.mem_cons, List.not_mem_nil, or_false] at hr
    rcases hr with rfl | rfl
    · exact (cmp_fin .gt q 0).mpr h0
    · exact (cmp_fin .lt q 1).mpr h1

/-! ## restricted strings -/

/-- `T(v)` succeeds iff `v` is a text the pattern matches; the result is the text itself -/
theorem C20_str_iff (acc : List Char → Bool) (v : PyVal) (x : List Char) :
    validateStr acc v = .ok x ↔ v = .str x ∧ acc x = true := by
  cases v <;> simp [validateStr]
  rename_i s
  by_cases h : acc s = true
  · simp only [h, ↓reduceIte, Except.ok.injEq]
    constructor
    · rintro rfl; exact ⟨rfl, h⟩
    · rintro ⟨rfl, _⟩; rfl
  · simp only [h]
    constructor
    · intro h'; cases h'
    · rintro ⟨rfl, h'⟩; exact absurd h' h

theorem C20_str_idem (acc : List Char → Bool) (v : PyVal) (x : List Char)
    (h : validateStr acc v = .ok x) : validateStr acc (.str x) = .ok x := by
  obtain ⟨_, hx⟩ := (C20_str_iff acc v x).mp h
  simp [validateStr, hx]

/-- the patterns of the predefined string types are the ones translated into `Gen.predefinedStrRe` -/
theorem C20_predefined_str_tie :
    Jap.Gen.Registered.predefinedStr
      = [("NotEmptyStr", "^.*[^ ].*$"), ("Email", "^[^@ ]+@[^@ ]+\\.[^@ ]+$")] ∧
    Jap.Gen.Registered.predefinedStrRe.map (·.1) = ["NotEmptyStr", "Email"] := by decide

def predefinedRe (name : String) : Re :=
  ((Jap.Gen.Registered.predefinedStrRe.find? (fun p => p.1 = name)).map (·.2)).getD .eps

example : (predefinedRe "Email").accepts "a@b.c".toList = true := by decide +kernel
example : (predefinedRe "Email").accepts "a@b".toList = false := by decide +kernel
example : (predefinedRe "Email").accepts "a b@c.d".toList = false := by decide +kernel
example : (predefinedRe "NotEmptyStr").accepts " x ".toList = true := by decide +kernel
example : (predefinedRe "NotEmptyStr").accepts "  ".toList = false := by decide +kernel
example : (predefinedRe "NotEmptyStr").accepts [] = false := by decide +kernel

/-! ## `range` -/

/-- the serialised form of every range (empty ones, negative steps, all three forms) parses back to the same
`(start, stop, step)`; `step ≠ 0` is what makes `r` a range -/
theorem C20_range_rt (r : Range) (hstep : r.step ≠ 0) : rangeDeser (rangeSer r) = .ok r :=
  rangeDeser_rangeSer r hstep

/-- the hypothesis is satisfiable by empty ranges and negative steps … -/
example : (⟨5, 0, -2⟩ : Range).step ≠ 0 ∧ (⟨0, 0, 1⟩ : Range).step ≠ 0 := by decide
/-- … and it is needed: `range(0, 1, 0)` does not exist, its text is rejected like `range()` rejects it -/
example : rangeDeser (rangeSer ⟨0, 1, 0⟩) = .error .value := by decide +kernel
example : rangeSer ⟨0, 5, 1⟩ = "range(5)".toList := by decide +kernel
example : rangeSer ⟨2, 5, 1⟩ = "range(2, 5)".toList := by decide +kernel
example : rangeSer ⟨5, 0, -2⟩ = "range(5, 0, -2)".toList := by decide +kernel
example : rangeSer ⟨0, 0, 1⟩ = "range(0)".toList := by decide +kernel
example : rangeDeser " range( 5 ,0, -2) ".toList = .ok ⟨5, 0, -2⟩ := by decide +kernel
example : rangeDeser "range(1, 2, 0)".toList = .error .value := by decide +kernel
example : rangeDeser "range(1.5)".toList = .error .value := by decide +kernel

/-- consequently the serialised form determines the range -/
theorem C20_range_ser_injective (r₁ r₂ : Range) (h₁ : r₁.step ≠ 0) (h₂ : r₂.step ≠ 0)
    (h : rangeSer r₁ = rangeSer r₂) : r₁ = r₂ := by
  have e₁ := C20_range_rt r₁ h₁
  rw [h, C20_range_rt r₂ h₂] at e₁
  exact (Except.ok.inj e₁).symm

/-- the literals of `range_deserializer` / `range_serializer` are the ones the model was proved against -/
theorem C20_range_tie :
    Jap.Gen.Registered.rangePatterns = [reRangeStop, reRangeStartStop, reRangeStartStopStep] ∧
    Jap.Gen.Registered.rangePrefix.toList = rangePre ∧
    Jap.Gen.Registered.rangeSuffix = ")" ∧
    Jap.Gen.Registered.rangeSlice = ((rangePre.length : Int), -1) ∧
    Jap.Gen.Registered.rangeReplace = (" ", "") ∧
    Jap.Gen.Registered.rangeSerTemplates =
      ["f'range({value.start}, {value.stop}, {value.step})'", "f'range({value.start}, {value.stop})'",
       "f'range({value.stop})'"] := by decide

/-! ## `datetime.timedelta` -/

/-- every normalised timedelta (negative, sub-second, multi-day, zero) comes back from its `str` form -/
theorem C20_td_rt (t : TD) (h : t.Normalised) : tdDeser (tdStr t) = .ok t :=
  tdDeser_tdStr t h

/-- normalisation is needed: other field values denote a timedelta whose normal form comes back -/
example : tdDeser (tdStr ⟨0, 86400, 0⟩) = .ok ⟨1, 0, 0⟩ := by decide +kernel
example : tdStr ⟨-1, 86399, 999999⟩ = "-1 day, 23:59:59.999999".toList := by decide +kernel
example : tdStr ⟨2, 3661, 0⟩ = "2 days, 1:01:01".toList := by decide +kernel
example : tdStr ⟨0, 0, 5⟩ = "0:00:00.000005".toList := by decide +kernel
example : tdStr ⟨0, 0, 0⟩ = "0:00:00".toList := by decide +kernel
example : (⟨-999999999, 0, 1⟩ : TD).Normalised := by decide
example : tdDeser "2 days, 100:99:99.5".toList = .ok ⟨6, 20439, 500000⟩ := by decide +kernel
example : tdDeser "1:2:3xyz".toList = .ok ⟨0, 3723, 0⟩ := by decide +kernel
example : tdDeser "1 week, 0:00:00".toList = .error .value := by decide +kernel
example : tdDeser "0:00:1.2.3".toList = .error .value := by decide +kernel

/-- consequently `str` is injective on normalised timedeltas -/
theorem C20_td_str_injective (t₁ t₂ : TD) (h₁ : t₁.Normalised) (h₂ : t₂.Normalised)
    (h : tdStr t₁ = tdStr t₂) : t₁ = t₂ := by
  have e₁ := C20_td_rt t₁ h₁
  rw [h, C20_td_rt t₂ h₂] at e₁
  exact (Except.ok.inj e₁).symm

/-- the literals of `timedelta_deserializer` are the ones the model's matcher was proved against -/
theorem C20_td_tie :
    Jap.Gen.Registered.tdPattern = tdPattern ∧
    Jap.Gen.Registered.tdDaysPrefix = tdDaysPrefix ∧
    Jap.Gen.Registered.tdDayTrigger = tdDayTrigger ∧
    Jap.Gen.Registered.tdReFunction = "match" ∧
    Jap.Gen.Registered.tdConversion = "float" := by decide

/-! ## `bytes` / `bytearray` (base64, standard alphabet, padding) -/

/-- every byte string (empty, every length modulo 3) comes back from its base64 text -/
theorem C20_bytes_rt (bs : List Nat) (h : ∀ b ∈ bs, b < 256) : b64decode (b64encode bs) = .ok bs :=
  b64decode_b64encode bs h

/-- the hypothesis (the list is a byte string) is satisfiable, by all residues of the length -/
example : (∀ b ∈ ([] : List Nat), b < 256) ∧ (∀ b ∈ [255], b < 256) ∧ (∀ b ∈ [0, 255], b < 256) ∧ (∀ b ∈ [1, 2, 3], b < 256) := by
  decide
example : b64encode [] = [] ∧ b64encode [104, 105] = "aGk=".toList ∧ b64encode [255] = "/w==".toList ∧
    b64encode [0, 16, 131] = "ABCD".toList := by decide +kernel
/-- the decoder as it is: junk is skipped, input after a completed pad is ignored, a dangling sextet is an error -/
example : b64decode "a G\nk=".toList = .ok [104, 105] ∧ b64decode "aGk=aGk=".toList = .ok [104, 105] ∧
    b64decode "aGk".toList = .error .value ∧ b64decode "a".toList = .error .value ∧ b64decode "=aGk=".toList = .ok [104, 105] := by
  decide +kernel

/-! ## `uuid.UUID` (canonical 8-4-4-4-12 lower-case text ↔ 128-bit value) -/

theorem C20_uuid_rt (n : Nat) (h : n < 2 ^ 128) : uuidDeser (uuidStr n) = .ok n :=
  uuidDeser_uuidStr n h

theorem C20_uuid_str_injective (m n : Nat) (hm : m < 2 ^ 128) (hn : n < 2 ^ 128) (h : uuidStr m = uuidStr n) : m = n := by
  have e := C20_uuid_rt m hm
  rw [h, C20_uuid_rt n hn] at e
  exact (Except.ok.inj e).symm

example : uuidStr 0 = "00000000-0000-0000-0000-000000000000".toList := by decide +kernel
example : uuidStr (2 ^ 128 - 1) = "ffffffff-ffff-ffff-ffff-ffffffffffff".toList := by decide +kernel
example : uuidStr 0x12345678123456781234567812345678 = "12345678-1234-5678-1234-567812345678".toList := by decide +kernel
/-- the constructor as it is: braces, `urn:uuid:`, upper case, a `0x` prefix; 31 digits are rejected -/
example : uuidDeser "{urn:uuid:12345678-1234-5678-1234-56781234567F}".toList = .ok 0x1234567812345678123456781234567f ∧
    uuidDeser "0x345678123456781234567812345678".toList = .ok 0x345678123456781234567812345678 ∧
    uuidDeser "12345678-1234-5678-1234-56781234567".toList = .error .value ∧
    uuidDeser "-0000000000000000000000000000001".toList = .error .value := by decide +kernel

/-! ## `complex` (on decimal tokens)

A part is a sign and the token `repr` writes for the magnitude.  FLOAT ASSUMPTION (outside the model, Python's
documented guarantee): `float(repr(x)) == x` for every float, so that equal signed tokens denote equal floats;
under it the theorem is the round trip of every complex number whose parts are finite, infinite or nan. -/

/-- every well-formed pair of parts (integral, decimal, exponent, `inf`, `nan`; both signs; zero parts, incl. the
`<im>j` form of a `+0.0` real part and the `(-0+…j)` form of `-0.0`) is read back from its text -/
theorem C20_complex_rt (re im : Part) (hr : re.tok.Valid) (hi : im.tok.Valid) :
    complexParse (complexStr re im) = some (re, im) :=
  complexParse_complexStr re im hr hi

/-- the hypotheses are satisfiable by every kind of token -/
example : (Tok.dec "12".toList [] none).Valid ∧ (Tok.dec "1".toList "5".toList none).Valid ∧
    (Tok.dec "1".toList "5".toList (some (true, "07".toList))).Valid ∧ Tok.inf.Valid ∧ Tok.nan.Valid := by
  refine ⟨⟨by decide, by decide, by decide, trivial⟩, ⟨by decide, by decide, by decide, trivial⟩,
    ⟨by decide, by decide, by decide, by decide, by decide⟩, trivial, trivial⟩

example : complexStr Part.zero ⟨false, .dec "2".toList [] none⟩ = "2j".toList := by decide +kernel
example : complexStr ⟨true, .dec "0".toList [] none⟩ ⟨false, .dec "0".toList [] none⟩ = "(-0+0j)".toList := by decide +kernel
example : complexStr ⟨false, .dec "1".toList [] (some (false, "22".toList))⟩ ⟨true, .dec "1".toList "5".toList (some (true, "07".toList))⟩
    = "(1e+22-1.5e-07j)".toList := by decide +kernel
example : complexStr ⟨false, .nan⟩ ⟨true, .inf⟩ = "(nan-infj)".toList := by decide +kernel
/-- the parser as it is: blanks only outside the number, `j` alone, a missing bracket is an error -/
example : complexParse " ( 1+2J ) ".toList = some (⟨false, .dec "1".toList [] none⟩, ⟨false, .dec "2".toList [] none⟩) ∧
    complexParse "-j".toList = some (Part.zero, Part.one true) ∧ complexParse "1+j".toList = some (Part.one false, Part.one false) ∧
    complexParse "(1+2j".toList = none ∧ complexParse "1 + 2j".toList = none ∧ complexParse "1e".toList = none := by
  decide +kernel

/-! ## a dumped registered value written plain is read back as a string (`C20_text_safe`)

`resolveLoad` / `resolveDump` are the scalar-resolution model of engine "Scalar" (C01) over the tables
regenerated from the live Loader and Dumper classes (`Jap.Gen.Resolvers`). -/

open Jap.Scalar in
/-- for EVERY text (hence for the serialised form of every registered type): either the dumper's own resolver
does not give `str` — then the emitter cannot write it plain and quotes it — or the loader reads it as a string.
(C01_resolver_agreement; `analyze_scalar`'s additional quoting can only add quotes.) -/
theorem C20_text_safe (s : String) : resolveDump s ≠ .str ∨ resolveLoad s = .str := by
  by_cases h : resolveDump s = .str
  · exact Or.inr (agree_words _ h)
  · exact Or.inl h

open Jap.Scalar Jap.TextSafe in
/-- `range(…)`: always a plain string for the loader (all three forms, every sign) -/
theorem C20_text_plain_range (r : Range) : resolveLoad (String.ofList (rangeSer r)) = .str := by
  simpa [resolveLoad] using safe_of_accepts mRange _ range_cert _ (range_accepts r)

open Jap.Scalar Jap.TextSafe in
/-- UUID text: always a plain string (also `12345678-…`, `1234567e-1234-…`, `0e123456-…`) -/
theorem C20_text_plain_uuid (n : Nat) : resolveLoad (String.ofList (uuidStr n)) = .str := by
  simpa [resolveLoad] using safe_of_accepts mUuid _ uuid_cert _ (uuid_accepts n)

open Jap.Scalar Jap.TextSafe in
/-- timedelta with a day part (`D day(s), H:MM:SS[.ffffff]`): a plain string -/
theorem C20_text_plain_td_days (t : TD) (h : t.days ≠ 0) : resolveLoad (String.ofList (tdStr t)) = .str := by
  have e : tdStr t = tdDayPart t.days ++ (tdClock t.secs ++ tdFrac t.us) := by simp [tdStr, h]
  rw [e]
  simpa [resolveLoad] using safe_of_accepts mTdDays _ tdDays_cert _ (tdDays_accepts t.days _)

open Jap.Scalar Jap.TextSafe in
/-- base64 text that ends in padding (length of the byte string not a multiple of 3): a plain string -/
theorem C20_text_plain_b64_padded (bs : List Nat) (h : ∀ b ∈ bs, b < 256) (hl : bs.length % 3 ≠ 0) :
    resolveLoad (String.ofList (b64encode bs)) = .str := by
  simpa [resolveLoad] using safe_of_accepts mB64Pad _ b64Pad_cert _ (b64Pad_accepts bs h hl 0 (Or.inl rfl))

open Jap.Scalar Jap.TextSafe in
/-- `str(complex)`: a plain string in both forms (`(…j)` starts with a bracket, `<im>j` contains `j`) -/
theorem C20_text_plain_complex (re im : Part) : resolveLoad (String.ofList (complexStr re im)) = .str := by
  unfold complexStr
  split
  · have := safe_of_accepts mHasJ _ hasJ_cert _ (hasJ_accepts ((if im.neg then ['-'] else []) ++ im.tok.text) [])
    simpa [resolveLoad] using this
  · simpa [resolveLoad] using safe_of_accepts mParen _ paren_cert _ (paren_accepts _)

example : (⟨-3, 0, 5⟩ : TD).days ≠ 0 := by decide
example : [1, 2].length % 3 ≠ 0 := by decide

/- Full statements, FALSE:
     ∀ t, t.Normalised → resolveLoad (tdStr t) = .str        (clock-only forms are YAML 1.1 sexagesimal numbers)
     ∀ bs, resolveLoad (b64encode bs) = .str                  (unpadded base64 can spell a number / bool / null)
   Witnesses below; for these texts `resolveDump` is not `str` either, so the dump quotes them (`C20_text_safe`),
   and from the command line the text reaches the deserializer without going through the YAML loader. -/
open Jap.Scalar in
theorem C20_text_plain_counterexamples :
    tdStr ⟨0, 3600, 0⟩ = "1:00:00".toList ∧ resolveLoad "1:00:00" = .int ∧ resolveDump "1:00:00" = .int ∧
    tdStr ⟨0, 0, 500000⟩ = "0:00:00.500000".toList ∧ resolveLoad "0:00:00.500000" = .float ∧
      resolveDump "0:00:00.500000" = .float ∧
    b64encode [0xd7, 0x6d, 0xf8] = "1234".toList ∧ resolveLoad "1234" = .int ∧ resolveDump "1234" = .int ∧
    b64encode [0xb6, 0xbb, 0x9e] = "true".toList ∧ resolveLoad "true" = .bool ∧
    b64encode [0x9e, 0xe9, 0x65] = "null".toList ∧ resolveLoad "null" = .null ∧
    b64encode [0xd5, 0xed, 0x74] = "1e10".toList ∧ resolveLoad "1e10" = .float := by
  decide +kernel

/-- … while the zero clock and the texts of the other forms are plain strings -/
example : Jap.Scalar.resolveLoad "0:00:00" = .str ∧ Jap.Scalar.resolveLoad "aGk=" = .str ∧
    Jap.Scalar.resolveLoad "-1 day, 23:59:59.999999" = .str := by decide +kernel

/-! ## registered serializers / deserializers -/

def handlerOf (name : String) : Option (String × String) :=
  (Jap.Gen.Registered.registered.find? (fun r => r.1 = name)).map fun r => (r.2.1, r.2.2.1)

/-- which function serialises / deserialises each built-in registered type (`Decimal`: see below) -/
theorem C20_handlers_tie :
    handlerOf "datetime.timedelta" = some ("str", "timedelta_deserializer") ∧
    handlerOf "builtins.range" = some ("range_serializer", "range_deserializer") ∧
    handlerOf "jsonargparse.typing.SecretStr" = some ("str", "SecretStr") ∧
    handlerOf "builtins.complex" = some ("str", "complex") ∧
    handlerOf "uuid.UUID" = some ("str", "UUID") ∧
    handlerOf "builtins.bytes" = some ("bytes_serializer", "bytes_deserializer") ∧
    handlerOf "builtins.bytearray" = some ("bytes_serializer", "bytearray_deserializer") ∧
    handlerOf "pathlib.Path" = some ("str", "Path") ∧
    handlerOf "pathlib.PosixPath" = some ("str", "PosixPath") ∧
    handlerOf "os.PathLike" = some ("str", "str") := by decide

/-! ### `SecretStr` -/

/-- the serialised form does not depend on the secret -/
theorem C20_secret (s₁ s₂ : String) : secretSer s₁ = secretSer s₂ := rfl

/-- `SecretStr.__str__` returns the constant mask, and `str` is the registered serializer -/
theorem C20_secret_tie :
    Jap.Gen.Registered.secretStrConstant = some secretMask ∧
    (handlerOf "jsonargparse.typing.SecretStr").map (·.1) = some "str" := by decide

/-! ### `Decimal` (open finding: the registered serializer is `float`)

Full statement, not satisfied by the code:
  `∀ d, decimalRoundTrip (serializer registered for Decimal) d = .fin d`.
`register_type_on_first_use("decimal.Decimal", float)` sends the value through the nearest double;
the existing test suite pins the float form of the dump, so this stays a finding. -/

/-- the kind of the serializer registered for `Decimal` (from the regenerated table) -/
def decimalSerKind : Option SerKind := (handlerOf "decimal.Decimal").bind fun p => SerKind.ofName p.1

/-- the table names a serializer the model knows (`float` today, `str` after a repair),
and the deserializer is the `Decimal` constructor -/
theorem C20_decimal_tie :
    decimalSerKind.isSome = true ∧ (handlerOf "decimal.Decimal").map (·.2) = some "Decimal" := by decide

/-- partial: with an exact serializer every decimal number comes back unchanged -/
theorem C20_decimal_rt (k : SerKind) (d : Rat) (h : k.Exact) : decimalRoundTrip k d = .fin d := by
  cases k
  · rfl
  · exact absurd h (by simp [SerKind.Exact])

/-- the hypothesis is satisfiable -/
example : SerKind.str.Exact := trivial

/-- witness of the negation for the `float` serializer: `Decimal('0.1')` returns as
`Decimal(0.1000000000000000055511151231257827…)` = 3602879701896397 / 2^55 -/
theorem C20_decimal_float_lossy :
    decimalRoundTrip .float (mkRat 1 10) = .fin (mkRat 3602879701896397 36028797018963968) ∧
    decimalRoundTrip .float (mkRat 1 10) ≠ .fin (mkRat 1 10) := by decide +kernel

/-- … while decimals that are doubles survive -/
example : decimalRoundTrip .float (mkRat 1 2) = .fin (mkRat 1 2) := by decide +kernel

end Jap.Props.C20

import Jap.Core.Sources
import Jap.Lemmas.SourcesTop
import Jap.Lemmas.SourcesCall
import Jap.Lemmas.SourcesSub
import Jap.Gen.SourcesOrder
/-!
# C04 — Sources override each other in the documented order, left to right

Model: `Jap.Src` (Core/Sources.lean), the precedence pipeline as `_core.py` implements it —
`get_defaults` (action defaults, then every default config file merged in listed order),
`_load_env_vars` (config variable first, then individual variables, INTO AN EMPTY NAMESPACE),
`merge_config` (= `Namespace.update` of every leaf, then `apply_appends` for the `key+` leaves),
the argv fold (`--k=v`, `--k+=v` on the running value, `--k.i=v` on the dict built so far,
`--cfg` merged at its position).  Reference: `refFold`, a left fold of `set | append | item` (and `note`: the bookkeeping entry of the config argument's own list)
assignments over the flattened sources `asgAll p src` =
defaults ++ default config files ++ env config ++ env variables ++ command line.

Domain (all decidable): `wfParser p` (destinations pairwise divergent, i.e. prefix-free and distinct —
`dest+` of list-typed ones included —, none ends with "+", defaults are leaf values) and `srcWf p src`
(every key of every source is a destination or `dest+` of a list-typed one; `key+` keys of one mapping are
distinct; assigned values are leaf values).  Any number of arguments, files, variables and items.

FULL STATEMENT `C04_order` (what the property asks):
    wfParser p → srcWf p src → a ∈ p.args →
      getK a.dest (parseArgs p src) = getK a.dest (refFold (asgAll p src) [])
It is FALSE for the code (and the faithful model) when the config given through the config ENVIRONMENT
VARIABLE holds a `key+` entry: `_load_env_vars` applies it to a fresh namespace, so the entry appends to an
empty list, and `_parse_defaults_and_environ` then assigns the finished list over the one built by the defaults
and the default config files: `C04_order_envcfg_append_counterexample` (open finding C04-envcfg-append).
What is proved is the full statement under exactly that guard, per key: `envPlain p src.env a.dest`
(the environment makes only plain assignments to the key), which holds at every non-config key as soon as
the env config has no `key+` entry (`C04_guard_of_noAppend`), and always when env parsing is off.

Second part (the arguments of the call): `defaults=`, `env=`, `parse_env(mapping)` are inputs of the pipeline
(`Call`, `parseArgsC` …): `C04_order_call_partial` (guard only when both layers are read), `C04_defaults_false`,
`C04_env_mapping_only` / `_fold` / `_empty`; the order of default config files is computed by the model
(`defaultConfigFiles` on an abstract match relation): `C04_files_listed_order`, `C04_files_twice`, `C04_files_value`;
the environment layer assigns leaf by leaf: `C04_env_var_step_frame`, `C04_env_var_keeps_siblings`.
`parse_string(defaults=False)` without `env=True` merges nothing at all (`C04_string_nodefaults`, witness
`C04_string_nodefaults_counterexample`, open finding C04-string-nodefaults).

Third part (subcommand levels, Core/SourcesSub.lean): the `default_env` property setter over the parser tree (`setEnv`: resolve,
store, call the SETTER of every sub-parser) — `C04_setter_uniform`, `C04_setter_history`, `C04_setter_path_flags`,
`C04_build_uniform`: after any history of assignments at the root every parser of the tree holds the same flag
(`C04_setter_shallow_counterexample`: not so if the flag were assigned to the direct sub-parsers only); `root.parse_args` along
a path of subcommands = every level's own pipeline followed by the `handle_subcommands` merges of ALL enclosing parsers:
`C04_order_depth_partial` / `C04_order_tree_after_setter` (the order of sources holds at every depth, any number of sources per
level, `defaults=False` included, when the parsers of the path agree on reading the environment), `C04_handle_keeps_own`,
`C04_order_depth_nonuniform_counterexample` (it fails when they do not agree: an environment variable then loses against a default).
-/
namespace Jap.Props.C04
open Jap.NS Jap.Src Jap.Gen

/-! ## the order of sources -/

/-- key by key, the pipeline is the left fold of the sources in the documented order -/
theorem C04_order_partial (p : Parser) (src : Sources) (hp : wfParser p = true) (hs : srcWf p src = true)
    (a : Arg) (ha : a ∈ p.args) (hg : envOn p = true → envPlain p src.env a.dest = true) :
    getK a.dest (parseArgs p src) = getK a.dest (refFold (asgAll p src) []) := by
  have hs' := hs
  simp only [srcWf, Bool.and_eq_true, List.all_eq_true] at hs'
  obtain ⟨h1, h2⟩ := stage_base hp ha src hs (envOn p) hg
  obtain ⟨h3, _⟩ := stage_argv hp ha src.argv _ hs'.2 h2
  have hkeys : ∀ s ∈ asgAll p src, ∃ b ∈ p.args, s.key = b.dest := by
    intro s hm
    simp only [asgAll, List.mem_append] at hm
    rcases hm with hm | hm
    · exact asgBase_keys hp src hs _ s hm
    · exact asgArgv_keys hp src.argv hs'.2 s hm
  rw [ref_eval hp ha _ hkeys, getK_nil]
  simp only [parseArgs, asgAll, evalKey_append]
  rw [h3, h1]

/-- the same, in the words of the property: the value after the whole history -/
theorem C04_order_valueAfter (p : Parser) (src : Sources) (hp : wfParser p = true) (hs : srcWf p src = true)
    (a : Arg) (ha : a ∈ p.args) (hg : envOn p = true → envPlain p src.env a.dest = true) :
    getK a.dest (parseArgs p src) = valueAfter (asgAll p src) a.dest := by
  have hs' := hs
  simp only [srcWf, Bool.and_eq_true, List.all_eq_true] at hs'
  obtain ⟨h1, h2⟩ := stage_base hp ha src hs (envOn p) hg
  obtain ⟨h3, _⟩ := stage_argv hp ha src.argv _ hs'.2 h2
  simp only [parseArgs, asgAll, valueAfter, evalKey_append]
  rw [h3, h1]

/-- the guard holds at every argument other than the config argument when the env config has no `key+` entry -/
theorem C04_guard_of_noAppend (p : Parser) (env : List (String × V)) (hp : wfParser p = true)
    (a : Arg) (ha : a ∈ p.args) (hk : a.kind ≠ .config) (hn : envNoAppend p env = true) :
    envPlain p env a.dest = true := envPlain_of_noAppend hp ha hk env hn

/-- no key other than the parser's destinations is left in the result (`key+` entries are consumed), guard or not;
    `a0` only says that the parser has an argument -/
theorem C04_no_other_keys (p : Parser) (src : Sources) (hp : wfParser p = true) (hs : srcWf p src = true)
    (a0 : Arg) (ha0 : a0 ∈ p.args) :
    ∀ x ∈ leaves (parseArgs p src), ∃ a ∈ p.args, x.1 = a.dest := by
  have hs' := hs
  simp only [srcWf, Bool.and_eq_true, List.all_eq_true] at hs'
  obtain ⟨_, h2⟩ := stage_base_exact hp ha0 src hs (envOn p)
  obtain ⟨_, h4⟩ := stage_argv hp ha0 src.argv _ hs'.2 h2
  exact h4.keys

/-- inside the domain the final validation rejects nothing: every leaf of the result has an action -/
theorem C04_accepts (p : Parser) (src : Sources) (hp : wfParser p = true) (hs : srcWf p src = true)
    (a0 : Arg) (ha0 : a0 ∈ p.args) : valid p (parseArgs p src) = true := by
  simp only [valid, List.all_eq_true]
  intro x hx
  obtain ⟨a, ha, e⟩ := C04_no_other_keys p src hp hs a0 ha0 x hx
  rw [e, findArg_dest hp ha]
  rfl

/-- WITHOUT the guard — what the code does for every input of the domain, the excluded class included:
    the value the environment builds on its own (its `key+` entries appending to nothing) REPLACES the value built by the
    defaults and the default config files; the command line then folds over that -/
theorem C04_order_exact (p : Parser) (src : Sources) (hp : wfParser p = true) (hs : srcWf p src = true)
    (a : Arg) (ha : a ∈ p.args) :
    getK a.dest (parseArgs p src) =
      evalKey a.dest (asgArgv p src.argv)
        (if envOn p then (valueAfter (asgEnvCfg p src.env ++ asgEnvVars p src.env) a.dest).or
                          (valueAfter (asgDefaults p ++ asgFiles p src.files) a.dest)
         else valueAfter (asgDefaults p ++ asgFiles p src.files) a.dest) := by
  have hs' := hs
  simp only [srcWf, Bool.and_eq_true, List.all_eq_true] at hs'
  obtain ⟨h1, h2⟩ := stage_base_exact hp ha src hs (envOn p)
  obtain ⟨h3, _⟩ := stage_argv hp ha src.argv _ hs'.2 h2
  simp only [parseArgs, valueAfter]
  rw [h3, h1]

/-! ## replace / append / dict item -/

/-- a plain assignment replaces whatever the history built — whole lists and dicts included (`v` is any value) -/
theorem C04_replace (p : Parser) (files : List (Option KV)) (env : List (String × V)) (argv : List Item)
    (k : Key) (v : V) (hk : k ≠ []) :
    getK k (parseArgs p ⟨files, env, argv ++ [.set k v]⟩) = some v := by
  simp only [parseArgs, List.foldl_append, List.foldl_cons, List.foldl_nil, argvStep]
  exact getK_setK_same k v _ hk

/-- the same in the reference: after any history `h` -/
theorem C04_replace_ref (h : List Assign) (k : Key) (v : V) : valueAfter (h ++ [.set k v]) k = some v := by
  simp [valueAfter, evalKey, stepKey]

/-- `--k+=v` after any sources and items appends to the list built so far -/
theorem C04_append (p : Parser) (files : List (Option KV)) (env : List (String × V)) (argv : List Item)
    (k : Key) (v : V) (hk : k ≠ []) :
    getK k (parseArgs p ⟨files, env, argv ++ [.append k v]⟩)
      = some (.lst (listOf (getK k (parseArgs p ⟨files, env, argv⟩)) ++ toList v)) := by
  simp only [parseArgs, List.foldl_append, List.foldl_cons, List.foldl_nil, argvStep]
  exact getK_setK_same k _ _ hk

/-- the same in the reference: `append k v` after history `h` yields `valueAfter h k ++ toList v` -/
theorem C04_append_ref (h : List Assign) (k : Key) (v : V) :
    valueAfter (h ++ [.append k v]) k = some (.lst (listOf (valueAfter h k) ++ toList v)) := by
  simp [valueAfter, evalKey, stepKey, appendVal]

/-- `key+` inside a config that is merged over a namespace `c` the pipeline can reach: plain keys of the mapping first, then the
    `key+` entry appends to the list built so far (this is `merge_config`, used for default config files, `--cfg`,
    `parse_string`, `parse_object`) -/
theorem C04_append_config (p : Parser) (hp : wfParser p = true) (a : Arg) (ha : a ∈ p.args) (t c : KV)
    (ht : treeOk p t = true) (hc : Inv p c) :
    getK a.dest (mergeConfig p t c) = evalKey a.dest (asgTree t) (getK a.dest c) :=
  (stage_mergeTree hp ha t ht hc).1

/-- `--k.i=v` sets item `i` in the dict built so far and keeps the other items -/
theorem C04_item (p : Parser) (files : List (Option KV)) (env : List (String × V)) (argv : List Item)
    (k : Key) (i : SKey) (v : V) (hk : k ≠ []) :
    ∃ d, getK k (parseArgs p ⟨files, env, argv ++ [.item k i v]⟩) = some (.dct d)
      ∧ lookup i d = some v
      ∧ ∀ j, j ≠ i → lookup j d = lookup j (dictOf (getK k (parseArgs p ⟨files, env, argv⟩))) := by
  refine ⟨NS.insert i v (dictOf (getK k (parseArgs p ⟨files, env, argv⟩))), ?_, lookup_insert_same i v _,
    fun j hj => lookup_insert_other v hj _⟩
  simp only [parseArgs, List.foldl_append, List.foldl_cons, List.foldl_nil, argvStep]
  exact getK_setK_same k _ _ hk

theorem C04_item_ref (h : List Assign) (k : Key) (i : SKey) (v : V) :
    valueAfter (h ++ [.item k i v]) k = some (.dct (NS.insert i v (dictOf (valueAfter h k)))) := by
  simp [valueAfter, evalKey, stepKey, itemVal]

/-! ## last writer wins -/

/-- a history of plain assignments is last-writer-wins: this IS `fold_last` of the Namespace engine -/
theorem C04_last_writer_fold (k : Key) (hk : k ≠ []) (as : List (Key × V)) (c : KV)
    (h : ∀ a ∈ as, a.1 = k ∨ Diverge a.1 k) :
    getK k (refFold (as.map (fun a => Assign.set a.1 a.2)) c) = (lastWrite k as).or (getK k c) := by
  have : ∀ (l : List (Key × V)) (c : KV), refFold (l.map (fun a => Assign.set a.1 a.2)) c = foldSet l c := by
    intro l
    induction l with
    | nil => intro c; rfl
    | cons x r ih => intro c; simp only [List.map_cons, refFold, foldSet, List.foldl_cons] at ih ⊢; exact ih _
  rw [this]
  exact fold_last k hk as c h

/-- a key that only receives plain assignments (every scalar key; a list or dict key without `+`/item entries)
    ends with the LAST assignment in source order: defaults < default config files < env config < env variables
    < command line left to right, a config on the command line counting at its position -/
theorem C04_last_writer (p : Parser) (src : Sources) (hp : wfParser p = true) (hs : srcWf p src = true)
    (a : Arg) (ha : a ∈ p.args) (hsets : ∀ s ∈ asgAll p src, s.key = a.dest → s.isSet = true) :
    getK a.dest (parseArgs p src) = lastWrite a.dest (setsOf (asgAll p src)) := by
  have hg : envOn p = true → envPlain p src.env a.dest = true := by
    intro he
    simp only [envPlain, List.all_eq_true, Bool.or_eq_true, bne_iff_ne, ne_eq]
    intro s hm
    by_cases e : s.key = a.dest
    · refine Or.inr (hsets s ?_ e)
      simp only [asgAll, asgBase, he, if_true, List.mem_append]
      exact Or.inl (Or.inr (List.mem_append.mp hm))
    · exact Or.inl e
  rw [C04_order_valueAfter p src hp hs a ha hg, valueAfter, evalKey_lastSet a.dest _ _ hsets]
  cases lastWrite a.dest (setsOf (asgAll p src)) <;> rfl

/-! ## the other parse methods are the same fold on their subset of sources -/

/-- `parse_object` and `parse_string` (hence `parse_path`) are the same function of the loaded content -/
theorem C04_methods_object_string (p : Parser) (src : Sources) (t : KV) : parseObject p src t = parseString p src t := rfl

/-- `parse_env`: defaults ++ default config files ++ env config ++ env variables -/
theorem C04_methods_env (p : Parser) (src : Sources) (hp : wfParser p = true) (hs : srcWf p src = true)
    (a : Arg) (ha : a ∈ p.args) (hg : envPlain p src.env a.dest = true) :
    getK a.dest (parseEnv p src) = getK a.dest (refFold (asgBase p src true) []) := by
  obtain ⟨h1, _⟩ := stage_base hp ha src hs true (fun _ => hg)
  rw [ref_eval hp ha _ (asgBase_keys hp src hs true), getK_nil]
  exact h1

/-- `parse_string` / `parse_path` / `parse_object`: the base sources, then the given content -/
theorem C04_methods_string (p : Parser) (src : Sources) (t : KV) (hp : wfParser p = true) (hs : srcWf p src = true)
    (ht : treeOk p (expand p t) = true)
    (a : Arg) (ha : a ∈ p.args) (hg : envOn p = true → envPlain p src.env a.dest = true) :
    getK a.dest (parseString p src t) = getK a.dest (refFold (asgBase p src (envOn p) ++ asgTree (expand p t)) []) := by
  obtain ⟨h1, h2⟩ := stage_base hp ha src hs (envOn p) hg
  obtain ⟨h3, _⟩ := stage_mergeTree hp ha _ ht h2
  have hkeys : ∀ s ∈ asgBase p src (envOn p) ++ asgTree (expand p t), ∃ b ∈ p.args, s.key = b.dest := by
    intro s hm
    rcases List.mem_append.mp hm with hm | hm
    · exact asgBase_keys hp src hs _ s hm
    · exact asgTree_keys hp _ ht s hm
  rw [ref_eval hp ha _ hkeys, getK_nil, evalKey_append, ← h1]
  exact h3

/-- `parse_args(["--cfg", content])` and `parse_string(content)` agree on every key but the config argument's own -/
theorem C04_methods_cfg_option (p : Parser) (files : List (Option KV)) (env : List (String × V)) (argv : List Item) (t : KV)
    (hp : wfParser p = true) (a b : Arg) (ha : a ∈ p.args) (hb : b ∈ p.args) (hne : b.dest ≠ a.dest) :
    getK a.dest (parseArgs p ⟨files, env, [.cfg b.dest t]⟩) = getK a.dest (parseString p ⟨files, env, argv⟩ t) := by
  simp only [parseArgs, parseString, List.foldl_cons, List.foldl_nil, argvStep, applyConfig, applyConfigE]
  rw [getK_setK_dest hp ha hb, if_neg hne]
  rfl

/-! ## the arguments of the call: `defaults=`, `env=`, `parse_env(mapping)` -/

/-- the default call is the pipeline of the first part -/
theorem C04_call_default (p : Parser) (src : Sources) : parseArgsC p src {} = parseArgs p src := rfl

/-- `C04_order` for every call: the sources that the call reads, in the documented order; the guard is needed only when
    both the defaults layer and the environment are read -/
theorem C04_order_call_partial (p : Parser) (src : Sources) (c : Call) (hp : wfParser p = true) (hs : srcWfC p src c = true)
    (a : Arg) (ha : a ∈ p.args)
    (hg : c.defaults = true → envRead p c.envArg = true → envPlain p (environOf src c) a.dest = true) :
    getK a.dest (parseArgsC p src c) = getK a.dest (refFold (asgAllC p src c) []) := by
  have hs' := hs
  simp only [srcWfC, Bool.and_eq_true, List.all_eq_true] at hs'
  obtain ⟨h1, h2⟩ := stage_baseC hp ha src c hs hg
  obtain ⟨h3, _⟩ := stage_argv hp ha src.argv _ hs'.2 h2
  have hkeys : ∀ s ∈ asgAllC p src c, ∃ b ∈ p.args, s.key = b.dest := by
    intro s hm
    rcases List.mem_append.mp hm with hm | hm
    · exact asgBaseC_keys hp src c hs s hm
    · exact asgArgv_keys hp src.argv hs'.2 s hm
  rw [ref_eval hp ha _ hkeys, getK_nil]
  simp only [parseArgsC, asgAllC, evalKey_append]
  rw [h3, h1]

/-- `defaults=False`: neither the defaults in the source code nor any default config file contributes — the result is the
    fold of the environment (if read) and the command line alone, WITHOUT any guard … -/
theorem C04_defaults_false (p : Parser) (src : Sources) (c : Call) (hp : wfParser p = true) (hs : srcWfC p src c = true)
    (a : Arg) (ha : a ∈ p.args) (hd : c.defaults = false) :
    getK a.dest (parseArgsC p src c) =
      getK a.dest (refFold ((if envRead p c.envArg then asgEnvCfg p (environOf src c) ++ asgEnvVars p (environOf src c) else [])
        ++ asgArgv p src.argv) []) := by
  have := C04_order_call_partial p src c hp hs a ha (fun h => by rw [hd] at h; exact Bool.noConfusion h)
  simpa only [asgAllC, asgBaseC, hd, Bool.false_eq_true, if_false, List.nil_append] using this

/-- … and it does not depend on the default config files at all -/
theorem C04_defaults_false_ignores_files (p : Parser) (files files' : List (Option KV)) (env : List (String × V))
    (argv : List Item) (c : Call) (hd : c.defaults = false) :
    parseArgsC p ⟨files, env, argv⟩ c = parseArgsC p ⟨files', env, argv⟩ c := by
  simp only [parseArgsC, defaultsAndEnvironC, baseCfg, hd, Bool.false_eq_true, if_false, environOf]

/-- `parse_env(mapping)`: the process environment plays no role, whatever the mapping — the empty one included -/
theorem C04_env_mapping_only (p : Parser) (files : List (Option KV)) (osEnv osEnv' : List (String × V)) (argv : List Item)
    (c : Call) (m : List (String × V)) :
    parseEnvC p ⟨files, osEnv, argv⟩ { c with environ := some m } = parseEnvC p ⟨files, osEnv', argv⟩ { c with environ := some m } := rfl

/-- … exactly the given mapping is folded, after the defaults layer -/
theorem C04_env_mapping_fold (p : Parser) (src : Sources) (c : Call) (m : List (String × V)) (hp : wfParser p = true)
    (hs : srcWfC p src { c with environ := some m } = true) (a : Arg) (ha : a ∈ p.args)
    (hg : c.defaults = true → envPlain p m a.dest = true) :
    getK a.dest (parseEnvC p src { c with environ := some m }) =
      getK a.dest (refFold ((if c.defaults then asgDefaults p ++ asgFiles p src.files else []) ++ (asgEnvCfg p m ++ asgEnvVars p m)) []) := by
  have hs2 : srcWfC p src { c with environ := some m, envArg := some true } = true := hs
  obtain ⟨h1, _⟩ := stage_baseC hp ha src { c with environ := some m, envArg := some true } hs2 (fun hd _ => hg hd)
  have hkeys := asgBaseC_keys hp src { c with environ := some m, envArg := some true } hs2
  rw [show parseEnvC p src { c with environ := some m } = defaultsAndEnvironC p src { c with environ := some m, envArg := some true } from rfl, h1]
  have : asgBaseC p src { c with environ := some m, envArg := some true }
      = (if c.defaults then asgDefaults p ++ asgFiles p src.files else []) ++ (asgEnvCfg p m ++ asgEnvVars p m) := rfl
  rw [this] at hkeys ⊢
  rw [ref_eval hp ha _ hkeys, getK_nil]

/-- … and the EMPTY mapping contributes nothing: the result is the defaults layer (no fall-back to `os.environ`) -/
theorem C04_env_mapping_empty (p : Parser) (src : Sources) (c : Call) (hp : wfParser p = true)
    (hf : ∀ f ∈ src.files, fileOk p f = true) (a : Arg) (ha : a ∈ p.args) :
    getK a.dest (parseEnvC p src { c with environ := some [] }) = getK a.dest (baseCfg p src.files c.defaults) := by
  obtain ⟨_, h2⟩ := stage_baseCfg hp ha src.files hf c.defaults
  have : parseEnvC p src { c with environ := some [] } = mergeConfig p (loadEnv p []) (baseCfg p src.files c.defaults) := rfl
  rw [this, loadEnv_nil, (stage_envMerge hp ha inv_nil h2).1, getK_nil]
  rfl

/-- `parse_string(..., defaults=False)` without `env=True` returns the loaded content as it is: no source is merged and
    its `key+` entries stay unapplied (open finding C04-string-nodefaults) -/
theorem C04_string_nodefaults (p : Parser) (src : Sources) (c : Call) (t : KV) (hd : c.defaults = false)
    (he : c.envArg ≠ some true) : parseStringC p src c t = expand p t := by
  have : (c.envArg == some true) = false := by
    cases h : c.envArg with
    | none => rfl
    | some b => cases b with
      | true => exact absurd h he
      | false => rfl
  simp [parseStringC, hd, this]

/-! ## which default config files, in which order (`_get_default_config_files`) -/

/-- entries in the LISTED order (`++` of the blocks); every block is the SORTED list of exactly the matches of its entry;
    the assignments of the default config files are the blocks' files one after the other — nothing is deduplicated -/
theorem C04_files_listed_order (p : Parser) (le : String → String → Bool) (glob : String → List String)
    (content : String → Option KV) (ps qs : List String)
    (htot : ∀ a b, le a b = true ∨ le b a = true) (htr : ∀ a b c, le a b = true → le b c = true → le a c = true) :
    defaultConfigFiles le glob (ps ++ qs) = defaultConfigFiles le glob ps ++ defaultConfigFiles le glob qs
    ∧ (∀ pat, defaultConfigFiles le glob [pat] = sortBy le (glob pat)
        ∧ (sortBy le (glob pat)).Perm (glob pat) ∧ (sortBy le (glob pat)).Pairwise (fun a b => le a b = true))
    ∧ asgFiles p (resolveFiles le glob content ps)
        = ps.flatMap (fun pat => (sortBy le (glob pat)).flatMap (fun f => fileAsg p (content f))) := by
  refine ⟨by simp [defaultConfigFiles], fun pat => ⟨by simp [defaultConfigFiles], sortBy_perm le _, sortBy_sorted le htot htr _⟩, ?_⟩
  simp only [asgFiles_eq, resolveFiles, defaultConfigFiles, List.flatMap_map]
  induction ps with
  | nil => rfl
  | cons pat r ih => simp only [List.flatMap_cons, List.flatMap_append, ih]

/-- a file reached by two entries is applied at BOTH positions: it occurs as often as entries match it -/
theorem C04_files_twice (le : String → String → Bool) (glob : String → List String) (ps : List String) (f : String) :
    (defaultConfigFiles le glob ps).count f = (ps.map (fun pat => (glob pat).count f)).sum := by
  induction ps with
  | nil => rfl
  | cons pat r ih =>
    simp only [defaultConfigFiles, List.flatMap_cons, List.count_append, List.map_cons, List.sum_cons] at ih ⊢
    rw [ih, (sortBy_perm le (glob pat)).count_eq]

/-- the defaults layer is the fold of the action defaults and then of those files in that order -/
theorem C04_files_value (p : Parser) (le : String → String → Bool) (glob : String → List String)
    (content : String → Option KV) (ps : List String) (hp : wfParser p = true)
    (hf : ∀ f ∈ resolveFiles le glob content ps, fileOk p f = true) (a : Arg) (ha : a ∈ p.args) :
    getK a.dest (getDefaults p (resolveFiles le glob content ps))
      = valueAfter (asgDefaults p ++ asgFiles p (resolveFiles le glob content ps)) a.dest :=
  (stage_getDefaults hp ha _ hf).1

/-! ## the environment layer, leaf by leaf -/

/-- an individual variable is ASSIGNED AT ITS LEAF of the namespace built from the env config: every other destination —
    siblings below the same branch included — keeps its value -/
theorem C04_env_var_step_frame (p : Parser) (env : List (String × V)) (hp : wfParser p = true) (c : KV)
    (a b : Arg) (ha : a ∈ p.args) (hb : b ∈ p.args) (hne : b.dest ≠ a.dest) :
    getK a.dest (envVarStep p env c b) = getK a.dest c := by
  unfold envVarStep
  split
  · rfl
  · split
    · rw [getK_setK_dest hp ha hb, if_neg hne]
    · rfl

/-- whole layer: a destination without a variable of its own holds, after `_load_env_vars`, exactly what the env config gave it -/
theorem C04_env_var_keeps_siblings (p : Parser) (env : List (String × V)) (hp : wfParser p = true) (he : envWf p env = true)
    (a : Arg) (ha : a ∈ p.args) (hnone : a.kind = .config ∨ envLookup (envName p a) env = .none) :
    getK a.dest (loadEnv p env) = valueAfter (asgEnvCfg p env) a.dest := by
  rw [(stage_loadEnv hp ha env he).1, evalKey_append]
  apply evalKey_no_key
  intro s hs
  simp only [asgEnvVars, List.mem_flatMap] at hs
  obtain ⟨b, hb, hs⟩ := hs
  by_cases hbk : b.kind = .config
  · simp [hbk] at hs
  · simp only [hbk, if_false] at hs
    cases hl : envLookup (envName p b) env with
    | none => rw [hl] at hs; simp at hs
    | some v =>
      rw [hl] at hs
      simp only [List.mem_singleton] at hs
      rw [hs]
      simp only [Assign.key]
      intro e
      have hab : b = a := dest_inj hp hb ha e
      subst hab
      rcases hnone with h | h
      · exact hbk h
      · rw [h] at hl; simp at hl

/-! ## non-vacuity: the Appendix Q scenario of DESIGN.md is inside the domain -/

private def kq (s : String) : SKey := ⟨false, s⟩

/-- `--cfg`, `--n` (int, 1), `--g.l` (List[int], [0]), `--g.o` (int), `--r` (str), `--d` (Dict[str,int], {}); env prefix APP -/
private def Pq : Parser :=
  ⟨[⟨[kq "cfg"], .config, .none⟩, ⟨[kq "n"], .scalar, .atom 1⟩, ⟨[kq "g", kq "l"], .list, .lst [.atom 0]⟩,
    ⟨[kq "g", kq "o"], .scalar, .none⟩, ⟨[kq "r"], .scalar, .none⟩, ⟨[kq "d"], .dict, .dct []⟩], some "APP", true, .none⟩

/-- two default config files (the second with `g.l+`), env config, an env variable, then `--r x --g.l+ 9 --cfg {n: 4} --n 5 --d.a 1` -/
private def Sq : Sources :=
  ⟨[some [(kq "n", .atom 2)], some [(kq "g", .dct [(kq "l+", .lst [.atom 5])])]],
   [("APP_CFG", .dct [(kq "n", .atom 3)]), ("APP_G__O", .atom 7)],
   [.set [kq "r"] (.atom 100), .append [kq "g", kq "l"] (.atom 9), .cfg [kq "cfg"] [(kq "n", .atom 4)],
    .set [kq "n"] (.atom 5), .item [kq "d"] (kq "a") (.atom 1)]⟩

example : wfParser Pq = true := by decide
example : srcWf Pq Sq = true := by decide
example : envOn Pq = true ∧ envNoAppend Pq Sq.env = true := by decide
example : Pq.args.all (fun a => a.kind = .config || envPlain Pq Sq.env a.dest) = true := by decide
/-- … and the model returns what the library returns for it: n=5, g.l=[0,5,9], g.o=7 -/
example : getK [kq "n"] (parseArgs Pq Sq) = some (.atom 5)
    ∧ getK [kq "g", kq "l"] (parseArgs Pq Sq) = some (.lst [.atom 0, .atom 5, .atom 9])
    ∧ getK [kq "g", kq "o"] (parseArgs Pq Sq) = some (.atom 7)
    ∧ getK [kq "d"] (parseArgs Pq Sq) = some (.dct [(kq "a", .atom 1)]) := ⟨rfl, rfl, rfl, rfl⟩


/-! ## the `default_env` switch over the parser tree -/

/-- one call of the setter, anywhere in a program's life: EVERY parser of the tree below holds the resolved value
    afterwards (`JSONARGPARSE_DEFAULT_ENV` = true/false wins over the assigned value), at any depth -/
theorem C04_setter_uniform (os : Option String) (b : Bool) (t : PT) :
    uniformB (effectiveDefaultEnv os b) (setEnv os b t) = true := setEnv_uniform os b t

/-- any history of setter calls on the root (each under its own value of the OS variable): the LAST call decides, and it
    decides for every parser of the tree -/
theorem C04_setter_history (hist : List (Option String × Bool)) (t : PT) (os : Option String) (b : Bool) :
    uniformB (effectiveDefaultEnv os b) ((hist ++ [(os, b)]).foldl (fun t c => setEnv c.1 c.2 t) t) = true :=
  rootSetters_uniform hist t os b

/-- hence along every path of subcommand names all parsers read the environment, or none does -/
theorem C04_setter_path_flags (os : Option String) (b : Bool) (t : PT) (path : List String) :
    ∀ f ∈ flagsOn path (setEnv os b t), f = effectiveDefaultEnv os b :=
  flagsOn_uniform _ path _ (setEnv_uniform os b t)

/-- a tree built in level order is uniform from the start, whatever `default_env=` the sub-parsers were constructed with -/
theorem C04_build_uniform (os : Option String) (rootCtor : Bool) (shape : PT) :
    uniformB (effectiveDefaultEnv os rootCtor) (build os rootCtor shape) = true := setEnv_uniform os rootCtor shape

private def T3 : PT := .node false [("s1", .node false [("s2", .node false []), ("t2", .node false [])]), ("x1", .node false [])]

/-- non-vacuity, and the reason the recursion must go through the SETTER: assigning the flag to the direct sub-parsers
    only (`subparser._default_env = …`) leaves the second level behind -/
theorem C04_setter_shallow_counterexample :
    flagsOn ["s1", "s2"] (setEnv .none true T3) = [true, true, true]
    ∧ flagsOn ["s1", "s2"] (setEnvShallow .none true T3) = [true, true, false]
    ∧ uniformB true (setEnvShallow .none true T3) = false := ⟨rfl, rfl, rfl⟩

example : flagsOn ["s1", "t2"] (runSetters [([], some "yes", true), (["s1"], .none, false), ([], some "FALSE", true), ([], .none, true)] T3)
    = [true, true, true] := rfl
example : flagsOn ["s1", "t2"] (runSetters [([], .none, true), (["s1"], .none, false)] T3) = [true, false, false] := rfl

/-! ## precedence at every depth of a subcommand tree -/

/-- THE ORDER OF SOURCES AT EVERY LEVEL of the chosen path, any depth, any number of sources per level: when all parsers
    of the path read the environment exactly when the root call does (`b`; this is what the setter theorems give, or an
    explicit `env=` argument), the value every level's argument ends with — after the level's own `parse_args` and the
    `handle_subcommands` merges of ALL enclosing parsers — is the left fold of that level's sources in the documented order -/
theorem C04_order_depth_partial (c : Call) (b : Bool) :
    ∀ (lv : List Level) (anc : List Bool), (∀ e ∈ anc, e = b) → (∀ L ∈ lv, envRead L.p c.envArg = b) →
      (∀ L ∈ lv, wfParser L.p = true ∧ srcWfC L.p L.src c = true) →
      ∀ x ∈ List.zip lv (parseLevels c anc lv), ∀ a ∈ x.1.p.args,
        (c.defaults = true → b = true → envPlain x.1.p (environOf x.1.src c) a.dest = true) →
        getK a.dest x.2 = getK a.dest (refFold (asgAllC x.1.p x.1.src { c with envArg := some b }) [])
  | [], _, _, _, _, x, hx => by simp [parseLevels] at hx
  | L :: rest, anc, hanc, hfl, hwf, x, hx => by
    intro a ha hg
    have hL := hfl L List.mem_cons_self
    simp only [parseLevels, List.zip_cons_cons, List.mem_cons] at hx
    rcases hx with hx | hx
    · subst hx
      obtain ⟨hp, hs⟩ := hwf L List.mem_cons_self
      have h1 := (finalLevel_eq_own hp ha c hs anc (fun e he => (hanc e he).trans hL.symm)).1
      have h2 := C04_order_call_partial L.p L.src c hp hs a ha (fun hd he => hg hd (hL.symm.trans he))
      have h3 : asgAllC L.p L.src { c with envArg := some b } = asgAllC L.p L.src c := by
        have e1 : envRead L.p (some b) = envRead L.p c.envArg := by rw [hL]; rfl
        simp only [asgAllC, asgBaseC, environOf, e1]
      show getK a.dest (finalLevel c anc L) = _
      rw [h1, h3]
      exact h2
    · exact C04_order_depth_partial c b rest (envRead L.p c.envArg :: anc)
        (fun e he => by
          rcases List.mem_cons.mp he with h | h
          · rw [h]; exact hL
          · exact hanc e h)
        (fun L' h' => hfl L' (List.mem_cons_of_mem _ h')) (fun L' h' => hwf L' (List.mem_cons_of_mem _ h')) x hx a ha hg

/-- the two halves together — one history on one parser tree: after `root.default_env = b` (under any value of the OS
    variable, after any earlier history) `root.parse_args` along ANY path of subcommands gives, at every level, the fold of
    that level's sources with the environment read at every level iff the resolved flag says so -/
theorem C04_order_tree_after_setter (c : Call) (hc : c.envArg = .none) (os : Option String) (b : Bool) (t : PT)
    (path : List String) (lv : List Level) (hlen : lv.length ≤ (flagsOn path (setEnv os b t)).length)
    (hwf : ∀ L ∈ flagLevels lv (flagsOn path (setEnv os b t)), wfParser L.p = true ∧ srcWfC L.p L.src c = true) :
    ∀ x ∈ List.zip (flagLevels lv (flagsOn path (setEnv os b t))) (parseTree c (setEnv os b t) path lv), ∀ a ∈ x.1.p.args,
      (c.defaults = true → effectiveDefaultEnv os b = true → envPlain x.1.p (environOf x.1.src c) a.dest = true) →
      getK a.dest x.2 = getK a.dest (refFold (asgAllC x.1.p x.1.src { c with envArg := some (effectiveDefaultEnv os b) }) []) := by
  apply C04_order_depth_partial c (effectiveDefaultEnv os b) _ [] (by simp) _ hwf
  intro L hL
  rw [hc]
  exact flagLevels_envRead _ lv _ hlen (C04_setter_path_flags os b t path) L hL

/-- `handle_subcommands` never changes what a level's own parse left at a destination, as long as the enclosing parsers
    agree with the level about reading the environment; `defaults=False` included -/
theorem C04_handle_keeps_own (L : Level) (c : Call) (hp : wfParser L.p = true) (hs : srcWfC L.p L.src c = true)
    (a : Arg) (ha : a ∈ L.p.args) (anc : List Bool) (hanc : ∀ e ∈ anc, e = envRead L.p c.envArg) :
    getK a.dest (finalLevel c anc L) = getK a.dest (ownParse c L) := (finalLevel_eq_own hp ha c hs anc hanc).1

/-- the second level of `app s1 s2`: `--v` (int, 1) with `APP_S1__S2__V=5` in the environment -/
private def L2 (flag : Bool) : Level :=
  ⟨"s2", withFlag (subParser (subParser ⟨[], some "APP", false, .none⟩ "s1" ⟨[], .none, false, .none⟩) "s2"
      ⟨[⟨[kq "v"], .scalar, .atom 1⟩], .none, false, .none⟩) flag, ⟨[], [("APP_S1__S2__V", .atom 5)], []⟩, true, false⟩

example : envName (L2 true).p ⟨[kq "v"], .scalar, .atom 1⟩ = "APP_S1__S2__V" := by decide
example : wfParser (L2 true).p = true ∧ srcWfC (L2 true).p (L2 true).src {} = true := by decide

/-- the state the seeded setter leaves (root and first level on, second level off): the enclosing parsers merge the
    environment UNDER the namespace the second level already completed with its defaults, so the variable loses against
    the default — while in the uniform state it wins.  The hypothesis "all parsers of the path agree" is what the property needs -/
theorem C04_order_depth_nonuniform_counterexample :
    getK [kq "v"] (finalLevel {} [true, true] (L2 false)) = some (.atom 1)
    ∧ getK [kq "v"] (refFold (asgAllC (L2 false).p (L2 false).src { envArg := some true }) []) = some (.atom 5)
    ∧ getK [kq "v"] (finalLevel {} [true, true] (L2 true)) = some (.atom 5) := ⟨rfl, rfl, rfl⟩

/-! ## sections for inner levels inside a config of an outer level -/

/-- one level of the path, sections included: with an incoming section `inc` (what the enclosing parsers' configs said about this
    level) and configs of its own that hold sections for deeper levels, the level's argument ends — after its own parse and the
    `handle_subcommands` merges of all enclosing parsers — with the fold of: its base sources, the incoming section, its command
    line (of a config: the level's own keys).  Inside `inc`, `key+` entries are excluded by `treeOk` only if they are not the
    level's (they append to the level's list as in any config); what an OUTER `merge_config` did to them before is the excluded class
    (`C04_subsection_append_counterexample`) -/
theorem C04_order_level_sections_partial (L : Level) (below : List Level) (c : Call) (inc : KV) (hp : wfParser L.p = true)
    (hs : srcWfC L.p { L.src with argv := [] } c = true) (hargv : ∀ it ∈ L.src.argv, itemWfT L below it = true)
    (hinc : treeOk L.p (ownPart (nextName below) inc) = true)
    (anc : List Bool) (hanc : ∀ e ∈ anc, e = envRead L.p c.envArg) (a : Arg) (ha : a ∈ L.p.args)
    (hg : c.defaults = true → envRead L.p c.envArg = true → envPlain L.p (environOf L.src c) a.dest = true) :
    getK a.dest (finalLevelT c anc L below inc) =
      valueAfter (asgBaseC L.p L.src c ++ asgTree (ownPart (nextName below) inc) ++ asgArgvT L below L.src.argv) a.dest := by
  rw [stage_finalLevelT hp ha c below inc hs hargv hinc anc hanc]
  have hb := (stage_baseC hp ha { L.src with argv := [] } c hs hg).1
  have hb' : getK a.dest (defaultsAndEnvironC L.p L.src c) = evalKey a.dest (asgBaseC L.p L.src c) .none := hb
  rw [hb', valueAfter, List.append_assoc, evalKey_append, evalKey_append, evalKey_append]

/-- THE SUBCOMMAND VARIABLE AS A SOURCE: a level that only the parent's subcommand variable chose (not named on the command line)
    has no parse of its own; its arguments end with the fold of its defaults layer, its ENVIRONMENT (always read: the variable was),
    then the section its parent holds for it (`inc`: what the named sub-parser's `parse_env(defaults=False)` gave, and sections of
    outer configs) — whatever the level's own `default_env` flag says, as long as the enclosing parsers read the environment -/
theorem C04_order_level_env_named (L : Level) (below : List Level) (c : Call) (inc : KV) (hp : wfParser L.p = true)
    (hs : srcWfC L.p { L.src with argv := [] } c = true) (hinc : treeOk L.p (ownPart (nextName below) inc) = true)
    (anc : List Bool) (hne : anc ≠ []) (hanc : ∀ e ∈ anc, e = true) (a : Arg) (ha : a ∈ L.p.args)
    (hg : c.defaults = true → envPlain L.p (environOf L.src c) a.dest = true) :
    getK a.dest (finalLevelE c anc L below inc) =
      valueAfter (asgBaseC L.p L.src { c with envArg := some true } ++ asgTree (ownPart (nextName below) inc)) a.dest := by
  cases anc with
  | nil => exact absurd rfl hne
  | cons e r =>
    have he : e = true := hanc e List.mem_cons_self
    subst he
    have hs' : srcWfC L.p { L.src with argv := [] } { c with envArg := some true } = true := hs
    obtain ⟨hS, hSi⟩ := stage_baseC hp ha { L.src with argv := [] } { c with envArg := some true } hs' (fun hd _ => hg hd)
    obtain ⟨hM, hMi⟩ := stage_mergeTree hp ha _ hinc hSi
    have hk := handleFold_keeps (L := { L with src := { L.src with argv := [] } }) hp ha { c with envArg := some true } hs'
      (asgTree (ownPart (nextName below) inc)) _ hM hMi r (fun e' h' => hanc e' (List.mem_cons_of_mem _ h'))
    have : getK a.dest (finalLevelE c (true :: r) L below inc) =
        getK a.dest (mergeConfig L.p (ownPart (nextName below) inc)
          (defaultsAndEnvironC L.p { L.src with argv := [] } { c with envArg := some true })) := hk.1
    rw [this, hM, hS, valueAfter, evalKey_append]
    rfl

/-- the section the parent's environment layer holds for the named level is that level's environment alone (no defaults: they
    enter below, through `handle_subcommands`) -/
theorem C04_env_section_own (c : Call) (L : Level) :
    envSection c [L] = defaultsAndEnvironC L.p L.src { defaults := false, envArg := some true, environ := c.environ } := rfl

/-- non-vacuity: `APP_SUBCOMMAND=s1`, `APP_S1__SUBCOMMAND=s2`, `APP_S1__S2__V=5`, nothing on the command line, the second level's own
    flag OFF: `s1.s2.v = 5` -/
example : getK [kq "v"] (finalLevelE { envArg := some true } [true] (L2 false) [] (envSection { envArg := some true } [L2 false])) = some (.atom 5) := rfl

/-- how the section reaches the next level: `parseLevelsT` hands the pending section on -/
theorem C04_sections_chain (c : Call) (anc : List Bool) (inc : KV) (L : Level) (rest : List Level) (h : L.onArgv = true) :
    parseLevelsT c anc inc (L :: rest) =
      finalLevelT c anc L rest inc :: parseLevelsT c (envRead L.p c.envArg :: anc) (ownParseT c L rest inc).2 rest := by
  simp only [parseLevelsT, h, if_true]

/-- several outer configs: a section WITHOUT `key+` entries is assigned leaf by leaf into the pending section, so the last config wins
    key by key (documented order of the command line) -/
theorem C04_sections_last_writer (below : List Level) (outer sec pend : KV) (hn : noPlusLeaves (update sec pend) = true)
    (k : Key) (hk : k ≠ []) (hd : ∀ x ∈ leaves sec, x.1 = k ∨ Diverge x.1 k) :
    secMerge below outer sec pend = update sec pend
    ∧ getK k (secMerge below outer sec pend) = (lastWrite k (leaves sec)).or (getK k pend) := by
  have h1 : secMerge below outer sec pend = update sec pend := by
    unfold secMerge
    have : (leaves (update sec pend)).filter (fun kv => isPlus kv.1) = [] := by
      simp only [noPlusLeaves, List.all_eq_true, Bool.not_eq_true'] at hn
      exact List.filter_eq_nil_iff.mpr (fun x hx => by simp [hn x hx])
    rw [this]; rfl
  exact ⟨h1, by rw [h1]; exact fold_last k hk _ _ hd⟩

/-- root: `--cfg`, `--l` (List[int], [17, 13]); subcommand `s1`: `--l` ([1]), `--m` ([2]) -/
private def Rsec : Level := ⟨"", ⟨[⟨[kq "cfg"], .config, .none⟩, ⟨[kq "l"], .list, .lst [.atom 17, .atom 13]⟩], some "APP", false, .none⟩,
  ⟨[], [], [.cfg [kq "cfg"] [(kq "s1", .dct [(kq "l+", .lst [.atom 0]), (kq "m+", .lst [.atom 5])])]]⟩, true, false⟩
private def S1sec : Level := ⟨"s1", ⟨[⟨[kq "l"], .list, .lst [.atom 1]⟩, ⟨[kq "m"], .list, .lst [.atom 2]⟩], some "APP_s1_", false, .none⟩, ⟨[], [], []⟩, true, false⟩

/-- open finding C04-subsection-append, inside the model: `parse_args(['--cfg', '{"s1": {"l+": [0], "m+": [5]}}', 's1'])` leaves
    `s1.l = [17, 13, 0]` (the ROOT's `l` extended) and `s1.m = [5]` where the documented fold gives `[1, 0]` and `[2, 5]`; the same
    entries on the sub-parser's own command line do give those -/
theorem C04_subsection_append_counterexample :
    (parseLevelsT {} [] [] [Rsec, S1sec]).map (getK [kq "l"]) = [some (.lst [.atom 17, .atom 13]), some (.lst [.atom 17, .atom 13, .atom 0])]
    ∧ (parseLevelsT {} [] [] [Rsec, S1sec]).map (getK [kq "m"]) = [.none, some (.lst [.atom 5])]
    ∧ valueAfter (asgBaseC S1sec.p S1sec.src {} ++ [.append [kq "l"] (.lst [.atom 0]), .append [kq "m"] (.lst [.atom 5])]) [kq "l"]
        = some (.lst [.atom 1, .atom 0])
    ∧ valueAfter (asgBaseC S1sec.p S1sec.src {} ++ [.append [kq "l"] (.lst [.atom 0]), .append [kq "m"] (.lst [.atom 5])]) [kq "m"]
        = some (.lst [.atom 2, .atom 5])
    ∧ (parseLevelsT {} [] [] [{ Rsec with src := ⟨[], [], []⟩ },
          { S1sec with src := ⟨[], [], [.append [kq "l"] (.lst [.atom 0]), .append [kq "m"] (.lst [.atom 5])]⟩ }]).map (getK [kq "l"])
        = [some (.lst [.atom 17, .atom 13]), some (.lst [.atom 1, .atom 0])] := ⟨rfl, rfl, rfl, rfl, rfl⟩

/-- open finding C04-subdcf-section-over-env, inside the model: the section a level receives (`namespace=`) is merged OVER its
    defaults+environment whatever source it came from.  Coming from an outer `--cfg` that is the documented order
    (`C04_order_level_sections_partial`); coming from an outer parser's DEFAULT CONFIG FILE it is not: with `APP_S1__S2__V=5` read,
    the section `{v: 16}` of s1's default config file leaves `s1.s2.v = 16`, the documented fold (default 1, file 16, variable 5) gives 5 -/
theorem C04_subdcf_section_counterexample :
    getK [kq "v"] (finalLevelT {} [true, true] (L2 true) [] [(kq "v", .atom 16)]) = some (.atom 16)
    ∧ valueAfter (asgDefaults (L2 true).p ++ [.set [kq "v"] (.atom 16)] ++ asgEnvVars (L2 true).p (L2 true).src.env) [kq "v"] = some (.atom 5) :=
  ⟨rfl, rfl⟩

/-- non-vacuity of the section theorem: a plain section is inside its hypotheses and reaches the sub-parser's key -/
example : (parseLevelsT {} [] [] [{ Rsec with src := ⟨[], [], [.cfg [kq "cfg"] [(kq "l", .lst [.atom 3]), (kq "s1", .dct [(kq "m", .lst [.atom 7])])]]⟩ }, S1sec]).map (getK [kq "m"])
    = [.none, some (.lst [.atom 7])] := rfl
example : itemWfT Rsec [S1sec] (.cfg [kq "cfg"] [(kq "l", .lst [.atom 3]), (kq "s1", .dct [(kq "m", .lst [.atom 7])])]) = true := by decide

/-! ## the full statement fails for `key+` in the environment config (open finding C04-envcfg-append) -/

/-- `APP_CFG='{"g": {"l+": [7]}}'`, nothing else -/
private def Senv : Sources := ⟨[], [("APP_CFG", .dct [(kq "g", .dct [(kq "l+", .lst [.atom 7])])])], []⟩

/-- inside the domain, the code's pipeline leaves `[7]` where the documented fold gives `[0, 7]`; the guard is what fails -/
theorem C04_order_envcfg_append_counterexample :
    wfParser Pq = true ∧ srcWf Pq Senv = true
    ∧ getK [kq "g", kq "l"] (parseArgs Pq Senv) = some (.lst [.atom 7])
    ∧ getK [kq "g", kq "l"] (refFold (asgAll Pq Senv) []) = some (.lst [.atom 0, .atom 7])
    ∧ envPlain Pq Senv.env [kq "g", kq "l"] = false := ⟨by decide, by decide, rfl, rfl, by decide⟩

/-- `parse_string('{"g": {"l+": [7]}}', defaults=False)`: the entry is left unapplied and the result is rejected, whereas
    `parse_object` of the same content with the same arguments appends to the empty list -/
theorem C04_string_nodefaults_counterexample :
    valid Pq (parseStringC Pq ⟨[], [], []⟩ { defaults := false } [(kq "g", .dct [(kq "l+", .lst [.atom 7])])]) = false
    ∧ valid Pq (parseObjectC Pq ⟨[], [], []⟩ { defaults := false } [(kq "g", .dct [(kq "l+", .lst [.atom 7])])]) = true
    ∧ getK [kq "g", kq "l"] (parseObjectC Pq ⟨[], [], []⟩ { defaults := false } [(kq "g", .dct [(kq "l+", .lst [.atom 7])])])
        = some (.lst [.atom 7]) := ⟨by decide, by decide, rfl⟩

/-- the same content in a default config file is inside the guard and appends to the default -/
theorem C04_same_content_as_default_config_file :
    getK [kq "g", kq "l"] (parseArgs Pq ⟨[some [(kq "g", .dct [(kq "l+", .lst [.atom 7])])]], [], []⟩)
      = some (.lst [.atom 0, .atom 7]) := rfl

/-! ## the code the model transcribes (regenerated from /repo's source on every run) -/

/-- Every `merge_config(from, to)` call of the pipeline with its argument order, the body of `merge_config`
    (update, then apply_appends), `_parse_defaults_and_environ` (defaults, then the environment merged over them),
    the three loops of `_load_env_vars` starting from an empty namespace, the order of default config files
    (patterns as listed, matches sorted, applied in that order), `apply_appends` and `ActionTypeHint.__call__` reading
    the RUNNING value (`cfg=cfg`), the append / NestedArg branches of `adapt_typehints`, `Namespace.update`,
    `get_env_var`, the WHOLE `default_env` setter (its loop over the sub-parsers calling the setter again included),
    what `add_subcommand` hands to a sub-parser (`env_prefix`, `default_env`, level order), `_ActionSubCommands.__call__`,
    `handle_subcommands`, the `env` resolution of `_parse_common`, `parse_env`, the `parse_kwargs_context` of `parse_args`, how every parse method calls `_parse_defaults_and_environ` (and under which
    condition: `parse_string` only `if defaults or env`; `parse_env` with `env=True, environ=env`; `if environ is None`):
    exactly what `Core/Sources.lean` was transcribed from.  An edit to
    any of these breaks this theorem, i.e. the tie between the model and the code. -/
theorem C04_transcription_pin :
    SourcesOrder.mergeCalls = ["_parse_defaults_and_environ: merge_config(cfg_env, cfg)", "parse_args: merge_config(namespace, cfg)", "parse_object: merge_config(cfg_base, cfg)", "parse_object: merge_config(cfg_apply, cfg)", "parse_string: merge_config(cfg, cfg_base)", "get_defaults: merge_config(cfg_file, cfg)", "apply_config: merge_config(cfg_file, cfg)"] ∧
    SourcesOrder.baseCalls = ["parse_args: _parse_defaults_and_environ(defaults, env)", "parse_object: _parse_defaults_and_environ(defaults, env)", "parse_env: _parse_defaults_and_environ(defaults, env=True, environ=env)", "parse_string: _parse_defaults_and_environ(defaults, env) if defaults or env"] ∧
    SourcesOrder.applyConfigTail = ["cfg_merged = parser.merge_config(cfg_file, cfg)", "cfg.__dict__.update(cfg_merged.__dict__)", "if not isinstance(cfg.get(dest), list)", "cfg[dest] = []", "cfg[dest].append(cfg_path)"] ∧
    SourcesOrder.mergeConfigBody = ["cfg_from = cfg_from.clone()", "cfg_to = cfg_to.clone()", "ActionTypeHint.discard_init_args_on_class_path_change(self, cfg_to, cfg_from)", "cfg_to.update(cfg_from)", "ActionTypeHint.apply_appends(self, cfg_to)", "return cfg_to"] ∧
    SourcesOrder.defaultsAndEnvironBody = ["cfg = Namespace()", "if defaults", "cfg = self.get_defaults(skip_validation=True)", "if env or (env is None and self._default_env)", "if environ is None", "environ = os.environ", "cfg_env = self._load_env_vars(env=environ, defaults=defaults)", "cfg = self.merge_config(cfg_env, cfg)", "return cfg"] ∧
    SourcesOrder.envLoops = ["for action in actions: env_var in env and isinstance(action, ActionConfigFile)", "for action in actions: env_var in env and isinstance(action, _ActionSubCommands)", "for action in actions: env_var in env and (not isinstance(action, (ActionConfigFile, _ActionSubCommands)))"] ∧
    SourcesOrder.envAssign = ["ActionConfigFile.apply_config(self, cfg, action.dest, env[env_var])", "cfg[action.dest] = subcommand = self._check_value_key(action, env_val, action.dest, cfg)", "cfg[action.dest] = self._check_value_key(action, env_val, action.dest, cfg)"] ∧
    SourcesOrder.globOrder = ["for (key, parser) in parent_parsers.get()[-1:]", "for pattern in parser.default_config_files", "files = sorted(glob.glob(os.path.expanduser(pattern)))", "default_config_files += [(key, v) for v in files]", "for pattern in self.default_config_files", "files = sorted(glob.glob(os.path.expanduser(pattern)))", "default_config_files += [(None, x) for x in files]"] ∧
    SourcesOrder.defaultConfigLoop = ["for action in filter_default_actions(self._actions)", "cfg[action.dest] = recreate_branches(action.default)", "for (key, default_config_file) in default_config_files", "cfg_file = self._load_config_parser_mode(default_config_file.get_content(), key=key)", "cfg = self.merge_config(cfg_file, cfg)"] ∧
    SourcesOrder.applyAppendsBody = ["for key in [k for k in cfg.keys() if k.endswith('+')]", "action = _find_action(parser, key[:-1])", "if ActionTypeHint.supports_append(action)", "val = action._check_type_(cfg[key], append=True, cfg=cfg)", "cfg[key[:-1]] = val", "cfg.pop(key)"] ∧
    SourcesOrder.typeHintCall = ["val = NestedArg(key=sub_opt, val=val)", "append = opt_str == f'--{self.dest}+'", "val = self._check_type_(val, append=append, cfg=cfg)", "cfg.update(val, self.dest)"] ∧
    SourcesOrder.prevValSource = ["prev_val = cfg.get(self.dest) if cfg else None", "prev_val = Namespace(class_path=self.default['class_path'])"] ∧
    SourcesOrder.adaptFacts = ["if prev_val is None:\n                prev_val = []", "val = prev_val + (val if val_is_list else [val])", "if isinstance(prev_val, dict):\n                val = {**prev_val, val.key: val.val}\n            else:\n                val = {val.key: val.val}"] ∧
    SourcesOrder.updateBody = ["if not isinstance(value, Namespace)", "if not key", "raise NSKeyError('Key is required if value not a Namespace.')", "if not only_unset or key not in self", "self[key] = value", "else", "prefix = key + '.' if key else ''", "for (key, val) in value.items()", "if not only_unset or prefix + key not in self", "self[prefix + key] = val", "return self"] ∧
    SourcesOrder.envVarBody = ["if isinstance(parser_or_formatter, DefaultHelpFormatter)", "env_var = ''", "if isinstance(parser.env_prefix, str)", "env_var = parser.env_prefix.replace('-', '_') + '_'", "if action", "env_var += action.dest", "env_var = env_var.replace('.', '__').upper()"] ∧
    SourcesOrder.defaultEnvSetter = ["os_default_env = os.getenv('JSONARGPARSE_DEFAULT_ENV', '').lower()", "if os_default_env in {'true', 'false'}", "self._default_env = os_default_env == 'true'", "else", "if isinstance(default_env, bool)", "self._default_env = default_env", "else", "raise ValueError('default_env expects a boolean.')", "if self._subcommands_action", "for subparser in self._subcommands_action._name_parser_map.values()", "subparser.default_env = self._default_env"] ∧
    SourcesOrder.subInherit = ["if parser._subparsers is not None", "raise ValueError('Multiple levels of subcommands must be added in level order.')", "parser.env_prefix = f'{self.env_prefix}{name}_'", "parser.default_env = self.parent_parser.default_env", "subcommands.env_prefix = get_env_var(self)"] ∧
    SourcesOrder.subCallBody = ["subcommand = values[0]", "arg_strings = values[1:]", "namespace[self.dest] = subcommand", "if subcommand in self._name_parser_map", "subparser = self._name_parser_map[subcommand]", "subnamespace = namespace.get(subcommand) if subcommand in namespace else None", "if subnamespace is not None", "_check_subcommand_settings(subcommand, subnamespace)", "subnamespace = subnamespace.clone()", "kwargs = dict(_skip_validation=True, **parse_kwargs.get())", "namespace[subcommand] = subparser.parse_args(arg_strings, namespace=subnamespace, **kwargs)"] ∧
    SourcesOrder.handleSubcommandsBody = ["subcommands, subparsers = _ActionSubCommands.get_subcommands(parser, cfg, prefix=prefix, fail_no_subcommand=fail_no_subcommand)", "if not subcommands or not subparsers", "return", "for (subcommand, subparser) in zip(subcommands, subparsers)", "subnamespace = None", "key = prefix + subcommand", "if env", "subnamespace = subparser.parse_env(defaults=defaults, _skip_validation=True)", "else", "if defaults", "subnamespace = subparser.get_defaults(skip_validation=True)", "if cfg.get(key) is not None", "_check_subcommand_settings(key, cfg.get(key))", "if subnamespace is not None", "cfg[key] = subparser.merge_config(cfg.get(key) or Namespace(), subnamespace)", "if subparser._subparsers is not None", "_ActionSubCommands.handle_subcommands(subparser, cfg, env, defaults, key + '.', fail_no_subcommand=fail_no_subcommand)"] ∧
    SourcesOrder.handleSubcommandsWith = ["parent_parsers_context(key, parser)"] ∧
    SourcesOrder.parseCommonEnv = ["if env is None and self._default_env", "env = True", "if not skip_subcommands", "_ActionSubCommands.handle_subcommands(self, cfg, env=env, defaults=defaults, fail_no_subcommand=fail_no_subcommand)"] ∧
    SourcesOrder.parseArgsWith = ["_ActionSubCommands.parse_kwargs_context({'env': env, 'defaults': defaults})"] ∧
    SourcesOrder.parseEnvBody = ["skip_validation, skip_subcommands = get_private_kwargs(kwargs, _skip_validation=False, _skip_subcommands=False)", "cfg = self._parse_defaults_and_environ(defaults, env=True, environ=env)", "kwargs = {'env': True, 'defaults': defaults, 'with_meta': with_meta, 'skip_validation': skip_validation, 'skip_subcommands': skip_subcommands}", "kwargs['fail_no_subcommand'] = False", "parsed_cfg = self._parse_common(cfg=cfg, **kwargs)"] ∧
    SourcesOrder.envSubcommandBranch = ["if env_val in action.choices", "pcfg = action._name_parser_map[env_val].parse_env(env=env, defaults=False, _skip_validation=True)", "for (k, v) in vars(pcfg).items()", "cfg[subcommand + '.' + k] = v"] ∧
    SourcesOrder.mergeConfigWith = ["with parser_context(parent_parser=self): ActionTypeHint.discard_init_args_on_class_path_change(self, cfg_to, cfg_from); cfg_to.update(cfg_from); ActionTypeHint.apply_appends(self, cfg_to)"] ∧
    SourcesOrder.loadEnvStart = "cfg = Namespace()" := by
  exact ⟨rfl, rfl, rfl, rfl, rfl, rfl, rfl, rfl, rfl, rfl, rfl, rfl, rfl, rfl, rfl, rfl, rfl, rfl, rfl, rfl, rfl, rfl, rfl, rfl, rfl, rfl⟩

end Jap.Props.C04

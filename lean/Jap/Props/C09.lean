import Jap.Core.PState
import Jap.Lemmas.PState
import Jap.Lemmas.PStateFacts
import Jap.Gen.PState
import Jap.Lemmas.PStateCtx
import Jap.Lemmas.PStateCtxOps
import Jap.Lemmas.PStateBridge
/-!
C09 — a parser's answers do not depend on what it was asked before.

Model: `Jap.PState.step` (Core/PState.lean): what every operation of the public API reads from and writes to the
state that outlives a call (attributes left on parser / action objects, context variables that are set and not
reset), in the order the source does it now, for any number of parsers in one process.  `step` consults
`Facts`; the facts of the current source are regenerated into Gen/PState.lean on every run (`genFacts`).

`Out` = (result | ArgumentError | other exception | exit status + config printed + help printed) together with the
list of carrier values that flowed into the answer.

All theorems quantify over ALL histories (any length, any interleaving of parsers), all operations, all parser
descriptions `D`.
-/
namespace Jap.Props.C09
open Jap.PState

/-! ## tie: the regenerated tables have the shape the model assumes -/

/-- the assumptions of `C09_history_independent` hold for the regenerated facts: reverting the `finally` of
    parse_args (F12), moving a context-variable reset out of its `finally`, writing the action's own
    `sub_add_kwargs` (F09b) … each makes this `decide` fail -/
theorem tie_sound : Sound genFacts = true := by decide

/-- context variables that are set without a reset in a `finally`: exactly the ones the model knows -/
theorem tie_unreset : unresetSets = knownUnreset := by decide

/-- every set made through `parser_context` is reset in its `finally` -/
theorem tie_parser_context :
    (Jap.Gen.PState.ctxSets.filter fun e => e.2.1 == "parser_context").all (fun e => e.2.2) = true ∧
    (Jap.Gen.PState.ctxSets.filter fun e => e.2.1 == "parser_context").length = 7 := by decide

/-- every write to a parser / action / group object made by parse-time code is known: a carrier of the model written
    by the function the model expects, or provably no carrier -/
theorem tie_writes : writesKnown = true := by decide

/-- every write to process-level state (names declared `global`, module-level containers mutated in a function, class
    attributes, caching decorators — every function of every module of the package) is declaration-time, the memo of a
    constant, or outside the operations considered; a new cache / global / class-level memo makes this fail -/
theorem tie_proc_writes : procWritesKnown = true := by decide

/-- the `finally` of parse_args is among the places where a pending `--print_config` request is removed
    (the deletion inside print_config_if_requested is not needed for the theorem: an exit passes through the `finally`) -/
theorem tie_print_config_deletes :
    Jap.Gen.PState.printConfigDeletes.contains
      ("ArgumentParser.parse_args", "self.__dict__.pop('print_config', None)") = true := by decide

/-! ## the invariant -/

/-- the invariant holds for freshly built parsers -/
theorem C09_inv_init (D : Nat → PDesc) : Inv D (init D) := inv_init D

/-- written before read: under the assumptions, the answer of every operation is determined by the carriers the
    invariant constrains — whatever `parser.args`, `parse_kwargs`, `subclass_arg_parser`, `dump_kwargs` and the
    lazily added --print_shtab action were left at -/
theorem C09_write_before_read (F : Facts) (hF : Sound F = true) (D : Nat → PDesc) : WriteBeforeRead F D :=
  write_before_read F hF D

/-- restored: under the assumptions, every operation — returning, raising or exiting — re-establishes the invariant -/
theorem C09_restores (F : Facts) (hF : Sound F = true) (D : Nat → PDesc) : Restores F D :=
  restores F hF D

/-- the invariant implies the claim (for any facts) -/
theorem C09_invariant_suffices (F : Facts) (D : Nat → PDesc) (hw : WriteBeforeRead F D) (hr : Restores F D)
    (hist : List (Nat × Op)) (op : Nat × Op) :
    (step F D (runHist F D hist (init D)) op).2 = (step F D (init D) op).2 :=
  history_independent_of_invariant F D hw hr hist op

/-! ## the property -/

/-- C09: for the source as it is now, for every history of operations on any number of parsers in one process
    (successful, failing, help-printing, config-printing, in any order and of any length) and every further
    operation, the answer equals the answer of the same operation on freshly built parsers. -/
theorem C09_history_independent (D : Nat → PDesc) (hist : List (Nat × Op)) (op : Nat × Op) :
    (step genFacts D (runHist genFacts D hist (init D)) op).2 = (step genFacts D (init D) op).2 :=
  history_independent_of_invariant genFacts D (write_before_read genFacts tie_sound D) (restores genFacts tie_sound D) hist op

/-- the same for one parser used after a history on ANOTHER parser only -/
theorem C09_other_parsers (D : Nat → PDesc) (hist : List (Nat × Op)) (p : Nat) (o : Op)
    (_h : ∀ e ∈ hist, e.1 ≠ p) :
    (step genFacts D (runHist genFacts D hist (init D)) (p, o)).2 = (step genFacts D (init D) (p, o)).2 :=
  C09_history_independent D hist (p, o)

/-- and the state left behind is again one from which every answer is the fresh answer (the property composes) -/
theorem C09_invariant_after_history (D : Nat → PDesc) (hist : List (Nat × Op)) :
    Inv D (runHist genFacts D hist (init D)) :=
  inv_runHist genFacts D (restores genFacts tie_sound D) hist _ (inv_init D)

/-! ## regression: the model before the repairs, and why every assumption is needed -/

/-- a parser description for the witnesses -/
def D0 : Nat → PDesc := fun _ => { exitOnError := false, shtab := true, linked0 := [7] }

def noFlags : Flags := {}
def tok (k : TokKind) (fails : Bool := false) : Tok := { kind := k, fails := fails }

/-- `parse_args(['--print_config', '--a=x'])`: the request is stored, then the bad value raises -/
def failingWithPrintConfig : Op := .parseArgs { id := 1, toks := [tok (.printConfig noFlags), tok (.plain false) true] }
/-- `parse_args(['--a=2'])` -/
def plainParse : Op := .parseArgs { id := 2, toks := [tok (.plain false)] }

/-- F12 (row 12 of DESIGN section 7), the model before commit 4d96f4c: without the `finally`, the failing parse
    leaves the request behind … -/
def preF12 : Facts := { genFacts with finallyPops := false }

theorem F12_witness_fresh : (step preF12 D0 (init D0) (0, plainParse)).2.cls = .result := by decide
/-- … and the next ordinary parse prints the configuration and exits 0: history of length 1, then the operation -/
theorem F12_witness_reused :
    (step preF12 D0 (runHist preF12 D0 [(0, failingWithPrintConfig)] (init D0)) (0, plainParse)).2.cls
      = .exit 0 true false := by decide
/-- so the property is false for the pre-fix model -/
theorem F12_not_history_independent :
    ¬ ∀ hist op, (step preF12 D0 (runHist preF12 D0 hist (init D0)) op).2 = (step preF12 D0 (init D0) op).2 := by
  intro h
  have := h [(0, failingWithPrintConfig)] (0, plainParse)
  revert this
  decide
/-- in the pre-fix model also parse_object (and every other method that parses) prints and exits -/
theorem F12_witness_parse_object :
    (step preF12 D0 (runHist preF12 D0 [(0, failingWithPrintConfig)] (init D0)) (0, .parseOther { id := 3 })).2.cls
      = .exit 0 true false := by decide
/-- with the `finally` the same history is harmless -/
theorem F12_repaired :
    (step genFacts D0 (runHist genFacts D0 [(0, failingWithPrintConfig)] (init D0)) (0, plainParse)).2
      = (step genFacts D0 (init D0) (0, plainParse)).2 := by decide

/-- F09b, the model before commit ff6ea78: the dataclass branch of adapt_typehints stored the running value as
    `default` in the action's own `sub_add_kwargs` -/
def preF09b : Facts := { genFacts with dcDefaultOnAction := true }
/-- `parse_args(['--trainer.opt.x=3'])` (validation adapts the value again, now with a previous value) -/
def setDataclass : Op :=
  .parseArgs { id := 4, toks := [tok (.dc true true false)], tail := { dcFinal := true } }
/-- `parse_args(['--trainer.opt.y=k'])` -/
def setDataclassOther : Op :=
  .parseArgs { id := 5, toks := [tok (.dc true true false)], tail := { dcFinal := true } }

theorem F09b_not_history_independent :
    ¬ ∀ hist op, (step preF09b D0 (runHist preF09b D0 hist (init D0)) op).2 = (step preF09b D0 (init D0) op).2 := by
  intro h
  have := h [(0, setDataclass)] (0, setDataclassOther)
  revert this
  decide
theorem F09b_repaired :
    (step genFacts D0 (runHist genFacts D0 [(0, setDataclass)] (init D0)) (0, setDataclassOther)).2
      = (step genFacts D0 (init D0) (0, setDataclassOther)).2 := by decide

/-- a `parser_context` whose reset is not in a `finally`: a failing parse leaves lenient_check on, and a later
    validation of an invalid configuration passes -/
theorem ctx_reset_needed :
    let F : Facts := { genFacts with ctxResetFinally := false }
    (step F D0 (runHist F D0 [(0, failingWithPrintConfig)] (init D0)) (0, .validate { id := 6, invalid := true })).2.cls = .result ∧
    (step F D0 (init D0) (0, .validate { id := 6, invalid := true })).2.cls = .raised := by decide

/-- … also when the failing parse was made on ANOTHER parser of the process -/
theorem ctx_reset_needed_other_parser :
    let F : Facts := { genFacts with ctxResetFinally := false }
    (step F D0 (runHist F D0 [(1, failingWithPrintConfig)] (init D0)) (0, .validate { id := 6, invalid := true })).2.cls = .result := by
  decide

/-- linked_targets accumulated on the parser's own action: a later dump strips other keys -/
theorem linked_fresh_needed :
    let F : Facts := { genFacts with linkedOnFreshOnly := false }
    (step F D0 (runHist F D0 [(0, .parseArgs { id := 7, toks := [tok (.plain true)] })] (init D0))
        (0, .dump { id := 8 } { skipValidation := true, skipNone := true } false)).2
      ≠ (step F D0 (init D0) (0, .dump { id := 8 } { skipValidation := true, skipNone := true } false)).2 := by decide

/-- `self.args` assigned after parsing: the class-help action would see the previous argv -/
theorem args_before_parse_needed :
    let F : Facts := { genFacts with argsBeforeParse := false }
    (step F D0 (runHist F D0 [(0, plainParse)] (init D0)) (0, .parseArgs { id := 9, toks := [tok (.classHelp none)] })).2
      ≠ (step F D0 (init D0) (0, .parseArgs { id := 9, toks := [tok (.classHelp none)] })).2 := by decide

/-- parse_kwargs not set around parse_known_args: the sub-command parser would be called with the previous call's
    env/defaults -/
theorem kw_set_needed :
    let F : Facts := { genFacts with kwSetAroundParse := false }
    let sub : Op := .parseArgs { id := 10, kw := { env := none, defaults := true }, sub := some { idx := 0, argsId := 11, toks := [] } }
    (step F D0 (runHist F D0 [(0, .parseArgs { id := 12, toks := [tok .deep] })] (init D0)) (0, sub)).2
      ≠ (step F D0 (init D0) (0, sub)).2 := by decide

/-- dump_kwargs not set by serialize: a nested dump would use the previous dump's options -/
theorem dk_set_needed :
    let F : Facts := { genFacts with dkSetInSerialize := false }
    let d1 : Op := .dump { id := 13, tail := { clsFinal := true } } { skipValidation := false, skipNone := false } false
    let d2 : Op := .dump { id := 13, tail := { clsFinal := true } } { skipValidation := false, skipNone := true } false
    (step F D0 (runHist F D0 [(0, d1)] (init D0)) (0, d2)).2 ≠ (step F D0 (init D0) (0, d2)).2 := by decide

/-! ## non-vacuity: the model distinguishes the outcomes, and carriers do change -/

/-- `--print_config` prints and exits 0; `--help` prints help; a bad value is an ArgumentError (exit 2 with
    exit_on_error); a missing sub-command fails before the print_config check -/
theorem outcomes :
    (step genFacts D0 (init D0) (0, .parseArgs { id := 1, toks := [tok (.printConfig noFlags)] })).2.cls = .exit 0 true false ∧
    (step genFacts D0 (init D0) (0, .parseArgs { id := 1, toks := [tok .help] })).2.cls = .exit 0 false true ∧
    (step genFacts D0 (init D0) (0, failingWithPrintConfig)).2.cls = .argError ∧
    (step genFacts (fun _ => { exitOnError := true, shtab := true, linked0 := [] }) (init D0) (0, failingWithPrintConfig)).2.cls
      = .exit 2 false false ∧
    (step genFacts D0 (init D0) (0, .parseArgs { id := 1, toks := [tok (.printConfig noFlags)], tail := { subMissing := true } })).2.cls
      = .argError := by decide

/-- `--print_config --cfg FILE`: the nested parse of the file honours the request made before it — prints what it has
    and exits, or fails when that partial configuration cannot be dumped; `--cfg FILE --print_config` prints at the end -/
theorem cfg_honours_request :
    (step genFacts D0 (init D0) (0, .parseArgs { id := 1, toks := [tok (.printConfig noFlags), tok (.cfg false), tok (.plain false) true] })).2.cls
      = .exit 0 true false ∧
    (step genFacts D0 (init D0) (0, .parseArgs { id := 1, toks := [tok (.printConfig noFlags), tok (.cfg true)] })).2.cls = .argError ∧
    (step genFacts D0 (init D0) (0, .parseArgs { id := 1, toks := [tok (.cfg true), tok (.printConfig noFlags)] })).2.cls
      = .exit 0 true false := by decide

/-- the unconstrained carriers really differ after a history (the invariant is not "nothing changes") -/
theorem carriers_change :
    let w := runHist genFacts D0 [(0, .parseArgs { id := 21, toks := [tok (.dc true true false)],
                                                   sub := some { idx := 1, argsId := 22, toks := [tok .deep] } }),
                                   (0, .dump { id := 23 } { skipValidation := true, skipNone := false } false)] (init D0)
    w.lastArgs (.root 0) = some 21 ∧ w.lastArgs (.sub 0 1) = some 22 ∧ w.shtabAdded 0 = true ∧
    w.parseKwargs = some { env := none, defaults := false } ∧ w.subclassArgParser = some .eph ∧
    w.dumpKwargs = some { skipValidation := true, skipNone := false } := by decide

/-! ## value-carrying locations and bracketed code: any code, any fault point

`Jap.PState.Ctx` (Core/PStateCtx.lean): locations hold VALUES; code is any nesting of writes that stay, brackets
(`with cm(v): …`, reset in a `finally` or not — a column of the regenerated tables), `try/finally` regions that clear a
location, reads that flow into the answer, branches on the value held, try/except, and `raise` anywhere.  The theorems
hold for ALL such code obeying the discipline `okOp` (decidable on the syntax), all histories, all interleavings. -/
section Ctx
open Jap.PState.Ctx

/-- the restored locations, as computed from the regenerated list of context variables: every context variable of the
    package but the three unreset ones and current_mro; a new context variable, or one that disappears, changes the list -/
theorem tie_restored_locs :
    restoredLocs = ["allow_default_instance", "apply_config_skip", "class_instantiators", "current_path_dir", "defaults_cache",
      "lenient_check", "load_value_mode", "nested_links", "parent_parser", "parent_parsers", "parser_capture", "previous_config",
      "print_config_skip", "shtab_preambles", "shtab_prog", "shtab_shell", "single_subcommand", "sub_defaults",
      "os.cwd", "argparse.Namespace", "parser.print_config", "sub.print_config", "action.default"] := by decide

/-- the context managers used by the skeletons of the public operations are, in the regenerated Gen/Brackets, brackets
    whose reset sits in a `finally` and restores the variable's own earlier value; the three unreset ones have no reset -/
theorem tie_skeleton_brackets :
    ([("parser_context", "parent_parser"), ("parser_context", "lenient_check"), ("parser_context", "load_value_mode"),
      ("parser_context", "defaults_cache"), ("parser_context", "nested_links"), ("parser_context", "class_instantiators"),
      ("change_to_path_dir", "os.cwd"), ("change_to_path_dir", "current_path_dir"), ("patch_namespace", "argparse.Namespace"),
      ("previous_config_context", "previous_config"), ("_ActionPrintConfig.skip_print_config", "print_config_skip"),
      ("ActionTypeHint.sub_defaults_context", "sub_defaults"), ("_ActionSubCommands.not_single_subcommand", "single_subcommand"),
      ("skip_apply_links", "apply_config_skip")].all fun mv => rowOf mv.1 mv.2 == some ("finally", "self")) = true ∧
    ([("_ActionSubCommands.parse_kwargs_context", "parse_kwargs"), ("ActionTypeHint.subclass_arg_context", "subclass_arg_parser"),
      ("dump_kwargs_context", "dump_kwargs")].all fun mv => rowOf mv.1 mv.2 == some ("none", "-")) = true := by decide

/-- the skeletons of the public operations (parse_args over every argv of up to two elements of every kind, with and
    without a sub-command; parse_object/string/path/env; get_defaults; validate; instantiate_classes; format_help; dump with
    and without skip_default), built over the regenerated bracket table, obey the discipline: restored locations are
    written only through `finally` brackets / inside the `finally` region of parse_args, every other location is read
    only after it was written in the same operation -/
theorem tie_public_ops_disciplined : ((publicOps 1).all (okOp restoredLocs)) = true := by decide +kernel

/-- C09 for bracketed code: the answer (raised? + every value read from a location that outlives the call) of a disciplined
    operation after ANY history of disciplined operations — of any length, each ending normally or by an exception —
    is its answer on freshly initialised state -/
theorem C09_ctx_history_independent (R : List String) (P : Prog) (hP : okOp R P = true) (hist : List Prog)
    (hh : ∀ q ∈ hist, okOp R q = true) : answer P (runHist hist Ctx.init) = answer P Ctx.init :=
  answer_after_history R P hP hist hh

/-- … and every restored location holds its default again after the history -/
theorem C09_ctx_restored_after_history (R : List String) (hist : List Prog) (hh : ∀ q ∈ hist, okOp R q = true) :
    ∀ x ∈ R, runHist hist Ctx.init x = 0 :=
  Ctx.inv_runHist R hist hh Ctx.init (Ctx.inv_init R)

/-- bracket restoration for EVERY fault point: take disciplined operations and raise an exception before and/or after any
    of their steps (inside any bracket body, handler, `finally` block, any number of places at once, `Faulted`); the
    history of such faulted operations still leaves every restored location at its default, and the (faulted) operation
    asked afterwards answers as on fresh state -/
theorem C09_ctx_any_fault_point (R : List String) (P0 P : Prog) (hf : Faulted P0 P) (h0 : okOp R P0 = true) (hist : List Prog)
    (hh : ∀ q ∈ hist, ∃ q0, Faulted q0 q ∧ okOp R q0 = true) :
    answer P (runHist hist Ctx.init) = answer P Ctx.init ∧ ∀ x ∈ R, runHist hist Ctx.init x = 0 := by
  have hh' : ∀ q ∈ hist, okOp R q = true := fun q hq => by
    obtain ⟨q0, hfq, hq0⟩ := hh q hq
    exact hfq.okOp hq0
  exact ⟨answer_after_history R P (hf.okOp h0) hist hh', Ctx.inv_runHist R hist hh' Ctx.init (Ctx.inv_init R)⟩

/-- the same for the operations of the library as they are now: histories over the skeletons of the public operations
    (regenerated bracket table), each with exceptions raised at any of its points -/
theorem C09_ctx_public_ops (P0 P : Prog) (hP : P0 ∈ publicOps 1) (hf : Faulted P0 P) (hist : List Prog)
    (hh : ∀ q ∈ hist, ∃ q0 ∈ publicOps 1, Faulted q0 q) :
    answer P (runHist hist Ctx.init) = answer P Ctx.init ∧ ∀ x ∈ restoredLocs, runHist hist Ctx.init x = 0 := by
  have hall := List.all_eq_true.mp tie_public_ops_disciplined
  exact C09_ctx_any_fault_point restoredLocs P0 P hf (hall P0 hP) hist fun q hq => by
    obtain ⟨q0, hq0, hfq⟩ := hh q hq
    exact ⟨q0, hfq, hall q0 hq0⟩

/-! ### why each clause of the discipline is needed, and non-vacuity -/

/-- a bracket whose reset is NOT in a `finally` (what dropping a try/finally does): an exception in its body leaves the
    value behind, and a later read differs from the read on fresh state -/
theorem ctx_reset_after_yield_leaks :
    let leak : Prog := .bracket false "lenient_check" 1 .raise
    okOp restoredLocs leak = false ∧
    answer (.read "lenient_check") (runHist [leak] Ctx.init) ≠ answer (.read "lenient_check") Ctx.init := by decide

/-- a read of a location that is set without reset, not preceded by a write in the same operation (seed C09-3A: the
    setter of parse_kwargs reading the previous content): the answer depends on the history -/
theorem ctx_stale_read_depends_on_history :
    let stale : Prog := .seq (.read "parse_kwargs") (.set "parse_kwargs" 2)
    okOp restoredLocs stale = false ∧
    answer stale (runHist [parseArgs 1 1 7 [] none] Ctx.init) ≠ answer stale Ctx.init := by decide +kernel

/-- regression (finding F32h, repaired by cb986b8): before the repair `_expand_help` put `action.default` back with a plain
    statement after the help string was built — the OLD skeleton is a bracket whose reset is skipped by an exception; with
    `extra_help()` raising in between (a live subclass without an import path) the default-config value stayed in the action.
    The present skeleton takes the place of the reset from the regenerated fact `helpDefaultFinally`, and `format_help` under
    faults is covered by `C09_ctx_public_ops`. -/
theorem ctx_help_default_not_fault_tolerant :
    let faulted : Prog := .bracket false "action.default" 7 (.seq (.read "action.default") .raise)
    Faulted (.bracket false "action.default" 7 (.read "action.default")) faulted ∧
    (run faulted Ctx.init).env "action.default" = 7 ∧ okOp restoredLocs faulted = false := by
  exact ⟨.bracket (.after (.refl _)), by decide, by decide⟩

/-- tie: the restore of `action.default` sits in a `finally` in the source as it is now -/
theorem tie_help_default_finally : Jap.Gen.PState.helpDefaultFinally = true := by decide

/-- with the repair the same fault leaves the default as it was -/
theorem ctx_help_default_repaired :
    (run (.bracket Jap.Gen.PState.helpDefaultFinally "action.default" 7 (.seq (.read "action.default") .raise)) Ctx.init).env "action.default" = 0 := by
  decide

/-- non-vacuity: the unreset locations really change (so "nothing changes" is not what is proved), reads do flow into
    the answer, a failing parse raises, and a faulted operation is a different program -/
theorem ctx_nonvacuous :
    (runHist [parseArgs 1 1 7 [.nested] (some [.typed])] Ctx.init) "parse_kwargs" = 3 ∧
    (runHist [parseArgs 1 1 7 [.typed] none] Ctx.init) "subclass_arg_parser" = 1 ∧
    (runHist [parseArgs 1 1 7 [.typed] none] Ctx.init) "parser.args" = 3 ∧
    (runHist [dump 5 1 1 false] Ctx.init) "dump_kwargs" = 1 ∧
    (answer (parseArgs 1 1 7 [.bad] none) Ctx.init).1 = true ∧
    (answer (parseArgs 1 1 7 [.printConfig 5] none) Ctx.init).1 = true ∧
    (answer (parseArgs 1 1 7 [.typed] none) Ctx.init).1 = false ∧
    (answer (parseArgs 1 1 7 [.typed] none) Ctx.init).2.length > 10 := by decide +kernel

/-- a pending request stored by a parse that then fails is gone afterwards: the `finally` region of parse_args
    (the value-carrying counterpart of `F12_repaired`) -/
theorem ctx_pending_request_cleared :
    (runHist [parseArgs 1 1 7 [.printConfig 5, .bad] none] Ctx.init) "parser.print_config" = 0 ∧
    (run (seqs [.set "parser.args" 3, .tryCatch (seqs [.set "parser.print_config" 5, .raise]) .raise]) Ctx.init).env "parser.print_config" = 5 := by
  decide +kernel

end Ctx

/-! ## the two engines speak about the same thing

`Jap.PState.Bridge` (Lemmas/PStateBridge.lean): every carrier of the transcription (`World`) is a location of the bracket
engine (or object state no skeleton touches); `locs p w` is the state of the bracket engine a world stands for; `argvOf`
turns the argv of a skeleton into the argv of the transcription. -/
section Bridge
open Jap.PState.Bridge

/-- carriers ↔ locations: a carrier is pinned by the invariant of the transcription (`Inv`) exactly when its location is among
    the restored locations of the bracket engine (computed from the regenerated tables); the carriers `Inv` leaves free are the
    locations the skeletons write before they read them -/
theorem bridge_carrier_classes :
    (Carrier.all.all fun c => match c.loc with
      | some x => c.constrained == Ctx.restoredLocs.contains x
      | none => c.constrained || c == .shtabAdded) = true := by decide

/-- a world satisfying the invariant of the transcription stands for a state satisfying the invariant of the bracket engine on
    the locations of the constrained carriers; so it does after every history of transcribed operations -/
theorem bridge_invariant (D : Nat → PDesc) (p : Nat) (hist : List (Nat × Op)) :
    Ctx.Inv ["lenient_check", "parent_parser", "parser.print_config"] (locs p (runHist genFacts D hist (init D))) :=
  inv_bridge D p _ (C09_invariant_after_history D hist)

/-- per operation: for parse_args over every argv of up to two elements of every kind (no sub-command / an empty one / one with a
    typed option; 171 shapes) the transcription (`step`) and the skeleton (`Ctx.run`) agree on whether the call returns and on
    WHICH carriers it leaves changed (parse_kwargs, subclass_arg_parser, dump_kwargs, lenient_check, parent_parser, the pending
    request, `args` of the parser and of the sub-command parser) -/
theorem bridge_parse_args_agree : (family.all agreeOn) = true := by decide +kernel

/-- … and for parse_object, validate, instantiate_classes, get_defaults, format_help, dump with and without skip_default -/
theorem bridge_other_ops_agree : agreeOther = true := by decide +kernel

/-- non-vacuity: the family is not empty, both outcomes occur, and footprints differ between operations -/
theorem bridge_nonvacuous :
    family.length = 171 ∧
    (Ctx.run (Ctx.parseArgs 4 1 7 [.typed] none) Ctx.init).raised = false ∧
    (Ctx.run (Ctx.parseArgs 4 1 7 [.printConfig 5, .cfgFile] (some [])) Ctx.init).raised = true ∧
    footprint (Ctx.run (Ctx.parseArgs 4 1 7 [.typed] (some [.typed])) Ctx.init).env
      = [true, true, false, false, false, false, true, true] ∧
    footprint (locs 1 (step genFacts desc (init desc) (1, .parseArgs (argvOf [.printConfig 5] none))).1)
      = [true, true, true, false, false, false, true, false] := by decide +kernel

end Bridge

end Jap.Props.C09

import Jap.Core.PState
import Jap.Lemmas.PState
import Jap.Lemmas.PStateFacts
import Jap.Gen.PState
/-!
C09 — a parser's answers do not depend on what it was asked before.

Model: `Jap.PState.step` (Core/PState.lean): what every operation of the public API reads from and writes to the
state that outlives a call (attributes left on parser / action objects, context variables that are set and not
reset), in the order the source does it now, for any number of parsers in one process.  `step` consults
`Facts`; the facts of the current source are regenerated into Gen/PState.lean on every run (`genFacts`).

`Out` = (result | ArgumentError | other exception | exit status + config printed + help printed) together with the
list of carrier values that flowed into the answer.

All theorems quantify over ALL histories (any length, any interleaving of parsers), all operations, all parser
descriptions `D`.
-/
namespace Jap.Props.C09
open Jap.PState

/-! ## tie: the regenerated tables have the shape the model assumes -/

/-- the assumptions of `C09_history_independent` hold for the regenerated facts: reverting the `finally` of
    parse_args (F12), moving a context-variable reset out of its `finally`, writing the action's own
    `sub_add_kwargs` (F09b) … each makes this `decide` fail -/
theorem tie_sound : Sound genFacts = true := by decide

/-- context variables that are set without a reset in a `finally`: exactly the ones the model knows -/
theorem tie_unreset : unresetSets = knownUnreset := by decide

/-- every set made through `parser_context` is reset in its `finally` -/
theorem tie_parser_context :
    (Jap.Gen.PState.ctxSets.filter fun e => e.2.1 == "parser_context").all (fun e => e.2.2) = true ∧
    (Jap.Gen.PState.ctxSets.filter fun e => e.2.1 == "parser_context").length = 7 := by decide

/-- every write to a parser / action / group object made by parse-time code is known: a carrier of the model written
    by the function the model expects, or provably no carrier -/
theorem tie_writes : writesKnown = true := by decide

/-- the `finally` of parse_args is among the places where a pending `--print_config` request is removed
    (the deletion inside print_config_if_requested is not needed for the theorem: an exit passes through the `finally`) -/
theorem tie_print_config_deletes :
    Jap.Gen.PState.printConfigDeletes.contains
      ("ArgumentParser.parse_args", "self.__dict__.pop('print_config', None)") = true := by decide

/-! ## the invariant -/

/-- the invariant holds for freshly built parsers -/
theorem C09_inv_init (D : Nat → PDesc) : Inv D (init D) := inv_init D

/-- written before read: under the assumptions, the answer of every operation is determined by the carriers the
    invariant constrains — whatever `parser.args`, `parse_kwargs`, `subclass_arg_parser`, `dump_kwargs` and the
    lazily added --print_shtab action were left at -/
theorem C09_write_before_read (F : Facts) (hF : Sound F = true) (D : Nat → PDesc) : WriteBeforeRead F D :=
  write_before_read F hF D

/-- restored: under the assumptions, every operation — returning, raising or exiting — re-establishes the invariant -/
theorem C09_restores (F : Facts) (hF : Sound F = true) (D : Nat → PDesc) : Restores F D :=
  restores F hF D

/-- the invariant implies the claim (for any facts) -/
theorem C09_invariant_suffices (F : Facts) (D : Nat → PDesc) (hw : WriteBeforeRead F D) (hr : Restores F D)
    (hist : List (Nat × Op)) (op : Nat × Op) :
    (step F D (runHist F D hist (init D)) op).2 = (step F D (init D) op).2 :=
  history_independent_of_invariant F D hw hr hist op

/-! ## the property -/

/-- C09: for the source as it is now, for every history of operations on any number of parsers in one process
    (successful, failing, help-printing, config-printing, in any order and of any length) and every further
    operation, the answer equals the answer of the same operation on freshly built parsers. -/
theorem C09_history_independent (D : Nat → PDesc) (hist : List (Nat × Op)) (op : Nat × Op) :
    (step genFacts D (runHist genFacts D hist (init D)) op).2 = (step genFacts D (init D) op).2 :=
  history_independent_of_invariant genFacts D (write_before_read genFacts tie_sound D) (restores genFacts tie_sound D) hist op

/-- the same for one parser used after a history on ANOTHER parser only -/
theorem C09_other_parsers (D : Nat → PDesc) (hist : List (Nat × Op)) (p : Nat) (o : Op)
    (_h : ∀ e ∈ hist, e.1 ≠ p) :
    (step genFacts D (runHist genFacts D hist (init D)) (p, o)).2 = (step genFacts D (init D) (p, o)).2 :=
  C09_history_independent D hist (p, o)

/-- and the state left behind is again one from which every answer is the fresh answer (the property composes) -/
theorem C09_invariant_after_history (D : Nat → PDesc) (hist : List (Nat × Op)) :
    Inv D (runHist genFacts D hist (init D)) :=
  inv_runHist genFacts D (restores genFacts tie_sound D) hist _ (inv_init D)

/-! ## regression: the model before the repairs, and why every assumption is needed -/

/-- a parser description for the witnesses -/
def D0 : Nat → PDesc := fun _ => { exitOnError := false, shtab := true, linked0 := [7] }

def noFlags : Flags := {}
def tok (k : TokKind) (fails : Bool := false) : Tok := { kind := k, fails := fails }

/-- `parse_args(['--print_config', '--a=x'])`: the request is stored, then the bad value raises -/
def failingWithPrintConfig : Op := .parseArgs { id := 1, toks := [tok (.printConfig noFlags), tok (.plain false) true] }
/-- `parse_args(['--a=2'])` -/
def plainParse : Op := .parseArgs { id := 2, toks := [tok (.plain false)] }

/-- F12 (row 12 of DESIGN section 7), the model before commit 4d96f4c: without the `finally`, the failing parse
    leaves the request behind … -/
def preF12 : Facts := { genFacts with finallyPops := false }

theorem F12_witness_fresh : (step preF12 D0 (init D0) (0, plainParse)).2.cls = .result := by decide
/-- … and the next ordinary parse prints the configuration and exits 0: history of length 1, then the operation -/
theorem F12_witness_reused :
    (step preF12 D0 (runHist preF12 D0 [(0, failingWithPrintConfig)] (init D0)) (0, plainParse)).2.cls
      = .exit 0 true false := by decide
/-- so the property is false for the pre-fix model -/
theorem F12_not_history_independent :
    ¬ ∀ hist op, (step preF12 D0 (runHist preF12 D0 hist (init D0)) op).2 = (step preF12 D0 (init D0) op).2 := by
  intro h
  have := h [(0, failingWithPrintConfig)] (0, plainParse)
  revert this
  decide
/-- in the pre-fix model also parse_object (and every other method that parses) prints and exits -/
theorem F12_witness_parse_object :
    (step preF12 D0 (runHist preF12 D0 [(0, failingWithPrintConfig)] (init D0)) (0, .parseOther { id := 3 })).2.cls
      = .exit 0 true false := by decide
/-- with the `finally` the same history is harmless -/
theorem F12_repaired :
    (step genFacts D0 (runHist genFacts D0 [(0, failingWithPrintConfig)] (init D0)) (0, plainParse)).2
      = (step genFacts D0 (init D0) (0, plainParse)).2 := by decide

/-- F09b, the model before commit ff6ea78: the dataclass branch of adapt_typehints stored the running value as
    `default` in the action's own `sub_add_kwargs` -/
def preF09b : Facts := { genFacts with dcDefaultOnAction := true }
/-- `parse_args(['--trainer.opt.x=3'])` (validation adapts the value again, now with a previous value) -/
def setDataclass : Op :=
  .parseArgs { id := 4, toks := [tok (.dc true true false)], tail := { dcFinal := true } }
/-- `parse_args(['--trainer.opt.y=k'])` -/
def setDataclassOther : Op :=
  .parseArgs { id := 5, toks := [tok (.dc true true false)], tail := { dcFinal := true } }

theorem F09b_not_history_independent :
    ¬ ∀ hist op, (step preF09b D0 (runHist preF09b D0 hist (init D0)) op).2 = (step preF09b D0 (init D0) op).2 := by
  intro h
  have := h [(0, setDataclass)] (0, setDataclassOther)
  revert this
  decide
theorem F09b_repaired :
    (step genFacts D0 (runHist genFacts D0 [(0, setDataclass)] (init D0)) (0, setDataclassOther)).2
      = (step genFacts D0 (init D0) (0, setDataclassOther)).2 := by decide

/-- a `parser_context` whose reset is not in a `finally`: a failing parse leaves lenient_check on, and a later
    validation of an invalid configuration passes -/
theorem ctx_reset_needed :
    let F : Facts := { genFacts with ctxResetFinally := false }
    (step F D0 (runHist F D0 [(0, failingWithPrintConfig)] (init D0)) (0, .validate { id := 6, invalid := true })).2.cls = .result ∧
    (step F D0 (init D0) (0, .validate { id := 6, invalid := true })).2.cls = .raised := by decide

/-- … also when the failing parse was made on ANOTHER parser of the process -/
theorem ctx_reset_needed_other_parser :
    let F : Facts := { genFacts with ctxResetFinally := false }
    (step F D0 (runHist F D0 [(1, failingWithPrintConfig)] (init D0)) (0, .validate { id := 6, invalid := true })).2.cls = .result := by
  decide

/-- linked_targets accumulated on the parser's own action: a later dump strips other keys -/
theorem linked_fresh_needed :
    let F : Facts := { genFacts with linkedOnFreshOnly := false }
    (step F D0 (runHist F D0 [(0, .parseArgs { id := 7, toks := [tok (.plain true)] })] (init D0))
        (0, .dump { id := 8 } { skipValidation := true, skipNone := true } false)).2
      ≠ (step F D0 (init D0) (0, .dump { id := 8 } { skipValidation := true, skipNone := true } false)).2 := by decide

/-- `self.args` assigned after parsing: the class-help action would see the previous argv -/
theorem args_before_parse_needed :
    let F : Facts := { genFacts with argsBeforeParse := false }
    (step F D0 (runHist F D0 [(0, plainParse)] (init D0)) (0, .parseArgs { id := 9, toks := [tok (.classHelp none)] })).2
      ≠ (step F D0 (init D0) (0, .parseArgs { id := 9, toks := [tok (.classHelp none)] })).2 := by decide

/-- parse_kwargs not set around parse_known_args: the sub-command parser would be called with the previous call's
    env/defaults -/
theorem kw_set_needed :
    let F : Facts := { genFacts with kwSetAroundParse := false }
    let sub : Op := .parseArgs { id := 10, kw := { env := none, defaults := true }, sub := some { idx := 0, argsId := 11, toks := [] } }
    (step F D0 (runHist F D0 [(0, .parseArgs { id := 12, toks := [tok .deep] })] (init D0)) (0, sub)).2
      ≠ (step F D0 (init D0) (0, sub)).2 := by decide

/-- dump_kwargs not set by serialize: a nested dump would use the previous dump's options -/
theorem dk_set_needed :
    let F : Facts := { genFacts with dkSetInSerialize := false }
    let d1 : Op := .dump { id := 13, tail := { clsFinal := true } } { skipValidation := false, skipNone := false } false
    let d2 : Op := .dump { id := 13, tail := { clsFinal := true } } { skipValidation := false, skipNone := true } false
    (step F D0 (runHist F D0 [(0, d1)] (init D0)) (0, d2)).2 ≠ (step F D0 (init D0) (0, d2)).2 := by decide

/-! ## non-vacuity: the model distinguishes the outcomes, and carriers do change -/

/-- `--print_config` prints and exits 0; `--help` prints help; a bad value is an ArgumentError (exit 2 with
    exit_on_error); a missing sub-command fails before the print_config check -/
theorem outcomes :
    (step genFacts D0 (init D0) (0, .parseArgs { id := 1, toks := [tok (.printConfig noFlags)] })).2.cls = .exit 0 true false ∧
    (step genFacts D0 (init D0) (0, .parseArgs { id := 1, toks := [tok .help] })).2.cls = .exit 0 false true ∧
    (step genFacts D0 (init D0) (0, failingWithPrintConfig)).2.cls = .argError ∧
    (step genFacts (fun _ => { exitOnError := true, shtab := true, linked0 := [] }) (init D0) (0, failingWithPrintConfig)).2.cls
      = .exit 2 false false ∧
    (step genFacts D0 (init D0) (0, .parseArgs { id := 1, toks := [tok (.printConfig noFlags)], tail := { subMissing := true } })).2.cls
      = .argError := by decide

/-- `--print_config --cfg FILE`: the nested parse of the file honours the request made before it — prints what it has
    and exits, or fails when that partial configuration cannot be dumped; `--cfg FILE --print_config` prints at the end -/
theorem cfg_honours_request :
    (step genFacts D0 (init D0) (0, .parseArgs { id := 1, toks := [tok (.printConfig noFlags), tok (.cfg false), tok (.plain false) true] })).2.cls
      = .exit 0 true false ∧
    (step genFacts D0 (init D0) (0, .parseArgs { id := 1, toks := [tok (.printConfig noFlags), tok (.cfg true)] })).2.cls = .argError ∧
    (step genFacts D0 (init D0) (0, .parseArgs { id := 1, toks := [tok (.cfg true), tok (.printConfig noFlags)] })).2.cls
      = .exit 0 true false := by decide

/-- the unconstrained carriers really differ after a history (the invariant is not "nothing changes") -/
theorem carriers_change :
    let w := runHist genFacts D0 [(0, .parseArgs { id := 21, toks := [tok (.dc true true false)],
                                                   sub := some { idx := 1, argsId := 22, toks := [tok .deep] } }),
                                   (0, .dump { id := 23 } { skipValidation := true, skipNone := false } false)] (init D0)
    w.lastArgs (.root 0) = some 21 ∧ w.lastArgs (.sub 0 1) = some 22 ∧ w.shtabAdded 0 = true ∧
    w.parseKwargs = some { env := none, defaults := false } ∧ w.subclassArgParser = some .eph ∧
    w.dumpKwargs = some { skipValidation := true, skipNone := false } := by decide

end Jap.Props.C09

/-
C13 — Parameters resolved through **kwargs are exactly those the code accepts.

`resolve` (the resolver's algorithm) and `accepts` (Python's keyword binding along the real MRO)
are two independent definitions in `Jap/Core/Resolver.lean`; both are tied to the real
`get_signature_parameters` / the real interpreter by the correspondence of harness/props/c13.py.

Full statement (what the property asks, for every program of the mini language):
    ∀ P c n,  n ∈ names (resolve P c) ↔ accepts P c n = true
It is FALSE for the model, hence for the code (each witness below is also a corpus case that the
harness confirms on the real resolver and the real interpreter):
  * `full_fails_get_forward`        kwargs.get(n, d) followed by forwarding (DESIGN §7 #14b)
  * `full_fails_pop_hardcoded`      a popped name hard-coded in the forwarding call (#14d)
  * `full_fails_inherited_init`     class without own __init__, inherited __init__ hard-codes positionals
  * `full_fails_conditional_crash`  AttributeError inside group_parameters → fallback resolver
  * `full_fails_kwargs_unused`      **kwargs taken and never forwarded (every name accepted; `WfProg` demands a use)
`C13_exact_syntactic` is the statement under two decidable hypotheses on the program text, `WfProg` and
`noPopClash`; `C13_exact` is more general (any program on which the resolver does not raise).
`C13_exact` is the statement under the decidable hypothesis `WfProg` (acyclic; every body that takes
**kwargs is pops-then-one-forwarding-call, no `get`, no popped name hard-coded, hard-coded positionals
fit; a class without own __init__ inherits one whose super() call hard-codes no more positionals than it
has parameters) and "the AST resolver does not hit the AttributeError" (`resolveOut P c ≠ .crash`).
-/
import Jap.Lemmas.ResolverClean
import Jap.Lemmas.ResolverMod
import Jap.Lemmas.ResolverBinder
import Jap.Lemmas.ResolverTie
import Jap.Gen.ResolverSites

namespace Jap.Props.C13
open Jap.Resolver

/-- Termination is an obligation: on an acyclic program (callees and base classes have smaller
    indices) `bound P` = (number of entries + 1) × (longest MRO + 4) units of fuel are enough — the
    resolver never runs dry and more fuel never changes the answer. -/
theorem C13_fuel_suffices (P : Prog) (c : CId) (hP : P.acyclic = true) (hc : c.valid P = true) :
    resolveOut P c ≠ .nofuel ∧ ∀ fuel, P.bound ≤ fuel → resolveF fuel P c.frame = resolveOut P c := by
  have hv := goodFrame_valid (valid_good hc)
  have hmu := mu_lt_bound hv
  obtain ⟨h1, h2⟩ := fuel_stable hP P.bound c.frame hv hmu
  exact ⟨h1, fun fuel hf => h2 fuel (by omega)⟩

/-- THE property: for every well-formed program — any hierarchy depth, any MRO linearisation given as
    input, functions, methods, classmethods — the offered names are exactly the names a call can pass:
    no offered parameter raises *unexpected keyword* / *multiple values*, no acceptable parameter is
    missing, hard-coded ones are excluded. -/
theorem C13_exact (P : Prog) (c : CId) (hW : WfProg P = true) (hc : c.valid P = true)
    (hnc : resolveOut P c ≠ .crash) (n : String) :
    n ∈ names (resolve P c) ↔ accepts P c n = true := by
  have hg := valid_good hc
  have hmu := mu_lt_bound (goodFrame_valid hg)
  have hnf := (C13_fuel_suffices P c (WfProg_acyclic hW) hc).1
  unfold resolve accepts
  cases hR : resolveOut P c with
  | crash => exact absurd hR hnc
  | nofuel => exact absurd hR hnf
  | ok R =>
    simp only
    exact frame_exact hW n (P.bound) c.frame hmu hg P.bound P.bound hmu hmu R hR

/-- A purely syntactic, decidable sufficient condition for "the resolver does not raise": wherever a
    popped name is also defined elsewhere in the program, the defaults agree (`noPopClash`). -/
theorem C13_no_crash (P : Prog) (c : CId) (hW : WfProg P = true) (hC : noPopClash P = true) :
    resolveOut P c ≠ .crash :=
  (clean_ok hW hC P.bound c.frame).1

/-- `C13_exact` with hypotheses on the program text only. -/
theorem C13_exact_syntactic (P : Prog) (c : CId) (hW : WfProg P = true) (hC : noPopClash P = true)
    (hc : c.valid P = true) (n : String) :
    n ∈ names (resolve P c) ↔ accepts P c n = true :=
  C13_exact P c hW hc (C13_no_crash P c hW hC) n

/-- On such programs every offered parameter IS a definition of the program — name, type, default and
    kind of the signature (or pop) it comes from, no `Conditional` — and no name is offered twice. -/
theorem C13_keeps_sig_strict (P : Prog) (c : CId) (hW : WfProg P = true) (hC : noPopClash P = true) :
    (names (resolve P c)).Nodup ∧ ∀ p ∈ resolve P c, ∃ q ∈ P.defs, sameSig p q := by
  unfold resolve
  cases hR : resolveOut P c with
  | crash => simp [names]
  | nofuel => simp [names]
  | ok R =>
    simp only
    have := (clean_ok hW hC P.bound c.frame).2 R hR
    exact ⟨this.1, fun p hp => (this.2 p hp).2⟩

/-- instantiating with an offered parameter never raises unexpected-keyword (one direction, named) -/
theorem C13_offered_accepted (P : Prog) (c : CId) (hW : WfProg P = true) (hc : c.valid P = true)
    (p : Param) (hp : p ∈ resolve P c) : accepts P c p.name = true := by
  by_cases hnc : resolveOut P c = .crash
  · simp [resolve, hnc] at hp
  · exact (C13_exact P c hW hc hnc p.name).1 (mem_names.2 ⟨p, hp, rfl⟩)

/-- A name that every use of `kwargs` in the visited body hard-codes (forwarding calls) or does not
    mention (pops/gets), and that is not an own parameter, is not offered — for EVERY program, no
    well-formedness needed (this is what applying `removed_params` after grouping buys). -/
theorem C13_hardcoded_not_offered (P : Prog) (c : CId) (wh : Where) (body : Callable) (n : String)
    (hb : frameBody P c.frame = some (wh, body))
    (hown : n ∉ names body.params)
    (huses : ∀ u ∈ liveUses body.uses, (∀ p ∈ useDefs u, p.name ≠ n) ∧ (u.isForward = true → n ∈ u.given)) :
    n ∉ names (resolve P c) := by
  unfold resolve
  cases hR : resolveOut P c with
  | crash => simp [names]
  | nofuel => simp [names]
  | ok R =>
    simp only
    unfold resolveOut at hR
    cases hbd : P.bound with
    | zero => rw [hbd] at hR; simp [resolveF] at hR
    | succ f =>
      rw [hbd] at hR
      exact hardcoded_not_in hb hR hown huses

/-- Nothing is invented, whatever the body looks like (conditional chains included, no well-formedness
    needed): an offered name is a parameter of the visited signature, or is read by a `kwargs.pop/get`
    of the body, or is offered by the callee of one of its forwarding calls that does not hard-code it. -/
theorem C13_offered_has_source (P : Prog) (c : CId) (wh : Where) (body : Callable) (n : String)
    (hb : frameBody P c.frame = some (wh, body)) (hn : n ∈ names (resolve P c)) :
    n ∈ names body.params ∨ (∃ u ∈ liveUses body.uses, ∃ p ∈ useDefs u, p.name = n) ∨
      ∃ u ∈ liveUses body.uses, u.isForward = true ∧ n ∉ u.given ∧
        ∃ fr' R', subFrame P wh u = some fr' ∧ resolveF (P.bound - 1) P fr' = .ok R' ∧ n ∈ names R' := by
  unfold resolve at hn
  cases hR : resolveOut P c with
  | crash => simp [hR, names] at hn
  | nofuel => simp [hR, names] at hn
  | ok R =>
    simp only [hR] at hn
    unfold resolveOut at hR
    cases hbd : P.bound with
    | zero => rw [hbd] at hR; simp [resolveF] at hR
    | succ f =>
      rw [hbd] at hR
      simpa using offered_source hb hR hn

/-- Every offered parameter carries name, type, default and kind of a definition of the program
    (a signature parameter or a `kwargs.pop/get` of some callable) unless the resolver marked it
    `Conditional<ast-resolver>` (the documented treatment of definitions that disagree) — for EVERY program. -/
theorem C13_keeps_sig (P : Prog) (c : CId) (p : Param) (hp : p ∈ resolve P c) :
    p.dflt.isCond = true ∨ ∃ q ∈ P.defs, sameSig p q := by
  unfold resolve at hp
  cases hR : resolveOut P c with
  | crash => simp [hR] at hp
  | nofuel => simp [hR] at hp
  | ok R =>
    simp only [hR] at hp
    exact sig_inv _ _ _ hR p hp

/-- Shadowing: the parameters of the visited signature are offered as they are, first, and nothing
    else is offered under one of their names — the child's type and default win. -/
theorem C13_own_parameters_win (P : Prog) (c : CId) (wh : Where) (body : Callable) (R : List Param)
    (hb : frameBody P c.frame = some (wh, body)) (hnd : (names body.params).Nodup)
    (hR : resolveOut P c = .ok R) :
    (∃ ext, R = body.params ++ ext) ∧
    ∀ p ∈ body.params, p ∈ R ∧ ∀ q ∈ R, q.name = p.name → q = p := by
  have hsh := resolveF_shape hR
  simp only [shapeOf, hb] at hsh
  obtain ⟨ext, hReq, hext⟩ := hsh
  refine ⟨⟨ext, hReq⟩, ?_⟩
  intro p hp
  subst hReq
  exact ⟨List.mem_append_left _ hp, fun q hq hname => own_unique hnd hext hp hq hname⟩


/-! ### programs spread over modules (`Jap/Core/ResolverMod.lean`): name resolution per defining module

Full statement: `∀ MP c n, n ∈ names (resolveM MP c) ↔ acceptsM MP c n` for well-formed linked programs.  It is FALSE
for the model, hence for the code, in exactly two lookups that `_parameter_resolvers.py` does differently from Python
(`modules_full_fails_two_arg_super`, `modules_full_fails_local_import_shadowed`; both are corpus cases confirmed on the
real resolver and interpreter).  `C13_exact_modules` carries their decidable complements as hypotheses. -/

/-- THE property for programs spread over any number of modules: every body is linked in the global table of
    the module that DEFINES it (the resolver: `inspect.getmodule(self.component)`; the interpreter: the function's
    `__globals__`), identifiers may denote different callables in different modules, constants may have different
    truth values per module — offered ⇔ accepted, provided no inherited `super(X, self)` is searched in a module that
    does not bind `X` by name (`noForeignTwoArgSuper`) and no import inside a body is shadowed by a module global
    (`noShadowedLocalImport`). -/
theorem C13_exact_modules (MP : MProg) (c : CId) (hS : noForeignTwoArgSuper MP = true) (hL : noShadowedLocalImport MP = true)
    (hW : WfProg (link MP) = true) (hc : c.valid MP.src = true)
    (hnc : resolveOutM MP c ≠ .crash) (n : String) :
    n ∈ names (resolveM MP c) ↔ acceptsM MP c n = true := by
  have e := linkS_eq_linkD hS hL
  unfold resolveOutM at hnc
  unfold resolveM acceptsM
  rw [e] at hnc ⊢
  exact C13_exact (linkD MP) c hW (by rw [link_valid]; exact hc) hnc n

/-- … with hypotheses on the program text only (`noPopClash` of the linked program): the resolver does not raise -/
theorem C13_exact_modules_syntactic (MP : MProg) (c : CId) (hS : noForeignTwoArgSuper MP = true)
    (hL : noShadowedLocalImport MP = true) (hW : WfProg (link MP) = true) (hC : noPopClash (link MP) = true)
    (hc : c.valid MP.src = true) (n : String) :
    n ∈ names (resolveM MP c) ↔ acceptsM MP c n = true := by
  refine C13_exact_modules MP c hS hL hW hc ?_ n
  unfold resolveOutM
  rw [linkS_eq_linkD hS hL]
  exact C13_no_crash (linkD MP) c hW hC

/-- … and every offered parameter keeps name, type, default and kind of a definition of the program as the resolver reads it. -/
theorem C13_keeps_sig_modules (MP : MProg) (c : CId) (p : Param) (hp : p ∈ resolveM MP c) :
    p.dflt.isCond = true ∨ ∃ q ∈ (linkS MP).defs, sameSig p q :=
  C13_keeps_sig (linkS MP) c p hp

/-- The globals of a module matter only for program text that lives in it: two source programs (no imports inside
    bodies, no foreign two-argument super) with the same text, module assignment and classmethod definers whose tables
    agree on every module that holds a body (`usesModule`) offer and accept the same.  In particular what a module that
    merely subclasses / imports binds under the identifiers used by the library's bodies is irrelevant.
    (Without `noForeignTwoArgSuper` this is FALSE for the resolver: `foreign_globals_matter_two_arg_super`.) -/
theorem C13_foreign_globals_irrelevant (MP MP' : MProg) (hs : MP'.src = MP.src) (hm : MP'.modOf = MP.modOf)
    (hcd : MP'.cmDef = MP.cmDef) (hl : MP.localImp = []) (hl' : MP'.localImp = [])
    (hS : noForeignTwoArgSuper MP = true) (hS' : noForeignTwoArgSuper MP' = true)
    (h : ∀ m, MP.usesModule m = true → MP'.moduleAt m = MP.moduleAt m) (c : CId) :
    resolveOutM MP' c = resolveOutM MP c ∧ ∀ n, acceptsM MP' c n = acceptsM MP c n := by
  have hl0 := link_congr MP MP' hs hm hcd hl hl' h
  unfold resolveOutM acceptsM
  rw [linkS_eq_linkD hS (nolocal_noShadow hl), linkS_eq_linkD hS' (nolocal_noShadow hl'), hl0]
  exact ⟨rfl, fun _ => rfl⟩


/-! ### type and default of the definition that binds the name at run time (`binder`)

Full statement ("each keeps the type and default of the signature it comes from"):
    ∀ P c p q, p ∈ resolve P c → binder P c p.name = some q → q.ty = p.ty ∧ q.dflt = p.dflt
FALSE for the model, hence for the code: `type_default_full_fails_nested_pop` (open finding
C13-nested-pop-takes-callee-signature).  Proved here: the binder is a definition of the program with that name
(`C13_binder_is_definition`), agreement for the parameters of the visited signature — shadowing, the child's type and
default win on both sides (`C13_binder_own`), and agreement under the explicit decidable hypothesis `defsAgree P n`
(every definition of the name in the program carries the same annotation and default: `C13_type_default_partial`).
`C13_type_default_exact` replaces `defsAgree` by the exact complement: the decidable `typeDefaultDiffers P c n`, computed
from the two independent definitions (`resolve`, `binder`); it is a restatement (no induction), it makes the remaining
class — a name defined with DIFFERENT signatures at several places of one call chain, none of them the visited signature —
decidable per program: the diamond is decided below (`defsAgree` fails there, the signatures still agree), the nested pop
is its positive instance.  The structural theorem "differs ⇒ the binder is a pop nested in an argument list" (the second
induction over frames) is NOT proved; the harness compares model `binder`, traced interpreter and offered parameter on
every generated program. -/

/-- whatever binds `n=` at run time is a definition of the program called `n`, and the call is accepted -/
theorem C13_binder_is_definition (P : Prog) (c : CId) (n : String) (q : Param) (h : binder P c n = some q) :
    q ∈ P.defs ∧ q.name = n ∧ accepts P c n = true := by
  unfold binder at h
  split at h
  · rename_i ha
    exact ⟨(binderF_ok _ _ _ h).1, (binderF_ok _ _ _ h).2, ha⟩
  · cases h

/-- Shadowing, both sides: a parameter of the visited signature is offered as it is (`C13_own_parameters_win`) and it IS
    the definition that binds the name when the component is called — for EVERY program. -/
theorem C13_binder_own (P : Prog) (c : CId) (wh : Where) (body : Callable)
    (hb : frameBody P c.frame = some (wh, body)) (hnd : (names body.params).Nodup) (p : Param) (hp : p ∈ body.params) :
    binder P c p.name = some p := by
  obtain ⟨ha, hbd⟩ := own_param_bound hb hnd hp
  unfold binder accepts
  rw [ha]
  exact hbd

/-- Type/default agreement under the forced hypothesis: when every definition of the name in the program carries the
    same annotation and default (`defsAgree`), an offered parameter that is not marked `Conditional` has exactly the
    annotation and default of the definition that binds it at run time — for EVERY program. -/
theorem C13_type_default_partial (P : Prog) (c : CId) (p q : Param) (hp : p ∈ resolve P c)
    (hnc : p.dflt.isCond = false) (hA : defsAgree P p.name = true) (hb : binder P c p.name = some q) :
    q.ty = p.ty ∧ q.dflt = p.dflt := by
  obtain ⟨hq, hqn, _⟩ := C13_binder_is_definition P c p.name q hb
  rcases C13_keeps_sig P c p hp with hc | ⟨d, hd, hdn, hdt, hdd, _⟩
  · rw [hnc] at hc; cases hc
  · have := defsAgree_eq hA hq hd hqn hdn
    exact ⟨this.1.trans hdt, this.2.trans hdd⟩


/-- Exact complement: an offered parameter has the annotation and default of its run-time binder iff the decidable
    `typeDefaultDiffers` is false — for EVERY program (definitional: both sides are computed from `resolve` / `binder`). -/
theorem C13_type_default_exact (P : Prog) (c : CId) (n : String) :
    typeDefaultDiffers P c n = false ↔
      ∀ p ∈ resolve P c, p.name = n → ∀ q, binder P c n = some q → q.ty = p.ty ∧ q.dflt = p.dflt :=
  typeDefaultDiffers_false

/-- `defsAgree` is one sufficient condition for it (the old partial theorem as a corollary) -/
theorem C13_type_default_of_defsAgree (P : Prog) (c : CId) (n : String)
    (hnc : ∀ p ∈ resolve P c, p.name = n → p.dflt.isCond = false) (hA : defsAgree P n = true) :
    typeDefaultDiffers P c n = false := by
  rw [C13_type_default_exact]
  intro p hp hn q hb
  subst hn
  exact C13_type_default_partial P c p q hp (hnc p hp rfl) hA hb

/-! ### tie: the statements of `_parameter_resolvers.py` that the model transcribes (regenerated into `Gen/ResolverSites.lean`) -/

theorem tie_getSignatureParameters : Jap.Gen.ResolverSites.getSignatureParameters = Tie.getSignatureParameters := rfl
theorem tie_getParameterOrigins : Jap.Gen.ResolverSites.getParameterOrigins = Tie.getParameterOrigins := rfl
theorem tie_removeGivenParameters : Jap.Gen.ResolverSites.removeGivenParameters = Tie.removeGivenParameters := rfl
theorem tie_getMroParameters : Jap.Gen.ResolverSites.getMroParameters = Tie.getMroParameters := rfl
theorem tie_mroContext : Jap.Gen.ResolverSites.mroContext = Tie.mroContext := rfl
theorem tie_astIsSuperCall : Jap.Gen.ResolverSites.astIsSuperCall = Tie.astIsSuperCall := rfl
theorem tie_astIsSupportedSuperCall : Jap.Gen.ResolverSites.astIsSupportedSuperCall = Tie.astIsSupportedSuperCall := rfl
theorem tie_astIsKwargsPopOrGet : Jap.Gen.ResolverSites.astIsKwargsPopOrGet = Tie.astIsKwargsPopOrGet := rfl
theorem tie_astGetCallKwargWithValue : Jap.Gen.ResolverSites.astGetCallKwargWithValue = Tie.astGetCallKwargWithValue := rfl
theorem tie_astGetCallPositionalIndexes : Jap.Gen.ResolverSites.astGetCallPositionalIndexes = Tie.astGetCallPositionalIndexes := rfl
theorem tie_astGetCallKeywordNames : Jap.Gen.ResolverSites.astGetCallKeywordNames = Tie.astGetCallKeywordNames := rfl
theorem tie_groupParameters : Jap.Gen.ResolverSites.groupParameters = Tie.groupParameters := rfl
theorem tie_replaceArgsAndKwargs : Jap.Gen.ResolverSites.replaceArgsAndKwargs = Tie.replaceArgsAndKwargs := rfl
theorem tie_splitArgsAndKwargs : Jap.Gen.ResolverSites.splitArgsAndKwargs = Tie.splitArgsAndKwargs := rfl
theorem tie_getComponentAndParent : Jap.Gen.ResolverSites.getComponentAndParent = Tie.getComponentAndParent := rfl
theorem tie_isClassmethod : Jap.Gen.ResolverSites.isClassmethod = Tie.isClassmethod := rfl
theorem tie_getSignatureParametersAndIndexes : Jap.Gen.ResolverSites.getSignatureParametersAndIndexes = Tie.getSignatureParametersAndIndexes := rfl
theorem tie_pvInit : Jap.Gen.ResolverSites.pvInit = Tie.pvInit := rfl
theorem tie_pvVisitAssign : Jap.Gen.ResolverSites.pvVisitAssign = Tie.pvVisitAssign := rfl
theorem tie_pvVisitCall : Jap.Gen.ResolverSites.pvVisitCall = Tie.pvVisitCall := rfl
theorem tie_pvVisitIf : Jap.Gen.ResolverSites.pvVisitIf = Tie.pvVisitIf := rfl
theorem tie_pvAddValue : Jap.Gen.ResolverSites.pvAddValue = Tie.pvAddValue := rfl
theorem tie_pvFindValuesUsage : Jap.Gen.ResolverSites.pvFindValuesUsage = Tie.pvFindValuesUsage := rfl
theorem tie_pvGetComponentGlobals : Jap.Gen.ResolverSites.pvGetComponentGlobals = Tie.pvGetComponentGlobals := rfl
theorem tie_pvGetNodeComponent : Jap.Gen.ResolverSites.pvGetNodeComponent = Tie.pvGetNodeComponent := rfl
theorem tie_pvMatchCallThatUsesAttr : Jap.Gen.ResolverSites.pvMatchCallThatUsesAttr = Tie.pvMatchCallThatUsesAttr := rfl
theorem tie_pvGetKwargsPopOrGetParameter : Jap.Gen.ResolverSites.pvGetKwargsPopOrGetParameter = Tie.pvGetKwargsPopOrGetParameter := rfl
theorem tie_pvGetParametersArgsAndKwargs : Jap.Gen.ResolverSites.pvGetParametersArgsAndKwargs = Tie.pvGetParametersArgsAndKwargs := rfl
theorem tie_pvGetParametersAttrUseInMembers : Jap.Gen.ResolverSites.pvGetParametersAttrUseInMembers = Tie.pvGetParametersAttrUseInMembers := rfl
theorem tie_pvGetParametersCallAttr : Jap.Gen.ResolverSites.pvGetParametersCallAttr = Tie.pvGetParametersCallAttr := rfl
theorem tie_pvGetParameters : Jap.Gen.ResolverSites.pvGetParameters = Tie.pvGetParameters := rfl

/-- the pinned tables are not empty (a site that is no longer found is a broken tie, not an empty agreement) -/
example : Tie.pvGetNodeComponent.length = 6 ∧ Tie.removeGivenParameters.length = 8 ∧ "module = inspect.getmodule(self.component)" ∈ Tie.pvGetNodeComponent := by decide

/-! ### concrete programs: non-vacuity and the counterexamples to the full statement -/

def dv (s : String) : DVal := ⟨s, s, s⟩
def pk (n t d : String) : Param := { name := n, ty := [t], dflt := .val (dv d), kind := .posOrKw }
def req (n t : String) : Param := { name := n, ty := [t], dflt := .empty, kind := .posOrKw }
def ko (n t d : String) : Param := { name := n, ty := [t], dflt := .val (dv d), kind := .kwOnly }
def al (u : Use) : GUse := ⟨.always, u⟩
def klass (init : Option Callable) (mro : List Nat) : Entry := .cls ⟨init, mro, [], []⟩

/-- `class Base: def __init__(self, a: int = 0, b: str = 'x')` -/
def base : Entry := klass (some ⟨[pk "a" "int" "0", pk "b" "str" "x"], false, []⟩) []

/-- a diamond with cooperative `super()` calls:
    K0(d=0, **kw) → object;  K1(K0)(b: int = 1, **kw);  K2(K0)(c='c', b: str = 'from-c', **kw) calls super(d=…);
    K3(K1, K2)(a=3, **kw); MRO of K3 = K1, K2, K0 (an input) -/
def diamond : Prog := ⟨[
  klass (some ⟨[pk "d" "int" "0"], true, [al (.superCall none 0 [])]⟩) [],
  klass (some ⟨[pk "b" "int" "1"], true, [al (.superCall none 0 [])]⟩) [0],
  klass (some ⟨[pk "c" "str" "c", pk "b" "str" "from-c"], true, [al (.superCall none 0 ["d"])]⟩) [0],
  klass (some ⟨[pk "a" "int" "3"], true, [al (.pop "z" (dv "9")), al (.superCall none 0 [])]⟩) [1, 2, 0]], []⟩

example : WfProg diamond = true := by decide
example : noPopClash diamond = true := by decide
example : resolveOut diamond (.entry 3) ≠ .crash := by decide
/-- offered: own `a`, the pop `z`, `b` with the type of K1 (first in the MRO), `c`; `d` is hard-coded by K2 -/
example : resolve diamond (.entry 3) =
    [pk "a" "int" "3", { name := "z", ty := [], dflt := .val (dv "9"), kind := .kwOnly }, pk "b" "int" "1", pk "c" "str" "c"] := by
  decide
example : accepts diamond (.entry 3) "b" = true ∧ accepts diamond (.entry 3) "d" = false ∧
    accepts diamond (.entry 3) "z" = true ∧ accepts diamond (.entry 3) "nope" = false := by decide
/-- seen from K2 alone (another linearisation) `d` is hard-coded as well, `b` is K2's own -/
example : names (resolve diamond (.entry 2)) = ["c", "b"] := by decide

/-- hard-coded positional + keyword-only + function chain + class without own `__init__` -/
def chain : Prog := ⟨[
  .fn ⟨[req "a" "int", pk "b" "str" "x", ko "c" "float" "2.5"], false, []⟩,
  .fn ⟨[pk "p" "int" "1"], true, [al (.pop "n" (dv "3")), al (.call (.entry 0) 1 ["c"])]⟩,
  klass (some ⟨[pk "k" "int" "0"], true, [al (.call (.entry 1) 0 ["p"])]⟩) [],
  klass none [2]], []⟩

example : WfProg chain = true := by decide
example : names (resolve chain (.entry 3)) = ["k", "n", "b"] := by decide
example : accepts chain (.entry 3) "a" = false ∧ accepts chain (.entry 3) "b" = true := by decide

/-- `**kwargs` kept in an attribute and forwarded later with hard-coded arguments, and a classmethod
    factory `cls(**kwargs)` asked for on a subclass that inherits it (the class lists what it offers):
      def f0(a: int = 0, b: str = 'x', c: float = 1.0)
      class K1:  __init__(self, e=1, **kw): kw.pop('z', 1); self._kw = kw      use(self): f0(1, c=…, **self._kw)
                 @classmethod mk(cls, q, r=1, **kw): return cls(**kw)
      class K2(K1): __init__(self, g=0, **kw): super().__init__(**kw)          (K2.mk is K1's)
      def f3(t='t', **kw): K2.mk('q', **kw) -/
def attrProg : Prog :=
  let mk : Callable := ⟨[req "q" "str", pk "r" "int" "1"], true, [al (.call .clsSelf 0 [])]⟩
  ⟨[.fn ⟨[pk "a" "int" "0", pk "b" "str" "x", pk "c" "float" "1.0"], false, []⟩,
    .cls ⟨some ⟨[pk "e" "int" "1"], true, [al (.pop "z" (dv "1")), al (.call (.attrEntry 0) 1 ["c"])]⟩, [], [], [mk]⟩,
    .cls ⟨some ⟨[pk "g" "int" "0"], true, [al (.superCall none 0 [])]⟩, [1], [], [mk]⟩,
    .fn ⟨[pk "t" "str" "t"], true, [al (.call (.classMeth 2 0) 1 [])]⟩], []⟩

example : WfProg attrProg = true ∧ noPopClash attrProg = true := by decide
example : names (resolve attrProg (.entry 1)) = ["e", "z", "b"] := by decide
example : names (resolve attrProg (.cmeth 2 0)) = ["q", "r", "g", "e", "z", "b"] := by decide
example : names (resolve attrProg (.entry 3)) = ["t", "r", "g", "e", "z", "b"] := by decide
example : accepts attrProg (.entry 3) "c" = false ∧ accepts attrProg (.entry 3) "q" = false ∧
    accepts attrProg (.entry 3) "b" = true ∧ accepts attrProg (.cmeth 2 0) "q" = true := by decide

/-- pops nested in the argument list of the forwarding call (evaluated before the call binds):
      class K0: __init__(self, label: str = 'l', size: int = 1, color: str = 'c')
      class K1(K0): __init__(self, **kw): super().__init__(label=kw.pop('title', 'untitled'), **kw)
      def f2(**kw): return K0(kw.pop('t2', 't'), size=kw.pop('level', 1) * 4, **kw) -/
def nestedProg : Prog := ⟨[
  klass (some ⟨[pk "label" "str" "l", pk "size" "int" "1", pk "color" "str" "c"], false, []⟩) [],
  klass (some ⟨[], true, [al (.superCall none 0 ["label"]), al (.popIn "title" (dv "untitled"))]⟩) [0],
  .fn ⟨[], true, [al (.call (.entry 0) 1 ["size"]), al (.popIn "t2" (dv "t")), al (.popIn "level" (dv "1"))]⟩], []⟩

example : WfProg nestedProg = true := by decide
/-- the resolver records the call first, then the nested pop (AST-visit order) -/
example : names (resolve nestedProg (.entry 1)) = ["size", "color", "title"] := by decide
example : names (resolve nestedProg (.entry 2)) = ["color", "t2", "level"] := by decide
example : accepts nestedProg (.entry 1) "title" = true ∧ accepts nestedProg (.entry 1) "label" = false ∧
    accepts nestedProg (.entry 2) "level" = true ∧ accepts nestedProg (.entry 2) "size" = false := by decide


/-- two modules, the same identifier `build` (symbol 0) bound to different callables:
      lib  (module 0, constants flipped): def build(a: int = 0, b: str = 'x', c: float = 1.0)
                                          class K1: __init__(self, e=1, **kw): kw.pop('z', 1)
                                                                               if not FLAG: build(1, c=…, **kw)   (live in lib)
      user (module 1): def build(y: int = 5, a: str = 's', w: bool = True)     (another callable, same identifier)
                       class K3(K1): pass                                      (symbol 1 = `K3`)
                       def f4(t='t', **kw): K3(**kw) -/
def libUser (userGlobals : List (Nat × Nat)) : MProg :=
  { src := ⟨[
      .fn ⟨[pk "a" "int" "0", pk "b" "str" "x", pk "c" "float" "1.0"], false, []⟩,
      klass (some ⟨[pk "e" "int" "1"], true, [al (.pop "z" (dv "1")), ⟨.const false, .call (.entry 0) 1 ["c"]⟩]⟩) [],
      .fn ⟨[pk "y" "int" "5", pk "a" "str" "s", pk "w" "bool" "True"], false, []⟩,
      klass none [1],
      .fn ⟨[pk "t" "str" "t"], true, [al (.call (.entry 1) 0 [])]⟩], []⟩,
    modOf := [0, 0, 1, 1, 1],
    cmDef := [[], [], [], [], []],
    mods := [⟨[(0, 0)], true⟩, ⟨userGlobals, false⟩] }

example : WfProg (link (libUser [(0, 2), (1, 3)])) = true ∧ noPopClash (link (libUser [(0, 2), (1, 3)])) = true ∧
    (CId.entry 3).valid (libUser [(0, 2), (1, 3)]).src = true ∧ noForeignTwoArgSuper (libUser [(0, 2), (1, 3)]) = true ∧
    noShadowedLocalImport (libUser [(0, 2), (1, 3)]) = true := by decide
/-- the inherited `__init__` forwards to the LIBRARY's `build`, whatever `build` is in the user module -/
example : names (resolveM (libUser [(0, 2), (1, 3)]) (.entry 3)) = ["e", "z", "b"] := by decide
example : names (resolveM (libUser [(0, 2), (1, 3)]) (.entry 4)) = ["t", "e", "z", "b"] := by decide
example : acceptsM (libUser [(0, 2), (1, 3)]) (.entry 3) "b" = true ∧ acceptsM (libUser [(0, 2), (1, 3)]) (.entry 3) "w" = false ∧
    acceptsM (libUser [(0, 2), (1, 3)]) (.entry 3) "c" = false := by decide
/-- the user module holds text (`f4`): its table matters for `K3` … -/
example : (libUser [(0, 2), (1, 3)]).usesModule 1 = true ∧ names (resolveM (libUser [(0, 2)]) (.entry 4)) = ["t"] := by decide
/-- … a module WITHOUT text is irrelevant (`C13_foreign_globals_irrelevant` is not vacuous): a third module that only subclasses -/
def threeMods (g : List (Nat × Nat)) : MProg :=
  { libUser [(0, 2), (1, 3)] with
    src := ⟨(libUser []).src.entries ++ [klass none [1]], []⟩, modOf := [0, 0, 1, 1, 1, 2], cmDef := [[], [], [], [], [], []],
    mods := [⟨[(0, 0)], true⟩, ⟨[(0, 2), (1, 3)], false⟩, ⟨g, false⟩] }
example : (threeMods []).usesModule 2 = false ∧ (threeMods []).usesModule 0 = true := by decide
example : names (resolveM (threeMods [(0, 2)]) (.entry 5)) = ["e", "z", "b"] ∧
    resolveOutM (threeMods [(0, 2)]) (.entry 5) = resolveOutM (threeMods []) (.entry 5) := by decide
/-- with the constants of the library NOT flipped the forwarding call is dead code there -/
example : names (resolveM { libUser [(0, 2), (1, 3)] with mods := [⟨[(0, 0)], false⟩, ⟨[(0, 2), (1, 3)], false⟩] } (.entry 3)) = ["e", "z"] := by decide


/-- finding C13-two-arg-super-foreign-module.  lib (module 0): K0(a: int = 0, b: str = 'x');
      class K1(K0): __init__(self, c=1, **kw): super(K1, self).__init__(**kw);   class K2(K1): pass
    user (module 1, table `g`; `from lib import K2`): class K3(K2): pass.     symbols 10..13 = the names K0..K3 -/
def superW (g : List (Nat × Nat)) : MProg :=
  { src := ⟨[
      klass (some ⟨[pk "a" "int" "0", pk "b" "str" "x"], false, []⟩) [],
      klass (some ⟨[pk "c" "int" "1"], true, [al (.superCall (some 1) 0 [])]⟩) [0],
      klass none [1, 0],
      klass none [2, 1, 0]], []⟩,
    modOf := [0, 0, 0, 1], cmDef := [[], [], [], []],
    mods := [⟨[(10, 0), (11, 1), (12, 2)], false⟩, ⟨g, false⟩],
    nameSym := [10, 11, 12, 13] }

theorem modules_full_fails_two_arg_super :
    WfProg (link (superW [(12, 2), (13, 3)])) = false ∧ noForeignTwoArgSuper (superW [(12, 2), (13, 3)]) = false ∧
    (linkS (superW [(12, 2), (13, 3)])).superMap = [((3, 1), none)] ∧
    names (resolveM (superW [(12, 2), (13, 3)]) (.entry 3)) = ["c"] ∧
    names (resolveM (superW [(12, 2), (13, 3)]) (.entry 2)) = ["c", "a", "b"] ∧
    ¬ ("a" ∈ names (resolveM (superW [(12, 2), (13, 3)]) (.entry 3)) ↔ acceptsM (superW [(12, 2), (13, 3)]) (.entry 3) "a" = true) := by
  decide

/-- the same program when the user module also does `from lib import K1`: nothing is lost -/
example : noForeignTwoArgSuper (superW [(11, 1), (12, 2), (13, 3)]) = true ∧
    names (resolveM (superW [(11, 1), (12, 2), (13, 3)]) (.entry 3)) = ["c", "a", "b"] := by decide

/-- the user module holds no body, yet what it binds changes what the resolver offers -/
theorem foreign_globals_matter_two_arg_super :
    (superW [(12, 2), (13, 3)]).usesModule 1 = false ∧
    resolveOutM (superW [(11, 1), (12, 2), (13, 3)]) (.entry 3) ≠ resolveOutM (superW [(12, 2), (13, 3)]) (.entry 3) ∧
    ∀ n, acceptsM (superW [(11, 1), (12, 2), (13, 3)]) (.entry 3) n = acceptsM (superW [(12, 2), (13, 3)]) (.entry 3) n := by
  refine ⟨by decide, by decide, fun n => ?_⟩
  have := link_congr (superW [(12, 2), (13, 3)]) (superW [(11, 1), (12, 2), (13, 3)]) rfl rfl rfl rfl rfl
    (fun m hm => by
      match m with
      | 0 => rfl
      | 1 => exact absurd hm (by decide)
      | (k + 2) => rfl)
  unfold acceptsM
  rw [this]

/-- finding C13-local-import-shadowed-by-module-global.  lib (module 0): def f0(a: int = 0, b: str = 'x')
    user (module 1): def f0(zz: int = 3, a: str = 's');  def f2(t='t', **kw): from lib import f0; f0(**kw)
    symbol 0 = the identifier `f0`, symbol 1 = that identifier as bound by the import statement in the body -/
def localW : MProg :=
  { src := ⟨[
      .fn ⟨[pk "a" "int" "0", pk "b" "str" "x"], false, []⟩,
      .fn ⟨[pk "zz" "int" "3", pk "a" "str" "s"], false, []⟩,
      .fn ⟨[pk "t" "str" "t"], true, [al (.call (.entry 1) 0 [])]⟩], []⟩,
    modOf := [0, 1, 1], cmDef := [[], [], []],
    mods := [⟨[(0, 0)], false⟩, ⟨[(0, 1)], false⟩],
    localImp := [(1, (0, 0))] }

theorem modules_full_fails_local_import_shadowed :
    WfProg (link localW) = true ∧ noForeignTwoArgSuper localW = true ∧ noShadowedLocalImport localW = false ∧
    names (resolveM localW (.entry 2)) = ["t", "zz", "a"] ∧
    ¬ ("zz" ∈ names (resolveM localW (.entry 2)) ↔ acceptsM localW (.entry 2) "zz" = true) ∧
    ¬ ("b" ∈ names (resolveM localW (.entry 2)) ↔ acceptsM localW (.entry 2) "b" = true) := by
  decide

/-- without the module-level `f0` the import in the body is what both sides see -/
example : noShadowedLocalImport { localW with mods := [⟨[(0, 0)], false⟩, ⟨[], false⟩] } = true ∧
    names (resolveM { localW with mods := [⟨[(0, 0)], false⟩, ⟨[], false⟩] } (.entry 2)) = ["t", "a", "b"] := by decide


/-- the diamond: `b` is defined as `int = 1` by K1 and as `str = 'from-c'` by K2; offered and bound: K1's -/
example : binder diamond (.entry 3) "b" = some (pk "b" "int" "1") ∧ pk "b" "int" "1" ∈ resolve diamond (.entry 3) ∧
    defsAgree diamond "b" = false ∧ binder diamond (.entry 3) "d" = none ∧
    binder diamond (.entry 3) "z" = some (popParam "z" (dv "9")) := by decide
/-- `defsAgree` is satisfiable by a name with several definitions (`a` of `base` and of a child repeating it) -/
example : defsAgree chain "b" = true ∧ defsAgree diamond "c" = true := by decide

/-- finding C13-nested-pop-takes-callee-signature:
      class K0: __init__(self, h: int, e: int = 1, *, f: str = 'x')
      class K1(K0): __init__(self, **kw): super().__init__(1, kw.pop('f', 'x'), **kw)
    `f` is offered with K0's annotation `str`; the value given for it is consumed by the pop (no annotation) -/
def progNestedPop : Prog := ⟨[
  klass (some ⟨[req "h" "int", pk "e" "int" "1", ko "f" "str" "x"], false, []⟩) [],
  klass (some ⟨[], true, [al (.superCall none 2 []), al (.popIn "f" (dv "x"))]⟩) [0]], []⟩

theorem type_default_full_fails_nested_pop :
    WfProg progNestedPop = true ∧ ko "f" "str" "x" ∈ resolve progNestedPop (.entry 1) ∧
    binder progNestedPop (.entry 1) "f" = some (popParam "f" (dv "x")) ∧
    (popParam "f" (dv "x")).ty ≠ (ko "f" "str" "x").ty := by decide

/-- the diamond case, decided: `b` has two different definitions on the chain (`defsAgree` is false), none of them the
    visited signature, and the offered parameter still is the one that binds — for every name of the program -/
example : defsAgree diamond "b" = false ∧
    ∀ n ∈ ["a", "z", "b", "c", "d", "nope"], typeDefaultDiffers diamond (.entry 3) n = false := by decide
/-- … and `typeDefaultDiffers` is not vacuous: the nested pop is its instance -/
example : typeDefaultDiffers progNestedPop (.entry 1) "f" = true ∧ typeDefaultDiffers progNestedPop (.entry 1) "e" = false := by decide

/-- #14b: `extra = kwargs.get('extra', 5); super().__init__(**kwargs)` -/
def progGet : Prog := ⟨[base,
  klass (some ⟨[pk "c" "int" "1"], true, [al (.get "extra" (dv "5")), al (.superCall none 0 [])]⟩) [0]], []⟩

theorem full_fails_get_forward :
    ¬ ("extra" ∈ names (resolve progGet (.entry 1)) ↔ accepts progGet (.entry 1) "extra" = true) := by decide

example : WfProg progGet = false := by decide

/-- #14d: `a = kwargs.pop('a', 9); super().__init__(a=5, **kwargs)` -/
def progPopHard : Prog := ⟨[base,
  klass (some ⟨[pk "c" "int" "1"], true, [al (.pop "a" (dv "9")), al (.superCall none 0 ["a"])]⟩) [0]], []⟩

theorem full_fails_pop_hardcoded :
    ¬ ("a" ∈ names (resolve progPopHard (.entry 1)) ↔ accepts progPopHard (.entry 1) "a" = true) := by decide

example : WfProg progPopHard = false := by decide

/-- `class K2(K1): pass`, `K1.__init__(self, **kwargs): super().__init__(1, **kwargs)`, `K0.__init__(self, b, c='x')` -/
def progInherited : Prog := ⟨[
  klass (some ⟨[req "b" "int", pk "c" "str" "x"], false, []⟩) [],
  klass (some ⟨[], true, [al (.superCall none 1 [])]⟩) [0],
  klass none [1, 0]], []⟩

theorem full_fails_inherited_init :
    ¬ ("c" ∈ names (resolve progInherited (.entry 2)) ↔ accepts progInherited (.entry 2) "c" = true) := by decide

example : WfProg progInherited = false := by decide
/-- asked directly, the class that defines the `__init__` is fine -/
example : names (resolve progInherited (.entry 1)) = ["c"] := by decide

/-- K1 pops `a` with another default than the parent's (→ Conditional, tuple origin, first in its list);
    K2(K1) pops `z` and forwards: `group_parameters` raises, `z` is lost -/
def progCrash : Prog := ⟨[base,
  klass (some ⟨[], true, [al (.pop "a" (dv "7")), al (.superCall none 0 [])]⟩) [0],
  klass (some ⟨[], true, [al (.pop "z" (dv "7")), al (.superCall none 0 [])]⟩) [1, 0]], []⟩

theorem full_fails_conditional_crash :
    WfProg progCrash = true ∧ noPopClash progCrash = false ∧ resolveOut progCrash (.entry 2) = .crash ∧
    ¬ ("z" ∈ names (resolve progCrash (.entry 2)) ↔ accepts progCrash (.entry 2) "z" = true) := by decide

/-- `def __init__(self, x: int = 1, **kwargs): pass` — every name is accepted, none can be offered -/
def progUnused : Prog := ⟨[klass (some ⟨[pk "x" "int" "1"], true, []⟩) []], []⟩

theorem full_fails_kwargs_unused :
    ¬ ("anything" ∈ names (resolve progUnused (.entry 0)) ↔ accepts progUnused (.entry 0) "anything" = true) := by decide

end Jap.Props.C13

import Jap.Core.Resolver

namespace Jap.Props.C13
open Jap.Resolver

theorem placeholder : names ([] : List Param) = [] := rfl

end Jap.Props.C13

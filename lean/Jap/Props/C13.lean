/-
C13 — Parameters resolved through **kwargs are exactly those the code accepts.

`resolve` (the resolver's algorithm) and `accepts` (Python's keyword binding along the real MRO)
are two independent definitions in `Jap/Core/Resolver.lean`; both are tied to the real
`get_signature_parameters` / the real interpreter by the correspondence of harness/props/c13.py.

Full statement (what the property asks, for every program of the mini language):
    ∀ P c n,  n ∈ names (resolve P c) ↔ accepts P c n = true
It is FALSE for the model, hence for the code (each witness below is also a corpus case that the
harness confirms on the real resolver and the real interpreter):
  * `full_fails_get_forward`        kwargs.get(n, d) followed by forwarding (DESIGN §7 #14b)
  * `full_fails_pop_hardcoded`      a popped name hard-coded in the forwarding call (#14d)
  * `full_fails_inherited_init`     class without own __init__, inherited __init__ hard-codes positionals
  * `full_fails_conditional_crash`  AttributeError inside group_parameters → fallback resolver
  * `full_fails_kwargs_unused`      **kwargs taken and never forwarded (every name accepted; `WfProg` demands a use)
`C13_exact_syntactic` is the statement under two decidable hypotheses on the program text, `WfProg` and
`noPopClash`; `C13_exact` is more general (any program on which the resolver does not raise).
`C13_exact` is the statement under the decidable hypothesis `WfProg` (acyclic; every body that takes
**kwargs is pops-then-one-forwarding-call, no `get`, no popped name hard-coded, hard-coded positionals
fit; a class without own __init__ inherits one whose super() call hard-codes no more positionals than it
has parameters) and "the AST resolver does not hit the AttributeError" (`resolveOut P c ≠ .crash`).
-/
import Jap.Lemmas.ResolverClean

namespace Jap.Props.C13
open Jap.Resolver

/-- Termination is an obligation: on an acyclic program (callees and base classes have smaller
    indices) `bound P` = (number of entries + 1) × (longest MRO + 4) units of fuel are enough — the
    resolver never runs dry and more fuel never changes the answer. -/
theorem C13_fuel_suffices (P : Prog) (c : CId) (hP : P.acyclic = true) (hc : c.valid P = true) :
    resolveOut P c ≠ .nofuel ∧ ∀ fuel, P.bound ≤ fuel → resolveF fuel P c.frame = resolveOut P c := by
  have hv := goodFrame_valid (valid_good hc)
  have hmu := mu_lt_bound hv
  obtain ⟨h1, h2⟩ := fuel_stable hP P.bound c.frame hv hmu
  exact ⟨h1, fun fuel hf => h2 fuel (by omega)⟩

/-- THE property: for every well-formed program — any hierarchy depth, any MRO linearisation given as
    input, functions, methods, classmethods — the offered names are exactly the names a call can pass:
    no offered parameter raises *unexpected keyword* / *multiple values*, no acceptable parameter is
    missing, hard-coded ones are excluded. -/
theorem C13_exact (P : Prog) (c : CId) (hW : WfProg P = true) (hc : c.valid P = true)
    (hnc : resolveOut P c ≠ .crash) (n : String) :
    n ∈ names (resolve P c) ↔ accepts P c n = true := by
  have hg := valid_good hc
  have hmu := mu_lt_bound (goodFrame_valid hg)
  have hnf := (C13_fuel_suffices P c (WfProg_acyclic hW) hc).1
  unfold resolve accepts
  cases hR : resolveOut P c with
  | crash => exact absurd hR hnc
  | nofuel => exact absurd hR hnf
  | ok R =>
    simp only
    exact frame_exact hW n (P.bound) c.frame hmu hg P.bound P.bound hmu hmu R hR

/-- A purely syntactic, decidable sufficient condition for "the resolver does not raise": wherever a
    popped name is also defined elsewhere in the program, the defaults agree (`noPopClash`). -/
theorem C13_no_crash (P : Prog) (c : CId) (hW : WfProg P = true) (hC : noPopClash P = true) :
    resolveOut P c ≠ .crash :=
  (clean_ok hW hC P.bound c.frame).1

/-- `C13_exact` with hypotheses on the program text only. -/
theorem C13_exact_syntactic (P : Prog) (c : CId) (hW : WfProg P = true) (hC : noPopClash P = true)
    (hc : c.valid P = true) (n : String) :
    n ∈ names (resolve P c) ↔ accepts P c n = true :=
  C13_exact P c hW hc (C13_no_crash P c hW hC) n

/-- On such programs every offered parameter IS a definition of the program — name, type, default and
    kind of the signature (or pop) it comes from, no `Conditional` — and no name is offered twice. -/
theorem C13_keeps_sig_strict (P : Prog) (c : CId) (hW : WfProg P = true) (hC : noPopClash P = true) :
    (names (resolve P c)).Nodup ∧ ∀ p ∈ resolve P c, ∃ q ∈ P.defs, sameSig p q := by
  unfold resolve
  cases hR : resolveOut P c with
  | crash => simp [names]
  | nofuel => simp [names]
  | ok R =>
    simp only
    have := (clean_ok hW hC P.bound c.frame).2 R hR
    exact ⟨this.1, fun p hp => (this.2 p hp).2⟩

/-- instantiating with an offered parameter never raises unexpected-keyword (one direction, named) -/
theorem C13_offered_accepted (P : Prog) (c : CId) (hW : WfProg P = true) (hc : c.valid P = true)
    (p : Param) (hp : p ∈ resolve P c) : accepts P c p.name = true := by
  by_cases hnc : resolveOut P c = .crash
  · simp [resolve, hnc] at hp
  · exact (C13_exact P c hW hc hnc p.name).1 (mem_names.2 ⟨p, hp, rfl⟩)

/-- A name that every use of `kwargs` in the visited body hard-codes (forwarding calls) or does not
    mention (pops/gets), and that is not an own parameter, is not offered — for EVERY program, no
    well-formedness needed (this is what applying `removed_params` after grouping buys). -/
theorem C13_hardcoded_not_offered (P : Prog) (c : CId) (wh : Where) (body : Callable) (n : String)
    (hb : frameBody P c.frame = some (wh, body))
    (hown : n ∉ names body.params)
    (huses : ∀ u ∈ liveUses body.uses, (∀ p ∈ useDefs u, p.name ≠ n) ∧ (u.isForward = true → n ∈ u.given)) :
    n ∉ names (resolve P c) := by
  unfold resolve
  cases hR : resolveOut P c with
  | crash => simp [names]
  | nofuel => simp [names]
  | ok R =>
    simp only
    unfold resolveOut at hR
    cases hbd : P.bound with
    | zero => rw [hbd] at hR; simp [resolveF] at hR
    | succ f =>
      rw [hbd] at hR
      exact hardcoded_not_in hb hR hown huses

/-- Nothing is invented, whatever the body looks like (conditional chains included, no well-formedness
    needed): an offered name is a parameter of the visited signature, or is read by a `kwargs.pop/get`
    of the body, or is offered by the callee of one of its forwarding calls that does not hard-code it. -/
theorem C13_offered_has_source (P : Prog) (c : CId) (wh : Where) (body : Callable) (n : String)
    (hb : frameBody P c.frame = some (wh, body)) (hn : n ∈ names (resolve P c)) :
    n ∈ names body.params ∨ (∃ u ∈ liveUses body.uses, ∃ p ∈ useDefs u, p.name = n) ∨
      ∃ u ∈ liveUses body.uses, u.isForward = true ∧ n ∉ u.given ∧
        ∃ fr' R', subFrame P wh u = some fr' ∧ resolveF (P.bound - 1) P fr' = .ok R' ∧ n ∈ names R' := by
  unfold resolve at hn
  cases hR : resolveOut P c with
  | crash => simp [hR, names] at hn
  | nofuel => simp [hR, names] at hn
  | ok R =>
    simp only [hR] at hn
    unfold resolveOut at hR
    cases hbd : P.bound with
    | zero => rw [hbd] at hR; simp [resolveF] at hR
    | succ f =>
      rw [hbd] at hR
      simpa using offered_source hb hR hn

/-- Every offered parameter carries name, type, default and kind of a definition of the program
    (a signature parameter or a `kwargs.pop/get` of some callable) unless the resolver marked it
    `Conditional<ast-resolver>` (the documented treatment of definitions that disagree) — for EVERY program. -/
theorem C13_keeps_sig (P : Prog) (c : CId) (p : Param) (hp : p ∈ resolve P c) :
    p.dflt.isCond = true ∨ ∃ q ∈ P.defs, sameSig p q := by
  unfold resolve at hp
  cases hR : resolveOut P c with
  | crash => simp [hR] at hp
  | nofuel => simp [hR] at hp
  | ok R =>
    simp only [hR] at hp
    exact sig_inv _ _ _ hR p hp

/-- Shadowing: the parameters of the visited signature are offered as they are, first, and nothing
    else is offered under one of their names — the child's type and default win. -/
theorem C13_own_parameters_win (P : Prog) (c : CId) (wh : Where) (body : Callable) (R : List Param)
    (hb : frameBody P c.frame = some (wh, body)) (hnd : (names body.params).Nodup)
    (hR : resolveOut P c = .ok R) :
    (∃ ext, R = body.params ++ ext) ∧
    ∀ p ∈ body.params, p ∈ R ∧ ∀ q ∈ R, q.name = p.name → q = p := by
  have hsh := resolveF_shape hR
  simp only [shapeOf, hb] at hsh
  obtain ⟨ext, hReq, hext⟩ := hsh
  refine ⟨⟨ext, hReq⟩, ?_⟩
  intro p hp
  subst hReq
  exact ⟨List.mem_append_left _ hp, fun q hq hname => own_unique hnd hext hp hq hname⟩

/-! ### concrete programs: non-vacuity and the counterexamples to the full statement -/

def dv (s : String) : DVal := ⟨s, s, s⟩
def pk (n t d : String) : Param := { name := n, ty := [t], dflt := .val (dv d), kind := .posOrKw }
def req (n t : String) : Param := { name := n, ty := [t], dflt := .empty, kind := .posOrKw }
def ko (n t d : String) : Param := { name := n, ty := [t], dflt := .val (dv d), kind := .kwOnly }
def al (u : Use) : GUse := ⟨.always, u⟩
def klass (init : Option Callable) (mro : List Nat) : Entry := .cls ⟨init, mro, [], []⟩

/-- `class Base: def __init__(self, a: int = 0, b: str = 'x')` -/
def base : Entry := klass (some ⟨[pk "a" "int" "0", pk "b" "str" "x"], false, []⟩) []

/-- a diamond with cooperative `super()` calls:
    K0(d=0, **kw) → object;  K1(K0)(b: int = 1, **kw);  K2(K0)(c='c', b: str = 'from-c', **kw) calls super(d=…);
    K3(K1, K2)(a=3, **kw); MRO of K3 = K1, K2, K0 (an input) -/
def diamond : Prog := ⟨[
  klass (some ⟨[pk "d" "int" "0"], true, [al (.superCall none 0 [])]⟩) [],
  klass (some ⟨[pk "b" "int" "1"], true, [al (.superCall none 0 [])]⟩) [0],
  klass (some ⟨[pk "c" "str" "c", pk "b" "str" "from-c"], true, [al (.superCall none 0 ["d"])]⟩) [0],
  klass (some ⟨[pk "a" "int" "3"], true, [al (.pop "z" (dv "9")), al (.superCall none 0 [])]⟩) [1, 2, 0]]⟩

example : WfProg diamond = true := by decide
example : noPopClash diamond = true := by decide
example : resolveOut diamond (.entry 3) ≠ .crash := by decide
/-- offered: own `a`, the pop `z`, `b` with the type of K1 (first in the MRO), `c`; `d` is hard-coded by K2 -/
example : resolve diamond (.entry 3) =
    [pk "a" "int" "3", { name := "z", ty := [], dflt := .val (dv "9"), kind := .kwOnly }, pk "b" "int" "1", pk "c" "str" "c"] := by
  decide
example : accepts diamond (.entry 3) "b" = true ∧ accepts diamond (.entry 3) "d" = false ∧
    accepts diamond (.entry 3) "z" = true ∧ accepts diamond (.entry 3) "nope" = false := by decide
/-- seen from K2 alone (another linearisation) `d` is hard-coded as well, `b` is K2's own -/
example : names (resolve diamond (.entry 2)) = ["c", "b"] := by decide

/-- hard-coded positional + keyword-only + function chain + class without own `__init__` -/
def chain : Prog := ⟨[
  .fn ⟨[req "a" "int", pk "b" "str" "x", ko "c" "float" "2.5"], false, []⟩,
  .fn ⟨[pk "p" "int" "1"], true, [al (.pop "n" (dv "3")), al (.call (.entry 0) 1 ["c"])]⟩,
  klass (some ⟨[pk "k" "int" "0"], true, [al (.call (.entry 1) 0 ["p"])]⟩) [],
  klass none [2]]⟩

example : WfProg chain = true := by decide
example : names (resolve chain (.entry 3)) = ["k", "n", "b"] := by decide
example : accepts chain (.entry 3) "a" = false ∧ accepts chain (.entry 3) "b" = true := by decide

/-- `**kwargs` kept in an attribute and forwarded later with hard-coded arguments, and a classmethod
    factory `cls(**kwargs)` asked for on a subclass that inherits it (the class lists what it offers):
      def f0(a: int = 0, b: str = 'x', c: float = 1.0)
      class K1:  __init__(self, e=1, **kw): kw.pop('z', 1); self._kw = kw      use(self): f0(1, c=…, **self._kw)
                 @classmethod mk(cls, q, r=1, **kw): return cls(**kw)
      class K2(K1): __init__(self, g=0, **kw): super().__init__(**kw)          (K2.mk is K1's)
      def f3(t='t', **kw): K2.mk('q', **kw) -/
def attrProg : Prog :=
  let mk : Callable := ⟨[req "q" "str", pk "r" "int" "1"], true, [al (.call .clsSelf 0 [])]⟩
  ⟨[.fn ⟨[pk "a" "int" "0", pk "b" "str" "x", pk "c" "float" "1.0"], false, []⟩,
    .cls ⟨some ⟨[pk "e" "int" "1"], true, [al (.pop "z" (dv "1")), al (.call (.attrEntry 0) 1 ["c"])]⟩, [], [], [mk]⟩,
    .cls ⟨some ⟨[pk "g" "int" "0"], true, [al (.superCall none 0 [])]⟩, [1], [], [mk]⟩,
    .fn ⟨[pk "t" "str" "t"], true, [al (.call (.classMeth 2 0) 1 [])]⟩]⟩

example : WfProg attrProg = true ∧ noPopClash attrProg = true := by decide
example : names (resolve attrProg (.entry 1)) = ["e", "z", "b"] := by decide
example : names (resolve attrProg (.cmeth 2 0)) = ["q", "r", "g", "e", "z", "b"] := by decide
example : names (resolve attrProg (.entry 3)) = ["t", "r", "g", "e", "z", "b"] := by decide
example : accepts attrProg (.entry 3) "c" = false ∧ accepts attrProg (.entry 3) "q" = false ∧
    accepts attrProg (.entry 3) "b" = true ∧ accepts attrProg (.cmeth 2 0) "q" = true := by decide

/-- pops nested in the argument list of the forwarding call (evaluated before the call binds):
      class K0: __init__(self, label: str = 'l', size: int = 1, color: str = 'c')
      class K1(K0): __init__(self, **kw): super().__init__(label=kw.pop('title', 'untitled'), **kw)
      def f2(**kw): return K0(kw.pop('t2', 't'), size=kw.pop('level', 1) * 4, **kw) -/
def nestedProg : Prog := ⟨[
  klass (some ⟨[pk "label" "str" "l", pk "size" "int" "1", pk "color" "str" "c"], false, []⟩) [],
  klass (some ⟨[], true, [al (.superCall none 0 ["label"]), al (.popIn "title" (dv "untitled"))]⟩) [0],
  .fn ⟨[], true, [al (.call (.entry 0) 1 ["size"]), al (.popIn "t2" (dv "t")), al (.popIn "level" (dv "1"))]⟩]⟩

example : WfProg nestedProg = true := by decide
/-- the resolver records the call first, then the nested pop (AST-visit order) -/
example : names (resolve nestedProg (.entry 1)) = ["size", "color", "title"] := by decide
example : names (resolve nestedProg (.entry 2)) = ["color", "t2", "level"] := by decide
example : accepts nestedProg (.entry 1) "title" = true ∧ accepts nestedProg (.entry 1) "label" = false ∧
    accepts nestedProg (.entry 2) "level" = true ∧ accepts nestedProg (.entry 2) "size" = false := by decide

/-- #14b: `extra = kwargs.get('extra', 5); super().__init__(**kwargs)` -/
def progGet : Prog := ⟨[base,
  klass (some ⟨[pk "c" "int" "1"], true, [al (.get "extra" (dv "5")), al (.superCall none 0 [])]⟩) [0]]⟩

theorem full_fails_get_forward :
    ¬ ("extra" ∈ names (resolve progGet (.entry 1)) ↔ accepts progGet (.entry 1) "extra" = true) := by decide

example : WfProg progGet = false := by decide

/-- #14d: `a = kwargs.pop('a', 9); super().__init__(a=5, **kwargs)` -/
def progPopHard : Prog := ⟨[base,
  klass (some ⟨[pk "c" "int" "1"], true, [al (.pop "a" (dv "9")), al (.superCall none 0 ["a"])]⟩) [0]]⟩

theorem full_fails_pop_hardcoded :
    ¬ ("a" ∈ names (resolve progPopHard (.entry 1)) ↔ accepts progPopHard (.entry 1) "a" = true) := by decide

example : WfProg progPopHard = false := by decide

/-- `class K2(K1): pass`, `K1.__init__(self, **kwargs): super().__init__(1, **kwargs)`, `K0.__init__(self, b, c='x')` -/
def progInherited : Prog := ⟨[
  klass (some ⟨[req "b" "int", pk "c" "str" "x"], false, []⟩) [],
  klass (some ⟨[], true, [al (.superCall none 1 [])]⟩) [0],
  klass none [1, 0]]⟩

theorem full_fails_inherited_init :
    ¬ ("c" ∈ names (resolve progInherited (.entry 2)) ↔ accepts progInherited (.entry 2) "c" = true) := by decide

example : WfProg progInherited = false := by decide
/-- asked directly, the class that defines the `__init__` is fine -/
example : names (resolve progInherited (.entry 1)) = ["c"] := by decide

/-- K1 pops `a` with another default than the parent's (→ Conditional, tuple origin, first in its list);
    K2(K1) pops `z` and forwards: `group_parameters` raises, `z` is lost -/
def progCrash : Prog := ⟨[base,
  klass (some ⟨[], true, [al (.pop "a" (dv "7")), al (.superCall none 0 [])]⟩) [0],
  klass (some ⟨[], true, [al (.pop "z" (dv "7")), al (.superCall none 0 [])]⟩) [1, 0]]⟩

theorem full_fails_conditional_crash :
    WfProg progCrash = true ∧ noPopClash progCrash = false ∧ resolveOut progCrash (.entry 2) = .crash ∧
    ¬ ("z" ∈ names (resolve progCrash (.entry 2)) ↔ accepts progCrash (.entry 2) "z" = true) := by decide

/-- `def __init__(self, x: int = 1, **kwargs): pass` — every name is accepted, none can be offered -/
def progUnused : Prog := ⟨[klass (some ⟨[pk "x" "int" "1"], true, []⟩) []]⟩

theorem full_fails_kwargs_unused :
    ¬ ("anything" ∈ names (resolve progUnused (.entry 0)) ↔ accepts progUnused (.entry 0) "anything" = true) := by decide

end Jap.Props.C13

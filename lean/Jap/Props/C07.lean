import Jap.Core.Validate
import Jap.Lemmas.ValidateStyles
import Jap.Lemmas.Styles
import Jap.Lemmas.StylesParse
import Jap.Gen.SetDefaultsLoop
import Jap.Gen.SignatureOptional
import Jap.Gen.MoveParserRequired
import Jap.Gen.ArgvItemRoute
import Jap.Lemmas.StylesX
/-!
# C07 — equivalent ways of declaring a nested group behave identically

Model (Core/Validate.lean): the four declaration constructors as *action tables*
  `declDotted`      — `parser.add_argument("--key.name", type, default | required)` per field,
  `declDataclass`   — `parser.add_argument("--key", type=Dataclass)` (dispatch of `add_argument` to `add_class_arguments`),
  `declClassArgs`   — `parser.add_class_arguments(Class, key)` (`_add_signature_arguments`, `_add_signature_parameter`,
                      `_create_group_if_requested` with its `_ActionConfigLoad`),
  `declInnerParser` — an inner parser attached with `ActionParser` (`_move_parser_actions`: prefixed dests, option
                      strings and `required_args`, plus the `_ActionConfigLoad` of the key),
and `parse7`: defaults, then the sources in order (environment, argv / config / object), then `validate`;
the dump lists the resulting configuration in its order, so "same result" covers values, accept/reject and dump.

FULL STATEMENT (what the property asks): `∀ s s' key fields items, parse7 ld (decl s key fields) key items =
parse7 ld (decl s' key fields) key items`.
It is FALSE for the code when `s = dotted`: that style creates no action for the group key
(`C07_dotted_lacks_whole`), so whole-group JSON on the command line is rejected there only
(`C07_whole_group_counterexample`; open finding C07-dotted-whole-group, DESIGN section 7 row 9).
Proved: the full statement for the three other styles (`C07_styles_nondotted`), and for all four styles on inputs that do
not assign the group as a whole (`C07_styles_partial`), for all keys, loaders, field lists and input sequences —
first for flat field lists (`*_flat`, with the signature rules for Optional / underscore parameters), then for RECURSIVE
field lists with DECLARED group defaults (Core/Styles.lean), where `C07_same_table` includes the defaults and
`C07_set_defaults_all_entries` is the statement about `set_defaults` that seeded defect C07-2B broke.
-/
namespace Jap.Props.C07
open Jap.Validate

/-- **C07_same_table (flat lists, with the signature rules).**  For every field list whose defaulted fields are not named `_...`:
    the dataclass / class-arguments constructors (which DERIVE `default=None`, not required, for a field whose annotation is
    Optional of ANYTHING and that has no default: `normOpt`) produce the same dests, option strings, types, defaults and the same
    required set as the dotted / inner-parser constructors applied to the fields as one states them on plain arguments
    (`fields.map normOpt`); the three non-dotted styles the same whole-group option `--key`; the dotted style none. -/
theorem C07_same_table_flat (key : String) (fields : List Field) (h : wfFields fields = true) :
    declDataclass key fields = declClassArgs key fields
    ∧ declClassArgs key fields = (declDotted key (fields.map normOpt)).withWhole (some key)
    ∧ declInnerParser key (fields.map normOpt) = (declDotted key (fields.map normOpt)).withWhole (some key)
    ∧ (declDotted key (fields.map normOpt)).whole = none :=
  ⟨rfl, declClass_eq key h, declInner_eq key _, rfl⟩

/-- the tables of the four styles differ at most in the whole-group option -/
theorem C07_table_of_style_flat (s : Style) (key : String) (fields : List Field) (h : wfFields fields = true) :
    decl s key fields = (declDotted key (fields.map normOpt)).withWhole (if s = .dotted then none else some key) := by
  obtain ⟨h1, h2, h3, _⟩ := C07_same_table_flat key fields h
  cases s with
  | dotted => rfl
  | dataclass => exact h1.trans h2
  | classArgs => exact h2
  | inner => exact h3

/-- **the Optional rule, on the annotation being Optional of anything**: a field without default is required in the signature
    styles exactly when its type is not Optional; `Optional[List[int]]`, `Optional[Dict[str,int]]`, `Optional[Tuple[int,str]]`,
    `Optional[Literal['a','b']]` and `Optional[int]` alike get the default `None` and are not required (what seed C07-3A broke
    for the parametrised generics) -/
theorem C07_optional_without_default (key name : String) (ty : Ty) (hn : name.front ≠ '_') :
    (declClassArgs key [⟨name, ty, none⟩]).required = (if isOptTy ty then [] else [key ++ "." ++ name])
    ∧ (declClassArgs key [⟨name, ty, none⟩]).entries.map (·.default) = [Val.null]
    ∧ (isOptTy .optInt && isOptTy .optListInt && isOptTy .optDictStrInt && isOptTy .optTupleIntStr && isOptTy .optLitAB) = true := by
  have hw : wfField ⟨name, ty, none⟩ = true := by
    unfold wfField
    have : decide (name.front = '_') = false := decide_eq_false hn
    simp only [this, Bool.and_false, Bool.not_false]
  have hs := sigParam_wf hw
  refine ⟨?_, ?_, rfl⟩
  · unfold declClassArgs
    simp only [List.filterMap_cons, List.filterMap_nil, hs]
    by_cases h : isOptTy ty = true
    · simp [normOpt, normOptD, h, addArgument]
    · simp [normOpt, normOptD, h, addArgument]
  · unfold declClassArgs
    simp only [List.filterMap_cons, List.filterMap_nil, hs]
    by_cases h : isOptTy ty = true
    · simp [normOpt, normOptD, h, addArgument]
    · simp [normOpt, normOptD, h, addArgument]

/-- the extractor tie: in `_add_signature_parameter` the no-default branch asks `is_optional(annotation)` with the annotation as its
    ONLY argument (no reference type restricting which Optionals count) and then sets `default = None` -/
theorem C07_optional_rule_source :
    Jap.Gen.SignatureOptional.isOptionalArgs = ["annotation"] ∧ Jap.Gen.SignatureOptional.setsDefaultNone = true
    ∧ Jap.Gen.SignatureOptional.guardedByNoDefault = true := by
  decide

/-- **C07_styles (the three styles with a group action), full strength**: same values, same accept/reject, same order of the
    dumped configuration, for every input sequence — including whole-group JSON options and variables. -/
theorem C07_styles_nondotted_flat (ld : String → Val) (s s' : Style) (key : String) (fields : List Field) (items : List Item)
    (h : wfFields fields = true) (hs : s ≠ .dotted) (hs' : s' ≠ .dotted) :
    parse7 ld (decl s key fields) key items = parse7 ld (decl s' key fields) key items := by
  rw [C07_table_of_style_flat s key fields h, C07_table_of_style_flat s' key fields h]
  simp [hs, hs']

/-- **C07_styles_partial**: all four styles, for every input sequence that does not assign the group as a whole
    (`Item.usesWhole`: the `--key` option, the variable of the key, a string for the key in a configuration). -/
theorem C07_styles_partial_flat (ld : String → Val) (s s' : Style) (key : String) (fields : List Field) (items : List Item)
    (h : wfFields fields = true) (hu : ∀ it ∈ items, Item.usesWhole key it = false) :
    parse7 ld (decl s key fields) key items = parse7 ld (decl s' key fields) key items := by
  rw [C07_table_of_style_flat s key fields h, C07_table_of_style_flat s' key fields h, parse7_whole hu, parse7_whole hu]

/-- witness (DESIGN section 7 row 9): the dotted style has no whole-group option, whatever the fields -/
theorem C07_dotted_lacks_whole (key : String) (fields : List Field) : (declDotted key fields).whole = none := rfl

private def ld0 : String → Val := fun s => if s = "5" then .int 5 else .str s
private def flds : List Field :=
  [⟨"alpha", .int, none⟩, ⟨"beta", .str, some (.str "s0")⟩, ⟨"gamma", .listInt, some (.list [.int 1])⟩,
   ⟨"delta", .optInt, some .null⟩]

/-- the FULL statement fails: `--grp={"alpha": 5}` is accepted by the dataclass style and is an unrecognized argument for
    the dotted style -/
theorem C07_whole_group_counterexample :
    parse7 ld0 (decl .dataclass "grp" flds) "grp" [.wholeOpt (.dict [("alpha", .int 5)])]
      = .ok [("grp", .dict [("alpha", .int 5), ("beta", .str "s0"), ("gamma", .list [.int 1]), ("delta", .null)])]
    ∧ parse7 ld0 (decl .dotted "grp" flds) "grp" [.wholeOpt (.dict [("alpha", .int 5)])]
      = .error (.unrecognized "grp") := ⟨rfl, rfl⟩

/-- the environment variable of the group key is read by the inner-parser style and never by the dotted style -/
theorem C07_whole_env_counterexample :
    parse7 ld0 (decl .inner "grp" flds) "grp" [.wholeEnv (.dict [("alpha", .int 5)])]
      = .ok [("grp", .dict [("alpha", .int 5), ("beta", .str "s0"), ("gamma", .list [.int 1]), ("delta", .null)])]
    ∧ parse7 ld0 (decl .dotted "grp" flds) "grp" [.wholeEnv (.dict [("alpha", .int 5)])]
      = .error (.required [.key "grp", .key "alpha"] 0) := ⟨rfl, rfl⟩

/-! ### non-vacuity -/

/-- the hypotheses are satisfiable: a well-formed list with every type, a required field, list appends, a config tree -/
example : wfFields flds = true := rfl
example : ∀ it ∈ [Item.opt "grp.alpha" (.str "5"), .opt "grp.gamma+" (.str "5"), .tree [("grp", .dict [("beta", .str "x")])]],
    Item.usesWhole "grp" it = false := by decide
example : parse7 ld0 (decl .inner "grp" flds) "grp"
      [.opt "grp.alpha" (.str "5"), .opt "grp.gamma+" (.str "5"), .tree [("grp", .dict [("beta", .str "x")])]]
    = .ok [("grp", .dict [("alpha", .int 5), ("beta", .str "x"), ("gamma", .list [.int 1, .int 5]), ("delta", .null)])] := rfl
/-- rejecting inputs are covered too: an unknown key in the tree, a missing required field -/
example : parse7 ld0 (decl .classArgs "grp" flds) "grp" [.tree [("grp", .dict [("alpha", .int 1), ("zz9", .int 1)])]]
    = .error (.unknown [.key "grp", .key "zz9"] 0) := rfl
example : parse7 ld0 (decl .dotted "grp" flds) "grp" [] = .error (.required [.key "grp", .key "alpha"] 0) := rfl
/-- the tables, computed -/
example : (decl .inner "grp" flds).required = ["grp.alpha"]
    ∧ ((decl .inner "grp" flds).entries.map (·.optKeys)) = [["grp.alpha"], ["grp.beta"], ["grp.gamma", "grp.gamma+"], ["grp.delta"]] :=
  ⟨rfl, rfl⟩
/-- ... and what goes wrong outside `wfFields`: a required Optional field is not required in the signature styles -/
example : (declDotted "g" [⟨"o", .optInt, none⟩]).required = ["g.o"] ∧ (declClassArgs "g" [⟨"o", .optInt, none⟩]).required = [] :=
  ⟨rfl, rfl⟩

/-! # recursive field lists with declared group defaults (Core/Styles.lean)

A field is a typed leaf or a sub-group, to any depth; defaults are declared for groups (`default=` of `add_class_arguments` /
of the dataclass-typed argument for the outermost group `D`; the default instance of a dataclass-typed parameter for a
sub-group).  The theorems below have NO side conditions on the field list or on the defaults mappings. -/

/-- the group keys: the outermost group and every sub-group, at every depth -/
def groupPaths (key : String) (fields : List FieldR) : List (List String) := [key] :: groupsL [key] fields

/-- **C07_set_defaults_all_entries.**  `set_defaults` performs EVERY leaf assignment of the defaults mapping, in order, whatever
    the position of an entry relative to sub-group entries: (1) it equals the fold of the flattened assignment list over the table;
    (2) every argument ends with the last value assigned to its destination (else keeps its default), `required_args` and the
    group options are untouched; (3) in particular an entry placed AFTER a sub-group entry takes effect (what seed C07-2B broke). -/
theorem C07_set_defaults_all_entries (pre : List String) (D : DMap) (t : TableR) :
    setDefs pre D t = applyAssigns t (flatD pre D)
    ∧ (setDefs pre D t).entries = t.entries.map (fun e => { e with default := lastA e.path (flatD pre D) e.default })
    ∧ (setDefs pre D t).required = t.required ∧ (setDefs pre D t).wholes = t.wholes
    ∧ (∀ (A : DMap) (n : String) (m : DMap) (k : String) (v : Val) (B : DMap) (e : EntryR),
        D = A ++ (n, .map m) :: (k, .val v) :: B → e ∈ t.entries → e.path = pre ++ [k] →
        (∀ a ∈ flatD pre B, a.1 ≠ pre ++ [k]) → { e with default := v } ∈ (setDefs pre D t).entries) := by
  obtain ⟨h1, h2, h3⟩ := setDefs_entries pre D t
  refine ⟨setDefs_eq_fold pre D t, h1, h2, h3, ?_⟩
  intro A n m k v B e hD he hp hB
  rw [h1, hD]
  simp only [updE, List.mem_map]
  refine ⟨e, he, ?_⟩
  have hf : flatD pre (A ++ (n, DVal.map m) :: (k, DVal.val v) :: B)
      = (flatD pre A ++ flatD (pre ++ [n]) m) ++ ((pre ++ [k], v) :: flatD pre B) := by
    rw [flatD_append]; simp [flatD, flatDV]
  rw [hf, lastA_append, hp]
  simp only [lastA, if_true]
  rw [lastA_nohit _ hB]

/-- the extractor tie for the theorem above: in `ActionsContainer.set_defaults` the `_ActionConfigLoad` (whole-group) branch
    expands the mapping, calls `set_defaults` on it and ends with `continue`; it holds no `return` / `break` / `raise`, nor does
    the loop body -/
theorem C07_set_defaults_continue :
    Jap.Gen.SetDefaultsLoop.branchLeavesLoop = false ∧ Jap.Gen.SetDefaultsLoop.branchEndsWithContinue = true
    ∧ Jap.Gen.SetDefaultsLoop.branchRecurses = true ∧ Jap.Gen.SetDefaultsLoop.loopBodyLeaves = false := by
  decide

/-! ### where the inner-parser style takes its required keys from

`ActionParser._move_parser_actions` hands the outer parser `{prefix + "." + x for x in subparser.required_args}`: the inner
parser's required SET, whatever put a key there.  `required_args` is written by `add_argument(required=True)` (which also flags
the action `_required`), but also WITHOUT any flag by `_create_group_if_requested(required=True)` — i.e. by
`add_subclass_arguments(Base, key, required=True)` — and link targets are removed from it while their flag stays.  The model
has the set only (`Table.required`, `TableR.required`), and `moved` maps exactly that set. -/

/-- **C07_moved_required.**  The required keys of an inner parser attached under `n` are the inner parser's required keys with
    the prefix — all of them and nothing else, for every inner table (however its required set came about). -/
theorem C07_moved_required (n : String) (t : TableR) : (t.moved n).required = t.required.map (n :: ·) := rfl

/-- the same for the flat tables: `declInnerParser` carries over the required set of the inner `add_argument`s -/
theorem C07_moved_required_flat (key : String) (fields : List Field) :
    (declInnerParser key fields).required
      = (((fields.map fun f => addArgument f.name f.name f.ty f.default).map (·.2)).flatten).map (fun x => key ++ "." ++ x) := rfl

/-- the extractor tie: in `_move_parser_actions` the name `required_args` is assigned once, the set comprehension
    `{prefix + '.' + x for x in subparser.required_args}` (no filter), it is what `parser.required_args.update` receives, nothing
    else writes to the outer parser's `required_args`, and the `_required` flags of the actions are not read -/
theorem C07_inner_required_source :
    Jap.Gen.MoveParserRequired.requiredArgsAssigned = ["{prefix + '.' + x for x in subparser.required_args}"]
    ∧ Jap.Gen.MoveParserRequired.prefixedInnerRequiredSet = true
    ∧ Jap.Gen.MoveParserRequired.outerUpdates = ["required_args"]
    ∧ Jap.Gen.MoveParserRequired.otherWritesToOuterRequired = []
    ∧ Jap.Gen.MoveParserRequired.readsRequiredFlag = false := by
  decide

/-- **C07_same_table (recursive grammar, declared defaults).**  For every key, every defaults mapping and every recursive field
    list the four constructors produce the same destinations, option strings, types, DEFAULTS and the same required set: the
    default of every leaf is the declared group default where one was given (the outermost declaration wins, `effL`), else
    the class default — in every style; the dataclass, class-arguments and inner-parser styles also the same whole-group options
    (one per group, at every level); the dotted style none. -/
theorem C07_same_table (key : String) (D : DMap) (fields : List FieldR) :
    declDataclassR key D fields = declClassArgsR key D fields
    ∧ declClassArgsR key D fields = (declDottedR key D fields).withWholes (groupPaths key fields)
    ∧ declInnerR key D fields = (declDottedR key D fields).withWholes (groupPaths key fields)
    ∧ (declDottedR key D fields).wholes = [] := by
  refine ⟨rfl, ?_, ?_, dottedL_wholes _ _⟩
  · obtain ⟨h1, h2, h3⟩ := setDefs_entries [key] D ((⟨[], [], [[key]]⟩ : TableR).append (sigL [key] fields))
    obtain ⟨g1, g2⟩ := sigL_dotted [key] D fields
    have hw := sigL_wholes [key] fields
    unfold declClassArgsR declDottedR TableR.withWholes groupPaths
    simp only [sigF, List.nil_append]
    cases hT : setDefs [key] D ((⟨[], [], [[key]]⟩ : TableR).append (sigL [key] fields)) with
    | mk es rq ws =>
      rw [hT] at h1 h2 h3
      simp only [TableR.append, List.nil_append, List.singleton_append] at h1 h2 h3
      simp only [TableR.mk.injEq]
      exact ⟨by rw [h1, g1], by rw [h2, g2], by rw [h3, hw]⟩
  · obtain ⟨g1, g2⟩ := dottedL_inner [key] (effL D fields)
    have hw := innerL_wholes [key] (effL D fields)
    rw [groupsL_eff] at hw
    unfold declInnerR declDottedR TableR.withWholes TableR.moved groupPaths
    simp only [TableR.mk.injEq]
    refine ⟨?_, ?_, ?_⟩
    · rw [g1]; simp [prefE]
    · rw [g2]; simp
    · rw [← hw]; simp

theorem C07_table_of_style (s : Style) (key : String) (D : DMap) (fields : List FieldR) :
    declR s key D fields = (declDottedR key D fields).withWholes (if s = .dotted then [] else groupPaths key fields) := by
  obtain ⟨h1, h2, h3, h4⟩ := C07_same_table key D fields
  cases s with
  | dotted =>
    simp only [declR, if_true, TableR.withWholes]
    cases hT : declDottedR key D fields with
    | mk es rq ws => rw [hT] at h4; simp only at h4; rw [h4]
  | dataclass => exact h1.trans h2
  | classArgs => exact h2
  | inner => exact h3

/-- the parse in one style: defaults, the sources in order, `validate` against the spec tree of the declaration -/
def parseStyle (ld : String → Val) (s : Style) (key : String) (D : DMap) (fields : List FieldR) (items : List ItemR) : Except Err KV :=
  parseR ld (declR s key D fields) (specR (s != .dotted) key fields) items

/-- **C07_styles (dataclass / class arguments / inner parser), full strength, recursive grammar with declared defaults**:
    same values, same accept/reject, same order of the dumped configuration, for every input sequence. -/
theorem C07_styles_nondotted (ld : String → Val) (s s' : Style) (key : String) (D : DMap) (fields : List FieldR) (items : List ItemR)
    (hs : s ≠ .dotted) (hs' : s' ≠ .dotted) :
    parseStyle ld s key D fields items = parseStyle ld s' key D fields items := by
  unfold parseStyle
  rw [C07_table_of_style s, C07_table_of_style s']
  have e1 : (s != .dotted) = true := by cases s <;> simp at hs ⊢
  have e2 : (s' != .dotted) = true := by cases s' <;> simp at hs' ⊢
  simp [hs, hs', e1, e2]

/-- **C07_styles_partial (all four styles), recursive grammar with declared defaults.**  For inputs that do not assign a group as a
    whole (`ItemR.usesWhole`: no `--group` option / variable, no string for a group key in a configuration tree) the four styles
    apply the sources identically; the parse results are equal provided no group key of the resulting configuration holds a
    string (`hres`, a decidable condition on the outcome — it holds automatically for flat lists: `C07_styles_partial_flat`). -/
theorem C07_styles_partial (ld : String → Val) (s s' : Style) (key : String) (D : DMap) (fields : List FieldR) (items : List ItemR)
    (hu : ∀ it ∈ items, ItemR.usesWhole (groupPaths key fields) it = false)
    (hres : ∀ cfg, applyItemsR ld (declDottedR key D fields) items (declDottedR key D fields).defaults = .ok cfg →
      noStrKVs (specR true key fields) cfg = true) :
    parseStyle ld s key D fields items = parseStyle ld s' key D fields items := by
  have key_lemma : ∀ st : Style, parseStyle ld st key D fields items
      = parseR ld (declDottedR key D fields) (specR false key fields) items := by
    intro st
    unfold parseStyle parseR
    rw [C07_table_of_style st]
    have hsub : ∀ q ∈ (if st = Style.dotted then [] else groupPaths key fields), q ∈ groupPaths key fields := by
      intro q hq; by_cases h : st = .dotted <;> simp [h] at hq ⊢; exact hq
    have hd : ∀ q ∈ (declDottedR key D fields).wholes, q ∈ groupPaths key fields := by
      intro q hq
      have : (declDottedR key D fields).wholes = [] := dottedL_wholes _ _
      rw [this] at hq; cases hq
    have hdef : ((declDottedR key D fields).withWholes (if st = Style.dotted then [] else groupPaths key fields)).defaults
        = (declDottedR key D fields).defaults := rfl
    rw [hdef, applyItemsR_wholes hd hsub items _ hu]
    cases hA : applyItemsR ld (declDottedR key D fields) items (declDottedR key D fields).defaults with
    | error e => rfl
    | ok cfg =>
      simp only []
      have hno := hres cfg hA
      cases st with
      | dotted => rfl
      | dataclass =>
        have : validate ld (specR false key fields) cfg = validate ld (specR true key fields) cfg := by
          rw [← specR_erase true]; exact validate_erase _ _ hno
        have hb : (Style.dataclass != Style.dotted) = true := rfl
        rw [hb, this]
      | classArgs =>
        have : validate ld (specR false key fields) cfg = validate ld (specR true key fields) cfg := by
          rw [← specR_erase true]; exact validate_erase _ _ hno
        have hb : (Style.classArgs != Style.dotted) = true := rfl
        rw [hb, this]
      | inner =>
        have : validate ld (specR false key fields) cfg = validate ld (specR true key fields) cfg := by
          rw [← specR_erase true]; exact validate_erase _ _ hno
        have hb : (Style.inner != Style.dotted) = true := rfl
        rw [hb, this]
  rw [key_lemma s, key_lemma s']

/-! ### witnesses and non-vacuity (recursive grammar) -/

private def fldsR : List FieldR :=
  [.leaf "a" .int (some (.int 0)) none,
   .sub "n" [("x", .val (.int 4))] [.leaf "x" .int (some (.int 0)) none, .leaf "y" .str (some (.str "s")) none,
                                     .sub "deep" [] [.leaf "k" .listInt (some (.list [])) none]],
   .leaf "b" .int (some (.int 0)) none, .leaf "c" .listInt (some (.list [])) none]
private def dR : DMap := [("a", .val (.int 1)), ("n", .map [("x", .val (.int 5)), ("deep", .map [("k", .val (.list [.int 2]))])]),
                           ("b", .val (.int 7)), ("c", .val (.list [.int 3]))]

/-- computed: the defaults declared AFTER the sub-group entry (`b`, `c`) take effect, the outer declaration (`n.x = 5`) wins over
    the sub-group's own (`4`), in the signature styles exactly as stated directly in the dotted style -/
example : ((declClassArgsR "g" dR fldsR).entries.map fun e => (e.path, e.default))
    = [(["g", "a"], .int 1), (["g", "n", "x"], .int 5), (["g", "n", "y"], .str "s"), (["g", "n", "deep", "k"], .list [.int 2]),
       (["g", "b"], .int 7), (["g", "c"], .list [.int 3])] := rfl
example : (declClassArgsR "g" dR fldsR).wholes = [["g"], ["g", "n"], ["g", "n", "deep"]] ∧ (declInnerR "g" dR fldsR).wholes = [["g"], ["g", "n"], ["g", "n", "deep"]] := ⟨rfl, rfl⟩
/-- the FULL statement fails for the dotted style on recursive lists too: a sub-group option -/
theorem C07_sub_group_option_counterexample :
    parseStyle ld0 .inner "g" dR fldsR [.wholeOpt ["g", "n"] (.dict [("y", .str "z")])]
      = .ok [("g", .dict [("a", .int 1), ("n", .dict [("x", .int 5), ("y", .str "z"), ("deep", .dict [("k", .list [.int 2])])]),
                           ("b", .int 7), ("c", .list [.int 3])])]
    ∧ parseStyle ld0 .dotted "g" dR fldsR [.wholeOpt ["g", "n"] (.dict [("y", .str "z")])] = .error (.unrecognized "g.n") := ⟨rfl, rfl⟩
/-- non-vacuity of `C07_styles_partial`: the hypotheses hold for a mixed input (options, an append, a nested tree) -/
example : (∀ it ∈ [ItemR.opt ["g", "n", "x"] false (.str "5"), .opt ["g", "c"] true (.str "5"), .tree [("g", .dict [("n", .dict [("y", .str "q")])])]],
      ItemR.usesWhole (groupPaths "g" fldsR) it = false)
    ∧ parseStyle ld0 .dotted "g" dR fldsR [.opt ["g", "n", "x"] false (.str "5"), .opt ["g", "c"] true (.str "5"), .tree [("g", .dict [("n", .dict [("y", .str "q")])])]]
      = .ok [("g", .dict [("a", .int 1), ("n", .dict [("x", .int 5), ("y", .str "q"), ("deep", .dict [("k", .list [.int 2])])]),
                           ("b", .int 7), ("c", .list [.int 3, .int 5])])] := ⟨by decide, rfl⟩

/-! ### command-line items that are not exact option strings (`ActionTypeHint.parse_argv_item`, then argparse's lookup)

`_parse_optional` first asks `parse_argv_item`: an item `--a.b.c` that is no option string goes to the PARENT action
`_find_parent_action` finds ONLY IF that action carries a type hint (a class- / dict-typed argument owning nested keys); the
loader `--g` of a group (`_ActionConfigLoad`, present in the dataclass / class / inner-parser styles, absent in the dotted one)
has none and is ignored.  Then argparse: exact option, else the unique option the item is a prefix of, else unrecognized. -/

inductive Route where
  | exact (opt : String) | parent (dest : String) | abbrev (opt : String) | ambiguous | unknown
deriving DecidableEq, Repr

/-- `opts`: the option keys of the parser; `typed`: dests of the actions with a type hint that own nested keys -/
def routeOpt (opts typed : List String) (k : String) : Route :=
  if opts.contains k then .exact k
  else match typed.find? (fun d => (d.toList ++ ['.']).isPrefixOf k.toList) with
    | some d => .parent d
    | none =>
      match opts.filter (fun o => k.toList.isPrefixOf o.toList) with
      | [o] => .abbrev o
      | [] => .unknown
      | _ => .ambiguous

/-- the statements of `parse_argv_item` as audited: the parent found for a dotted item is used only under `if typehint:` -/
theorem C07_argv_item_source :
    Jap.Gen.ArgvItemRoute.parseArgvItem =
      ["0: parser = subclass_arg_parser.get()", "0: action = None", "0: sep = None", "0: if arg_string.startswith('--'):",
       "1: arg_base, explicit_arg = (arg_string, None)", "1: if '=' in arg_string:",
       "2: arg_base, sep, explicit_arg = arg_string.partition('=')",
       "1: if '.' in arg_base and arg_base not in parser._option_string_actions:",
       "2: action = _find_parent_action(parser, arg_base[2:])", "0: typehint = typehint_from_action(action)", "0: if typehint:",
       "1: if parse_optional_num_return == 4:", "2: return (action, arg_base, sep, explicit_arg)", "1: else:",
       "2: if parse_optional_num_return == 1:", "3: return [(action, arg_base, sep, explicit_arg)]",
       "1: return (action, arg_base, explicit_arg)", "0: return None"] := rfl

/-- a signature-derived member gets `enable_path` (a string value naming an existing file is replaced by the file's content) only as
    `sub_configs and (class-typed)`: one assignment, one use — the four styles give a list- / str-typed member the same `enable_path=False` -/
theorem C07_signature_enable_path_source :
    Jap.Gen.ArgvItemRoute.signatureEnablePath =
      ["enable_path = sub_configs and (is_subclass_typehint or ActionTypeHint.is_return_subclass_typehint(annotation))",
       "keyword enable_path=enable_path"] := rfl

/-- **C07_route_same_with_loaders.**  Where an item below the group key goes does not depend on whether the group (and its
    sub-groups) have loader options: for every option list, every set of typed parents, every list of loader options `ls` none of
    which the item is a prefix of (a member item `--g.x…` is never a prefix of `--g`; for sub-group loaders this is the generator's
    proviso), the lookup with the loaders added gives what the lookup without them gives. -/
theorem C07_route_same_with_loaders (opts typed ls : List String) (k : String)
    (hl : ∀ l ∈ ls, k.toList.isPrefixOf l.toList = false) :
    routeOpt (opts ++ ls) typed k = routeOpt opts typed k := by
  have hnc : ls.contains k = false := by
    cases hc : ls.contains k with
    | false => rfl
    | true =>
      have hm : k ∈ ls := by simpa using hc
      have h1 := hl k hm
      have h2 : k.toList.isPrefixOf k.toList = true := by simp
      rw [h2] at h1
      cases h1
  have hf : ls.filter (fun o => k.toList.isPrefixOf o.toList) = [] := by
    rw [List.filter_eq_nil_iff]
    intro l hm
    simp [hl l hm]
  unfold routeOpt
  simp only [List.contains_append, hnc, Bool.or_false, List.filter_append, hf, List.append_nil]

/-- non-vacuity, computed: the four styles of the group `g` with members `count`, `limits`, `tags` (a list: `tags` and `tags+`) -/
example : routeOpt ["g.count", "g.limits", "g.tags", "g.tags+"] [] "g.coun" = .abbrev "g.count"
    ∧ routeOpt (["g.count", "g.limits", "g.tags", "g.tags+"] ++ ["g"]) [] "g.coun" = .abbrev "g.count"
    ∧ routeOpt (["g.count", "g.limits", "g.tags", "g.tags+"] ++ ["g"]) [] "g.zzz" = .unknown
    ∧ routeOpt (["g.count", "g.limits", "g.tags", "g.tags+"] ++ ["g"]) [] "g.ta" = .ambiguous
    ∧ routeOpt (["g.count", "g.model"] ++ ["g"]) ["g.model"] "g.model.init_args.x" = .parent "g.model"
    ∧ (∀ l ∈ ["g"], ("g.coun").toList.isPrefixOf l.toList = false) := by
  refine ⟨rfl, rfl, rfl, rfl, rfl, ?_⟩
  intro l hl
  simp only [List.mem_singleton] at hl
  subst hl
  rfl

/-! ## the wider member grammar (`FieldX`, Core/StylesX.lean)

Members may be leaves, dataclass-typed members (nested groups, dataclass in dataclass to any depth), `Optional[Dataclass]` members
(`Node.optGroup`), `List[Dataclass]` members (`Node.listOf (.group ..)`) — the dataclass of such a member again over this grammar — and
class-typed members.  Proved by structural induction over the field list (Lemmas/StylesX.lean). -/

/-- **C07_same_table_X.**  For every key and every field list of the wider grammar the four declarations produce THE SAME ACTIONS
    (destination, `+` option, kind, default / required) — `actsL`: one action per leaf / Optional[Dataclass] / List[Dataclass] / class member at
    its dotted path, none for the fields of the dataclass of such a member — and they differ exactly in three lists:
    `wholes` (dotted: none; the other three: the key and every nested dataclass-typed member),
    `helps` (inner-parser: none; the other three: every class-typed member),
    `lenientNull` (dataclass / class styles: none; dotted / inner-parser: the required class-typed members declared with add_subclass_arguments). -/
theorem C07_same_table_X (key : String) (fields : List FieldX) :
    (∀ s, (declX s key fields).entries = actsL [key] fields)
    ∧ (∀ s, (declX s key fields).wholes = if s = .dotted then [] else [key] :: groupsXL [key] fields)
    ∧ (∀ s, (declX s key fields).helps = if s = .inner then [] else clsPathsL allCls [key] fields)
    ∧ (∀ s, (declX s key fields).lenientNull =
        if s = .dotted ∨ s = .inner then clsPathsL reqVia [key] fields else []) := by
  have hd := declDottedX_eq key fields
  have hi := declInnerX_eq key fields
  have hsg := declSigX_eq key fields
  simp only [declX] at hd hi
  refine ⟨?_, ?_, ?_, ?_⟩ <;> intro s <;> cases s <;> simp [declX, hd, hi, hsg]

/-- **which style pairs differ on which member kinds** (exact, decidable classes).
    (1) whole-group options (open finding C07-dotted-whole-group): two styles have the same iff both or neither is the dotted one — whatever the members;
    (2) `.help` options (open finding C07-inner-class-help-option): differ iff exactly one of the two is the inner-parser style AND the list has a
        class-typed member (at any depth of nested dataclass members);
    (3) `null` taken while parsing by a required member (open finding C07-subclass-group-null): differ iff one style is dotted / inner-parser, the
        other dataclass / class, AND the list has a required class-typed member declared with add_subclass_arguments.
    Leaves, nested dataclasses, Optional[Dataclass] and List[Dataclass] members contribute to (1) only through the nested dataclass-typed members. -/
theorem C07_style_pairs_differ_X (s s' : Style) (key : String) (fields : List FieldX) :
    ((declX s key fields).wholes = (declX s' key fields).wholes ↔ (s = .dotted ↔ s' = .dotted))
    ∧ ((declX s key fields).helps ≠ (declX s' key fields).helps ↔
        ((s = .inner) ≠ (s' = .inner)) ∧ clsPathsL allCls [key] fields ≠ [])
    ∧ ((declX s key fields).lenientNull ≠ (declX s' key fields).lenientNull ↔
        ((s = .dotted ∨ s = .inner) ≠ (s' = .dotted ∨ s' = .inner)) ∧ clsPathsL reqVia [key] fields ≠ []) := by
  obtain ⟨_, hw, hh, hl⟩ := C07_same_table_X key fields
  rw [hw s, hw s', hh s, hh s', hl s, hl s']
  have hne : ∀ (a b : List (List String)), (a = b) = (b = a) := fun a b => propext ⟨Eq.symm, Eq.symm⟩
  refine ⟨?_, ?_, ?_⟩
  · cases s <;> cases s' <;> simp
  · cases hc : clsPathsL allCls [key] fields with
    | nil => cases s <;> cases s' <;> simp
    | cons a r => cases s <;> cases s' <;> simp
  · cases hc : clsPathsL reqVia [key] fields with
    | nil => cases s <;> cases s' <;> simp
    | cons a r => cases s <;> cases s' <;> simp

/-- **C07_styles_nondotted_X.**  Without class-typed members the three non-dotted declarations are the same table AND the same spec tree, so every
    parse result — any function `F` of the action table and the spec tree `validate` runs on: accept/reject, values, dump — is the same. -/
theorem C07_styles_nondotted_X {α : Type} (F : TableX → Fields → α) (s s' : Style) (key : String) (fields : List FieldX)
    (hs : s ≠ .dotted) (hs' : s' ≠ .dotted) (hc : clsPathsL allCls [key] fields = []) (hr : clsPathsL reqVia [key] fields = []) :
    F (declX s key fields) (specX true key fields) = F (declX s' key fields) (specX true key fields) := by
  have h : ∀ t : Style, t ≠ .dotted → declX t key fields = ⟨actsL [key] fields, [key] :: groupsXL [key] fields, [], []⟩ := by
    intro t ht
    cases t with
    | dotted => exact absurd rfl ht
    | inner => rw [declInnerX_eq, hr]
    | dataclass => simp only [declX]; rw [declSigX_eq, hc]
    | classArgs => simp only [declX]; rw [declSigX_eq, hc]
  rw [h s hs, h s' hs']

/-- **C07_styles_partial_X.**  The dotted declaration against the others: the same actions; and `validate` gives the same verdict on the dotted spec
    tree (no whole-group flags) as on the others' for every configuration in which no group key holds a string — through Optional[Dataclass] and
    List[Dataclass] members as well (their dataclasses are validated by per-class parsers that are the same in the four styles). -/
theorem C07_styles_partial_X (ld : String → Val) (s : Style) (key : String) (fields : List FieldX) (cfg : KV)
    (h : noStrKVs (specX true key fields) cfg = true) :
    (declX .dotted key fields).entries = (declX s key fields).entries
    ∧ validate ld (specX false key fields) cfg = validate ld (specX true key fields) cfg := by
  obtain ⟨he, _⟩ := C07_same_table_X key fields
  refine ⟨by rw [he, he], ?_⟩
  rw [← specX_erase true key fields]
  exact validate_erase _ _ h

/-! ### witnesses and non-vacuity (wider grammar) -/

private def fldsX : List FieldX :=
  [.leaf "a" .int (some (.int 0)),
   .sub "n" [.leaf "x" .int none,
             .optDc "o" [.leaf "p" .int none, .sub "q" [.leaf "z" .str (some (.str "s"))]],
             .sub "deep" [.listDc "items" false [.leaf "w" .int none, .optDc "oo" [.leaf "v" .int none]]]],
   .listDc "ls" true [.leaf "u" .int none],
   .clsM "m" true true, .clsM "c" false false]

/-- computed: the actions of the four styles (the fields `p`, `q.z`, `w`, `oo.v`, `u` of the member dataclasses are no actions) -/
example : (actsL ["g"] fldsX).map (fun e => (e.path, e.plus, e.default.isNone))
    = [(["g", "a"], false, false), (["g", "n", "x"], false, true), (["g", "n", "o"], false, false),
       (["g", "n", "deep", "items"], true, false), (["g", "ls"], true, true), (["g", "m"], false, true), (["g", "c"], false, false)] := rfl
example : ∀ s : Style, ((declX s "g" fldsX).entries.map fun e => e.path) = (actsL ["g"] fldsX).map fun e => e.path := by
  intro s; cases s <;> rfl
/-- the three difference classes on this list: all three are inhabited -/
example : (declX .dotted "g" fldsX).wholes = [] ∧ (declX .dataclass "g" fldsX).wholes = [["g"], ["g", "n"], ["g", "n", "deep"]]
    ∧ (declX .inner "g" fldsX).wholes = [["g"], ["g", "n"], ["g", "n", "deep"]]
    ∧ (declX .inner "g" fldsX).helps = [] ∧ (declX .classArgs "g" fldsX).helps = [["g", "m"], ["g", "c"]]
    ∧ (declX .dotted "g" fldsX).helps = [["g", "m"], ["g", "c"]]
    ∧ (declX .dotted "g" fldsX).lenientNull = [["g", "m"]] ∧ (declX .inner "g" fldsX).lenientNull = [["g", "m"]]
    ∧ (declX .dataclass "g" fldsX).lenientNull = [] := ⟨rfl, rfl, rfl, rfl, rfl, rfl, rfl, rfl, rfl⟩
example : clsPathsL allCls ["g"] fldsX ≠ [] ∧ clsPathsL reqVia ["g"] fldsX ≠ [] := by decide

private def fldsX0 : List FieldX := fldsX.take 3
private def cfgX : KV :=
  [("g", .dict [("a", .int 1), ("n", .dict [("x", .int 2), ("o", .dict [("p", .int 3), ("q", .dict [("z", .str "t")])]),
      ("deep", .dict [("items", .list [.dict [("w", .int 4), ("oo", .dict [("v", .int 5)])]])])]), ("ls", .list [.dict [("u", .int 6)]])])]
/-- non-vacuity of `C07_styles_nondotted_X` / `C07_styles_partial_X`: hypotheses hold, the configuration is accepted by both spec trees, and a
    required field missing inside the Optional[Dataclass] member / inside an item of the List[Dataclass] member is reported identically -/
example : clsPathsL allCls ["g"] fldsX0 = [] ∧ clsPathsL reqVia ["g"] fldsX0 = [] ∧ noStrKVs (specX true "g" fldsX0) cfgX = true := ⟨rfl, rfl, rfl⟩
example : validate ld0 (specX true "g" fldsX0) cfgX = .ok () ∧ validate ld0 (specX false "g" fldsX0) cfgX = .ok () := ⟨rfl, rfl⟩
example : validate ld0 (specX false "g" fldsX0) [("g", .dict [("n", .dict [("x", .int 2), ("o", .dict [("q", .dict [("z", .str "t")])])])])]
      = .error (.required [.key "g", .key "n", .key "o", .key "p"] 3)
    ∧ validate ld0 (specX true "g" fldsX0) [("g", .dict [("n", .dict [("x", .int 2), ("o", .dict [("q", .dict [("z", .str "t")])])])])]
      = .error (.required [.key "g", .key "n", .key "o", .key "p"] 3) := ⟨rfl, rfl⟩
/-- the proviso of `C07_styles_partial_X` is needed: a string at a group key (the class of C07-dotted-whole-group) -/
example : validate ld0 (specX false "g" fldsX0) [("g", .dict [("n", .str "abc")])] = .error (.required [.key "g", .key "n", .key "x"] 0)
    ∧ validate ld0 (specX true "g" fldsX0) [("g", .dict [("n", .str "abc")])] = .error (.type [.key "g", .key "n"] 0) := ⟨rfl, rfl⟩

end Jap.Props.C07

import Jap.Core.Validate
import Jap.Lemmas.ValidateStyles
/-!
# C07 — equivalent ways of declaring a nested group behave identically

Model (Core/Validate.lean): the four declaration constructors as *action tables*
  `declDotted`      — `parser.add_argument("--key.name", type, default | required)` per field,
  `declDataclass`   — `parser.add_argument("--key", type=Dataclass)` (dispatch of `add_argument` to `add_class_arguments`),
  `declClassArgs`   — `parser.add_class_arguments(Class, key)` (`_add_signature_arguments`, `_add_signature_parameter`,
                      `_create_group_if_requested` with its `_ActionConfigLoad`),
  `declInnerParser` — an inner parser attached with `ActionParser` (`_move_parser_actions`: prefixed dests, option
                      strings and `required_args`, plus the `_ActionConfigLoad` of the key),
and `parse7`: defaults, then the sources in order (environment, argv / config / object), then `validate`;
the dump lists the resulting configuration in its order, so "same result" covers values, accept/reject and dump.

FULL STATEMENT (what the property asks): `∀ s s' key fields items, parse7 ld (decl s key fields) key items =
parse7 ld (decl s' key fields) key items`.
It is FALSE for the code when `s = dotted`: that style creates no action for the group key
(`C07_dotted_lacks_whole`), so whole-group JSON on the command line is rejected there only
(`C07_whole_group_counterexample`; open finding C07-dotted-whole-group, DESIGN section 7 row 9).
Proved: the full statement for the three other styles (`C07_styles_nondotted`), and for all four styles on inputs that do
not assign the group as a whole (`C07_styles_partial`), for all keys, loaders, well-formed field lists and input sequences.
-/
namespace Jap.Props.C07
open Jap.Validate

/-- **C07_same_table.**  On a well-formed field list the four constructors produce the same dests, option strings, types,
    defaults (`entries`) and the same required set; the dataclass, class-arguments and inner-parser styles also the same
    whole-group option `--key`; the dotted style none. -/
theorem C07_same_table (key : String) (fields : List Field) (h : wfFields fields = true) :
    declDataclass key fields = declClassArgs key fields
    ∧ declClassArgs key fields = (declDotted key fields).withWhole (some key)
    ∧ declInnerParser key fields = (declDotted key fields).withWhole (some key)
    ∧ (declDotted key fields).whole = none :=
  ⟨rfl, declClass_eq key h, declInner_eq key fields, rfl⟩

/-- the tables of the four styles differ at most in the whole-group option -/
theorem C07_table_of_style (s : Style) (key : String) (fields : List Field) (h : wfFields fields = true) :
    decl s key fields = (declDotted key fields).withWhole (if s = .dotted then none else some key) := by
  obtain ⟨h1, h2, h3, _⟩ := C07_same_table key fields h
  cases s with
  | dotted => rfl
  | dataclass => exact h1.trans h2
  | classArgs => exact h2
  | inner => exact h3

/-- **C07_styles (the three styles with a group action), full strength**: same values, same accept/reject, same order of the
    dumped configuration, for every input sequence — including whole-group JSON options and variables. -/
theorem C07_styles_nondotted (ld : String → Val) (s s' : Style) (key : String) (fields : List Field) (items : List Item)
    (h : wfFields fields = true) (hs : s ≠ .dotted) (hs' : s' ≠ .dotted) :
    parse7 ld (decl s key fields) key items = parse7 ld (decl s' key fields) key items := by
  rw [C07_table_of_style s key fields h, C07_table_of_style s' key fields h]
  simp [hs, hs']

/-- **C07_styles_partial**: all four styles, for every input sequence that does not assign the group as a whole
    (`Item.usesWhole`: the `--key` option, the variable of the key, a string for the key in a configuration). -/
theorem C07_styles_partial (ld : String → Val) (s s' : Style) (key : String) (fields : List Field) (items : List Item)
    (h : wfFields fields = true) (hu : ∀ it ∈ items, Item.usesWhole key it = false) :
    parse7 ld (decl s key fields) key items = parse7 ld (decl s' key fields) key items := by
  rw [C07_table_of_style s key fields h, C07_table_of_style s' key fields h, parse7_whole hu, parse7_whole hu]

/-- witness (DESIGN section 7 row 9): the dotted style has no whole-group option, whatever the fields -/
theorem C07_dotted_lacks_whole (key : String) (fields : List Field) : (declDotted key fields).whole = none := rfl

private def ld0 : String → Val := fun s => if s = "5" then .int 5 else .str s
private def flds : List Field :=
  [⟨"alpha", .int, none⟩, ⟨"beta", .str, some (.str "s0")⟩, ⟨"gamma", .listInt, some (.list [.int 1])⟩,
   ⟨"delta", .optInt, some .null⟩]

/-- the FULL statement fails: `--grp={"alpha": 5}` is accepted by the dataclass style and is an unrecognized argument for
    the dotted style -/
theorem C07_whole_group_counterexample :
    parse7 ld0 (decl .dataclass "grp" flds) "grp" [.wholeOpt (.dict [("alpha", .int 5)])]
      = .ok [("grp", .dict [("alpha", .int 5), ("beta", .str "s0"), ("gamma", .list [.int 1]), ("delta", .null)])]
    ∧ parse7 ld0 (decl .dotted "grp" flds) "grp" [.wholeOpt (.dict [("alpha", .int 5)])]
      = .error (.unrecognized "grp") := ⟨rfl, rfl⟩

/-- the environment variable of the group key is read by the inner-parser style and never by the dotted style -/
theorem C07_whole_env_counterexample :
    parse7 ld0 (decl .inner "grp" flds) "grp" [.wholeEnv (.dict [("alpha", .int 5)])]
      = .ok [("grp", .dict [("alpha", .int 5), ("beta", .str "s0"), ("gamma", .list [.int 1]), ("delta", .null)])]
    ∧ parse7 ld0 (decl .dotted "grp" flds) "grp" [.wholeEnv (.dict [("alpha", .int 5)])]
      = .error (.required [.key "grp", .key "alpha"] 0) := ⟨rfl, rfl⟩

/-! ### non-vacuity -/

/-- the hypotheses are satisfiable: a well-formed list with every type, a required field, list appends, a config tree -/
example : wfFields flds = true := rfl
example : ∀ it ∈ [Item.opt "grp.alpha" (.str "5"), .opt "grp.gamma+" (.str "5"), .tree [("grp", .dict [("beta", .str "x")])]],
    Item.usesWhole "grp" it = false := by decide
example : parse7 ld0 (decl .inner "grp" flds) "grp"
      [.opt "grp.alpha" (.str "5"), .opt "grp.gamma+" (.str "5"), .tree [("grp", .dict [("beta", .str "x")])]]
    = .ok [("grp", .dict [("alpha", .int 5), ("beta", .str "x"), ("gamma", .list [.int 1, .int 5]), ("delta", .null)])] := rfl
/-- rejecting inputs are covered too: an unknown key in the tree, a missing required field -/
example : parse7 ld0 (decl .classArgs "grp" flds) "grp" [.tree [("grp", .dict [("alpha", .int 1), ("zz9", .int 1)])]]
    = .error (.unknown [.key "grp", .key "zz9"] 0) := rfl
example : parse7 ld0 (decl .dotted "grp" flds) "grp" [] = .error (.required [.key "grp", .key "alpha"] 0) := rfl
/-- the tables, computed -/
example : (decl .inner "grp" flds).required = ["grp.alpha"]
    ∧ ((decl .inner "grp" flds).entries.map (·.optKeys)) = [["grp.alpha"], ["grp.beta"], ["grp.gamma", "grp.gamma+"], ["grp.delta"]] :=
  ⟨rfl, rfl⟩
/-- ... and what goes wrong outside `wfFields`: a required Optional field is not required in the signature styles -/
example : (declDotted "g" [⟨"o", .optInt, none⟩]).required = ["g.o"] ∧ (declClassArgs "g" [⟨"o", .optInt, none⟩]).required = [] :=
  ⟨rfl, rfl⟩

end Jap.Props.C07

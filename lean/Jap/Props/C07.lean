import Jap.Core.Validate
/-!
# C07 — equivalent ways of declaring a nested group behave identically
(first stage; the general theorems follow)
-/
namespace Jap.Props.C07
open Jap.Validate

/-- witness (DESIGN section 7 row 9): the dotted style has no whole-group option -/
theorem C07_dotted_lacks_whole (key : String) (fields : List Field) : (declDotted key fields).whole = none := rfl

end Jap.Props.C07

import Jap.Core.Save
import Jap.Core.SaveSource
import Jap.Lemmas.Save
import Jap.Lemmas.SavePartial
import Jap.Gen.SaveOrder
/-!
C18 — save never destroys data: all-or-nothing on failure, no silent overwrite.

All theorems are about `Jap.Save.save` (Core/Save.lean), the sequence of file-system effects of
`ArgumentParser.save` in source order, for ALL environments, file systems, targets, sub-file lists and
ALL fault vectors (outcome of validation, of every serialisation, of every open and every write).
The `tie_*` theorems compare the order the model implements with the order regenerated from /repo.
-/
namespace Jap.Props.C18
open Jap.Save

/-! ## tie: the order regenerated from /repo is the order the model implements -/

theorem tie_single_order : Jap.Gen.SaveOrder.singleSteps = modelSingleSteps := by decide
theorem tie_multi_order : Jap.Gen.SaveOrder.multiSteps = modelMultiSteps := by decide
theorem tie_sub_cfg_order : Jap.Gen.SaveOrder.subCfgSteps = modelSubCfgSteps := by decide
theorem tie_sub_content_order : Jap.Gen.SaveOrder.subContentSteps = modelSubContentSteps := by decide
theorem tie_defaults :
    Jap.Gen.SaveOrder.overwriteDefault = ({ path := "", dump := .text "" } : Input).overwrite ∧
    Jap.Gen.SaveOrder.multifileDefault = ({ path := "", dump := .text "" } : Input).multifile := by decide
theorem tie_check_overwrite :
    Jap.Gen.SaveOrder.checkOverwriteTest = "not overwrite and os.path.isfile(path.absolute)" := by decide
/-- the raising tests of `Path(mode="..c..")`, as the model's `pathFc` reads them: parent directory missing,
    parent not writeable, existing path that is neither a regular file nor a FIFO (since fix 5706b13 an existing
    FIFO passes `fc`; FIFO targets are OUTSIDE the model, see `Env.nonFile`) -/
theorem tie_path_creatable :
    Jap.Gen.SaveOrder.pathCreatableChecks =
      ["not os.path.isdir(pdir)", "not os.access(pdir, os.W_OK)",
       "'d' in mode and os.access(abs_path, os.F_OK) and (not os.path.isdir(abs_path))",
       "'f' in mode and os.access(abs_path, os.F_OK) and (not (os.path.isfile(abs_path) or is_fifo(abs_path)))"] := by decide

/-- "the parent directory" of the creatable check is the directory the file will really be created in
    (`realpath` of `path/..`, which follows a symbolic link in the last component) — this is what `Env.noParent` /
    `Env.roParent` are facts about -/
theorem tie_path_creatable_parent :
    Jap.Gen.SaveOrder.pathCreatableParent = "os.path.realpath(os.path.join(abs_path, '..'))" := by decide

/-- the fsspec block of `save`, with its guards: recognition by `Path(mode="sc")`, `except TypeError: pass`,
    `NotImplementedError` for multi-file FIRST, overwrite check (`fs.isfile`), `dump` BEFORE `fsspec.open` — the order
    `saveFsspec` implements (fixes 22a2e9a, 8a0a805) -/
theorem tie_fsspec_order : Jap.Gen.SaveOrder.fsspecSteps = modelFsspecSteps := by decide
/-- … and it is not the order of the regression record `saveFsspecOld` any more -/
theorem tie_fsspec_order_not_old : Jap.Gen.SaveOrder.fsspecSteps ≠ oldFsspecSteps := by decide
/-- the block sits between the format check and `Path(mode="fc")` -/
theorem tie_fsspec_position :
    Jap.Gen.SaveOrder.saveTopLevel = ["format", "fsspec", "path_fc", "check_overwrite", "split"] := by decide
/-- `Path(mode=…)` opens an fsspec path only for the r/w letters of the mode; "sc" has none: recognition does not touch the file -/
theorem tie_fsspec_probe : Jap.Gen.SaveOrder.pathFsspecProbe = modelFsspecProbe := by decide
/-- the overwrite check of the block tests the file `path_sc.absolute` names, the open opens `path` (the same URL) -/
theorem tie_fsspec_check_and_open_same_file : Jap.Gen.SaveOrder.fsspecFileExprs = modelFsspecFileExprs := by decide
/-- every `check_overwrite(p)` tests `p.absolute` (tie_check_overwrite) and the `open` that follows it opens the same
    `p.absolute`; sub-files are `basename` of the path they were loaded from — so check and open go through the same
    `Env.resolve` and the model may identify a spelling with the file it stands for -/
theorem tie_check_and_open_same_file :
    Jap.Gen.SaveOrder.fileExprs =
      ["path_fc = Path(path, mode='fc')", "check:path_fc", "open:path_fc.absolute, 'w'",
       "val_path = Path(os.path.basename(val['__path__'].absolute), mode='fc')", "check:val_path", "open:val_path.absolute, 'w'",
       "val_path = Path(os.path.basename(val.absolute), mode='fc')", "check:val_path", "open:val_path.absolute, 'w'",
       "open:path_fc.absolute, 'w'"] := by decide
/-- every statement of `save` (with `check_overwrite` and `save_paths`) is the text the model was transcribed from -/
theorem tie_save_signature : Jap.Gen.SaveOrder.saveSignature = transcribedSignature := rfl
theorem tie_save_statements : Jap.Gen.SaveOrder.saveStatements = transcribedStatements := rfl

/-! ## no silent overwrite -/

/-- C18_no_overwrite: without `overwrite`, every file that existed keeps its content — for every
    environment, configuration outcome, fault vector, in single-file and in multi-file mode,
    whether `save` succeeds or fails. -/
theorem C18_no_overwrite (env : Env) (fs : FS) (i : Input) (how : i.overwrite = false)
    (q : String) (hq : (fs.get q).isSome) : (save env fs i).2.get q = fs.get q := by
  unfold save
  split
  · rfl
  split
  · rfl
  by_cases hp : (fs.get i.path).isSome
  · simp [refuses, how, hp]
  · have hne : q ≠ i.path := by intro h; subst h; exact hp hq
    have hr : refuses i.overwrite fs i.path = false := by simp [refuses, how, hp]
    simp only [hr, Bool.false_eq_true, ↓reduceIte]
    split
    · cases i.dump with
      | fail e => rfl
      | text s => exact writeFile_frame _ _ _ _ _ hne
    · split
      · rfl
      · have hk := saveSubs_keeps env i.subs fs q hq
        rw [how]
        split
        · exact hk
        · cases i.dump with
          | fail e => exact hk
          | text s => dsimp only; rw [writeFile_frame _ _ _ _ _ hne]; exact hk

/-- frame (any mode, any flags, success or failure): a path that is neither the target nor one of the
    sub-file paths is never touched -/
theorem C18_frame (env : Env) (fs : FS) (i : Input) (q : String) (hq : q ≠ i.path)
    (hs : ∀ s ∈ i.subs, q ≠ s.path) : (save env fs i).2.get q = fs.get q := by
  unfold save
  split
  · rfl
  split
  · rfl
  split
  · rfl
  split
  · cases i.dump with
    | fail e => rfl
    | text s => exact writeFile_frame _ _ _ _ _ hq
  · split
    · rfl
    · have hk := saveSubs_frame env i.overwrite i.subs fs q hs
      dsimp only
      split
      · exact hk
      · cases i.dump with
        | fail e => exact hk
        | text s => dsimp only; rw [writeFile_frame _ _ _ _ _ hq]; exact hk

/-! ## all-or-nothing on failure -/

/-- C18_all_or_nothing, single-file mode, full strength: whatever makes `save` fail (bad format,
    uncreatable path, refusal to overwrite, invalid configuration, unserialisable value, `open` failing)
    the file system is unchanged.  `.io` (the operating system failing in the middle of `write` after the
    target was opened) is the one class outside the property (DESIGN: OS-level partial writes). -/
theorem C18_all_or_nothing_single (env : Env) (fs : FS) (i : Input) (e : Err) (hm : i.multifile = false)
    (h : (save env fs i).1 = .error e) (hio : e ≠ .io) : (save env fs i).2 = fs := by
  unfold save at *
  split
  · rfl
  split
  · rfl
  split
  · rfl
  rename_i h1 h2 h3
  simp only [h1, h2, h3, hm, Bool.false_eq_true, ↓reduceIte, Bool.not_false] at h ⊢
  cases hd : i.dump with
  | fail e' => rfl
  | text s =>
    simp only [hd] at h ⊢
    unfold writeFile at *
    split
    · rfl
    · rename_i ho
      simp only [ho, Bool.false_eq_true, ↓reduceIte] at h ⊢
      split
      · rename_i hw
        simp only [hw, ↓reduceIte] at h
        exact absurd (by simpa using h.symm) hio
      · rename_i hw
        simp [hw] at h

/-- the literal wording of the property for single-file mode -/
theorem C18_all_or_nothing_single_invalid_or_unserialisable (env : Env) (fs : FS) (i : Input) (e : Err)
    (hm : i.multifile = false) (h : (save env fs i).1 = .error e)
    (he : e = .invalid ∨ e = .unserialisable) : (save env fs i).2 = fs :=
  C18_all_or_nothing_single env fs i e hm h (by rcases he with rfl | rfl <;> decide)

/-
C18_all_or_nothing, multi-file mode, FULL statement — FALSE for the code as it is (row 15b of DESIGN §7):

  theorem C18_all_or_nothing_multi (env : Env) (fs : FS) (i : Input) (e : Err) (hm : i.multifile = true)
      (h : (save env fs i).1 = .error e) (hio : e ≠ .io) : (save env fs i).2 = fs

`save_paths` writes each sub-file as soon as its text exists; a failure at a later sub-file (or at the final
dump, or a later refusal to overwrite) leaves the earlier sub-files written.
-/

/-- the witness: empty directory, two sub-files, the second one cannot be serialised (an `Enum` member
    dumped raw) — `first.yaml` has been created although `save` failed -/
def witness15b : Input :=
  { path := "main.yaml", dump := .text "a: first.yaml\nb: second.yaml\n",
    subs := [{ path := "first.yaml", text := .text "x: 1\n" },
             { path := "second.yaml", text := .fail .unserialisable }] }

theorem C18_all_or_nothing_multi_witness :
    (save {} [] witness15b).1 = .error .unserialisable ∧
    (save {} [] witness15b).2 = [("first.yaml", "x: 1\n")] := by decide

/-- negation of the full multi-file statement -/
theorem C18_all_or_nothing_multi_fails :
    ¬ (∀ (env : Env) (fs : FS) (i : Input) (e : Err), i.multifile = true →
        (save env fs i).1 = .error e → e ≠ .io → (save env fs i).2 = fs) := by
  intro h
  have := h {} [] witness15b .unserialisable (by decide) (by decide) (by decide)
  exact absurd this (by decide)

/- the forced hypothesis is the explicit decidable predicate `Jap.Save.failsByFirstOpen` (Lemmas/Save.lean):
   the step that fails is no later than the FIRST `open(…, "w")` of the run -/

/-- C18_all_or_nothing_multi_partial (both modes): a failure at or before the first write leaves the file
    system unchanged — in particular an invalid configuration (validation precedes `save_paths`), a refusal
    or serialisation failure at the FIRST sub-file, and, without sub-files, a failing final dump. -/
theorem C18_all_or_nothing_multi_partial (env : Env) (fs : FS) (i : Input)
    (h : failsByFirstOpen env fs i = true) :
    (∃ e, (save env fs i).1 = .error e) ∧ (save env fs i).2 = fs := by
  unfold failsByFirstOpen at h
  unfold save
  by_cases h1 : i.formatOk = true
  · by_cases h2 : pathFc env i.path = true
    · by_cases h3 : refuses i.overwrite fs i.path = true
      · simp [h1, h2, h3]
      · by_cases hm : i.multifile = true
        · by_cases hv : i.validateOk = true
          · simp only [h1, h2, h3, hm, hv, Bool.not_true, Bool.false_or, ↓reduceIte, Bool.false_eq_true] at h ⊢
            cases hs : i.subs with
            | nil =>
              simp only [hs] at h
              simp only [saveSubs]
              cases hd : i.dump with
              | fail e => simp
              | text s => simp [hd] at h; simp [writeFile, h]
            | cons s rest =>
              simp only [hs] at h
              have ⟨⟨e, he⟩, hfs⟩ := subStep_clean env i.overwrite fs s h
              simp [saveSubs, he, hfs]
          · simp [h1, h2, h3, hm, hv]
        · simp only [h1, h2, h3, hm, Bool.not_true, Bool.false_or, ↓reduceIte, Bool.false_eq_true,
            Bool.not_false] at h ⊢
          cases hd : i.dump with
          | fail e => simp
          | text s => simp [hd] at h; simp [writeFile, h]
    · simp [h1, h2]
  · simp [h1]

/-- multi-file mode without sub-files is all-or-nothing at full strength (the final dump precedes the open
    of the target: fix 0eab76f) -/
theorem C18_all_or_nothing_multi_nosubs (env : Env) (fs : FS) (i : Input) (e : Err)
    (hs : i.subs = []) (h : (save env fs i).1 = .error e) (hio : e ≠ .io) : (save env fs i).2 = fs := by
  by_cases hm : i.multifile = true
  · unfold save at *
    split
    · rfl
    split
    · rfl
    split
    · rfl
    rename_i h1 h2 h3
    simp only [h1, h2, h3, hm, hs, saveSubs, Bool.false_eq_true, ↓reduceIte, Bool.not_true] at h ⊢
    split
    · rfl
    · rename_i hv
      simp only [hv, Bool.false_eq_true, ↓reduceIte] at h
      cases hd : i.dump with
      | fail e' => rfl
      | text s =>
        simp only [hd] at h ⊢
        unfold writeFile at *
        split
        · rfl
        · rename_i ho
          simp only [ho, Bool.false_eq_true, ↓reduceIte] at h ⊢
          split
          · rename_i hw
            simp only [hw, ↓reduceIte] at h
            exact absurd (by simpa using h.symm) hio
          · rename_i hw
            simp [hw] at h
  · exact C18_all_or_nothing_single env fs i e (by simpa using hm) h hio

/-- the open finding is confined to multi-file mode with at least one sub-file: whenever a failing save (other
    than the OS failing in the middle of a write) has changed anything, it ran in multi-file mode and had
    sub-files to write -/
theorem C18_changed_on_failure_only_multifile_with_subs (env : Env) (fs : FS) (i : Input) (e : Err)
    (h : (save env fs i).1 = .error e) (hio : e ≠ .io) (hch : (save env fs i).2 ≠ fs) :
    i.multifile = true ∧ i.subs ≠ [] := by
  constructor
  · cases hm : i.multifile with
    | true => rfl
    | false => exact absurd (C18_all_or_nothing_single env fs i e hm h hio) hch
  · intro hs
    exact hch (C18_all_or_nothing_multi_nosubs env fs i e hs h hio)

/-- an invalid configuration never touches a file, in both modes (validation precedes every open) -/
theorem C18_invalid_never_writes (env : Env) (fs : FS) (i : Input)
    (hinv : if i.multifile then i.validateOk = false else ∃ e, i.dump = .fail e) :
    (∃ e, (save env fs i).1 = .error e) ∧ (save env fs i).2 = fs := by
  apply C18_all_or_nothing_multi_partial
  unfold failsByFirstOpen
  by_cases hm : i.multifile = true
  · simp only [hm, ↓reduceIte] at hinv
    simp [hm, hinv]
  · simp only [hm, Bool.false_eq_true, ↓reduceIte] at hinv
    obtain ⟨e, he⟩ := hinv
    simp [hm, he]

/-! ## success -/

/-- C18_success_writes (target): after a successful save the target holds exactly the dump text -/
theorem C18_success_writes_target (env : Env) (fs : FS) (i : Input) (h : (save env fs i).1 = .ok ()) :
    ∃ t, i.dump = .text t ∧ (save env fs i).2.get i.path = some t := by
  unfold save at *
  split at h
  · simp at h
  split at h
  · simp at h
  split at h
  · simp at h
  rename_i h1 h2 h3
  simp only [h1, h2, h3, Bool.false_eq_true, ↓reduceIte]
  split at h
  · rename_i hm
    simp only [hm, ↓reduceIte]
    cases hd : i.dump with
    | fail e => simp [hd] at h
    | text s =>
      simp only [hd] at h ⊢
      exact ⟨s, rfl, by rw [writeFile_ok _ _ _ _ h]; exact get_put_same _ _ _⟩
  · rename_i hm
    simp only [hm, Bool.false_eq_true, ↓reduceIte]
    split at h
    · simp at h
    · rename_i hv
      simp only [hv, Bool.false_eq_true, ↓reduceIte]
      dsimp only at h ⊢
      split at h
      · simp at h
      · rename_i u hu
        cases hd : i.dump with
        | fail e => simp [hd] at h
        | text s =>
          simp only [hd] at h ⊢
          exact ⟨s, rfl, by rw [writeFile_ok _ _ _ _ h]; exact get_put_same _ _ _⟩

/-- C18_success_writes (sub-files): after a successful multi-file save every sub-config file holds exactly its
    serialised text, and every `save_path_content` file holds the content its source had before the save
    (its source may be the destination itself, not one of the other files written) —
    provided no two written files share a name (sub-files are written under their BASENAME next to the target;
    see the collision witnesses below) -/
theorem C18_success_writes_subs (env : Env) (fs : FS) (i : Input) (hm : i.multifile = true)
    (h : (save env fs i).1 = .ok ()) (hnd : (i.subs.map (·.path)).Nodup)
    (hmain : i.path ∉ i.subs.map (·.path)) :
    ∀ s ∈ i.subs,
      (s.kind = .cfg → ∃ t, s.text = .text t ∧ (save env fs i).2.get s.path = some t) ∧
      (s.kind = .content → (∀ r ∈ i.subs, r.path ≠ s.path → s.src ≠ r.path) →
        ∃ t, fs.get s.src = some t ∧ (save env fs i).2.get s.path = some t) := by
  unfold save at *
  split at h
  · simp at h
  split at h
  · simp at h
  split at h
  · simp at h
  rename_i h1 h2 h3
  simp only [h1, h2, h3, hm, Bool.false_eq_true, ↓reduceIte, Bool.not_true] at h ⊢
  split at h
  · simp at h
  · rename_i hv
    simp only [hv, Bool.false_eq_true, ↓reduceIte]
    cases hsub : (saveSubs env i.overwrite fs i.subs).1 with
    | error e => simp [hsub] at h
    | ok u =>
      cases u
      simp only [hsub] at h ⊢
      cases hd : i.dump with
      | fail e => simp [hd] at h
      | text txt =>
        simp only [hd] at h ⊢
        intro s hs
        have hne : s.path ≠ i.path := fun heq => hmain (List.mem_map.mpr ⟨s, hs, heq⟩)
        have hg := saveSubs_ok_get env i.overwrite i.subs fs hsub hnd s hs
        rw [writeFile_frame _ _ _ _ _ hne]
        exact hg

/-- the distinctness hypothesis is forced: two sub-configs loaded from `a/x.yaml` and `b/x.yaml` are both
    written to `x.yaml`; the save succeeds and the first sub-config's text is gone -/
theorem C18_success_writes_subs_needs_distinct :
    let i : Input := { path := "main.yaml", overwrite := true, dump := .text "m",
                       subs := [{ path := "x.yaml", text := .text "x: 5\n" }, { path := "x.yaml", text := .text "y: 6\n" }] }
    (save {} [] i).1 = .ok () ∧ (save {} [] i).2.get "x.yaml" = some "y: 6\n" := by decide

/-- a `save_path_content` file whose source already lies in the target directory is copied onto itself: the save
    succeeds and the content is intact (fix 1bcbda4: the source is read before the destination is opened) -/
theorem C18_path_content_self_copy_keeps :
    let i : Input := { path := "main.yaml", overwrite := true, dump := .text "pth: file.txt\n",
                       subs := [{ path := "file.txt", kind := .content, src := "file.txt" }] }
    (save {} [("file.txt", "precious content")] i).1 = .ok () ∧
    (save {} [("file.txt", "precious content")] i).2.get "file.txt" = some "precious content" := by decide

/-- regression example of the PRE-FIX order of that step (open, then read, then write; defect F15s): the step
    succeeds and the file is empty -/
theorem C18_path_content_self_copy_empties_old_order :
    subStepContentOld [("file.txt", "precious content")] { path := "file.txt", kind := .content, src := "file.txt" }
      = (.ok (), [("file.txt", "")]) := by decide

/-- whatever happens in multi-file mode, a failing save (other than the OS failing in the middle of the final
    write) does not touch the target itself — what the open finding leaves behind are sub-files only -/
theorem C18_failure_target_untouched (env : Env) (fs : FS) (i : Input) (e : Err)
    (h : (save env fs i).1 = .error e) (hio : e ≠ .io ∨ i.wr.writeOk = true)
    (hmain : ∀ s ∈ i.subs, i.path ≠ s.path) : (save env fs i).2.get i.path = fs.get i.path := by
  unfold save at *
  split
  · rfl
  split
  · rfl
  split
  · rfl
  rename_i h1 h2 h3
  simp only [h1, h2, h3, Bool.false_eq_true, ↓reduceIte] at h ⊢
  have hwf : ∀ (fs' : FS) (s : String), (writeFile fs' i.path s i.wr).1 = .error e →
      (writeFile fs' i.path s i.wr).2 = fs' := by
    intro fs' s hw
    unfold writeFile at *
    split
    · rfl
    · rename_i ho
      simp only [ho, Bool.false_eq_true, ↓reduceIte] at hw ⊢
      split
      · rename_i hwr
        simp only [hwr, ↓reduceIte] at hw
        rcases hio with hio | hio
        · exact absurd (by simpa using hw.symm) hio
        · simp [hio] at hwr
      · rename_i hwr
        simp [hwr] at hw
  split
  · rename_i hm
    simp only [hm, ↓reduceIte] at h
    cases hd : i.dump with
    | fail e' => rfl
    | text s => simp only [hd] at h ⊢; rw [hwf fs s h]
  · rename_i hm
    simp only [hm, Bool.false_eq_true, ↓reduceIte] at h
    split
    · rfl
    · rename_i hv
      simp only [hv, Bool.false_eq_true, ↓reduceIte] at h
      have hk := saveSubs_frame env i.overwrite i.subs fs i.path hmain
      split
      · exact hk
      · rename_i u hu
        simp only [hu] at h
        cases hd : i.dump with
        | fail e' => exact hk
        | text s => simp only [hd] at h ⊢; rw [hwf _ s h]; exact hk


/-! ## what a failing save leaves behind, exactly (the open finding C18-multifile-partial characterised) -/

/-- C18_failure_exact (both modes, every fault vector, sub-file lists of any length — a tree of sub-configs is
    visited as the list `get_sorted_keys` makes of it): when `save` fails (other than by the OS in the middle of
    a write) the files are EXACTLY those after the first `writtenCount` sub-file steps, all of which completed.
    Nothing else has happened: no later sub-file, not the target. -/
theorem C18_failure_exact (env : Env) (fs : FS) (i : Input) (e : Err)
    (h : (save env fs i).1 = .error e) (hio : e ≠ .io) :
    (saveSubs env i.overwrite fs (i.subs.take (writtenCount env fs i))).1 = .ok () ∧
    (save env fs i).2 = (saveSubs env i.overwrite fs (i.subs.take (writtenCount env fs i))).2 :=
  save_failure_exact env fs i e h hio

/-- the same, file by file (distinct sub-file names): the first `writtenCount` sub-config files hold their new text,
    EVERY other path is as it was -/
theorem C18_failure_leaves_exactly_prefix (env : Env) (fs : FS) (i : Input) (e : Err)
    (h : (save env fs i).1 = .error e) (hio : e ≠ .io) (hnd : (i.subs.map (·.path)).Nodup) :
    (∀ s ∈ i.subs.take (writtenCount env fs i), s.kind = .cfg →
        ∃ t, s.text = .text t ∧ (save env fs i).2.get s.path = some t) ∧
    (∀ q, (∀ s ∈ i.subs.take (writtenCount env fs i), q ≠ s.path) → (save env fs i).2.get q = fs.get q) := by
  obtain ⟨hok, heq⟩ := save_failure_exact env fs i e h hio
  rw [heq]
  constructor
  · intro s hs hk
    have hnd' : ((i.subs.take (writtenCount env fs i)).map (·.path)).Nodup := by
      rw [List.map_take]
      exact List.Pairwise.sublist (List.take_sublist _ _) hnd
    exact (saveSubs_ok_get env i.overwrite _ fs hok hnd' s hs).1 hk
  · intro q hq
    exact saveSubs_frame env i.overwrite _ fs q hq

/-- which fault points leave a partial result: exactly those NOT covered by `C18_all_or_nothing_multi_partial` —
    a failing save has written nothing iff its failing step is no later than the first `open` -/
theorem C18_failure_clean_iff (env : Env) (fs : FS) (i : Input) (e : Err)
    (h : (save env fs i).1 = .error e) (hio : e ≠ .io) :
    writtenCount env fs i = 0 ↔ failsByFirstOpen env fs i = true :=
  writtenCount_zero_iff env fs i e h hio

/-- the partial theorem is sharp: every failing run outside its hypothesis HAS written its first sub-file -/
theorem C18_partial_is_sharp (env : Env) (fs : FS) (i : Input) (e : Err)
    (h : (save env fs i).1 = .error e) (hio : e ≠ .io) (hnd : (i.subs.map (·.path)).Nodup)
    (hlate : failsByFirstOpen env fs i = false) :
    ∃ s rest, i.subs = s :: rest ∧
      (s.kind = .cfg → ∃ t, s.text = .text t ∧ (save env fs i).2.get s.path = some t) := by
  have hk : writtenCount env fs i ≠ 0 := by
    intro h0
    have := (writtenCount_zero_iff env fs i e h hio).mp h0
    simp [hlate] at this
  have hpre := (C18_failure_leaves_exactly_prefix env fs i e h hio hnd).1
  cases hs : i.subs with
  | nil =>
    exfalso; apply hk
    unfold writtenCount
    simp [hs, okPrefix]
  | cons s rest =>
    refine ⟨s, rest, rfl, ?_⟩
    obtain ⟨n, hn⟩ := Nat.exists_eq_succ_of_ne_zero hk
    apply hpre s
    rw [hn, hs, List.take_succ_cons]
    exact List.mem_cons_self ..

/-- the witness of the finding, counted: one sub-file written, the failing step is the second one -/
theorem C18_failure_exact_witness :
    writtenCount {} [] witness15b = 1 ∧ failsByFirstOpen {} [] witness15b = false := by decide

/-- (d) with or without `overwrite`, success or failure: every path whose content changed is a declared target -/
theorem C18_touched_subset_targets (env : Env) (fs : FS) (i : Input) (q : String)
    (h : (save env fs i).2.get q ≠ fs.get q) : q = i.path ∨ ∃ s ∈ i.subs, q = s.path := by
  by_cases hq : q = i.path
  · exact .inl hq
  · right
    by_cases hs : ∃ s ∈ i.subs, q = s.path
    · exact hs
    · exfalso
      apply h
      apply C18_frame env fs i q hq
      intro s hs' heq
      exact hs ⟨s, hs', heq⟩

/-! ## path aliasing: spellings, symbolic links, colliding names — `saveR` = `save` through `Env.resolve` -/

/-- no silent overwrite through ANY aliasing (symbolic links, relative spellings, two names for one file):
    `check_overwrite` and `open` look at the same resolved file -/
theorem C18_no_overwrite_aliased (env : Env) (fs : FS) (i : Input) (how : i.overwrite = false)
    (q : String) (hq : (fs.get q).isSome) : (saveR env fs i).2.get q = fs.get q :=
  C18_no_overwrite env fs (i.resolved env) how q hq

/-- frame through aliasing: a file that no target spelling resolves to is never touched -/
theorem C18_frame_aliased (env : Env) (fs : FS) (i : Input) (q : String) (hq : q ≠ env.resolve i.path)
    (hs : ∀ s ∈ i.subs, q ≠ env.resolve s.path) : (saveR env fs i).2.get q = fs.get q := by
  apply C18_frame env fs (i.resolved env) q hq
  intro s hs'
  simp only [Input.resolved, List.mem_map] at hs'
  obtain ⟨s0, h0, rfl⟩ := hs'
  exact hs s0 h0

theorem C18_all_or_nothing_single_aliased (env : Env) (fs : FS) (i : Input) (e : Err) (hm : i.multifile = false)
    (h : (saveR env fs i).1 = .error e) (hio : e ≠ .io) : (saveR env fs i).2 = fs :=
  C18_all_or_nothing_single env fs (i.resolved env) e hm h hio

/-- a target (or sub-file) whose resolved location cannot be created — missing or read-only directory, e.g. a symbolic
    link into a directory that is gone, or a path through a non-existing directory — is refused before anything
    is written -/
theorem C18_uncreatable_target_clean (env : Env) (fs : FS) (i : Input)
    (h : pathFc env (env.resolve i.path) = false) :
    (∃ e, (saveR env fs i).1 = .error e) ∧ (saveR env fs i).2 = fs := by
  apply C18_all_or_nothing_multi_partial
  unfold failsByFirstOpen
  simp [Input.resolved, h]

/-- a sub-file name that is a symbolic link to an existing file: refused without `overwrite`, the file is intact -/
theorem C18_alias_symlinked_sub_refused :
    let env : Env := { links := [("s1.yaml", "precious.txt")] }
    let fs : FS := [("precious.txt", "data")]
    let i : Input := { path := "main.yaml", dump := .text "s1: s1.yaml\n", subs := [{ path := "s1.yaml", text := .text "x: 1\n" }] }
    saveR env fs i = (.error .refuse, fs) := by decide

/-- … and with `overwrite` the write goes THROUGH the link: the file touched is the resolved one (declared target
    up to `resolve`), no file named like the link appears -/
theorem C18_alias_symlinked_sub_written_through :
    let env : Env := { links := [("s1.yaml", "precious.txt")] }
    let fs : FS := [("precious.txt", "data")]
    let i : Input := { path := "main.yaml", overwrite := true, dump := .text "m", subs := [{ path := "s1.yaml", text := .text "x: 1\n" }] }
    (saveR env fs i).1 = .ok () ∧ (saveR env fs i).2.get "precious.txt" = some "x: 1\n" ∧
    (saveR env fs i).2.get "s1.yaml" = none := by decide

/-- two sub-file names that resolve to ONE file, no `overwrite`: the second is refused after the first was written
    (an instance of C18-multifile-partial reached through aliasing) -/
theorem C18_alias_two_names_one_file :
    let env : Env := { links := [("s1.yaml", "t.yaml"), ("s2.yaml", "t.yaml")] }
    let i : Input := { path := "main.yaml", dump := .text "m",
                       subs := [{ path := "s1.yaml", text := .text "x: 5\n" }, { path := "s2.yaml", text := .text "y: 6\n" }] }
    saveR env [] i = (.error .refuse, [("t.yaml", "x: 5\n")]) := by decide

/-- a sub-config whose file has the basename of the target (loaded from `elsewhere/main.yaml`, saved to
    `main.yaml`): the target was checked BEFORE the sub-file created it, the final `open` is not checked again —
    the save succeeds without `overwrite` and the sub-config's text is gone (C18-basename-collision; no
    PRE-EXISTING file is lost: `C18_no_overwrite`) -/
theorem C18_alias_sub_equals_main :
    let i : Input := { path := "main.yaml", dump := .text "s1: main.yaml\n", subs := [{ path := "main.yaml", text := .text "x: 5\n" }] }
    saveR {} [] i = (.ok (), [("main.yaml", "s1: main.yaml\n")]) := by decide

/-- a target that is a dangling symbolic link: the file it points to is created, the link name holds no file -/
theorem C18_alias_dangling_link_target :
    let env : Env := { links := [("main.yaml", "actual.yaml")] }
    let i : Input := { path := "main.yaml", multifile := false, dump := .text "a: 1\n" }
    saveR env [("other.txt", "o")] i = (.ok (), [("actual.yaml", "a: 1\n"), ("other.txt", "o")]) := by decide

/-- relative and absolute spelling of one existing file: refused under either spelling -/
theorem C18_alias_relative_spelling_refused :
    let env : Env := { links := [("./main.yaml", "/d/main.yaml"), ("../d/main.yaml", "/d/main.yaml")] }
    let fs : FS := [("/d/main.yaml", "precious")]
    (∀ p ∈ ["./main.yaml", "../d/main.yaml", "/d/main.yaml"],
      saveR env fs { path := p, multifile := false, dump := .text "new" } = (.error .refuse, fs)) := by decide

/-! ## the fsspec branch (`memory://…`, `s3://…`: any path `Path(mode="sc")` recognises) — `saveFsspec`

Since fixes 22a2e9a (F60) and 8a0a805 (F61) both halves of C18 hold on this branch at FULL strength, and they are stated
below over BOTH branches at once (`saveAny`).  The branch as it was (`saveFsspecOld`) is kept as a regression record
with its refutations (former findings C18-fsspec-silent-overwrite, C18-fsspec-truncates-on-failure). -/

/-- C18_no_overwrite on the fsspec branch, full strength -/
theorem C18_no_overwrite_fsspec (fs : FS) (i : FInput) (how : i.overwrite = false)
    (q : String) (hq : (fs.get q).isSome) : (saveFsspec fs i).2.get q = fs.get q := by
  unfold saveFsspec
  split
  · rfl
  split
  · rfl
  by_cases hp : (fs.get i.path).isSome
  · simp [refuses, how, hp]
  · have hne : q ≠ i.path := by intro h; subst h; exact hp hq
    have hr : refuses i.overwrite fs i.path = false := by simp [refuses, how, hp]
    simp only [hr, Bool.false_eq_true, ↓reduceIte]
    cases i.dump with
    | fail e => rfl
    | text s => exact writeFile_frame _ _ _ _ _ hne

/-- C18_all_or_nothing on the fsspec branch, full strength: whatever makes `save` fail — unknown format, multifile
    requested, refusal to overwrite, invalid configuration, unserialisable value, `fsspec.open` failing — nothing has
    been created, emptied or changed (`.io`, the back-end failing in the middle of the write, is outside as on the
    local branch) -/
theorem C18_all_or_nothing_fsspec (fs : FS) (i : FInput) (e : Err)
    (h : (saveFsspec fs i).1 = .error e) (hio : e ≠ .io) : (saveFsspec fs i).2 = fs := by
  unfold saveFsspec at *
  split
  · rfl
  split
  · rfl
  split
  · rfl
  rename_i h1 h2 h3
  simp only [h1, h2, h3, Bool.false_eq_true, ↓reduceIte] at h
  cases hd : i.dump with
  | fail e' => rfl
  | text s =>
    simp only [hd] at h ⊢
    exact (writeFile_error_clean _ _ _ _ _ h hio).1

/-- ONE theorem over both branches: without `overwrite`, whichever branch a call of `save` takes (local single- or
    multi-file, fsspec), whatever the fault vector, success or failure — every existing file keeps its content -/
theorem C18_no_overwrite_any (fs : FS) (t : Target) (how : t.overwrite = false)
    (q : String) (hq : (fs.get q).isSome) : (saveAny fs t).2.get q = fs.get q := by
  cases t with
  | loc env i => exact C18_no_overwrite env fs i how q hq
  | fsspec i => exact C18_no_overwrite_fsspec fs i how q hq

/-- ONE theorem over both branches: a call that writes at most one file (local single-file mode, or any call on the
    fsspec branch) and fails for any reason other than the OS failing in the middle of the write leaves the file
    system exactly as it was -/
theorem C18_all_or_nothing_single_any (fs : FS) (t : Target) (e : Err) (hs : t.singleFile = true)
    (h : (saveAny fs t).1 = .error e) (hio : e ≠ .io) : (saveAny fs t).2 = fs := by
  cases t with
  | loc env i => exact C18_all_or_nothing_single env fs i e (by simpa [Target.singleFile] using hs) h hio
  | fsspec i => exact C18_all_or_nothing_fsspec fs i e h hio

/-- the literal wording of the property over both branches -/
theorem C18_all_or_nothing_single_any_invalid_or_unserialisable (fs : FS) (t : Target) (e : Err)
    (hs : t.singleFile = true) (h : (saveAny fs t).1 = .error e) (he : e = .invalid ∨ e = .unserialisable) :
    (saveAny fs t).2 = fs :=
  C18_all_or_nothing_single_any fs t e hs h (by rcases he with rfl | rfl <;> decide)

/-- on the fsspec branch the outcome and the files are those of the local single-file branch in a directory where
    every path is creatable — the two branches are ONE transaction (what the repair bought), except that multi-file
    mode is refused up front -/
theorem C18_fsspec_eq_local_single (fs : FS) (i : FInput) (hm : i.multifile = false) :
    saveFsspec fs i =
      save {} fs { path := i.path, overwrite := i.overwrite, multifile := false, formatOk := i.formatOk,
                   dump := i.dump, wr := i.wr } := by
  unfold saveFsspec save
  simp [hm, pathFc]

/-- multi-file mode on an fsspec path: refused, and NOTHING has been touched (it used to empty the target) -/
theorem C18_fsspec_multifile_refused_clean (fs : FS) (i : FInput) (hf : i.formatOk = true) (hm : i.multifile = true) :
    saveFsspec fs i = (.error .notImplemented, fs) := by
  unfold saveFsspec
  simp [hf, hm]

/-- frame on the fsspec branch: nothing but the target is ever touched -/
theorem C18_fsspec_frame (fs : FS) (i : FInput) (q : String) (hq : q ≠ i.path) :
    (saveFsspec fs i).2.get q = fs.get q := by
  unfold saveFsspec
  split
  · rfl
  split
  · rfl
  split
  · rfl
  cases i.dump with
  | fail e => rfl
  | text s => exact writeFile_frame _ _ _ _ _ hq

/-- success on the fsspec branch: the target holds exactly the dump text -/
theorem C18_fsspec_success_writes (fs : FS) (i : FInput) (h : (saveFsspec fs i).1 = .ok ()) :
    ∃ t, i.dump = .text t ∧ (saveFsspec fs i).2.get i.path = some t := by
  unfold saveFsspec at *
  split at h
  · simp at h
  split at h
  · simp at h
  split at h
  · simp at h
  rename_i h1 h2 h3
  simp only [h1, h2, h3, Bool.false_eq_true, ↓reduceIte]
  cases hd : i.dump with
  | fail e => simp [hd] at h
  | text s =>
    simp only [hd] at h ⊢
    exact ⟨s, rfl, by rw [writeFile_ok _ _ _ _ h]; exact get_put_same _ _ _⟩

def witnessFsspec : FInput := { path := "memory://c.yaml", multifile := false, dump := .text "a: 1\n" }

/-- non-vacuity: the three former witnesses on the branch as it is now — refused / untouched / untouched -/
example : saveFsspec [("memory://c.yaml", "precious: 1\n")] witnessFsspec
    = (.error .refuse, [("memory://c.yaml", "precious: 1\n")]) := by decide
example : saveFsspec [("memory://c.yaml", "precious: 1\n")] { witnessFsspec with overwrite := true, dump := .fail .invalid }
    = (.error .invalid, [("memory://c.yaml", "precious: 1\n")]) := by decide
example : saveFsspec [("memory://c.yaml", "precious: 1\n")] { path := "memory://c.yaml", dump := .text "a: 1\n" }
    = (.error .notImplemented, [("memory://c.yaml", "precious: 1\n")]) := by decide
/-- `overwrite = true` does replace, next to another file that stays -/
example : saveFsspec [("memory://c.yaml", "p"), ("memory://d.yaml", "q")] { witnessFsspec with overwrite := true }
    = (.ok (), [("memory://c.yaml", "a: 1\n"), ("memory://d.yaml", "q")]) := by decide
/-- `fsspec.open` failing: nothing created -/
example : saveFsspec [("memory://d.yaml", "q")] { witnessFsspec with wr := { openOk := false } }
    = (.error .os, [("memory://d.yaml", "q")]) := by decide

/-! ### regression record: the branch BEFORE fixes 22a2e9a / 8a0a805 (`saveFsspecOld`) refuted both halves -/

/-- `overwrite` not requested, existing file: replaced, and `save` reported success (former finding
    C18-fsspec-silent-overwrite) -/
theorem C18_fsspec_old_silent_overwrite_witness :
    witnessFsspec.overwrite = false ∧
    saveFsspecOld [("memory://c.yaml", "precious: 1\n")] witnessFsspec = (.ok (), [("memory://c.yaml", "a: 1\n")]) := by decide

theorem C18_no_overwrite_fsspec_old_fails :
    ¬ (∀ (fs : FS) (i : FInput) (q : String), i.overwrite = false → (fs.get q).isSome →
        (saveFsspecOld fs i).2.get q = fs.get q) := by
  intro h
  have := h [("memory://c.yaml", "precious: 1\n")] witnessFsspec "memory://c.yaml" (by decide) (by decide)
  exact absurd this (by decide)

/-- `overwrite` was not looked at -/
theorem C18_fsspec_old_overwrite_ignored (fs : FS) (i : FInput) (b : Bool) :
    saveFsspecOld fs { i with overwrite := b } = saveFsspecOld fs i := rfl

/-- invalid configuration, `overwrite=True`: the file was emptied (former finding C18-fsspec-truncates-on-failure) -/
theorem C18_all_or_nothing_fsspec_old_fails :
    ¬ (∀ (fs : FS) (i : FInput) (e : Err), (saveFsspecOld fs i).1 = .error e → e ≠ .io → (saveFsspecOld fs i).2 = fs) := by
  intro h
  have := h [("memory://c.yaml", "precious: 1\n")] { witnessFsspec with overwrite := true, dump := .fail .invalid } .invalid
    (by decide) (by decide)
  exact absurd this (by decide)

/-- `multifile` left at its default: `NotImplementedError` — AFTER the probe had emptied the file -/
theorem C18_fsspec_old_multifile_default_truncates :
    saveFsspecOld [("memory://c.yaml", "precious: 1\n")] { path := "memory://c.yaml", dump := .text "a: 1\n" }
      = (.error .notImplemented, [("memory://c.yaml", "")]) := by decide

/-- exact characterisation of the old branch: EVERY failure past the format check and the probe left the target
    existing and empty, whatever it held -/
theorem C18_fsspec_old_failure_empties (fs : FS) (i : FInput) (e : Err) (hf : i.formatOk = true) (hp : i.probeOk = true)
    (h : (saveFsspecOld fs i).1 = .error e) : (saveFsspecOld fs i).2.get i.path = some "" := by
  unfold saveFsspecOld at *
  simp only [hf, hp, Bool.not_true, Bool.false_eq_true, ↓reduceIte] at h ⊢
  cases hm : i.multifile with
  | true => simp [get_put_same]
  | false =>
    simp only [hm, Bool.false_eq_true, ↓reduceIte] at h ⊢
    unfold openThenWrite at *
    cases ho : i.wr.openOk with
    | false => simp [get_put_same]
    | true =>
      simp only [ho, Bool.not_true, Bool.false_eq_true, ↓reduceIte] at h ⊢
      cases hd : i.dump with
      | fail e' => simp [get_put_same]
      | text t =>
        simp only [hd] at h ⊢
        cases hw : i.wr.writeOk with
        | false => simp [get_put_same]
        | true => simp [hw] at h

/-! ## non-vacuity -/

/-- a successful multi-file save next to existing files: new files appear, the old ones are intact -/
example :
    let fs : FS := [("keep.yaml", "k: 1\n"), ("other.txt", "data")]
    let i : Input := { path := "main.yaml", dump := .text "s: sub.yaml\n", subs := [{ path := "sub.yaml", text := .text "x: 1\n" }] }
    (save {} fs i).1 = .ok () ∧ (save {} fs i).2.get "keep.yaml" = some "k: 1\n" ∧
    (save {} fs i).2.get "sub.yaml" = some "x: 1\n" ∧ (save {} fs i).2.get "main.yaml" = some "s: sub.yaml\n" := by decide

/-- `overwrite = false` with an existing sub-file: refused, nothing changes -/
example :
    let fs : FS := [("sub.yaml", "precious")]
    let i : Input := { path := "main.yaml", dump := .text "s: sub.yaml\n", subs := [{ path := "sub.yaml", text := .text "x: 1\n" }] }
    save {} fs i = (.error .refuse, fs) := by decide

/-- `overwrite = true` does replace (so `C18_no_overwrite` is not true for trivial reasons) -/
example :
    let fs : FS := [("main.yaml", "old")]
    let i : Input := { path := "main.yaml", overwrite := true, multifile := false, dump := .text "new" }
    (save {} fs i).2.get "main.yaml" = some "new" := by decide

/-- the hypothesis of the partial theorem holds for a non-trivial state: existing target and sub-files,
    overwrite requested, two sub-files, failure injected at the serialisation of the FIRST one -/
example :
    let fs : FS := [("main.yaml", "old"), ("first.yaml", "a"), ("second.yaml", "b")]
    let i : Input := { path := "main.yaml", overwrite := true, dump := .text "new",
                       subs := [{ path := "first.yaml", text := .fail .unserialisable }, { path := "second.yaml", text := .text "y" }] }
    failsByFirstOpen {} fs i = true ∧ save {} fs i = (.error .unserialisable, fs) := by decide

/-- single-file, existing target, overwrite requested, invalid configuration: untouched (repaired row 15) -/
example :
    save {} [("c.yaml", "a: 1")] { path := "c.yaml", overwrite := true, multifile := false, dump := .fail .invalid }
      = (.error .invalid, [("c.yaml", "a: 1")]) := by decide

/-- `.io` really is outside: the OS failing in the middle of the write leaves the target truncated -/
example :
    save {} [("c.yaml", "a: 1")] { path := "c.yaml", overwrite := true, multifile := false, dump := .text "a: 2",
                                    wr := { writeOk := false } }
      = (.error .io, [("c.yaml", "")]) := by decide

/-- a `save_path_content` sub-file whose source cannot be read fails before its destination is opened -/
example :
    let i : Input := { path := "main.yaml", overwrite := true, dump := .text "m",
                       subs := [{ path := "file.txt", kind := .content, src := "elsewhere/file.txt", readOk := false }] }
    save {} [("file.txt", "content"), ("elsewhere/file.txt", "new")] i
      = (.error .os, [("file.txt", "content"), ("elsewhere/file.txt", "new")]) := by decide

/-- regression examples of the pre-fix orders of the target write (open, then dump; defects F15 / F15m) -/
example : openThenWrite [("c.yaml", "a: 1")] "c.yaml" (.fail .invalid) {} = (.error .invalid, [("c.yaml", "")]) := by decide

end Jap.Props.C18

import Jap.Core.Save
import Jap.Lemmas.Save
import Jap.Gen.SaveOrder
/-!
C18 — save never destroys data: all-or-nothing on failure, no silent overwrite.

All theorems are about `Jap.Save.save` (Core/Save.lean), the sequence of file-system effects of
`ArgumentParser.save` in source order, for ALL environments, file systems, targets, sub-file lists and
ALL fault vectors (outcome of validation, of every serialisation, of every open and every write).
The `tie_*` theorems compare the order the model implements with the order regenerated from /repo.
-/
namespace Jap.Props.C18
open Jap.Save

/-! ## tie: the order regenerated from /repo is the order the model implements -/

theorem tie_single_order : Jap.Gen.SaveOrder.singleSteps = modelSingleSteps := by decide
theorem tie_multi_order : Jap.Gen.SaveOrder.multiSteps = modelMultiSteps := by decide
theorem tie_sub_cfg_order : Jap.Gen.SaveOrder.subCfgSteps = modelSubCfgSteps := by decide
theorem tie_sub_content_order : Jap.Gen.SaveOrder.subContentSteps = modelSubContentSteps := by decide
theorem tie_defaults :
    Jap.Gen.SaveOrder.overwriteDefault = ({ path := "", dump := .text "" } : Input).overwrite ∧
    Jap.Gen.SaveOrder.multifileDefault = ({ path := "", dump := .text "" } : Input).multifile := by decide
theorem tie_check_overwrite :
    Jap.Gen.SaveOrder.checkOverwriteTest = "not overwrite and os.path.isfile(path.absolute)" := by decide
/-- the raising tests of `Path(mode="..c..")`, as the model's `pathFc` reads them: parent directory missing,
    parent not writeable, existing path that is neither a regular file nor a FIFO (since fix 5706b13 an existing
    FIFO passes `fc`; FIFO targets are OUTSIDE the model, see `Env.nonFile`) -/
theorem tie_path_creatable :
    Jap.Gen.SaveOrder.pathCreatableChecks =
      ["not os.path.isdir(pdir)", "not os.access(pdir, os.W_OK)",
       "'d' in mode and os.access(abs_path, os.F_OK) and (not os.path.isdir(abs_path))",
       "'f' in mode and os.access(abs_path, os.F_OK) and (not (os.path.isfile(abs_path) or is_fifo(abs_path)))"] := by decide

/-- "the parent directory" of the creatable check is the directory the file will really be created in
    (`realpath` of `path/..`, which follows a symbolic link in the last component) — this is what `Env.noParent` /
    `Env.roParent` are facts about -/
theorem tie_path_creatable_parent :
    Jap.Gen.SaveOrder.pathCreatableParent = "os.path.realpath(os.path.join(abs_path, '..'))" := by decide

/-! ## no silent overwrite -/

/-- C18_no_overwrite: without `overwrite`, every file that existed keeps its content — for every
    environment, configuration outcome, fault vector, in single-file and in multi-file mode,
    whether `save` succeeds or fails. -/
theorem C18_no_overwrite (env : Env) (fs : FS) (i : Input) (how : i.overwrite = false)
    (q : String) (hq : (fs.get q).isSome) : (save env fs i).2.get q = fs.get q := by
  unfold save
  split
  · rfl
  split
  · rfl
  by_cases hp : (fs.get i.path).isSome
  · simp [refuses, how, hp]
  · have hne : q ≠ i.path := by intro h; subst h; exact hp hq
    have hr : refuses i.overwrite fs i.path = false := by simp [refuses, how, hp]
    simp only [hr, Bool.false_eq_true, ↓reduceIte]
    split
    · cases i.dump with
      | fail e => rfl
      | text s => exact writeFile_frame _ _ _ _ _ hne
    · split
      · rfl
      · have hk := saveSubs_keeps env i.subs fs q hq
        rw [how]
        split
        · exact hk
        · cases i.dump with
          | fail e => exact hk
          | text s => dsimp only; rw [writeFile_frame _ _ _ _ _ hne]; exact hk

/-- frame (any mode, any flags, success or failure): a path that is neither the target nor one of the
    sub-file paths is never touched -/
theorem C18_frame (env : Env) (fs : FS) (i : Input) (q : String) (hq : q ≠ i.path)
    (hs : ∀ s ∈ i.subs, q ≠ s.path) : (save env fs i).2.get q = fs.get q := by
  unfold save
  split
  · rfl
  split
  · rfl
  split
  · rfl
  split
  · cases i.dump with
    | fail e => rfl
    | text s => exact writeFile_frame _ _ _ _ _ hq
  · split
    · rfl
    · have hk := saveSubs_frame env i.overwrite i.subs fs q hs
      dsimp only
      split
      · exact hk
      · cases i.dump with
        | fail e => exact hk
        | text s => dsimp only; rw [writeFile_frame _ _ _ _ _ hq]; exact hk

/-! ## all-or-nothing on failure -/

/-- C18_all_or_nothing, single-file mode, full strength: whatever makes `save` fail (bad format,
    uncreatable path, refusal to overwrite, invalid configuration, unserialisable value, `open` failing)
    the file system is unchanged.  `.io` (the operating system failing in the middle of `write` after the
    target was opened) is the one class outside the property (DESIGN: OS-level partial writes). -/
theorem C18_all_or_nothing_single (env : Env) (fs : FS) (i : Input) (e : Err) (hm : i.multifile = false)
    (h : (save env fs i).1 = .error e) (hio : e ≠ .io) : (save env fs i).2 = fs := by
  unfold save at *
  split
  · rfl
  split
  · rfl
  split
  · rfl
  rename_i h1 h2 h3
  simp only [h1, h2, h3, hm, Bool.false_eq_true, ↓reduceIte, Bool.not_false] at h ⊢
  cases hd : i.dump with
  | fail e' => rfl
  | text s =>
    simp only [hd] at h ⊢
    unfold writeFile at *
    split
    · rfl
    · rename_i ho
      simp only [ho, Bool.false_eq_true, ↓reduceIte] at h ⊢
      split
      · rename_i hw
        simp only [hw, ↓reduceIte] at h
        exact absurd (by simpa using h.symm) hio
      · rename_i hw
        simp [hw] at h

/-- the literal wording of the property for single-file mode -/
theorem C18_all_or_nothing_single_invalid_or_unserialisable (env : Env) (fs : FS) (i : Input) (e : Err)
    (hm : i.multifile = false) (h : (save env fs i).1 = .error e)
    (he : e = .invalid ∨ e = .unserialisable) : (save env fs i).2 = fs :=
  C18_all_or_nothing_single env fs i e hm h (by rcases he with rfl | rfl <;> decide)

/-
C18_all_or_nothing, multi-file mode, FULL statement — FALSE for the code as it is (row 15b of DESIGN §7):

  theorem C18_all_or_nothing_multi (env : Env) (fs : FS) (i : Input) (e : Err) (hm : i.multifile = true)
      (h : (save env fs i).1 = .error e) (hio : e ≠ .io) : (save env fs i).2 = fs

`save_paths` writes each sub-file as soon as its text exists; a failure at a later sub-file (or at the final
dump, or a later refusal to overwrite) leaves the earlier sub-files written.
-/

/-- the witness: empty directory, two sub-files, the second one cannot be serialised (an `Enum` member
    dumped raw) — `first.yaml` has been created although `save` failed -/
def witness15b : Input :=
  { path := "main.yaml", dump := .text "a: first.yaml\nb: second.yaml\n",
    subs := [{ path := "first.yaml", text := .text "x: 1\n" },
             { path := "second.yaml", text := .fail .unserialisable }] }

theorem C18_all_or_nothing_multi_witness :
    (save {} [] witness15b).1 = .error .unserialisable ∧
    (save {} [] witness15b).2 = [("first.yaml", "x: 1\n")] := by decide

/-- negation of the full multi-file statement -/
theorem C18_all_or_nothing_multi_fails :
    ¬ (∀ (env : Env) (fs : FS) (i : Input) (e : Err), i.multifile = true →
        (save env fs i).1 = .error e → e ≠ .io → (save env fs i).2 = fs) := by
  intro h
  have := h {} [] witness15b .unserialisable (by decide) (by decide) (by decide)
  exact absurd this (by decide)

/- the forced hypothesis is the explicit decidable predicate `Jap.Save.failsByFirstOpen` (Lemmas/Save.lean):
   the step that fails is no later than the FIRST `open(…, "w")` of the run -/

/-- C18_all_or_nothing_multi_partial (both modes): a failure at or before the first write leaves the file
    system unchanged — in particular an invalid configuration (validation precedes `save_paths`), a refusal
    or serialisation failure at the FIRST sub-file, and, without sub-files, a failing final dump. -/
theorem C18_all_or_nothing_multi_partial (env : Env) (fs : FS) (i : Input)
    (h : failsByFirstOpen env fs i = true) :
    (∃ e, (save env fs i).1 = .error e) ∧ (save env fs i).2 = fs := by
  unfold failsByFirstOpen at h
  unfold save
  by_cases h1 : i.formatOk = true
  · by_cases h2 : pathFc env i.path = true
    · by_cases h3 : refuses i.overwrite fs i.path = true
      · simp [h1, h2, h3]
      · by_cases hm : i.multifile = true
        · by_cases hv : i.validateOk = true
          · simp only [h1, h2, h3, hm, hv, Bool.not_true, Bool.false_or, ↓reduceIte, Bool.false_eq_true] at h ⊢
            cases hs : i.subs with
            | nil =>
              simp only [hs] at h
              simp only [saveSubs]
              cases hd : i.dump with
              | fail e => simp
              | text s => simp [hd] at h; simp [writeFile, h]
            | cons s rest =>
              simp only [hs] at h
              have ⟨⟨e, he⟩, hfs⟩ := subStep_clean env i.overwrite fs s h
              simp [saveSubs, he, hfs]
          · simp [h1, h2, h3, hm, hv]
        · simp only [h1, h2, h3, hm, Bool.not_true, Bool.false_or, ↓reduceIte, Bool.false_eq_true,
            Bool.not_false] at h ⊢
          cases hd : i.dump with
          | fail e => simp
          | text s => simp [hd] at h; simp [writeFile, h]
    · simp [h1, h2]
  · simp [h1]

/-- multi-file mode without sub-files is all-or-nothing at full strength (the final dump precedes the open
    of the target: fix 0eab76f) -/
theorem C18_all_or_nothing_multi_nosubs (env : Env) (fs : FS) (i : Input) (e : Err)
    (hs : i.subs = []) (h : (save env fs i).1 = .error e) (hio : e ≠ .io) : (save env fs i).2 = fs := by
  by_cases hm : i.multifile = true
  · unfold save at *
    split
    · rfl
    split
    · rfl
    split
    · rfl
    rename_i h1 h2 h3
    simp only [h1, h2, h3, hm, hs, saveSubs, Bool.false_eq_true, ↓reduceIte, Bool.not_true] at h ⊢
    split
    · rfl
    · rename_i hv
      simp only [hv, Bool.false_eq_true, ↓reduceIte] at h
      cases hd : i.dump with
      | fail e' => rfl
      | text s =>
        simp only [hd] at h ⊢
        unfold writeFile at *
        split
        · rfl
        · rename_i ho
          simp only [ho, Bool.false_eq_true, ↓reduceIte] at h ⊢
          split
          · rename_i hw
            simp only [hw, ↓reduceIte] at h
            exact absurd (by simpa using h.symm) hio
          · rename_i hw
            simp [hw] at h
  · exact C18_all_or_nothing_single env fs i e (by simpa using hm) h hio

/-- the open finding is confined to multi-file mode with at least one sub-file: whenever a failing save (other
    than the OS failing in the middle of a write) has changed anything, it ran in multi-file mode and had
    sub-files to write -/
theorem C18_changed_on_failure_only_multifile_with_subs (env : Env) (fs : FS) (i : Input) (e : Err)
    (h : (save env fs i).1 = .error e) (hio : e ≠ .io) (hch : (save env fs i).2 ≠ fs) :
    i.multifile = true ∧ i.subs ≠ [] := by
  constructor
  · cases hm : i.multifile with
    | true => rfl
    | false => exact absurd (C18_all_or_nothing_single env fs i e hm h hio) hch
  · intro hs
    exact hch (C18_all_or_nothing_multi_nosubs env fs i e hs h hio)

/-- an invalid configuration never touches a file, in both modes (validation precedes every open) -/
theorem C18_invalid_never_writes (env : Env) (fs : FS) (i : Input)
    (hinv : if i.multifile then i.validateOk = false else ∃ e, i.dump = .fail e) :
    (∃ e, (save env fs i).1 = .error e) ∧ (save env fs i).2 = fs := by
  apply C18_all_or_nothing_multi_partial
  unfold failsByFirstOpen
  by_cases hm : i.multifile = true
  · simp only [hm, ↓reduceIte] at hinv
    simp [hm, hinv]
  · simp only [hm, Bool.false_eq_true, ↓reduceIte] at hinv
    obtain ⟨e, he⟩ := hinv
    simp [hm, he]

/-! ## success -/

/-- C18_success_writes (target): after a successful save the target holds exactly the dump text -/
theorem C18_success_writes_target (env : Env) (fs : FS) (i : Input) (h : (save env fs i).1 = .ok ()) :
    ∃ t, i.dump = .text t ∧ (save env fs i).2.get i.path = some t := by
  unfold save at *
  split at h
  · simp at h
  split at h
  · simp at h
  split at h
  · simp at h
  rename_i h1 h2 h3
  simp only [h1, h2, h3, Bool.false_eq_true, ↓reduceIte]
  split at h
  · rename_i hm
    simp only [hm, ↓reduceIte]
    cases hd : i.dump with
    | fail e => simp [hd] at h
    | text s =>
      simp only [hd] at h ⊢
      exact ⟨s, rfl, by rw [writeFile_ok _ _ _ _ h]; exact get_put_same _ _ _⟩
  · rename_i hm
    simp only [hm, Bool.false_eq_true, ↓reduceIte]
    split at h
    · simp at h
    · rename_i hv
      simp only [hv, Bool.false_eq_true, ↓reduceIte]
      dsimp only at h ⊢
      split at h
      · simp at h
      · rename_i u hu
        cases hd : i.dump with
        | fail e => simp [hd] at h
        | text s =>
          simp only [hd] at h ⊢
          exact ⟨s, rfl, by rw [writeFile_ok _ _ _ _ h]; exact get_put_same _ _ _⟩

/-- C18_success_writes (sub-files): after a successful multi-file save every sub-config file holds exactly its
    serialised text, and every `save_path_content` file holds the content its source had before the save
    (its source may be the destination itself, not one of the other files written) —
    provided no two written files share a name (sub-files are written under their BASENAME next to the target;
    see the collision witnesses below) -/
theorem C18_success_writes_subs (env : Env) (fs : FS) (i : Input) (hm : i.multifile = true)
    (h : (save env fs i).1 = .ok ()) (hnd : (i.subs.map (·.path)).Nodup)
    (hmain : i.path ∉ i.subs.map (·.path)) :
    ∀ s ∈ i.subs,
      (s.kind = .cfg → ∃ t, s.text = .text t ∧ (save env fs i).2.get s.path = some t) ∧
      (s.kind = .content → (∀ r ∈ i.subs, r.path ≠ s.path → s.src ≠ r.path) →
        ∃ t, fs.get s.src = some t ∧ (save env fs i).2.get s.path = some t) := by
  unfold save at *
  split at h
  · simp at h
  split at h
  · simp at h
  split at h
  · simp at h
  rename_i h1 h2 h3
  simp only [h1, h2, h3, hm, Bool.false_eq_true, ↓reduceIte, Bool.not_true] at h ⊢
  split at h
  · simp at h
  · rename_i hv
    simp only [hv, Bool.false_eq_true, ↓reduceIte]
    cases hsub : (saveSubs env i.overwrite fs i.subs).1 with
    | error e => simp [hsub] at h
    | ok u =>
      cases u
      simp only [hsub] at h ⊢
      cases hd : i.dump with
      | fail e => simp [hd] at h
      | text txt =>
        simp only [hd] at h ⊢
        intro s hs
        have hne : s.path ≠ i.path := fun heq => hmain (List.mem_map.mpr ⟨s, hs, heq⟩)
        have hg := saveSubs_ok_get env i.overwrite i.subs fs hsub hnd s hs
        rw [writeFile_frame _ _ _ _ _ hne]
        exact hg

/-- the distinctness hypothesis is forced: two sub-configs loaded from `a/x.yaml` and `b/x.yaml` are both
    written to `x.yaml`; the save succeeds and the first sub-config's text is gone -/
theorem C18_success_writes_subs_needs_distinct :
    let i : Input := { path := "main.yaml", overwrite := true, dump := .text "m",
                       subs := [{ path := "x.yaml", text := .text "x: 5\n" }, { path := "x.yaml", text := .text "y: 6\n" }] }
    (save {} [] i).1 = .ok () ∧ (save {} [] i).2.get "x.yaml" = some "y: 6\n" := by decide

/-- a `save_path_content` file whose source already lies in the target directory is copied onto itself: the save
    succeeds and the content is intact (fix 1bcbda4: the source is read before the destination is opened) -/
theorem C18_path_content_self_copy_keeps :
    let i : Input := { path := "main.yaml", overwrite := true, dump := .text "pth: file.txt\n",
                       subs := [{ path := "file.txt", kind := .content, src := "file.txt" }] }
    (save {} [("file.txt", "precious content")] i).1 = .ok () ∧
    (save {} [("file.txt", "precious content")] i).2.get "file.txt" = some "precious content" := by decide

/-- regression example of the PRE-FIX order of that step (open, then read, then write; defect F15s): the step
    succeeds and the file is empty -/
theorem C18_path_content_self_copy_empties_old_order :
    subStepContentOld [("file.txt", "precious content")] { path := "file.txt", kind := .content, src := "file.txt" }
      = (.ok (), [("file.txt", "")]) := by decide

/-- whatever happens in multi-file mode, a failing save (other than the OS failing in the middle of the final
    write) does not touch the target itself — what the open finding leaves behind are sub-files only -/
theorem C18_failure_target_untouched (env : Env) (fs : FS) (i : Input) (e : Err)
    (h : (save env fs i).1 = .error e) (hio : e ≠ .io ∨ i.wr.writeOk = true)
    (hmain : ∀ s ∈ i.subs, i.path ≠ s.path) : (save env fs i).2.get i.path = fs.get i.path := by
  unfold save at *
  split
  · rfl
  split
  · rfl
  split
  · rfl
  rename_i h1 h2 h3
  simp only [h1, h2, h3, Bool.false_eq_true, ↓reduceIte] at h ⊢
  have hwf : ∀ (fs' : FS) (s : String), (writeFile fs' i.path s i.wr).1 = .error e →
      (writeFile fs' i.path s i.wr).2 = fs' := by
    intro fs' s hw
    unfold writeFile at *
    split
    · rfl
    · rename_i ho
      simp only [ho, Bool.false_eq_true, ↓reduceIte] at hw ⊢
      split
      · rename_i hwr
        simp only [hwr, ↓reduceIte] at hw
        rcases hio with hio | hio
        · exact absurd (by simpa using hw.symm) hio
        · simp [hio] at hwr
      · rename_i hwr
        simp [hwr] at hw
  split
  · rename_i hm
    simp only [hm, ↓reduceIte] at h
    cases hd : i.dump with
    | fail e' => rfl
    | text s => simp only [hd] at h ⊢; rw [hwf fs s h]
  · rename_i hm
    simp only [hm, Bool.false_eq_true, ↓reduceIte] at h
    split
    · rfl
    · rename_i hv
      simp only [hv, Bool.false_eq_true, ↓reduceIte] at h
      have hk := saveSubs_frame env i.overwrite i.subs fs i.path hmain
      split
      · exact hk
      · rename_i u hu
        simp only [hu] at h
        cases hd : i.dump with
        | fail e' => exact hk
        | text s => simp only [hd] at h ⊢; rw [hwf _ s h]; exact hk

/-! ## non-vacuity -/

/-- a successful multi-file save next to existing files: new files appear, the old ones are intact -/
example :
    let fs : FS := [("keep.yaml", "k: 1\n"), ("other.txt", "data")]
    let i : Input := { path := "main.yaml", dump := .text "s: sub.yaml\n", subs := [{ path := "sub.yaml", text := .text "x: 1\n" }] }
    (save {} fs i).1 = .ok () ∧ (save {} fs i).2.get "keep.yaml" = some "k: 1\n" ∧
    (save {} fs i).2.get "sub.yaml" = some "x: 1\n" ∧ (save {} fs i).2.get "main.yaml" = some "s: sub.yaml\n" := by decide

/-- `overwrite = false` with an existing sub-file: refused, nothing changes -/
example :
    let fs : FS := [("sub.yaml", "precious")]
    let i : Input := { path := "main.yaml", dump := .text "s: sub.yaml\n", subs := [{ path := "sub.yaml", text := .text "x: 1\n" }] }
    save {} fs i = (.error .refuse, fs) := by decide

/-- `overwrite = true` does replace (so `C18_no_overwrite` is not true for trivial reasons) -/
example :
    let fs : FS := [("main.yaml", "old")]
    let i : Input := { path := "main.yaml", overwrite := true, multifile := false, dump := .text "new" }
    (save {} fs i).2.get "main.yaml" = some "new" := by decide

/-- the hypothesis of the partial theorem holds for a non-trivial state: existing target and sub-files,
    overwrite requested, two sub-files, failure injected at the serialisation of the FIRST one -/
example :
    let fs : FS := [("main.yaml", "old"), ("first.yaml", "a"), ("second.yaml", "b")]
    let i : Input := { path := "main.yaml", overwrite := true, dump := .text "new",
                       subs := [{ path := "first.yaml", text := .fail .unserialisable }, { path := "second.yaml", text := .text "y" }] }
    failsByFirstOpen {} fs i = true ∧ save {} fs i = (.error .unserialisable, fs) := by decide

/-- single-file, existing target, overwrite requested, invalid configuration: untouched (repaired row 15) -/
example :
    save {} [("c.yaml", "a: 1")] { path := "c.yaml", overwrite := true, multifile := false, dump := .fail .invalid }
      = (.error .invalid, [("c.yaml", "a: 1")]) := by decide

/-- `.io` really is outside: the OS failing in the middle of the write leaves the target truncated -/
example :
    save {} [("c.yaml", "a: 1")] { path := "c.yaml", overwrite := true, multifile := false, dump := .text "a: 2",
                                    wr := { writeOk := false } }
      = (.error .io, [("c.yaml", "")]) := by decide

/-- a `save_path_content` sub-file whose source cannot be read fails before its destination is opened -/
example :
    let i : Input := { path := "main.yaml", overwrite := true, dump := .text "m",
                       subs := [{ path := "file.txt", kind := .content, src := "elsewhere/file.txt", readOk := false }] }
    save {} [("file.txt", "content"), ("elsewhere/file.txt", "new")] i
      = (.error .os, [("file.txt", "content"), ("elsewhere/file.txt", "new")]) := by decide

/-- regression examples of the pre-fix orders of the target write (open, then dump; defects F15 / F15m) -/
example : openThenWrite [("c.yaml", "a: 1")] "c.yaml" (.fail .invalid) {} = (.error .invalid, [("c.yaml", "")]) := by decide

end Jap.Props.C18

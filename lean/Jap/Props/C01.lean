/-
C01 — a dumped configuration re-parses to the same configuration: layer L2 (plain values ↔ text), the
agreement between the dumper's and the loader's scalar resolution that the property statement names, plus
the JSON formats read back by the YAML loader (shared with C05).

All statements quantify over ALL strings / class words.  The resolver statements are `decide +kernel`
certificates over the joint automaton regenerated from the live Loader/Dumper classes on every run
(`Jap.Gen.Resolvers`), lifted to all words by induction (`Jap.Dfa.lift`).
-/
import Jap.Lemmas.ScalarCert
import Jap.Lemmas.ScalarJson
import Jap.Lemmas.EmitterRoundtrip

namespace Jap.Props.C01
open Jap.Scalar
open Jap.Gen.Resolvers (imgInt imgBool imgNull imgFloatYaml jsonInt jsonFloat imgFloatJson)

/-! ### the dumper and the loader agree on what is a string -/

/-- Every string that the Dumper class used by `yaml_dump` resolves as `str` — the only strings the emitter may
write without quotes — is resolved as `str` by the loader class used by `yaml_load`. -/
theorem C01_resolver_agreement (s : String) : resolveDump s = .str → resolveLoad s = .str :=
  agree_words _

/-- the same on arbitrary class words of the joint automaton (no well-formedness hypothesis is needed) -/
theorem C01_resolver_agreement_words (w : List Nat) : resolveDumpW w = .str → resolveLoadW w = .str :=
  agree_words w

/-- contrapositive: whatever the loader would read as a non-string, the dumper refuses to write plain -/
theorem C01_loader_nonstr_is_quoted (s : String) : resolveLoad s ≠ .str → resolveDump s ≠ .str :=
  fun h hd => h (agree_words _ hd)

/-! ### what the representers write for int / float / bool / null loads with that tag -/

theorem C01_emitted_int (s : String) : inImage imgInt s = true → resolveLoad s = .int := by
  intro h; simp only [resolveLoad, resolveLoadC, resolveLoadW]; rw [img_words imgInt 3 imgInt_cert _ h]; rfl

theorem C01_emitted_bool (s : String) : inImage imgBool s = true → resolveLoad s = .bool := by
  intro h; simp only [resolveLoad, resolveLoadC, resolveLoadW]; rw [img_words imgBool 2 imgBool_cert _ h]; rfl

theorem C01_emitted_null (s : String) : inImage imgNull s = true → resolveLoad s = .null := by
  intro h; simp only [resolveLoad, resolveLoadC, resolveLoadW]; rw [img_words imgNull 1 imgNull_cert _ h]; rfl

/-- image of `SafeRepresenter.represent_float`: `-?D+.D+(e[-+]D+)?`, `.inf`, `-.inf`, `.nan` -/
theorem C01_emitted_float (s : String) : inImage imgFloatYaml s = true → resolveLoad s = .float := by
  intro h; simp only [resolveLoad, resolveLoadC, resolveLoadW]; rw [img_words imgFloatYaml 4 imgFloatYaml_cert _ h]; rfl

/-- the dumper's own resolver gives the same tags, so these texts are written plain, without a `!!tag` -/
theorem C01_emitted_untagged (s : String) :
    (inImage imgInt s = true → resolveDump s = .int) ∧ (inImage imgBool s = true → resolveDump s = .bool) ∧
    (inImage imgNull s = true → resolveDump s = .null) ∧ (inImage imgFloatYaml s = true → resolveDump s = .float) := by
  refine ⟨?_, ?_, ?_, ?_⟩ <;> intro h <;> simp only [resolveDump, resolveDumpC, resolveDumpW]
  · rw [imgDump_words imgInt 3 imgIntD_cert _ h]; rfl
  · rw [imgDump_words imgBool 2 imgBoolD_cert _ h]; rfl
  · rw [imgDump_words imgNull 1 imgNullD_cert _ h]; rfl
  · rw [imgDump_words imgFloatYaml 4 imgFloatYamlD_cert _ h]; rfl

/-! ### JSON numbers read by the YAML loader (json / json_indented dumps, C05) -/

/-- RFC 8259 numbers without fraction and exponent load as int -/
theorem C05_json_int_sub (s : String) : inImage jsonInt s = true → resolveLoad s = .int := by
  intro h; simp only [resolveLoad, resolveLoadC, resolveLoadW]; rw [img_words jsonInt 3 jsonInt_cert _ h]; rfl

/-- RFC 8259 numbers with a fraction and/or an exponent load as float -/
theorem C05_json_float_sub (s : String) : inImage jsonFloat s = true → resolveLoad s = .float := by
  intro h; simp only [resolveLoad, resolveLoadC, resolveLoadW]; rw [img_words jsonFloat 4 jsonFloat_cert _ h]; rfl

/- Full statement (FALSE on the current tree, DESIGN §7 row 3):
     ∀ s, s is a text json.dumps writes for a float → resolveLoad s = .float
   json.dumps writes `Infinity`, `-Infinity`, `NaN` for the non-finite floats and the loader reads them as
   strings.  Proved instead: the statement for finite floats, and the three witnesses. -/
theorem C01_emitted_float_json_partial (s : String) : inImage imgFloatJson s = true → resolveLoad s = .float := by
  intro h; simp only [resolveLoad, resolveLoadC, resolveLoadW]; rw [img_words imgFloatJson 4 imgFloatJson_cert _ h]; rfl

theorem C01_emitted_float_json_counterexample :
    resolveLoad "Infinity" = .str ∧ resolveLoad "-Infinity" = .str ∧ resolveLoad "NaN" = .str := by
  decide +kernel

/-- the hypothesis of the partial theorem is satisfiable (and the JSON grammar columns are not empty) -/
example : inImage imgFloatJson "-1.5e-07" = true ∧ inImage jsonFloat "1E5" = true ∧ inImage jsonInt "-0" = true ∧
    inImage imgFloatYaml "1.0e+22" = true ∧ inImage imgInt "-12" = true := by decide +kernel

/-! ### JSON string literals read by the YAML loader -/

/- Full statement (FALSE on the current tree, DESIGN §7 row 3b):
     ∀ s, (∀ c ∈ s, yamlPrintable c) → jsonStringRoundTrip s = some s
   `json.dumps(ensure_ascii=False)` leaves U+0085, U+2028, U+2029 raw and the YAML scanner treats them as line
   breaks: NEL is folded into a space, blanks next to LS/PS are dropped.  Characters outside the reader's
   alphabet (DEL, C1 controls, U+FFFE, U+FFFF) are written raw as well and make the reader fail. -/
theorem C01_json_string_rt_partial (s : List Char) (hs : ∀ c ∈ s, jsonSafe c = true) :
    jsonStringRoundTrip s = some s :=
  json_string_rt s hs

theorem C01_json_string_rt_counterexample :
    ¬ (∀ s : List Char, (∀ c ∈ s, yamlPrintable c = true) → jsonStringRoundTrip s = some s) := by
  intro h
  have := h ['a', Char.ofNat 133, 'b'] (by decide)
  revert this
  decide +kernel

/-- row 3b witnesses: NEL becomes a space; a blank before LS is lost; DEL, a C1 control and U+FFFE are unreadable -/
theorem C01_json_string_rt_witnesses :
    jsonStringRoundTrip ['a', Char.ofNat 0x85, 'b'] = some ['a', ' ', 'b'] ∧
    jsonStringRoundTrip ['a', ' ', Char.ofNat 0x2028, 'b'] = some ['a', Char.ofNat 0x2028, 'b'] ∧
    jsonStringRoundTrip ['a', Char.ofNat 0x2029, ' ', 'b'] = some ['a', Char.ofNat 0x2029, 'b'] ∧
    jsonStringRoundTrip [Char.ofNat 0x7f] = none ∧ jsonStringRoundTrip [Char.ofNat 0x9b] = none ∧
    jsonStringRoundTrip [Char.ofNat 0xfffe] = none := by
  decide +kernel

/-- the hypothesis of the partial theorem is satisfiable by a non-trivial string (quotes, backslash, control
characters, blanks, non-BMP) -/
example : ∀ c ∈ "hé \"q\" \\ \t\n\r\u0001 x  😀\ufeff".toList, jsonSafe c = true := by decide +kernel

/-! ### the str round trip through the yaml text, inside the model

`emitScalar col s` is the text `Emitter` writes for the str value `s` starting at column `col` (analyze_scalar,
choose_scalar_style with the dumper's resolver verdict, write_plain / write_single_quoted / write_double_quoted);
`loadLine` is the scanner's reading of a line that starts with a scalar (fetch decision, plain / single-quoted /
double-quoted scanning, the reader's character check) together with the loader's resolver for plain text.
`emitScalar` is `none` — outside the model — exactly when `s` contains a line break (LF, NEL, LS, PS: multi-line
styles) or when the text does not fit into `best_width` (= 80, extracted) from column `col`, in which case the
real emitter may fold it at a space.  No other hypothesis remains: every other string over all Unicode scalar
values is covered (C0/C1 controls, DEL, BOM, U+FFFE/U+FFFF, non-BMP … are written double-quoted with escapes). -/

/-- value position: whatever the emitter writes for a single-line str that fits the line is read back as that str -/
theorem C01_str_scalar_roundtrip (col : Nat) (s t : List Char) (h : emitScalar col s = some t) :
    loadLine t = some (Tag.str, s, []) := by
  unfold emitScalar at h
  split at h
  · cases h
  · rename_i hml
    split at h
    · injection h with h; subst h
      have := text_roundtrip false s [] (by simpa using hml) (fun h => by cases h) (Or.inl rfl) rfl
      simpa using this
    · cases h

/-- simple-key position (`check_simple_key`: non-empty, shorter than 128, single line; never folded): the key text
followed by `:` and a blank (or the end of the line) is read back as that str, leaving the `:` -/
theorem C01_str_key_roundtrip (s t rest : List Char) (h : emitKey s = some t) (hb : followedBlankZ rest = true)
    (hr : rest.all yamlPrintable = true) :
    loadLine (t ++ Char.ofNat 58 :: rest) = some (Tag.str, s, Char.ofNat 58 :: rest) := by
  unfold emitKey at h
  split at h
  · cases h
  · rename_i hc
    injection h with h; subst h
    simp only [Bool.or_eq_true, not_or, Bool.not_eq_true] at hc
    have hcolon : yamlPrintable (Char.ofNat 58) = true := by decide
    exact text_roundtrip true s (Char.ofNat 58 :: rest) hc.1.1 (fun _ hs => by simp [hs] at hc)
      (Or.inr ⟨rest, rfl, hb⟩) (by simp [hcolon, hr])

/-- the domain of the model: defined for every single-line string whose text fits into best_width -/
theorem C01_emitScalar_defined (col : Nat) (s : List Char) (h1 : isMultiline s = false)
    (h2 : col + (textOf false s).length ≤ Gen.DumpCfg.yamlBestWidth) : emitScalar col s = some (textOf false s) := by
  simp [emitScalar, h1, h2]

theorem C01_emitKey_defined (s : List Char) (h1 : isMultiline s = false) (h2 : s ≠ []) (h3 : s.length < 128) :
    emitKey s = some (textOf true s) := by
  have : s.isEmpty = false := by cases s <;> simp_all
  simp [emitKey, h1, this]; omega

/-- the three styles occur; float-like strings are quoted (row 1 repaired), `: ` and ` #` force quotes, a TAB
forces double quotes, the empty string is written `''` -/
example : emitScalar 3 "abc".toList = some "abc".toList ∧ emitScalar 3 "1e3".toList = some "'1e3'".toList ∧
    emitScalar 3 "a: b".toList = some "'a: b'".toList ∧ emitScalar 3 "a #b".toList = some "'a #b'".toList ∧
    emitScalar 3 "it's".toList = some "it's".toList ∧ emitScalar 3 "'q'".toList = some "'''q'''".toList ∧
    emitScalar 3 "a\tb".toList = some "\"a\\tb\"".toList ∧ emitScalar 3 [] = some "''".toList ∧
    emitScalar 3 "-x".toList = some "-x".toList ∧ emitScalar 3 "- x".toList = some "'- x'".toList ∧
    emitKey "a:b".toList = some "a:b".toList ∧ emitKey [] = none ∧ emitScalar 3 "a\nb".toList = none := by
  decide +kernel

/-! ### non-vacuity and the repaired row 1 -/

/-- plain strings exist, and the float-like strings of DESIGN §7 row 1 are no longer `str` for the dumper -/
example : resolveDump "abc" = .str ∧ resolveLoad "abc" = .str ∧ resolveDump "" = .null ∧
    resolveLoad "1e3" = .float ∧ resolveDump "1e3" = .float ∧ resolveDump "._" = .float ∧
    resolveDump "2001-01-01" ≠ .str ∧ resolveLoad "2001-01-01" = .str := by decide +kernel

end Jap.Props.C01

/-
C01 — a dumped configuration re-parses to the same configuration: layer L2 (plain values ↔ text), the
agreement between the dumper's and the loader's scalar resolution that the property statement names, plus
the JSON formats read back by the YAML loader (shared with C05).

All statements quantify over ALL strings / class words.  The resolver statements are `decide +kernel`
certificates over the joint automaton regenerated from the live Loader/Dumper classes on every run
(`Jap.Gen.Resolvers`), lifted to all words by induction (`Jap.Dfa.lift`).
-/
import Jap.Lemmas.ScalarCert
import Jap.Lemmas.ScalarJson
import Jap.Lemmas.EmitterRoundtrip
import Jap.Lemmas.YamlDocRoundtrip
import Jap.Lemmas.JsonDocRoundtrip
import Jap.Lemmas.SkipDefault
import Jap.Lemmas.TypedDoc

namespace Jap.Props.C01
open Jap.Scalar
open Jap.Gen.Resolvers (imgInt imgBool imgNull imgFloatYaml jsonInt jsonFloat imgFloatJson)

/-! ### the dumper and the loader agree on what is a string -/

/-- Every string that the Dumper class used by `yaml_dump` resolves as `str` — the only strings the emitter may
write without quotes — is resolved as `str` by the loader class used by `yaml_load`. -/
theorem C01_resolver_agreement (s : String) : resolveDump s = .str → resolveLoad s = .str :=
  agree_words _

/-- the same on arbitrary class words of the joint automaton (no well-formedness hypothesis is needed) -/
theorem C01_resolver_agreement_words (w : List Nat) : resolveDumpW w = .str → resolveLoadW w = .str :=
  agree_words w

/-- contrapositive: whatever the loader would read as a non-string, the dumper refuses to write plain -/
theorem C01_loader_nonstr_is_quoted (s : String) : resolveLoad s ≠ .str → resolveDump s ≠ .str :=
  fun h hd => h (agree_words _ hd)

/-! ### what the representers write for int / float / bool / null loads with that tag -/

theorem C01_emitted_int (s : String) : inImage imgInt s = true → resolveLoad s = .int := by
  intro h; simp only [resolveLoad, resolveLoadC, resolveLoadW]; rw [img_words imgInt 3 imgInt_cert _ h]; rfl

theorem C01_emitted_bool (s : String) : inImage imgBool s = true → resolveLoad s = .bool := by
  intro h; simp only [resolveLoad, resolveLoadC, resolveLoadW]; rw [img_words imgBool 2 imgBool_cert _ h]; rfl

theorem C01_emitted_null (s : String) : inImage imgNull s = true → resolveLoad s = .null := by
  intro h; simp only [resolveLoad, resolveLoadC, resolveLoadW]; rw [img_words imgNull 1 imgNull_cert _ h]; rfl

/-- image of `SafeRepresenter.represent_float`: `-?D+.D+(e[-+]D+)?`, `.inf`, `-.inf`, `.nan` -/
theorem C01_emitted_float (s : String) : inImage imgFloatYaml s = true → resolveLoad s = .float := by
  intro h; simp only [resolveLoad, resolveLoadC, resolveLoadW]; rw [img_words imgFloatYaml 4 imgFloatYaml_cert _ h]; rfl

/-- the dumper's own resolver gives the same tags, so these texts are written plain, without a `!!tag` -/
theorem C01_emitted_untagged (s : String) :
    (inImage imgInt s = true → resolveDump s = .int) ∧ (inImage imgBool s = true → resolveDump s = .bool) ∧
    (inImage imgNull s = true → resolveDump s = .null) ∧ (inImage imgFloatYaml s = true → resolveDump s = .float) := by
  refine ⟨?_, ?_, ?_, ?_⟩ <;> intro h <;> simp only [resolveDump, resolveDumpC, resolveDumpW]
  · rw [imgDump_words imgInt 3 imgIntD_cert _ h]; rfl
  · rw [imgDump_words imgBool 2 imgBoolD_cert _ h]; rfl
  · rw [imgDump_words imgNull 1 imgNullD_cert _ h]; rfl
  · rw [imgDump_words imgFloatYaml 4 imgFloatYamlD_cert _ h]; rfl

/-! ### JSON numbers read by the YAML loader (json / json_indented dumps, C05) -/

/-- RFC 8259 numbers without fraction and exponent load as int -/
theorem C05_json_int_sub (s : String) : inImage jsonInt s = true → resolveLoad s = .int := by
  intro h; simp only [resolveLoad, resolveLoadC, resolveLoadW]; rw [img_words jsonInt 3 jsonInt_cert _ h]; rfl

/-- RFC 8259 numbers with a fraction and/or an exponent load as float -/
theorem C05_json_float_sub (s : String) : inImage jsonFloat s = true → resolveLoad s = .float := by
  intro h; simp only [resolveLoad, resolveLoadC, resolveLoadW]; rw [img_words jsonFloat 4 jsonFloat_cert _ h]; rfl

/- Full statement (FALSE on the current tree, DESIGN §7 row 3):
     ∀ s, s is a text json.dumps writes for a float → resolveLoad s = .float
   json.dumps writes `Infinity`, `-Infinity`, `NaN` for the non-finite floats and the loader reads them as
   strings.  Proved instead: the statement for finite floats, and the three witnesses. -/
theorem C01_emitted_float_json_partial (s : String) : inImage imgFloatJson s = true → resolveLoad s = .float := by
  intro h; simp only [resolveLoad, resolveLoadC, resolveLoadW]; rw [img_words imgFloatJson 4 imgFloatJson_cert _ h]; rfl

theorem C01_emitted_float_json_counterexample :
    resolveLoad "Infinity" = .str ∧ resolveLoad "-Infinity" = .str ∧ resolveLoad "NaN" = .str := by
  decide +kernel

/-- the hypothesis of the partial theorem is satisfiable (and the JSON grammar columns are not empty) -/
example : inImage imgFloatJson "-1.5e-07" = true ∧ inImage jsonFloat "1E5" = true ∧ inImage jsonInt "-0" = true ∧
    inImage imgFloatYaml "1.0e+22" = true ∧ inImage imgInt "-12" = true := by decide +kernel

/-! ### JSON string literals read by the YAML loader -/

/- Full statement (FALSE on the current tree, DESIGN §7 row 3b):
     ∀ s, (∀ c ∈ s, yamlPrintable c) → jsonStringRoundTrip s = some s
   `json.dumps(ensure_ascii=False)` leaves U+0085, U+2028, U+2029 raw and the YAML scanner treats them as line
   breaks: NEL is folded into a space, blanks next to LS/PS are dropped.  Characters outside the reader's
   alphabet (DEL, C1 controls, U+FFFE, U+FFFF) are written raw as well and make the reader fail. -/
theorem C01_json_string_rt_partial (s : List Char) (hs : ∀ c ∈ s, jsonSafe c = true) :
    jsonStringRoundTrip s = some s :=
  json_string_rt s hs

theorem C01_json_string_rt_counterexample :
    ¬ (∀ s : List Char, (∀ c ∈ s, yamlPrintable c = true) → jsonStringRoundTrip s = some s) := by
  intro h
  have := h ['a', Char.ofNat 133, 'b'] (by decide)
  revert this
  decide +kernel

/-- row 3b witnesses: NEL becomes a space; a blank before LS is lost; DEL, a C1 control and U+FFFE are unreadable -/
theorem C01_json_string_rt_witnesses :
    jsonStringRoundTrip ['a', Char.ofNat 0x85, 'b'] = some ['a', ' ', 'b'] ∧
    jsonStringRoundTrip ['a', ' ', Char.ofNat 0x2028, 'b'] = some ['a', Char.ofNat 0x2028, 'b'] ∧
    jsonStringRoundTrip ['a', Char.ofNat 0x2029, ' ', 'b'] = some ['a', Char.ofNat 0x2029, 'b'] ∧
    jsonStringRoundTrip [Char.ofNat 0x7f] = none ∧ jsonStringRoundTrip [Char.ofNat 0x9b] = none ∧
    jsonStringRoundTrip [Char.ofNat 0xfffe] = none := by
  decide +kernel

/-- the hypothesis of the partial theorem is satisfiable by a non-trivial string (quotes, backslash, control
characters, blanks, non-BMP) -/
example : ∀ c ∈ "hé \"q\" \\ \t\n\r\u0001 x  😀\ufeff".toList, jsonSafe c = true := by decide +kernel

/-! ### the str round trip through the yaml text, inside the model

`emitScalar col s` is the text `Emitter` writes for the str value `s` starting at column `col` (analyze_scalar,
choose_scalar_style with the dumper's resolver verdict, write_plain / write_single_quoted / write_double_quoted);
`loadLine` is the scanner's reading of a line that starts with a scalar (fetch decision, plain / single-quoted /
double-quoted scanning, the reader's character check) together with the loader's resolver for plain text.
`emitScalar` is `none` — outside the model — exactly when `s` contains a line break (LF, NEL, LS, PS: multi-line
styles) or when the text does not fit into `best_width` (= 80, extracted) from column `col` AND contains a space
or is double-quoted, in which case the real emitter may fold it.  No other hypothesis remains: every other string over all Unicode scalar
values is covered (C0/C1 controls, DEL, BOM, U+FFFE/U+FFFF, non-BMP … are written double-quoted with escapes). -/

/-- value position: whatever the emitter writes for a single-line str that fits the line is read back as that str -/
theorem C01_str_scalar_roundtrip (col : Nat) (s t : List Char) (h : emitScalar col s = some t) :
    loadLine t = some (Tag.str, s, []) := by
  unfold emitScalar at h
  split at h
  · split at h
    · rename_i hd
      injection h with h; subst h
      simp only [Bool.and_eq_true, decide_eq_true_eq] at hd
      simpa using text_roundtrip_double false s [] hd.1 rfl
    · cases h
  · rename_i hml
    split at h
    · injection h with h; subst h
      have := text_roundtrip false s [] (by simpa using hml) (fun h => by cases h) (Or.inl rfl) rfl
      simpa using this
    · cases h

/-- simple-key position (`check_simple_key`: non-empty, `!!str` + text shorter than 128, single line; never folded): the key text
followed by `:` and a blank (or the end of the line) is read back as that str, leaving the `:` -/
theorem C01_str_key_roundtrip (s t rest : List Char) (h : emitKey s = some t) (hb : followedBlankZ rest = true)
    (hr : rest.all yamlPrintable = true) :
    loadLine (t ++ Char.ofNat 58 :: rest) = some (Tag.str, s, Char.ofNat 58 :: rest) := by
  unfold emitKey at h
  split at h
  · cases h
  · rename_i hc
    injection h with h; subst h
    simp only [Bool.or_eq_true, not_or, Bool.not_eq_true] at hc
    have hcolon : yamlPrintable (Char.ofNat 58) = true := by decide
    exact text_roundtrip true s (Char.ofNat 58 :: rest) hc.1.1 (fun _ hs => by simp [hs] at hc)
      (Or.inr ⟨rest, rfl, hb⟩) (by simp [hcolon, hr])

/-- the domain of the model: defined for every single-line string whose text fits into best_width … -/
theorem C01_emitScalar_defined (col : Nat) (s : List Char) (h1 : isMultiline s = false)
    (h2 : col + (textOf false s).length ≤ Gen.DumpCfg.yamlBestWidth) : emitScalar col s = some (textOf false s) := by
  simp [emitScalar, noFold, h1, h2]

/-- … and, whatever its length and column, for every single-line string without a space that is not written
double-quoted (paths, URLs, hashes, long numbers as text): PyYAML folds plain and single-quoted text only at spaces -/
theorem C01_emitScalar_defined_nospace (col : Nat) (s : List Char) (h1 : isMultiline s = false)
    (h2 : s.any isSpaceA = false) (h3 : styleOf false s ≠ .double) : emitScalar col s = some (textOf false s) := by
  simp [emitScalar, noFold, h1, h2, h3]

theorem C01_emitKey_defined (s : List Char) (h1 : isMultiline s = false) (h2 : s ≠ []) (h3 : s.length < 123) :
    emitKey s = some (textOf true s) := by
  have : s.isEmpty = false := by cases s <;> simp_all
  have h4 : ¬ (128 ≤ 5 + s.length) := by omega
  simp [emitKey, strTagHandleLen, h1, this, h4]

/-- a string with line breaks that the emitter writes double-quoted (a blank next to a break: indented text; a TAB or
another special character) is inside the model when its one-line escaped text fits into best_width -/
theorem C01_emitScalar_defined_multiline (col : Nat) (s : List Char) (h1 : isMultiline s = true)
    (h2 : styleOf false s = .double) (h3 : col + (textOf false s).length ≤ Gen.DumpCfg.yamlBestWidth) :
    emitScalar col s = some (textOf false s) := by
  simp [emitScalar, h1, h2, h3]

/-- which style `choose_scalar_style` picks for a str VALUE with a line break: never plain; double-quoted exactly when
the analysis forbids single quotes (blank before or after a break, special character) -/
theorem C01_multiline_style (s : List Char) (h : isMultiline s = true) :
    styleOf false s ≠ .plain ∧ (styleOf false s = .double ↔ allowSingle allowUnicodeCfg s = false) := by
  have hp : allowBlockPlain allowUnicodeCfg s = false := by
    cases s with
    | nil => simp [isMultiline] at h
    | cons c r => simp [allowBlockPlain, h]
  constructor
  · simp [styleOf, chooseStyle, hp]
    split <;> simp
  · cases hs : allowSingle allowUnicodeCfg s <;> simp [styleOf, chooseStyle, hp, hs]

example : emitScalar 3 "def f():\n    return 1".toList = some "\"def f():\\n    return 1\"".toList ∧
    emitScalar 3 "a \nb".toList = some "\"a \\nb\"".toList ∧ emitScalar 3 "a\tb\n".toList = some "\"a\\tb\\n\"".toList ∧
    emitScalar 3 "a\nb".toList = none ∧ styleOf false "a\nb".toList = .single := by decide +kernel

/-- the three styles occur; float-like strings are quoted (row 1 repaired), `: ` and ` #` force quotes, a TAB
forces double quotes, the empty string is written `''` -/
example : emitScalar 3 "abc".toList = some "abc".toList ∧ emitScalar 3 "1e3".toList = some "'1e3'".toList ∧
    emitScalar 3 "a: b".toList = some "'a: b'".toList ∧ emitScalar 3 "a #b".toList = some "'a #b'".toList ∧
    emitScalar 3 "it's".toList = some "it's".toList ∧ emitScalar 3 "'q'".toList = some "'''q'''".toList ∧
    emitScalar 3 "a\tb".toList = some "\"a\\tb\"".toList ∧ emitScalar 3 [] = some "''".toList ∧
    emitScalar 3 "-x".toList = some "-x".toList ∧ emitScalar 3 "- x".toList = some "'- x'".toList ∧
    emitKey "a:b".toList = some "a:b".toList ∧ emitKey [] = none ∧ emitScalar 3 "a\nb".toList = none ∧
    emitScalar 70 "/a/long/path/without/spaces".toList = some "/a/long/path/without/spaces".toList ∧
    emitScalar 70 "1e3456789012345678901234567890".toList = some "'1e3456789012345678901234567890'".toList ∧
    emitScalar 70 "a long text with spaces".toList = none ∧ emitScalar 70 "tab\there/0123456789".toList = none := by
  decide +kernel

/-! ### whole documents through the yaml text, inside the model

`V` : nested dict / list of scalars (scalar = tag + text).  `emitDoc v` is the block-style text `yaml_dump` writes
(`expect_block_mapping` / `expect_block_sequence` with the extracted `default_flow_style = False`, indent 2,
indentless sequences under a key, `[]` / `{}`, simple keys, scalars through `emitSc`); `loadDoc` is the loader on that
sub-language (line split, `- ` / `key:` / scalar tokens with their columns, recursive descent on the columns,
`loadLine` + the loader's resolver for every scalar).  `emitDoc v = none` — outside the model — exactly when some
line does not render: a str value that is multi-line or does not fit `best_width`, a key that is not a simple key
(empty, multi-line, `!!tag` + text ≥ 128), a non-str scalar the dumper would have to tag.  `VOK v`: every non-str
scalar text is in the image language of its tag (what the representers write; columns of the regenerated automaton). -/

/-- THE DOCUMENT ROUND TRIP: the text written for any nested value is read back as that value — same structure,
same key order, every scalar with its tag and text (a str that looks like a number comes back as a str). -/
theorem C01_yaml_doc_roundtrip (v : V) (t : List Char) (hok : VOK v = true) (h : emitDoc v = some t) :
    loadDoc t = some v :=
  loadDoc_emitDoc v t hok h

/-- dump ∘ load ∘ dump = dump on the model -/
theorem C01_yaml_doc_dump_idem (v : V) (t : List Char) (hok : VOK v = true) (h : emitDoc v = some t) :
    (loadDoc t).bind emitDoc = some t := by
  rw [loadDoc_emitDoc v t hok h]; exact h

/-- the structural layer needs no hypothesis: the lines of ANY collection (any depth, any scalars, sequences under
keys at the key's column, nested `- - `, empty collections) are read back as the collection -/
theorem C01_yaml_doc_structure (v : V) (hv : ∀ s, v ≠ .sc s) : loadLines (linesNode 0 0 v) = some v :=
  loadLines_linesNode v hv

/-- the same for a block nested at any column `c`, followed by anything that starts further left: the recursive
descent returns the value and leaves the rest (what makes the proof compositional) -/
theorem C01_yaml_block_roundtrip (v : V) (c lo fuel : Nat) (rest : List Tok) (hlo : lo ≤ c)
    (hf : 3 * (toksNode c v).length + 2 ≤ fuel) (hr : headOK false c rest = true) :
    pNode fuel lo (toksNode c v ++ rest) = some (v, rest) :=
  pNode_toks v c lo fuel rest hlo (Nat.le_trans (szV_node v c) hf) hr

/-- one line: indentation, `- ` indicators, `key:`, `key: value` or a value -/
theorem C01_yaml_line_roundtrip (l : Line) (t : List Char) (hok : bodyOK l.body = true) (h : renderLine l = some t) :
    scanLine t = some l ∧ ∀ c ∈ t, c ≠ '\n' :=
  scanLine_renderLine l t hok h

/-- every scalar node, str or not, in key or value position: what the emitter writes is scanned and resolved back to
the same tag and text (for int / float / bool / null this joins the image-language certificates with the scanner) -/
theorem C01_scalar_node_roundtrip (sk : Bool) (col : Nat) (s : Sc) (t : List Char) (hok : ScOK s = true)
    (h : emitSc sk col s = some t) : loadLine t = some (s.tag, s.text, []) := by
  simpa using emitSc_load sk col s t [] hok h (Or.inl rfl) rfl

/-- domain of the document model: defined as soon as every line renders -/
theorem C01_emitDoc_defined (v : V) (hv : ∀ s, v ≠ .sc s) (h : ∀ l ∈ linesNode 0 0 v, (renderLine l).isSome = true) :
    (emitDoc v).isSome = true := by
  have gen : ∀ ls : List Line, (∀ l ∈ ls, (renderLine l).isSome = true) → (renderLines ls).isSome = true := by
    intro ls
    induction ls with
    | nil => intro _; rfl
    | cons l ls ih =>
      intro hl
      have h1 := hl l List.mem_cons_self
      have h2 := ih (fun x hx => hl x (List.mem_cons_of_mem _ hx))
      simp only [renderLines]
      cases hr : renderLine l with
      | none => simp [hr] at h1
      | some t =>
        cases hrs : renderLines ls with
        | none => simp [hrs] at h2
        | some r => rfl
  cases v with
  | sc s => exact absurd rfl (hv s)
  | list xs => simpa [emitDoc] using gen _ h
  | dict kvs => simpa [emitDoc] using gen _ h

section DocExamples
private def s' (x : String) : Sc := ⟨.str, x.toList⟩
private def i' (x : String) : Sc := ⟨.int, x.toList⟩
/-- `{a: {b: 1, c: [1, ['x y', []], {k: '1e3', 'null': ['', true]}], 0.5: null}, d: {}, '- e': [[{f: -.inf}]]}` -/
private def exDoc : V :=
  .dict (.cons (s' "a") (.dict (.cons (s' "b") (.sc (i' "1")) (.cons (s' "c")
      (.list (.cons (.sc (i' "1")) (.cons (.list (.cons (.sc (s' "x y")) (.cons (.list .nil) .nil)))
        (.cons (.dict (.cons (s' "k") (.sc (s' "1e3")) (.cons (s' "null") (.list (.cons (.sc (s' "")) (.cons (.sc ⟨.bool, "true".toList⟩) .nil))) .nil))) .nil))))
      (.cons ⟨.float, "0.5".toList⟩ (.sc ⟨.null, "null".toList⟩) .nil))))
    (.cons (s' "d") (.dict .nil)
    (.cons (s' "- e") (.list (.cons (.list (.cons (.dict (.cons (s' "f") (.sc ⟨.float, "-.inf".toList⟩) .nil)) .nil)) .nil)) .nil)))

/-- non-vacuity: the hypotheses hold for a document with every construct, and this is the text -/
example : VOK exDoc = true ∧ emitDoc exDoc = some
    "a:\n  b: 1\n  c:\n  - 1\n  - - x y\n    - []\n  - k: '1e3'\n    'null':\n    - ''\n    - true\n  0.5: null\nd: {}\n'- e':\n- - f: -.inf\n".toList := by
  decide +kernel

example : (emitDoc exDoc).bind loadDoc = some exDoc := by decide +kernel

/-- outside the model (`none`), not failures: a multi-line str, a str that would be folded, a complex key; and a
scalar node that does not come from a representer violates `VOK` -/
example : emitDoc (.dict (.cons (s' "a") (.sc (s' "x\ny")) .nil)) = none ∧
    emitDoc (.list (.cons (.sc (s' "word word word word word word word word word word word word word word word word w")) .nil)) = none ∧
    emitDoc (.dict (.cons (s' "") (.sc (i' "1")) .nil)) = none ∧ VOK (.sc (i' "0x1F")) = false ∧
    emitDoc (.list (.cons (.sc (i' "1 2")) .nil)) = none := by decide +kernel

/-- the reader also takes layouts the emitter never writes: a key without a value is null, a sequence under a key
may be indented; and it refuses what it does not model (flow collections, comments, multi-line scalars) -/
example : loadDoc "a:\nb:\n  - 1\nc:\n    d: x\n".toList =
      some (.dict (.cons (s' "a") nullV (.cons (s' "b") (.list (.cons (.sc (i' "1")) .nil))
        (.cons (s' "c") (.dict (.cons (s' "d") (.sc (s' "x")) .nil)) .nil)))) ∧
    loadDoc "a: [1]\n".toList = none ∧ loadDoc "a: 1 # c\n".toList = none ∧ loadDoc "a: b\n  c\n".toList = none ∧
    loadDoc "a:\n    b: 1\n  c: 2\n".toList = none := by decide +kernel
end DocExamples

/-! ### whole documents through the JSON formats, read back by the YAML loader (`loader_json_superset`)

`jsonDump` / `jsonIndentedDump` : the text of `json_compact_dump` / `json_indented_dump` (json.dumps with the captured
separators / indent, strings through `jsonEscape`); `jsonLoad` : libyaml on that text — flow collections, `qGo` for the
string literals, plain scalars resolved by the loader's resolver, the reader's character check, the simple-key rule. -/

/- Full statement (FALSE on the current tree):
     ∀ v, (keys are str, strings over the safe alphabet, numbers as json.dumps writes finite ones) → jsonLoad (jsonDump v) = some v
   libyaml accepts a simple key only if its `:` comes within 1024 characters of its first character: a dict key whose
   JSON literal is longer (1023 characters and more) makes the loader fail on the json / json_indented dump
   (finding C01-json-long-key; the yaml dump writes such keys in the `? ` form and is fine).  `JOK` carries exactly
   that bound (`JKeyOK`), next to the two classes excluded already at scalar level (unsafe characters, non-finite floats). -/
theorem C01_json_doc_roundtrip_partial (v : V) (hv : ∀ s, v ≠ .sc s) (hok : JOK v = true) :
    jsonLoad (jsonDump v) = some v ∧ jsonLoad (jsonIndentedDump v) = some v := by
  constructor
  · simpa [jsonDump] using jsonLoad_jDump v none [] hv hok (Or.inl rfl)
  · exact jsonLoad_jDump v (some 0) ['\n'] hv hok (Or.inr rfl)

/-- nested at any depth of either format, followed by anything that may follow a value -/
theorem C01_json_value_roundtrip (v : V) (ind : Option Nat) (fuel : Nat) (rest : List Char) (hok : JOK v = true)
    (hf : 2 * (jDump ind v).length + 1 ≤ fuel) (hr : termJ rest = true) :
    jValue fuel (jDump ind v ++ rest) = some (v, rest) :=
  jValue_dump v ind fuel rest hok (Nat.le_trans (szV_jDump v ind) hf) hr

section JsonExamples
private def js (x : String) : Sc := ⟨.str, x.toList⟩
private def longKeyDoc (n : Nat) : V := .dict (.cons ⟨.str, List.replicate n 'k'⟩ (.sc ⟨.int, ['1']⟩) .nil)

/-- the negation witness: the key of 1023 characters (literal of 1025) is not read back, the one of 1022 is -/
theorem C01_json_doc_long_key_counterexample :
    jsonLoad (jsonDump (longKeyDoc 1023)) = none ∧ jsonLoad (jsonIndentedDump (longKeyDoc 1023)) = none ∧
    JOK (longKeyDoc 1023) = false ∧ JOK (longKeyDoc 1022) = true := by decide +kernel

private def exJson : V :=
  .dict (.cons (js "a") (.list (.cons (.sc ⟨.int, "-12".toList⟩) (.cons (.dict (.cons (js "b \"q\"") (.sc (js "1e3\n")) .nil))
      (.cons (.list .nil) (.cons (.sc ⟨.float, "1e+22".toList⟩) .nil)))))
    (.cons (js "") (.sc ⟨.null, "null".toList⟩) (.cons (js "t") (.dict .nil) .nil)))

/-- non-vacuity: the hypothesis holds for a document with every construct; the two texts -/
example : JOK exJson = true ∧
    jsonDump exJson = "{\"a\":[-12,{\"b \\\"q\\\"\":\"1e3\\n\"},[],1e+22],\"\":null,\"t\":{}}".toList ∧
    jsonIndentedDump exJson =
      "{\n  \"a\": [\n    -12,\n    {\n      \"b \\\"q\\\"\": \"1e3\\n\"\n    },\n    [],\n    1e+22\n  ],\n  \"\": null,\n  \"t\": {}\n}\n".toList := by
  decide +kernel

/-- the excluded classes are read differently or not at all: `NaN` / `Infinity` come back as str, a raw U+2028 in a key
ends the simple key -/
example : jsonLoad "[NaN,-Infinity]".toList = some (.list (.cons (.sc (js "NaN")) (.cons (.sc (js "-Infinity")) .nil))) ∧
    jsonLoad ['{', '"', 'a', Char.ofNat 0x2028, 'b', '"', ':', '1', '}'] = none ∧
    jsonLoad "{\"a\":1,}".toList = none ∧ jsonLoad "[1 2]".toList = none := by decide +kernel
end JsonExamples

/-! ### dump(skip_default=True)

`delKV cfg defaults` : `ArgumentParser._dump_delete_default_entries` on the plain nested dicts (without the
subclass-spec branch); `reparse s default dumped` : what parsing the reduced dump gives for a node of the parser
structure `s` — groups are merged into the defaults member by member, a leaf's dumped value replaces its default, an
absent entry keeps the default; `dumpedNode v d` : what the reduced dump holds for a node (`none` when `v == d`). -/

/- Full statement (FALSE on the current tree, DESIGN §7 row 4, finding C01-skip-default-dict-leaf):
     ∀ s v d, conf s v → conf s d → nodupS s → reparse s d (dumpedNode v d) = v
   `_dump_delete_default_entries` recurses into every pair of dicts, also inside the value of a dict-typed ARGUMENT,
   where the re-parse replaces instead of merging.  Proved: the statement under `leafStable` (at every leaf whose value
   differs from its default the recursion changes nothing), and the witness. -/
theorem C01_skip_default_roundtrip_partial (s : Sch) (v d : V) (hv : conf s v = true) (hd : conf s d = true)
    (hn : nodupS s = true) (hl : leafStable s v d = true) : reparse s d (dumpedNode v d) = v :=
  reparse_dumped s v d hv hd hn hl

/-- the reduced dict holds, for every key of a configuration with distinct keys: nothing when the value equals the
default, the recursively reduced value when both are dicts, the value itself otherwise (also when the key has no default) -/
theorem C01_skip_default_entry (k : Sc) (c d : KVL) (hn : (keysK c).Nodup) :
    lookupK k (delKV c d) =
      match lookupK k c with
      | none => none
      | some v =>
        match lookupK k d with
        | none => some v
        | some dv => if v = dv then none else some (delVal v dv) :=
  lookup_delKV k d c hn

/-- nothing is invented: every key of the reduced dict is a key of the configuration -/
theorem C01_skip_default_keys (k : Sc) (c d : KVL) (h : k ∈ keysK (delKV c d)) : k ∈ keysK c :=
  keys_delKV_sub d k c h

/-- an entry that is absent from the dump is rebuilt from the defaults, whole groups included -/
theorem C01_skip_default_absent (s : Sch) (d : V) (hd : conf s d = true) : reparse s d none = d :=
  reparse_none s d hd

section SkipDefaultExamples
private def sk (x : String) : Sc := ⟨.str, x.toList⟩
private def si (x : String) : V := .sc ⟨.int, x.toList⟩
private def d2 (a b : Sc × V) : V := .dict (.cons a.1 a.2 (.cons b.1 b.2 .nil))

/-- DESIGN §7 row 4: `d = {'a': 1, 'b': 3}` with default `{'a': 1, 'b': 2}` is dumped as `d: {b: 3}` and comes back as `{'b': 3}` -/
theorem C01_skip_default_counterexample :
    let v := d2 (sk "a", si "1") (sk "b", si "3")
    let d := d2 (sk "a", si "1") (sk "b", si "2")
    dumpedNode v d = some (.dict (.cons (sk "b") (si "3") .nil)) ∧ reparse .leaf d (dumpedNode v d) ≠ v ∧
    leafStable .leaf v d = false := by decide +kernel

/-- non-vacuity: a parser with a nested group, a dict-typed leaf whose value shares no entry with its default, a leaf
equal to its default, a changed leaf inside the group; the reduced dump and the hypotheses -/
example :
    let s := Sch.group (.cons (sk "g") (.group (.cons (sk "x") .leaf (.cons (sk "y") .leaf .nil)))
      (.cons (sk "d") .leaf (.cons (sk "n") .leaf .nil)))
    let dflt := V.dict (.cons (sk "g") (d2 (sk "x", si "1") (sk "y", si "2"))
      (.cons (sk "d") (d2 (sk "a", si "1") (sk "b", si "2")) (.cons (sk "n") (si "7") .nil)))
    let cfg := V.dict (.cons (sk "g") (d2 (sk "x", si "1") (sk "y", si "5"))
      (.cons (sk "d") (d2 (sk "a", si "9") (sk "c", si "2")) (.cons (sk "n") (si "7") .nil)))
    conf s cfg = true ∧ conf s dflt = true ∧ nodupS s = true ∧ leafStable s cfg dflt = true ∧
    dumpedNode cfg dflt = some (.dict (.cons (sk "g") (.dict (.cons (sk "y") (si "5") .nil))
      (.cons (sk "d") (d2 (sk "a", si "9") (sk "c", si "2")) .nil))) ∧
    reparse s dflt (dumpedNode cfg dflt) = cfg := by decide +kernel
end SkipDefaultExamples

/-! ### the composition: typed value -> ser -> text -> loader -> constructors -> adapt

The typed <-> plain layer is the adapter model of C02/C10 (`Jap.Adapt`: `adapt O false none t` deserialises, `ser O t`
serialises; `good t`, `rt false t` delimit the sub-grammar of `C10_ser_adapt_roundtrip`: leaves, Literal, Enum, List,
Tuple, Dict[str,_] at any depth, Enum-free Unions satisfying `unionCond`).  Its plain values are embedded into the
document values by `toV C` (total on null / bool / int / float / str / list / dict, injective: `C01_embedding_injective`)
and read back by `ofV C` (the constructors); `C : Codec` is the text of int / float scalars and its reading, required to
round-trip only on the numbers that occur (`lawsOn`).  Full statement without hypotheses is false for the reasons
recorded at each layer (Union serialisation family, multi-line / folded strings outside `emitDoc`, JSON classes). -/

/-- YAML: for every type of the sub-grammar and every value `w` the adapter returns (a conforming typed value), the text
`yaml_dump` writes for `ser t w` is loaded, constructed and adapted back to `w` -/
theorem C01_typed_roundtrip_partial (O : Jap.Adapt.Oracle) (C : Codec) (t : Jap.Adapt.Ty) (v w z : Jap.Adapt.Val) (u : V)
    (text : List Char) (hg : Jap.Adapt.good t = true) (hr : Jap.Adapt.rt false t = true)
    (h : Jap.Adapt.adapt O false .none t v = .ok w) (hz : Jap.Adapt.ser O t w = .ok z)
    (hu : toV C z = some u) (hl : lawsOn C z = true) (hok : VOK u = true) (he : emitDoc u = some text) :
    ((loadDoc text).bind (ofV C)).map (Jap.Adapt.adapt O false .none t) = some (.ok w) :=
  typed_roundtrip_yaml O C t v w z u text hg hr h hz hu hl hok he

/-- the same through `json_compact_dump` / `json_indented_dump` and the YAML loader -/
theorem C01_typed_roundtrip_json_partial (O : Jap.Adapt.Oracle) (C : Codec) (t : Jap.Adapt.Ty) (v w z : Jap.Adapt.Val) (u : V)
    (hg : Jap.Adapt.good t = true) (hr : Jap.Adapt.rt false t = true)
    (h : Jap.Adapt.adapt O false .none t v = .ok w) (hz : Jap.Adapt.ser O t w = .ok z)
    (hu : toV C z = some u) (hl : lawsOn C z = true) (hv : ∀ s, u ≠ .sc s) (hok : JOK u = true) :
    ((jsonLoad (jsonDump u)).bind (ofV C)).map (Jap.Adapt.adapt O false .none t) = some (.ok w) ∧
    ((jsonLoad (jsonIndentedDump u)).bind (ofV C)).map (Jap.Adapt.adapt O false .none t) = some (.ok w) :=
  typed_roundtrip_json O C t v w z u hg hr h hz hu hl hv hok

/-- the embedding commutes with reading back, hence is injective -/
theorem C01_embedding_commutes (C : Codec) (z : Jap.Adapt.Val) (u : V) (h : toV C z = some u) (hl : lawsOn C z = true) :
    ofV C u = some z :=
  ofV_toV C z u h hl

theorem C01_embedding_injective (C : Codec) (z z' : Jap.Adapt.Val) (u : V) (h : toV C z = some u) (h' : toV C z' = some u)
    (hl : lawsOn C z = true) (hl' : lawsOn C z' = true) : z = z' :=
  toV_injective C z z' u h h' hl hl'

section TypedExamples
open Jap.Adapt in
private def exO : Oracle where
  yaml s := some (.str s)
  loadAny s := some (.str s)
  bigFlt _ := .none
  intOf _ := .none

private def readNat (t : List Char) : Option Nat :=
  if t.isEmpty || !(t.all Char.isDigit) then none else some (t.foldl (fun acc c => acc * 10 + (c.toNat - 48)) 0)

/-- decimal text of an int and `int(text)`; floats as their repr -/
private def exC : Codec where
  intText i := match i with
    | .ofNat n => Nat.toDigits 10 n
    | .negSucc n => '-' :: Nat.toDigits 10 (n + 1)
  fltText r := r.toList
  readInt t := match t with
    | '-' :: r => (readNat r).map fun n => -(n : Int)
    | _ => (readNat t).map fun n => (n : Int)
  readFlt t := some (String.ofList t)

open Jap.Adapt in
/-- `Dict[str, List[Optional[int]]]`, value `{'a': [1, None, -12], 'b': [], '1e3': [None]}` -/
private def exTy : Ty := .dict .str (.list (.union [.none, .int]))
open Jap.Adapt in
private def exVal : Val :=
  .dict [(.str "a", .list [.int 1, .null, .int (-12)]), (.str "b", .list []), (.str "1e3", .list [.null])]

/-- non-vacuity: every hypothesis of both theorems holds for a nested dict-of-list-of-Optional value, and this is the text -/
example : Jap.Adapt.good exTy = true ∧ Jap.Adapt.rt false exTy = true ∧
    Jap.Adapt.adapt exO false .none exTy exVal = .ok exVal ∧ Jap.Adapt.ser exO exTy exVal = .ok exVal ∧
    lawsOn exC exVal = true ∧
    (∃ u, toV exC exVal = some u ∧ VOK u = true ∧ JOK u = true ∧ (∀ s, u ≠ .sc s) ∧
      emitDoc u = some "a:\n- 1\n- null\n- -12\nb: []\n'1e3':\n- null\n".toList ∧
      jsonDump u = "{\"a\":[1,null,-12],\"b\":[],\"1e3\":[null]}".toList) := by
  refine ⟨rfl, rfl, rfl, rfl, by decide +kernel, _, rfl, by decide +kernel, by decide +kernel, ?_, by decide +kernel, by decide +kernel⟩
  intro s h; cases h
end TypedExamples

/-! ### the constants the document models hard-code are the extracted ones -/

/-- `dump_yaml_kwargs` / the Dumper as `yaml_dump` configures it: block style, insertion order, indent 2, width 80, no
forced scalar style, not canonical; the json dumpers' separators, indent and key order; the yaml loader reads JSON -/
theorem C01_tie_dump_configuration :
    Gen.DumpCfg.yamlDefaultFlowStyle = false ∧ Gen.DumpCfg.yamlSortKeys = false ∧ Gen.DumpCfg.yamlBestIndent = 2 ∧
    Gen.DumpCfg.yamlBestWidth = 80 ∧ Gen.DumpCfg.yamlCanonical = false ∧ Gen.DumpCfg.yamlDefaultStyle = "" ∧
    Gen.DumpCfg.yamlRepresenterDefaultStyle = "" ∧ Gen.DumpCfg.yamlEmitterAllowUnicode = true ∧
    Gen.DumpCfg.jsonEnsureAscii = false ∧
    Gen.DumpCfg.jsonKwargs = ["json:ensure_ascii=False", "json:separators=(',', ':')", "json:sort_keys=False",
      "json_indented:ensure_ascii=False", "json_indented:indent=2", "json_indented:sort_keys=False"] ∧
    Gen.DumpCfg.loaderJsonSuperset.lookup "yaml" = some true ∧
    Gen.DumpCfg.dumperTable.lookup "yaml" = some "yaml_dump" ∧ Gen.DumpCfg.dumperTable.lookup "json" = some "json_compact_dump" ∧
    Gen.DumpCfg.dumperTable.lookup "json_indented" = some "json_indented_dump" ∧
    Gen.DumpCfg.loaderTable.lookup "yaml" = some "yaml_load" := by decide

/-! ### non-vacuity and the repaired row 1 -/

/-- plain strings exist, and the float-like strings of DESIGN §7 row 1 are no longer `str` for the dumper -/
example : resolveDump "abc" = .str ∧ resolveLoad "abc" = .str ∧ resolveDump "" = .null ∧
    resolveLoad "1e3" = .float ∧ resolveDump "1e3" = .float ∧ resolveDump "._" = .float ∧
    resolveDump "2001-01-01" ≠ .str ∧ resolveLoad "2001-01-01" = .str := by decide +kernel

end Jap.Props.C01

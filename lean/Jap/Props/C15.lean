import Jap.Core.Links
import Jap.Gen.LinksOrder
/-!
# C15 — A linked argument always equals the function of its sources (stub, being filled)
-/
namespace Jap.Props.C15
open Jap.NS Jap.Links

theorem C15_option_rejected_stub (l : Link) : actionCall l = .error .linkCall := rfl

end Jap.Props.C15

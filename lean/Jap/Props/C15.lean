import Jap.Core.Links
import Jap.Core.LinksTree
import Jap.Lemmas.Links
import Jap.Lemmas.LinksTree
import Jap.Gen.LinksOrder
import Jap.Gen.LinksSrc
import Jap.Core.LinksHist
import Jap.Lemmas.LinksHist
import Jap.Lemmas.LinksStrip
/-!
# C15 — A linked argument always equals the function of its sources (links applied on parse)

Model: `Jap.Links` (Core/Links.lean), a transcription of `ActionLink.__init__` / `_initial_input_checks`,
`apply_parsing_links`, `set_target_value`, `ActionLink.__call__`, `strip_link_target_keys` and of the link part of
`_parse_common`, on the Namespace model of C11.  The compute functions (`none` = the call raised), the type check of
source values and the validation of the final configuration are parameters (`Env`); the assignments reaching the
parser through defaults, environment, config, object and argv are an arbitrary list (`Input`), so every theorem
holds whatever channel set the sources and whatever was supplied for the target.

The parsers quantified over are those whose links were all registered by accepted `link_arguments` calls
(`Accepted`).  `Unchained` is what `_initial_input_checks` compares: whole keys.

FULL STATEMENT (what the property asks): for every accepted link set and every successful parse,
`cfg[target] = F(cfg[sources])` for every link.  It is FALSE for the code and the faithful model in one way, proved
below on a concrete parser (open known finding):
 * `C15-nested-chain`: keys are compared as whole strings, so `g` (a group) as source of one link and `g.p` as
   target of another one are accepted, and the group is read before its member is written
   (`C15_nested_chain_counterexample`).
What is proved is the full statement under exactly this guard, a decidable predicate on the link set: `nonNested`.
A second way was repaired in /repo (ba94f2f, fixed finding F15x): `_initial_input_checks` compared the new target
with the sources of *previous* links only, so a link whose target is one of its own sources was accepted; the model's
`addLink` now has the check, `C15_no_chains` includes it, and `C15_self_link_counterexample` keeps the pre-fix
parser state as a regression example.
`C15_not_in_dump` is the full statement since 74a7bb8 (F70: `strip_link_target_keys` got the item branch, modelled by
`stripItems` / `delInitTarget`): no place holds a target after the strip.  The strip as it was before
(`stripLinkTargetKeysOld`, `dumpOld`) is kept as regression record with the former witness
(`C15_list_item_target_in_dump`, DESIGN §7 row 15c).
-/
namespace Jap.Props.C15
open Jap.NS Jap.Links

/-- `p` is `p0` (no links yet, no link action, no action with an empty dest) after the accepted `link_arguments` calls `reqs` -/
structure Accepted (p0 : Parser) (reqs : List LinkReq) (p : Parser) : Prop where
  fresh : p0.links = []
  dests : ∀ a ∈ p0.actions, a.dest ≠ []
  noLinkActs : ∀ a ∈ p0.actions, a.kind ≠ .link
  opts : ∀ oa ∈ p0.optActs, oa.2 ∈ p0.actions          -- `_option_string_actions` holds actions of the parser …
  optsNodup : (p0.optActs.map (·.1)).Nodup              -- … under distinct option strings (it is a dict)
  ok : addLinks p0 reqs = .ok p

theorem Accepted.inv {p0 : Parser} {reqs : List LinkReq} {p : Parser} (h : Accepted p0 reqs p) : Inv p :=
  Inv.steps reqs p0 p (Inv.init p0 h.fresh h.dests h.noLinkActs h.opts) h.ok

/-! ## accepted link sets -/

/-- no double targets, no target of a link is a source of another link, nor of its own link (no chains) -/
theorem C15_no_chains (p0 p : Parser) (reqs : List LinkReq) (h : Accepted p0 reqs p) :
    p.links.Pairwise (fun l l' => l.target ≠ l'.target ∧ l.target ∉ l'.sources.map (·.key) ∧
      l'.target ∉ l.sources.map (·.key)) ∧
    ∀ l ∈ p.links, l.target ∉ l.sources.map (·.key) :=
  ⟨h.inv.noChain, h.inv.noSelf⟩

/-- … hence, away from the nested-key finding class, every target diverges from every source and every other target -/
theorem C15_independent (p0 p : Parser) (reqs : List LinkReq) (h : Accepted p0 reqs p)
    (hn : nonNested p.links = true) :
    (∀ l ∈ p.links, ∀ l' ∈ p.links, ∀ s ∈ l'.sources, diverges l.target s.key = true) ∧
    p.links.Pairwise (fun l l' => diverges l.target l'.target = true) :=
  indep_of_unchained p.links h.inv.noChain h.inv.noSelf hn

/-! ## the invariant -/

/-- In every successfully parsed configuration, for every link whose sources are all present, the compute function
    succeeds on the FINAL values of the sources and every place that holds the target (the key path, or the items
    of a list of classes) holds its result; a plain target is always set.  `inputs` is arbitrary: any channel may
    have set the sources, anything may have been supplied for the target. -/
theorem C15_invariant (E : Env) (p0 p : Parser) (reqs : List LinkReq) (h : Accepted p0 reqs p)
    (hn : nonNested p.links = true)
    (inputs : List Input) (cfg : KV) (hp : parse E p inputs = .ok cfg) :
    ∀ l ∈ p.links, ∀ args, argsOf cfg l.sources = some args →
      ∃ v, linkValue E l args = .ok v ∧ (∀ w ∈ targetValues l cfg, w = v) ∧
        (l.kind = .plain → getK l.target cfg = some v) := by
  obtain ⟨hST, hTT⟩ := indep_of_unchained p.links h.inv.noChain h.inv.noSelf hn
  obtain ⟨c0, _, hc⟩ := parse_ok E p inputs cfg hp
  obtain ⟨ha, _, _⟩ := parseCommon_ok E p c0 cfg hc
  intro l hl args hargs
  have hsrc := apply_sources_stable E p.links c0 cfg ha hST hTT
  have h0 : argsOf c0 l.sources = some args := by
    rw [← argsOf_congr cfg c0 l.sources (hsrc l hl)]; exact hargs
  obtain ⟨v, hv, hw⟩ := apply_inv_all E p.links c0 cfg ha hST hTT l hl args h0
  obtain ⟨v', hv', _, hpl⟩ := (apply_inv E p.links c0 cfg ha hST hTT).2 l hl args h0
  rw [hv] at hv'; cases hv'
  exact ⟨v, hv, hw, fun hk => hpl hk (h.inv.wf l hl).1⟩

/-- the hypothesis "the sources are present" of `C15_invariant` is automatic for sources that are not below a
    subclass-typed argument (for those the code skips the link while the source is absent) -/
theorem C15_sources_present (E : Env) (p0 p : Parser) (reqs : List LinkReq) (h : Accepted p0 reqs p)
    (hn : nonNested p.links = true)
    (inputs : List Input) (cfg : KV) (hp : parse E p inputs = .ok cfg) :
    ∀ l ∈ p.links, (∀ s ∈ l.sources, s.sub = false) → ∃ args, argsOf cfg l.sources = some args := by
  obtain ⟨hST, hTT⟩ := indep_of_unchained p.links h.inv.noChain h.inv.noSelf hn
  obtain ⟨c0, _, hc⟩ := parse_ok E p inputs cfg hp
  obtain ⟨ha, _, _⟩ := parseCommon_ok E p c0 cfg hc
  intro l hl hsub
  have hok := apply_each_ok E p.links c0 cfg ha hST l hl
  rw [linkOk_congr E l c0 cfg (fun s hs' => (apply_sources_stable E p.links c0 cfg ha hST hTT l hl s hs').symm)] at hok
  exact linkOk_present E l cfg hok hsub

/-! ## ordered link sets: the guard `nonNested` weakened to what the sequential pass needs -/

/-- The invariant under the weaker, order-aware guard `fwdOK` (decidable; Lemmas/LinksHist): no link writes into its own
    sources and no link registered LATER writes into / above the target or the sources of a link registered EARLIER.
    Nested keys are allowed when the write comes first: `a --> g.p` registered before `fsum(g) --> b`, or before
    `g --> w`.  Then, in every successfully parsed configuration, every link has `target = F(FINAL sources)` at every
    place that holds the target.  (`nonNested` implies `fwdOK` for accepted link sets: `C15_nonNested_is_ordered`;
    the other registration order is the open finding, `C15_nested_chain_counterexample`.) -/
theorem C15_invariant_ordered (E : Env) (p0 p : Parser) (reqs : List LinkReq) (h : Accepted p0 reqs p)
    (ho : fwdOK p.links = true)
    (inputs : List Input) (cfg : KV) (hp : parse E p inputs = .ok cfg) :
    ∀ l ∈ p.links, ∀ args, argsOf cfg l.sources = some args →
      ∃ v, linkValue E l args = .ok v ∧ (∀ w ∈ targetValues l cfg, w = v) ∧
        (l.kind = .plain → getK l.target cfg = some v) := by
  obtain ⟨c0, _, hc⟩ := parse_ok E p inputs cfg hp
  obtain ⟨ha, _, _⟩ := parseCommon_ok E p c0 cfg hc
  intro l hl args hargs
  exact apply_inv_fwd E p.links c0 cfg ha ho l hl (h.inv.wf l hl).1 args hargs

/-- the new guard is weaker: every accepted link set without nested keys is ordered, whatever the registration order -/
theorem C15_nonNested_is_ordered (p0 p : Parser) (reqs : List LinkReq) (h : Accepted p0 reqs p)
    (hn : nonNested p.links = true) : fwdOK p.links = true := by
  obtain ⟨hST, hTT⟩ := indep_of_unchained p.links h.inv.noChain h.inv.noSelf hn
  exact fwdOK_of_indep p.links hST hTT

/-- One pass suffices: (1) the parsed configuration is a fixed point of the pass; (2) the pass in any other order
    of the links succeeds as well, leaves every key that diverges from the targets as it was and puts the same
    value at every place of every target (each link's value is determined by the sources as they stood before the
    pass, which no link writes). -/
theorem C15_one_pass_suffices (E : Env) (p0 p : Parser) (reqs : List LinkReq) (h : Accepted p0 reqs p)
    (hn : nonNested p.links = true) (c0 cfg : KV)
    (ha : applyParsingLinks E p.links c0 = .ok cfg) :
    applyParsingLinks E p.links cfg = .ok cfg ∧
    ∀ ls', ls'.Perm p.links → ∃ c2, applyParsingLinks E ls' c0 = .ok c2 ∧
      (∀ k, (∀ l ∈ p.links, diverges l.target k = true) → getK k c2 = getK k cfg) ∧
      (∀ l ∈ p.links, ∀ args, argsOf c0 l.sources = some args → ∃ v, linkValue E l args = .ok v ∧
        (∀ w ∈ targetValues l cfg, w = v) ∧ (∀ w ∈ targetValues l c2, w = v) ∧
        (l.kind = .plain → getK l.target c2 = getK l.target cfg)) := by
  obtain ⟨hST, hTT⟩ := indep_of_unchained p.links h.inv.noChain h.inv.noSelf hn
  refine ⟨applyAll_of_each E cfg p.links (apply_fixed E p.links c0 cfg ha hST hTT h.inv.wf), ?_⟩
  intro ls' hperm
  obtain ⟨c2, h2, hf, hv⟩ := apply_perm E p.links ls' c0 cfg hperm ha hST hTT
  refine ⟨c2, h2, hf, fun l hl args hargs => ?_⟩
  obtain ⟨v, hv1, hw1, hw2, hpl⟩ := hv l hl args hargs
  exact ⟨v, hv1, hw1, hw2, fun hk => hpl hk (h.inv.wf l hl).1⟩

/-! ## required, option -/

/-- the target is dropped from `required_args`, and no later call puts it back -/
theorem C15_not_required (p0 p : Parser) (reqs : List LinkReq) (h : Accepted p0 reqs p) :
    ∀ l ∈ p.links, l.target ∉ p.required :=
  h.inv.notReq

/-- the command-line option of a plain target makes the parse fail with the TypeError of `ActionLink.__call__`,
    whatever else is given -/
theorem C15_option_rejected (E : Env) (p0 p : Parser) (reqs : List LinkReq) (h : Accepted p0 reqs p)
    (l : Link) (hl : l ∈ p.links) (hk : l.kind = .plain) (inputs : List Input) (i : Input) (hi : i ∈ inputs)
    (hkey : i.key = l.target) (hchan : i.chan = .argv) :
    parse E p inputs = .error .linkCall := by
  have hpt : isPlainTarget p i.key = true := by
    rw [hkey]
    unfold isPlainTarget
    exact List.any_eq_true.mpr ⟨⟨l.target, .link⟩, h.inv.plainAct l hl hk, by simp⟩
  unfold parse
  rw [feedAll_linkCall p inputs [] ⟨i, hi, hpt, hchan⟩]

/-- EVERY option string of a plain target is rejected: (1) after the accepted calls no entry of
    `_option_string_actions` refers to an action that is no longer in the parser; (2) for the call that replaced the
    action `ta` (wherever it stands in the sequence), every option string that reached `ta` at that moment — the
    `--target` spelling, short and long aliases, the `--no_` form of a yes/no flag — reaches the link action in the
    final parser, and argparse's call of it raises. -/
theorem C15_every_option_string_rejected (p0 p : Parser) (reqs : List LinkReq) (h : Accepted p0 reqs p) :
    (∀ oa ∈ p.optActs, oa.2 ∈ p.actions) ∧
    ∀ (pre post : List LinkReq) (r : LinkReq), reqs = pre ++ r :: post →
      ∃ p1 ta, addLinks p0 pre = .ok p1 ∧ findParent p1.actions r.target = some ta ∧
        ((!ta.kind.isSubT || ta.dest == r.target) = true →
          ∀ o, (o, ta) ∈ p1.optActs → optionCall p o = .error .linkCall) := by
  refine ⟨h.inv.optOK, fun pre post r hr => ?_⟩
  have hok := h.ok
  rw [hr] at hok
  obtain ⟨p1, p2, h1, h2, h3⟩ := addLinks_append pre r post p0 p hok
  obtain ⟨ta, hfp, hred, _⟩ := addLink_redirects p1 p2 _ _ _ _ h2
  refine ⟨p1, ta, h1, hfp, fun hrep o ho => ?_⟩
  have hm2 := (hred hrep).1 o ho
  have hm := (addLinks_opts post p2 p h3).2 o r.target hm2
  have hkeys : (p.optActs.map (·.1)).Nodup := by
    rw [(addLinks_opts post p2 p h3).1, addLink_optKeys p1 p2 _ _ _ _ h2, (addLinks_opts pre p0 p1 h1).1]
    exact h.optsNodup
  unfold optionCall
  rw [find_of_nodup_keys p.optActs o _ hkeys hm]
  rfl

/-! ## dump and re-parse -/

/-- FULL STATEMENT (since 74a7bb8, F70): after the strip NO place holds a link target -- neither the key path nor the
    items of a list of classes held by the dest of an `init_args` target -/
theorem C15_not_in_dump (p0 p : Parser) (reqs : List LinkReq) (h : Accepted p0 reqs p) (cfg : KV) :
    ∀ l ∈ p.links, targetValues l (dump p cfg) = [] ∧ getK l.target (dump p cfg) = .none :=
  fun l hl => ⟨(gone_strip p h.inv cfg l hl).targetValues, (gone_strip p h.inv cfg l hl).1⟩

/-- regression record (the strip BEFORE F70, `dumpOld`): no place held the target unless the dest of an `init_args`
    target held a list -/
theorem C15_not_in_dump_partial (p0 p : Parser) (reqs : List LinkReq) (h : Accepted p0 reqs p) (cfg : KV) :
    ∀ l ∈ p.links, (∀ n, l.kind = .initArg n → ∀ items, getK (l.target.take n) cfg ≠ some (.lst items)) →
      targetValues l (dumpOld p cfg) = [] :=
  targetValues_strip p h.inv cfg

/-- Re-parsing a dump: let `load` stand for reading the dump back and merging it with the defaults (C01, C05, C14);
    whenever it restores every key that diverges from the link targets, the link pass of the re-parse succeeds,
    leaves those keys as they are and rebuilds every target: every place that holds a target holds the value it
    held in `cfg`, and plain targets are restored exactly. -/
theorem C15_reparse_reconstructs (E : Env) (p0 p : Parser) (reqs : List LinkReq) (h : Accepted p0 reqs p)
    (hn : nonNested p.links = true)
    (inputs : List Input) (cfg : KV) (hp : parse E p inputs = .ok cfg) (load : KV → KV)
    (hload : ∀ k, (∀ l ∈ p.links, diverges l.target k = true) → getK k (load (dump p cfg)) = getK k cfg) :
    ∃ cfg2, applyParsingLinks E p.links (load (dump p cfg)) = .ok cfg2 ∧
      (∀ k, (∀ l ∈ p.links, diverges l.target k = true) → getK k cfg2 = getK k cfg) ∧
      (∀ l ∈ p.links, ∀ args, argsOf cfg l.sources = some args → ∃ v, linkValue E l args = .ok v ∧
        (∀ w ∈ targetValues l cfg, w = v) ∧ (∀ w ∈ targetValues l cfg2, w = v) ∧
        (l.kind = .plain → getK l.target cfg2 = getK l.target cfg)) ∧
      ((∀ c, E.valid c = true) → (∀ k ∈ p.required, ∀ l ∈ p.links, diverges l.target k = true) →
        reparse E p load (dump p cfg) = .ok cfg2) := by
  obtain ⟨hST, hTT⟩ := indep_of_unchained p.links h.inv.noChain h.inv.noSelf hn
  obtain ⟨c0, _, hc⟩ := parse_ok E p inputs cfg hp
  obtain ⟨ha, _, hreq⟩ := parseCommon_ok E p c0 cfg hc
  obtain ⟨cfg2, h2, hf, hv⟩ := reparse_links E p.links c0 cfg (load (dump p cfg)) ha hST hTT hload
  refine ⟨cfg2, h2, hf, fun l hl args hargs => ?_, fun hvalid hroff => ?_⟩
  · obtain ⟨v, hv1, hw1, hw2, hpl⟩ := hv l hl args hargs
    exact ⟨v, hv1, hw1, hw2, fun hk => hpl hk (h.inv.wf l hl).1⟩
  · unfold reparse parseCommon
    rw [h2]
    have hr2 : validateRequired p.required cfg2 = true := by
      unfold validateRequired at hreq ⊢
      rw [List.all_eq_true] at hreq ⊢
      intro k hk
      rw [hf k (hroff k hk)]
      exact hreq k hk
    simp [hvalid cfg2, hr2]

/-- `dump` removes nothing but the targets: every key that diverges from them is as in the configuration -/
theorem C15_dump_keeps_the_rest (p0 p : Parser) (reqs : List LinkReq) (h : Accepted p0 reqs p) (cfg : KV) (k : Key)
    (hk : ∀ l ∈ p.links, diverges l.target k = true) : getK k (dump p cfg) = getK k cfg :=
  getK_stripN_frame p h.inv cfg k hk

/-- … so that, in the model, the stripped configuration itself (`load` = identity: no class defaults to restore)
    re-parses: the pass succeeds and every plain target gets back exactly the value it had -/
theorem C15_reparse_plain (E : Env) (p0 p : Parser) (reqs : List LinkReq) (h : Accepted p0 reqs p)
    (hn : nonNested p.links = true)
    (inputs : List Input) (cfg : KV) (hp : parse E p inputs = .ok cfg) :
    ∃ cfg2, applyParsingLinks E p.links (dump p cfg) = .ok cfg2 ∧
      (∀ k, (∀ l ∈ p.links, diverges l.target k = true) → getK k cfg2 = getK k cfg) ∧
      (∀ l ∈ p.links, l.kind = .plain → (∀ s ∈ l.sources, s.sub = false) →
        getK l.target cfg2 = getK l.target cfg) := by
  obtain ⟨cfg2, h2, hf, hv, _⟩ := C15_reparse_reconstructs E p0 p reqs h hn inputs cfg hp id
    (fun k hk => getK_stripN_frame p h.inv cfg k hk)
  refine ⟨cfg2, h2, hf, fun l hl hk hsub => ?_⟩
  obtain ⟨args, hargs⟩ := C15_sources_present E p0 p reqs h hn inputs cfg hp l hl hsub
  obtain ⟨_, _, _, _, hpl⟩ := hv l hl args hargs
  exact hpl hk


/-! ## every source position, every item of a list of classes -/

/-- The chain check looks at EVERY source position: an accepted `link_arguments` call has a target that is no source
    of any earlier link, whatever its position in that link's tuple; none of its own sources, whatever the position,
    is the target of an earlier link; its target is not among its own sources and not an earlier target.  Hence a
    call whose target is the second, third, … source of an earlier link is refused. -/
theorem C15_chain_check_all_sources (p : Parser) (srcs : List Key) (co : List Bool) (t : Key) (fn : Option Nat) :
    (∀ p', addLink p srcs co t fn = .ok p' →
      (∀ l ∈ p.links, ∀ s ∈ l.sources, s.key ≠ t) ∧ (∀ s ∈ srcs, ∀ l ∈ p.links, l.target ≠ s) ∧ t ∉ srcs ∧
      (∀ l ∈ p.links, l.target ≠ t)) ∧
    ((∃ l ∈ p.links, ∃ s ∈ l.sources, s.key = t) → ∀ p', addLink p srcs co t fn ≠ .ok p') ∧
    ((∃ s ∈ srcs, ∃ l ∈ p.links, l.target = s) → ∀ p', addLink p srcs co t fn ≠ .ok p') := by
  refine ⟨fun p' h => addLink_all_sources p p' srcs co t fn h, ?_, ?_⟩
  · rintro ⟨l, hl, s, hs, e⟩ p' h
    exact (addLink_all_sources p p' srcs co t fn h).1 l hl s hs e
  · rintro ⟨s, hs, l, hl, e⟩ p' h
    exact (addLink_all_sources p p' srcs co t fn h).2.1 s hs l hl e

/-- List-of-classes targets: (1) `set_target_value` takes the list branch as soon as ANY item is a namespace with the
    parameter, whatever the first item is, and then every such item receives the value while the other items are
    untouched; (2) in every successfully parsed configuration every item of the list that has the parameter holds
    the value computed from the final sources. -/
theorem C15_list_target_all_items (E : Env) (p0 p : Parser) (reqs : List LinkReq) (h : Accepted p0 reqs p)
    (hn : fwdOK p.links = true) (l : Link) (hl : l ∈ p.links) (n : Nat) (hk : l.kind = .initArg n) :
    (∀ (v : V) (cfg : KV) (items : List V), getK (l.target.take n) cfg = some (.lst items) →
      (∃ kvs, V.ns kvs ∈ items ∧ (getK (l.target.drop n) kvs).isSome = true) →
      getK (l.target.take n) (setTargetValue l v cfg) = some (.lst (items.map (itemSet (l.target.drop n) v)))) ∧
    (∀ (inputs : List Input) (cfg : KV) (items : List V) (args : List V), parse E p inputs = .ok cfg →
      getK (l.target.take n) cfg = some (.lst items) → argsOf cfg l.sources = some args →
      ∃ v, linkValue E l args = .ok v ∧
        ∀ kvs, V.ns kvs ∈ items → ∀ w, getK (l.target.drop n) kvs = some w → w = v) := by
  refine ⟨fun v cfg items hg hany => setTargetValue_list l n v cfg items hk hg hany, ?_⟩
  intro inputs cfg items args hp hg hargs
  obtain ⟨v, hv, hw, _⟩ := C15_invariant_ordered E p0 p reqs h hn inputs cfg hp l hl args hargs
  refine ⟨v, hv, fun kvs hm w hgw => hw w ?_⟩
  rw [targetValues_list l n cfg items hk hg]
  exact mem_itemValues _ kvs w items hm hgw

/-! ## the target is replaced, not merged -/

/-- The write of a link REPLACES what the target held (`cfg[target_key] = value`, not a leaf-by-leaf update): whatever
    was stored before (a mapping supplied by an old config with keys the source lacks, a spec of another class,
    extra `dict_kwargs`, …), after `set_target_value` on a plain target the subtree at the target IS the value, so
    below the target one reads exactly what the value holds and nothing else (1).  Hence in every successfully parsed
    configuration (2): the subtree at a plain target equals the computed value, no key of a previously supplied value
    survives below it, and a link without compute function and without dict coercion leaves the target equal to the
    source's final value itself (also when that value is a namespace: a group, a class spec).  For `init_args`
    targets the same is the `targetValues` clause of `C15_invariant`. -/
theorem C15_target_replaced_not_merged (E : Env) (p0 p : Parser) (reqs : List LinkReq) (h : Accepted p0 reqs p)
    (hn : fwdOK p.links = true) (l : Link) (hl : l ∈ p.links) (hk : l.kind = .plain) :
    (∀ (v : V) (old : KV), getK l.target (setTargetValue l v old) = some v ∧
      ∀ r, r ≠ [] → getK (l.target ++ r) (setTargetValue l v old) =
        match v with
        | .ns sub => getK r sub
        | _ => .none) ∧
    (∀ (inputs : List Input) (cfg : KV) (args : List V), parse E p inputs = .ok cfg → argsOf cfg l.sources = some args →
      ∃ v, linkValue E l args = .ok v ∧ getK l.target cfg = some v ∧
        (∀ r, r ≠ [] → getK (l.target ++ r) cfg =
          match v with
          | .ns sub => getK r sub
          | _ => .none) ∧
        (∀ s x, l.fn = .none → l.sources = [s] → s.asDict = false → getK s.key cfg = some x →
          getK l.target cfg = some x)) := by
  have hne : l.target ≠ [] := (h.inv.wf l hl).1
  have hbelow : ∀ (c : KV) (v : V), getK l.target c = some v → ∀ r, r ≠ [] →
      getK (l.target ++ r) c = match v with
        | .ns sub => getK r sub
        | _ => .none := by
    intro c v hg r hr
    rw [getK_append l.target r c hne hr, hg]
    cases v <;> rfl
  refine ⟨fun v old => ?_, ?_⟩
  · have hg := (getK_setTargetValue_target l v old).2 hk hne
    exact ⟨hg, hbelow _ v hg⟩
  · intro inputs cfg args hp hargs
    obtain ⟨v, hv, _, hpl⟩ := C15_invariant_ordered E p0 p reqs h hn inputs cfg hp l hl args hargs
    refine ⟨v, hv, hpl hk, hbelow cfg v (hpl hk), ?_⟩
    intro s x hfn hsrc hco hgx
    rw [hpl hk]
    rw [hsrc] at hargs
    simp only [argsOf, hgx] at hargs
    cases hargs
    unfold linkValue at hv
    rw [hfn] at hv
    simp only [coerceArg, hco] at hv
    cases hv
    rfl

/-! ## subcommands: the links of the selected sub-parser, at every depth -/

/-- a node of a parser tree is well-formed as far as its own links go when they were registered by accepted calls
    and no key is nested -/
theorem C15_wf_node (p0 p : Parser) (reqs : List LinkReq) (h : Accepted p0 reqs p) (hn : nonNested p.links = true) :
    SrcIndep p.links ∧ TgtIndep p.links ∧ ∀ l ∈ p.links, WfLink l :=
  ⟨(indep_of_unchained p.links h.inv.noChain h.inv.noSelf hn).1,
   (indep_of_unchained p.links h.inv.noChain h.inv.noSelf hn).2, h.inv.wf⟩

/-- `apply_parsing_links` as written (guard 1: skip / print_config; the recursion into the parser of the selected
    subcommand; guard 3: no `_links_group`; the loop) establishes the invariant for the parser and, recursively, for
    the parser of the subcommand that the returned configuration selects, at every depth.  `inputs` is arbitrary:
    the values of a sub-parser may come from argv after the subcommand token, from a parent-level config or object
    (keys `fit.x`), from the environment or from defaults. -/
theorem C15_invariant_subcommands (E : Env) (N : Names) (hN : NamesOK N) (t : PTree) (hw : WfTree t)
    (inputs : List Input) (cfg : KV) (hp : parseT E N t inputs = .ok cfg) : HoldsTree E N t cfg := by
  obtain ⟨c0, hc⟩ := parseT_ok E N t inputs cfg hp
  exact applyTree_holds E N hN t c0 cfg hc hw

/-- guard 1 comes first: nothing is done at any level while a config file is being loaded / for `--print_config` -/
theorem C15_guard_off (E : Env) (N : Names) (t : PTree) (cfg : KV) : applyTree E N true t cfg = .ok cfg :=
  applyTree_off E N t cfg

/-! ## witnesses: the full statements fail (open findings), the hypotheses are satisfiable -/

/-- compute functions of the witnesses: 0 = a + b, 1 = sum of the integer fields of a group, 2 = 2 * a -/
def Fw : Nat → List V → Option V
  | 0, [.atom a, .atom b] => some (.atom (a + b))
  | 1, [.ns kvs] => some (.atom ((kvs.map fun kv => match kv.2 with | .atom a => a | _ => 0).foldl (· + ·) 0))
  | 2, [.atom a] => some (.atom (2 * a))
  | _, _ => .none

def Ew : Env := { F := Fw, chk := fun _ _ => true, valid := fun _ => true }

def sk (s : String) : SKey := ⟨false, s⟩
/-- dotted keys, written out (`String.splitOn` does not reduce in the kernel) -/
def key (s : String) : Key := [sk s]
def key2 (a b : String) : Key := [sk a, sk b]
def key3 (a b c : String) : Key := [sk a, sk b, sk c]
def arg (k : Key) : Action := ⟨k, .arg⟩
def parserOf (p0 : Parser) (reqs : List LinkReq) : Parser :=
  match addLinks p0 reqs with
  | .ok p => p
  | .error _ => p0

/-! ### the self link (fixed finding F15x, ba94f2f): regression example of the pre-fix check -/

def p0Self : Parser := { actions := [arg (key "a"), arg (key "b")], required := [], links := [] }
def reqsSelf : List LinkReq := [⟨[key "a", key "b"], [], key "a", some 0⟩]

/-- the parser state `link_arguments(("a", "b"), "a", add)` produced while the check was missing -/
def pSelfPreFix : Parser :=
  { actions := [⟨key "a", .link⟩, arg (key "b")], required := [],
    links := [⟨[⟨key "a", false, false⟩, ⟨key "b", false, false⟩], key "a", some 0, .plain⟩] }

/-- `link_arguments(("a", "b"), "a", add)` is refused now; on the parser the pre-fix check let through, `a: 10` from
    a config and `b = 2` parse to `a = 12` although `add(12, 2) = 14` -/
theorem C15_self_link_counterexample :
    addLinks p0Self reqsSelf = .error .selfLink ∧
    noSelf pSelfPreFix.links = false ∧
    parse Ew pSelfPreFix [⟨.dflt, key "b", .atom 2⟩, ⟨.config, key "a", .atom 10⟩]
      = .ok [(⟨false, "b"⟩, .atom 2), (⟨false, "a"⟩, .atom 12)] ∧
    Fw 0 [.atom 12, .atom 2] = some (.atom 14) := by
  refine ⟨rfl, by decide, rfl, rfl⟩

/-! ### C15-nested-chain -/

def p0Nest : Parser := { actions := [arg (key "a"), arg (key "b"), arg (key2 "g" "p"), arg (key2 "g" "q")], required := [], links := [] }
def reqsNest : List LinkReq := [⟨[key "g"], [], key "b", some 1⟩, ⟨[key "a"], [], (key2 "g" "p"), .none⟩]

/-- `link_arguments("g", "b", fsum)` then `link_arguments("a", "g.p")`: both accepted (no whole key repeats), the
    keys `g` and `g.p` are nested, and `--a=100` gives `g.p = 100`, `b = 4 = fsum(g before the write)` although
    `fsum(g) = 104` -/
theorem C15_nested_chain_counterexample :
    addLinks p0Nest reqsNest = .ok (parserOf p0Nest reqsNest) ∧
    noSelf (parserOf p0Nest reqsNest).links = true ∧ nonNested (parserOf p0Nest reqsNest).links = false ∧
    parse Ew (parserOf p0Nest reqsNest)
        [⟨.dflt, key "a", .atom 1⟩, ⟨.dflt, key "b", .atom 0⟩, ⟨.dflt, (key2 "g" "p"), .atom 3⟩, ⟨.dflt, (key2 "g" "q"), .atom 4⟩,
         ⟨.argv, key "a", .atom 100⟩]
      = .ok [(⟨false, "a"⟩, .atom 100), (⟨false, "g"⟩, .ns [(⟨false, "q"⟩, .atom 4), (⟨false, "p"⟩, .atom 100)]),
             (⟨false, "b"⟩, .atom 4)] ∧
    Fw 1 [.ns [(⟨false, "q"⟩, .atom 4), (⟨false, "p"⟩, .atom 100)]] = some (.atom 104) := by
  refine ⟨rfl, by decide, by decide, rfl, rfl⟩

/-! ### 15c: items of a list of classes keep the target in the dump -/

def p0List : Parser :=
  { actions := [arg (key "a"), ⟨key "opts", .subclassL⟩, ⟨key "opt", .subclass⟩], required := [], links := [] }
def reqsList : List LinkReq :=
  [⟨[key "a"], [], (key3 "opts" "init_args" "dim"), .none⟩, ⟨[key "a"], [], (key3 "opt" "init_args" "dim"), some 2⟩]

def cfgList : KV :=
  [(⟨false, "a"⟩, .atom 5),
   (⟨false, "opts"⟩, .lst [.ns [(⟨false, "class_path"⟩, .atom 1), (⟨false, "init_args"⟩, .ns [(⟨false, "dim"⟩, .none), (⟨false, "k"⟩, .atom 1)])],
                          .ns [(⟨false, "class_path"⟩, .atom 2), (⟨false, "init_args"⟩, .ns [(⟨false, "k"⟩, .atom 7)])]]),
   (⟨false, "opt"⟩, .ns [(⟨false, "class_path"⟩, .atom 1), (⟨false, "init_args"⟩, .ns [(⟨false, "dim"⟩, .atom 33)])])]

def lOpts : Link := ⟨[⟨key "a", false, false⟩], key3 "opts" "init_args" "dim", .none, .initArg 1⟩
def lOpt : Link := ⟨[⟨key "a", false, false⟩], key3 "opt" "init_args" "dim", some 2, .initArg 1⟩

/-- (fixed finding 15c / F70; regression record) the pass sets `dim` in the item that has it (and in `opt`, overriding the
    supplied 33); the strip removes `opt.init_args.dim` (and the then empty `opt.init_args`).  The strip as it was
    BEFORE 74a7bb8 (`dumpOld`) left the items of `opts` as they were: the full statement failed for the list target.
    The strip as it is now (`dump`) empties both. -/
theorem C15_list_item_target_in_dump :
    addLinks p0List reqsList = .ok (parserOf p0List reqsList) ∧ (parserOf p0List reqsList).links = [lOpts, lOpt] ∧
    ∃ cfg, parseCommon Ew (parserOf p0List reqsList) cfgList = .ok cfg ∧
      targetValues lOpts cfg = [.atom 5] ∧ targetValues lOpts (dumpOld (parserOf p0List reqsList) cfg) = [.atom 5] ∧
      targetValues lOpt cfg = [.atom 10] ∧ targetValues lOpt (dumpOld (parserOf p0List reqsList) cfg) = [] ∧
      getK (key2 "opt" "init_args") (dumpOld (parserOf p0List reqsList) cfg) = .none ∧
      targetValues lOpts (dump (parserOf p0List reqsList) cfg) = [] ∧ targetValues lOpt (dump (parserOf p0List reqsList) cfg) = [] ∧
      getK (key "opts") (dump (parserOf p0List reqsList) cfg) =
        some (.lst [.ns [(⟨false, "class_path"⟩, .atom 1), (⟨false, "init_args"⟩, .ns [(⟨false, "k"⟩, .atom 1)])],
                    .ns [(⟨false, "class_path"⟩, .atom 2), (⟨false, "init_args"⟩, .ns [(⟨false, "k"⟩, .atom 7)])]]) :=
  ⟨rfl, rfl, _, rfl, rfl, rfl, rfl, rfl, rfl, rfl, rfl, rfl⟩

/-! ### non-vacuity -/

def p0Ok : Parser :=
  { actions := [arg (key "a"), arg (key "b"), arg (key "c"), arg (key2 "g" "p"), arg (key2 "g" "q"), arg (key "m"), ⟨key "opt", .subclass⟩, ⟨key "opts", .subclassL⟩],
    required := [key "c"], links := [] }
def reqsOk : List LinkReq :=
  [⟨[key "a", key "b"], [], key "c", some 0⟩, ⟨[key "g"], [true], key "m", .none⟩,
   ⟨[(key2 "g" "q")], [], (key3 "opt" "init_args" "dim"), some 2⟩, ⟨[key "a"], [], (key3 "opts" "init_args" "dim"), .none⟩]

/-- the hypotheses of the theorems hold for a parser with a required plain target, a group-valued source with the
    dict coercion, an `init_args` target and a list-of-classes target -/
example : Accepted p0Ok reqsOk (parserOf p0Ok reqsOk) ∧
    nonNested (parserOf p0Ok reqsOk).links = true ∧ (parserOf p0Ok reqsOk).required = [] :=
  ⟨⟨rfl, by decide, by decide, by decide, by decide, rfl⟩, by decide, rfl⟩

/-- … and a parse succeeds: `c` given by a config is overridden, `m` receives the group as a dict -/
example : parse Ew (parserOf p0Ok reqsOk)
    [⟨.dflt, key "a", .atom 1⟩, ⟨.dflt, key "b", .atom 2⟩, ⟨.dflt, key "c", .atom 0⟩, ⟨.dflt, (key2 "g" "p"), .atom 3⟩,
     ⟨.dflt, (key2 "g" "q"), .atom 4⟩, ⟨.config, key "c", .atom 77⟩, ⟨.env, key "b", .atom 8⟩]
    = .ok [(⟨false, "a"⟩, .atom 1), (⟨false, "b"⟩, .atom 8), (⟨false, "g"⟩, .ns [(⟨false, "p"⟩, .atom 3), (⟨false, "q"⟩, .atom 4)]),
           (⟨false, "c"⟩, .atom 9), (⟨false, "m"⟩, .dct [(⟨false, "p"⟩, .atom 3), (⟨false, "q"⟩, .atom 4)])] := rfl

/-- chains and double targets are refused -/
example : addLinks p0Ok (reqsOk ++ [⟨[key "c"], [], key "b", .none⟩]) = .error .sourceIsTarget ∧
    addLinks p0Ok (reqsOk ++ [⟨[key "b"], [], key "c", .none⟩]) = .error .doubleTarget ∧
    addLinks p0Ok (reqsOk ++ [⟨[(key2 "g" "p")], [], key "a", .none⟩]) = .error .targetIsSource ∧
    addLinks p0Ok [⟨[key "a", key "b"], [], key "c", .none⟩] = .error .multiNoFn ∧
    addLinks p0Ok [⟨[key "a", key "b"], [], key "b", some 0⟩] = .error .selfLink ∧
    addLinks p0Ok [⟨[key "nokey"], [], key "c", .none⟩] = .error .noAction ∧
    addLinks p0Ok [⟨[key "a"], [], (key2 "opt" "dim"), .none⟩] = .error .badSubclassTarget :=
  ⟨rfl, rfl, rfl, rfl, rfl, rfl, rfl⟩

/-! ## the code runs the steps in the order the model assumes (regenerated from `_core.py`, `_link_arguments.py`) -/

open Jap.Gen.LinksOrder in
/-- `_parse_common`: subcommands and sub-defaults are merged before the links, validation comes after them -/
theorem C15_code_links_before_validation :
    parseCommon.idxOf "handle_subcommands" < parseCommon.idxOf "apply_parsing_links" ∧
    parseCommon.idxOf "add_sub_defaults" < parseCommon.idxOf "apply_parsing_links" ∧
    parseCommon.idxOf "apply_parsing_links" < parseCommon.idxOf "validate" ∧
    parseCommon.idxOf "validate" < parseCommon.length := by decide

open Jap.Gen.LinksOrder in
/-- `dump` strips the link targets before anything is serialised; `save` strips them on its multi-file branch and
    goes through `dump` otherwise -/
theorem C15_code_dump_strips :
    dump.idxOf "strip_link_target_keys" < dump.idxOf "as_dict" ∧
    dump.idxOf "as_dict" < dump.idxOf "dump_using_format" ∧ dump.idxOf "dump_using_format" < dump.length ∧
    save.idxOf "strip_link_target_keys" < save.length ∧ save.idxOf "dump" < save.idxOf "strip_link_target_keys" := by
  decide

open Jap.Gen.LinksOrder in
/-- `_initial_input_checks` still raises for the four chain shapes (own sources included) and for several sources
    without function -/
theorem C15_code_initial_checks :
    ["Multiple source keys requires a compute function.", "Target \"\" is already a target of another link.",
     "Source \"\" not allowed since it is the target of another link.",
     "Target \"\" not allowed since it is one of the sources of the link.",
     "Target \"\" not allowed since it is the source of another link."].all (initialChecks.contains ·) = true := by
  decide

/-! ### subcommands -/

def Nw : Names :=
  { nameOf := fun v => match v with | .dct [(k, _)] => some k | _ => .none
    nameVal := fun k => .dct [(k, .none)] }

theorem Nw_ok : NamesOK Nw := ⟨rfl, fun _ => rfl, fun _ => rfl⟩

/-- the sub-parser `fit` with the link `x --> y` (2 * x) -/
def subFit : Parser := parserOf { actions := [arg (key "x"), arg (key "y")], required := [], links := [] }
  [⟨[key "x"], [], key "y", some 2⟩]

/-- a top parser WITHOUT `_links_group` (guard 3 returns) and a top parser with its own link `a --> b` -/
def treeNoGroup : PTree := .node { actions := [arg (key "top")], required := [], links := [] } false (sk "subcommand") true
  [(sk "fit", .node subFit true (sk "subcommand") false [])]
def treeBoth : PTree :=
  .node (parserOf { actions := [arg (key "a"), arg (key "b")], required := [], links := [] } [⟨[key "a"], [], key "b", .none⟩])
    true (sk "subcommand") true [(sk "other", .node subFit true (sk "subcommand") false []), (sk "fit", .node subFit true (sk "subcommand") false [])]

/-- the recursion comes BEFORE the `_links_group` return: the links of `fit` are applied although the top parser has
    none; the section only (no `subcommand` key) selects it and the dest is stored; a value given for `fit.y` by a
    parent-level config is overridden, its option after the token is refused -/
example :
    parseT Ew Nw treeNoGroup [⟨.dflt, key "top", .atom 0⟩, ⟨.dflt, key2 "fit" "x", .atom 1⟩, ⟨.config, key2 "fit" "y", .atom 9⟩,
        ⟨.argv, key2 "fit" "x", .atom 4⟩]
      = .ok [(sk "top", .atom 0), (sk "fit", .ns [(sk "x", .atom 4), (sk "y", .atom 8)]), (sk "subcommand", .dct [(sk "fit", .none)])] ∧
    parseT Ew Nw treeNoGroup [⟨.argv, key2 "fit" "y", .atom 4⟩] = .error .linkCall ∧
    parseT Ew Nw treeBoth [⟨.dflt, key "a", .atom 3⟩, ⟨.object, key "subcommand", .dct [(sk "fit", .none)]⟩,
        ⟨.env, key2 "fit" "x", .atom 5⟩, ⟨.config, key2 "other" "x", .atom 1⟩]
      = .ok [(sk "a", .atom 3), (sk "subcommand", .dct [(sk "fit", .none)]), (sk "fit", .ns [(sk "x", .atom 5), (sk "y", .atom 10)]),
             (sk "b", .atom 3)] :=
  ⟨rfl, rfl, rfl⟩

/-- the hypotheses of `C15_invariant_subcommands` are satisfiable by these trees -/
example : WfTree treeNoGroup ∧ WfTree treeBoth :=
  ⟨wfTreeB_sound _ (by decide), wfTreeB_sound _ (by decide)⟩

/-- a list of classes whose FIRST item has no `dim`: the second item receives the value all the same -/
example :
    setTargetValue lOpts (.atom 7)
      [(sk "opts", .lst [.ns [(sk "init_args", .ns [(sk "k", .atom 1)])], .atom 3,
                         .ns [(sk "init_args", .ns [(sk "dim", .none), (sk "k", .atom 2)])]])]
    = [(sk "opts", .lst [.ns [(sk "init_args", .ns [(sk "k", .atom 1)])], .atom 3,
                         .ns [(sk "init_args", .ns [(sk "dim", .atom 7), (sk "k", .atom 2)])]])] := rfl

/-- a target that is the SECOND source of an earlier link is refused -/
example : addLinks p0Ok (reqsOk ++ [⟨[key2 "g" "p"], [], key "b", .none⟩]) = .error .targetIsSource := rfl

/-- a mapping supplied for the target by an old config, with keys the group lacks (`wd`): after the parse the target
    is the group itself -/
example :
    parse Ew (parserOf { actions := [arg (key2 "g" "p"), arg (key2 "g" "q"), arg (key "raw")], required := [], links := [] }
        [⟨[key "g"], [false], key "raw", .none⟩])
      [⟨.dflt, key2 "g" "p", .atom 3⟩, ⟨.dflt, key2 "g" "q", .atom 4⟩,
       ⟨.config, key "raw", .ns [(sk "wd", .atom 5), (sk "p", .atom 1)]⟩]
    = .ok [(sk "g", .ns [(sk "p", .atom 3), (sk "q", .atom 4)]), (sk "raw", .ns [(sk "p", .atom 3), (sk "q", .atom 4)])] := rfl

open Jap.Gen.LinksOrder in
/-- `apply_parsing_links`: the order of the guards the model transcribes, and of the three steps taken per source -/
theorem C15_code_apply_guards :
    applyGuards = ["return if apply_config_skip or is_print_config_requested", "get_subcommand fail_no_subcommand=False",
      "recurse into subcommand if subcommand in cfg", "return if no _links_group", "loop over links"] ∧
    applySourceSteps = ["skip link if subclass source absent", "check source values", "read source"] := by decide

open Jap.Gen.LinksOrder in
/-- `set_target_value` writes by item assignment (replacement), in the items of a list and at the target key -/
theorem C15_code_target_assignment :
    setTargetWrites = ["item[child_key] = value", "cfg[target_key] = value"] := by decide

/-- a target with a short alias, a long alias and (as for a yes/no flag) a `--no_` form: all four spellings raise
    after the link, the options of the other arguments do not -/
example :
    let c : Action := arg (key "c")
    let p0 : Parser := { actions := [arg (key "a"), c], required := [], links := [],
                         optActs := [("--a", arg (key "a")), ("--c", c), ("-C", c), ("--cc", c), ("--no_c", c)] }
    let p := parserOf p0 [⟨[key "a"], [], key "c", .none⟩]
    optionCall p "--c" = .error .linkCall ∧ optionCall p "-C" = .error .linkCall ∧
    optionCall p "--cc" = .error .linkCall ∧ optionCall p "--no_c" = .error .linkCall ∧
    optionCall p "--a" = .ok () := ⟨rfl, rfl, rfl, rfl, rfl⟩

open Jap.Gen.LinksOrder in
/-- the code redirects every option string of the target action (a loop over `option_strings`), and
    `strip_link_target_keys` visits every type-hint action that has `sub_add_kwargs` (mixed unions included) -/
theorem C15_code_redirect_and_strip_filter :
    optionRedirect = ["for key in self.target[1].option_strings", "parser._option_string_actions[key] = self"] ∧
    stripFilter = ["isinstance(a, ActionLink)", "isinstance(a, ActionTypeHint) and hasattr(a, 'sub_add_kwargs')"] := by decide


/-! ### ordered link sets: witnesses -/

/-- the two links of `C15_nested_chain_counterexample` registered in the OTHER order (`a --> g.p` first, then
    `fsum(g) --> b`): accepted, nested (`nonNested` fails), ordered (`fwdOK` holds), and `--a=100` gives `g.p = 100`,
    `b = 104 = fsum(final g)`; in the order of the counterexample `fwdOK` fails -/
def reqsNestFwd : List LinkReq := [⟨[key "a"], [], (key2 "g" "p"), .none⟩, ⟨[key "g"], [], key "b", some 1⟩]

example :
    Accepted p0Nest reqsNestFwd (parserOf p0Nest reqsNestFwd) ∧
    nonNested (parserOf p0Nest reqsNestFwd).links = false ∧ fwdOK (parserOf p0Nest reqsNestFwd).links = true ∧
    fwdOK (parserOf p0Nest reqsNest).links = false ∧
    parse Ew (parserOf p0Nest reqsNestFwd)
        [⟨.dflt, key "a", .atom 1⟩, ⟨.dflt, key "b", .atom 0⟩, ⟨.dflt, (key2 "g" "p"), .atom 3⟩, ⟨.dflt, (key2 "g" "q"), .atom 4⟩,
         ⟨.argv, key "a", .atom 100⟩]
      = .ok [(⟨false, "a"⟩, .atom 100), (⟨false, "g"⟩, .ns [(⟨false, "q"⟩, .atom 4), (⟨false, "p"⟩, .atom 100)]),
             (⟨false, "b"⟩, .atom 104)] :=
  ⟨⟨rfl, by decide, by decide, by decide, by decide, rfl⟩, by decide, by decide, by decide, rfl⟩

/-! ## histories: one parser object, `link_arguments` calls and parses interleaved -/

/-- what `Accepted` asks of the parser before the first `link_arguments` call -/
structure Fresh (p0 : Parser) : Prop where
  fresh : p0.links = []
  dests : ∀ a ∈ p0.actions, a.dest ≠ []
  noLinkActs : ∀ a ∈ p0.actions, a.kind ≠ .link
  opts : ∀ oa ∈ p0.optActs, oa.2 ∈ p0.actions
  optsNodup : (p0.optActs.map (·.1)).Nodup

/-- After ANY history (accepted and refused `link_arguments` calls, parses through any entry point, in any order and
    number, the world `Es e` changing between them) the parser object is the one built by the accepted calls alone:
    refused calls and parses leave no trace. -/
theorem C15_history_parser (Es : Nat → Env) (p0 : Parser) (hf : Fresh p0) (ops : List Op) :
    Accepted p0 (acceptedReqs p0 ops) (stateAfter Es p0 ops) ∧
    ∀ Es', stateAfter Es p0 ops = stateAfter Es' p0 (linkOps ops) :=
  ⟨⟨hf.fresh, hf.dests, hf.noLinkActs, hf.opts, hf.optsNodup, addLinks_acceptedReqs Es ops p0⟩,
   fun Es' => stateAfter_linkOps Es Es' ops p0⟩

/-- THE INVARIANT HOLDS AFTER EVERY PARSE OF EVERY HISTORY.  Take any history `pre ++ parse e inputs :: post` on one
    parser object.  (1) What the caller gets from that parse is `parse (Es e) p inputs` for `p` = the parser built by
    the calls accepted before it: it does not depend on the earlier parses, on their inputs, nor on what the compute
    functions returned then.  (2) The parse leaves the parser as it is.  (3) `p` is an accepted link set, and
    (4) when the parse succeeds, every link registered so far has `target = F(final sources)` with `F` the compute
    function as it behaves NOW (`Es e`), at every place that holds the target (guard: the ordered link sets of
    `C15_invariant_ordered`, which include all link sets without nested keys). -/
theorem C15_history_invariant (Es : Nat → Env) (p0 : Parser) (hf : Fresh p0) (pre post : List Op) (e : Nat)
    (inputs : List Input) :
    (runOps Es p0 (pre ++ .parse e inputs :: post))[pre.length]? =
      some (.parsed (parse (Es e) (stateAfter Es p0 pre) inputs)) ∧
    stateAfter Es p0 (pre ++ [.parse e inputs]) = stateAfter Es p0 pre ∧
    Accepted p0 (acceptedReqs p0 pre) (stateAfter Es p0 pre) ∧
    (fwdOK (stateAfter Es p0 pre).links = true →
      ∀ cfg, parse (Es e) (stateAfter Es p0 pre) inputs = .ok cfg →
        ∀ l ∈ (stateAfter Es p0 pre).links, ∀ args, argsOf cfg l.sources = some args →
          ∃ v, linkValue (Es e) l args = .ok v ∧ (∀ w ∈ targetValues l cfg, w = v) ∧
            (l.kind = .plain → getK l.target cfg = some v)) := by
  have hacc := (C15_history_parser Es p0 hf pre).1
  refine ⟨runOps_at Es pre post _ p0, ?_, hacc, fun hn cfg hp => ?_⟩
  · rw [stateAfter_append]; rfl
  · exact C15_invariant_ordered (Es e) p0 _ _ hacc hn inputs cfg hp

/-- NO HIDDEN STATE: the target is a function of the sources' final values and of nothing else.  Two successful parses
    of the same parser — anywhere in any histories, through any channels, with anything supplied for the target, with
    any other arguments differing — in which the sources of a link hold the same values (the same in the model's
    sense: `1`, `1.0` and `True` are three different values, see Drv/Links `tyName`) give the same value at every
    place of the target. -/
theorem C15_target_is_a_function_of_the_sources (E : Env) (p0 p : Parser) (reqs : List LinkReq)
    (h : Accepted p0 reqs p) (hn : fwdOK p.links = true) (in1 in2 : List Input) (cfg1 cfg2 : KV)
    (hp1 : parse E p in1 = .ok cfg1) (hp2 : parse E p in2 = .ok cfg2) :
    ∀ l ∈ p.links, ∀ args, argsOf cfg1 l.sources = some args → argsOf cfg2 l.sources = some args →
      (∀ w1 ∈ targetValues l cfg1, ∀ w2 ∈ targetValues l cfg2, w1 = w2) ∧
      (l.kind = .plain → getK l.target cfg1 = getK l.target cfg2) := by
  intro l hl args ha1 ha2
  obtain ⟨v1, hv1, hw1, hpl1⟩ := C15_invariant_ordered E p0 p reqs h hn in1 cfg1 hp1 l hl args ha1
  obtain ⟨v2, hv2, hw2, hpl2⟩ := C15_invariant_ordered E p0 p reqs h hn in2 cfg2 hp2 l hl args ha2
  rw [hv1] at hv2
  cases hv2
  exact ⟨fun w1 h1 w2 h2 => (hw1 w1 h1).trans (hw2 w2 h2).symm, fun hk => (hpl1 hk).trans (hpl2 hk).symm⟩

/-- compute functions of the history witnesses in the world `e`: 0 = the type of the argument (1 for an int, 2 for
    the wire form of `True`/`False`), 1 = a + e (reads state outside its arguments) -/
def FwAt (e : Nat) : Nat → List V → Option V
  | 0, [.atom _] => some (.atom 1)
  | 0, [.dct _] => some (.atom 2)
  | 1, [.atom a] => some (.atom (a + e))
  | _, _ => .none

def EsW (e : Nat) : Env := { F := FwAt e, chk := fun _ _ => true, valid := fun _ => true }

def p0Hist : Parser := { actions := [arg (key "a"), arg (key "b"), arg (key "t"), arg (key "w")], required := [], links := [] }

/-- the wire form of `True` -/
def vTrue : V := .dct [(⟨false, "$b"⟩, .atom 1)]

def histW : List Op :=
  [.link ⟨[key "w"], [], key "t", some 0⟩,
   .parse 0 [⟨.dflt, key "a", .atom 1⟩, ⟨.argv, key "w", .atom 1⟩],
   .link ⟨[key "t"], [], key "a", .none⟩,                        -- refused: `t` is a target
   .parse 0 [⟨.dflt, key "a", .atom 1⟩, ⟨.config, key "w", vTrue⟩, ⟨.config, key "t", .atom 9⟩],
   .link ⟨[key "a"], [], key "b", some 1⟩,                       -- a link added after two parses
   .parse 0 [⟨.dflt, key "a", .atom 1⟩, ⟨.env, key "w", .atom 1⟩],
   .parse 3 [⟨.dflt, key "a", .atom 1⟩, ⟨.env, key "w", .atom 1⟩]]

/-- a history: `w = 1` then `w = True` (equal for Python's `==`, not the same value) give `t = 1` then `t = 2`; the
    refused call changes nothing; the late link applies from the next parse on; the same inputs in another world
    (`EPOCH` 0 → 3) give `b = 1` then `b = 4` -/
example : Fresh p0Hist ∧
    runOps EsW p0Hist histW =
      [.linked (.ok (parserOf p0Hist [⟨[key "w"], [], key "t", some 0⟩])),
       .parsed (.ok [(sk "a", .atom 1), (sk "w", .atom 1), (sk "t", .atom 1)]),
       .linked (.error .sourceIsTarget),
       .parsed (.ok [(sk "a", .atom 1), (sk "w", vTrue), (sk "t", .atom 2)]),
       .linked (.ok (parserOf p0Hist [⟨[key "w"], [], key "t", some 0⟩, ⟨[key "a"], [], key "b", some 1⟩])),
       .parsed (.ok [(sk "a", .atom 1), (sk "w", .atom 1), (sk "t", .atom 1), (sk "b", .atom 1)]),
       .parsed (.ok [(sk "a", .atom 1), (sk "w", .atom 1), (sk "t", .atom 1), (sk "b", .atom 4)])] ∧
    acceptedReqs p0Hist histW = [⟨[key "w"], [], key "t", some 0⟩, ⟨[key "a"], [], key "b", some 1⟩] ∧
    nonNested (stateAfter EsW p0Hist histW).links = true ∧ fwdOK (stateAfter EsW p0Hist histW).links = true :=
  ⟨⟨rfl, by decide, by decide, by decide, by decide⟩, rfl, rfl, by decide, by decide⟩

/-! ## the open findings as decidable classes: outside the class the full statement holds -/

/-- the class of the repaired finding `C15-list-item-target-in-dump` (F70), exactly: the dest of an `init_args` target holds a LIST in which some
    namespace item has the parameter -/
def listHeld (l : Link) (cfg : KV) : Bool :=
  match l.kind with
  | .plain => false
  | .initArg n =>
    match getK (l.target.take n) cfg with
    | some (.lst items) => anyHas (l.target.drop n) items
    | _ => false

/-- regression record (the strip BEFORE F70, `dumpOld`): outside that class no place held the target after the strip
    (also when the dest held a list none of whose items had the parameter); inside the class it failed
    (`C15_list_item_target_in_dump`).  The strip as it is now needs no such guard: `C15_not_in_dump`. -/
theorem C15_not_in_dump_exact (p0 p : Parser) (reqs : List LinkReq) (h : Accepted p0 reqs p) (cfg : KV) :
    ∀ l ∈ p.links, listHeld l cfg = false → targetValues l (dumpOld p cfg) = [] := by
  intro l hl hh
  have hgone := getK_strip_target p h.inv cfg l hl
  unfold dumpOld
  cases hk : l.kind with
  | plain => rw [targetValues_plain _ _ hk, hgone]; rfl
  | initArg n =>
    cases hd : getK (l.target.take n) (stripLinkTargetKeysOld p cfg) with
    | none => rw [targetValues_path l n _ hk (by intro items hg; rw [hd] at hg; cases hg), hgone]; rfl
    | some v =>
      by_cases hl' : ∃ items, v = .lst items
      · obtain ⟨items, rfl⟩ := hl'
        have h0 := getK_delKeys_leaf (stripKeys p) _ cfg _ (by intro sub e; cases e) hd
        rw [targetValues_list l n _ items hk hd]
        apply itemValues_of_not_anyHas
        simp only [listHeld, hk, h0] at hh
        exact hh
      · rw [targetValues_path l n _ hk (by intro items hg; rw [hd] at hg; cases hg; exact hl' ⟨_, rfl⟩), hgone]; rfl

/-- the class of `C15-skipped-link-target-dropped`, exactly: the link is skipped (a subclass-typed source is absent) while
    some place holds a value for its target -/
def skippedHolding (l : Link) (cfg : KV) : Bool := (argsOf cfg l.sources).isNone && !(targetValues l cfg).isEmpty

/-- Outside that class re-parsing the dump loses nothing of the link: every value the configuration held for the target
    is the value every place of the target holds after the re-parse (a link that is skipped held nothing).  Inside
    the class it fails: `C15_skipped_link_target_dropped`. -/
theorem C15_reparse_exact (E : Env) (p0 p : Parser) (reqs : List LinkReq) (h : Accepted p0 reqs p)
    (hn : nonNested p.links = true)
    (inputs : List Input) (cfg : KV) (hp : parse E p inputs = .ok cfg) (load : KV → KV)
    (hload : ∀ k, (∀ l ∈ p.links, diverges l.target k = true) → getK k (load (dump p cfg)) = getK k cfg) :
    ∃ cfg2, applyParsingLinks E p.links (load (dump p cfg)) = .ok cfg2 ∧
      ∀ l ∈ p.links, skippedHolding l cfg = false →
        (∀ w ∈ targetValues l cfg, ∀ w2 ∈ targetValues l cfg2, w2 = w) ∧
        ((argsOf cfg l.sources).isSome = true → l.kind = .plain → getK l.target cfg2 = getK l.target cfg) := by
  obtain ⟨cfg2, h2, _, hv, _⟩ := C15_reparse_reconstructs E p0 p reqs h hn inputs cfg hp load hload
  refine ⟨cfg2, h2, fun l hl hs => ?_⟩
  cases ha : argsOf cfg l.sources with
  | some args =>
    obtain ⟨v, _, hw1, hw2, hpl⟩ := hv l hl args ha
    exact ⟨fun w hw w2 hw2' => (hw2 w2 hw2').trans (hw1 w hw).symm, fun _ hk => hpl hk⟩
  | none =>
    simp only [skippedHolding, ha, Option.isNone_none, Bool.true_and, Bool.not_eq_false', List.isEmpty_iff] at hs
    rw [hs]
    exact ⟨fun w hw => (by cases hw), fun hc => (by cases hc)⟩

/-! ### C15-skipped-link-target-dropped -/

def p0Skip : Parser := { actions := [⟨key "opt", .subclass⟩, arg (key "b")], required := [], links := [] }
def reqsSkip : List LinkReq := [⟨[key3 "opt" "init_args" "k"], [], key "b", .none⟩]
def lSkip : Link := ⟨[⟨key3 "opt" "init_args" "k", true, false⟩], key "b", .none, .plain⟩

/-- `link_arguments("opt.init_args.k", "b")` with `opt` a class argument that is not given: the link is skipped, `b: 9`
    from a config stays in the parsed configuration, `dump` strips it and the re-parse of the dump has no `b` -/
theorem C15_skipped_link_target_dropped :
    addLinks p0Skip reqsSkip = .ok (parserOf p0Skip reqsSkip) ∧ (parserOf p0Skip reqsSkip).links = [lSkip] ∧
    parse Ew (parserOf p0Skip reqsSkip) [⟨.config, key "b", .atom 9⟩] = .ok [(sk "b", .atom 9)] ∧
    skippedHolding lSkip [(sk "b", .atom 9)] = true ∧
    dump (parserOf p0Skip reqsSkip) [(sk "b", .atom 9)] = [] ∧
    reparse Ew (parserOf p0Skip reqsSkip) id [] = .ok [] :=
  ⟨rfl, rfl, rfl, rfl, rfl, rfl⟩

/-- the list-item witness lies in its class; the non-vacuity parser is outside both classes -/
example : listHeld lOpts cfgList = true ∧ listHeld lOpt cfgList = false ∧
    skippedHolding lOpt cfgList = false := ⟨rfl, rfl, rfl⟩

/-! ## the statements of the functions the model transcribes (regenerated from `_link_arguments.py`)

`Jap.Gen.LinksSrc` is regenerated from /repo on every run (harness/extractors/links_src.py: one string per statement,
docstrings / comments / imports / debug logging dropped).  Each theorem states the text the model was written against; an
edit of any of these statements makes the theorem fail, i.e. breaks the tie and triggers the boosted failing-input search. -/

/-- `ActionLink._initial_input_checks` as transcribed by the five tests at the head of `addLink` (whole keys compared; every source position; the link's own sources) -/
theorem tie_initial_input_checks : Jap.Gen.LinksSrc.initialInputChecks = [
  "def _initial_input_checks(self, source, target):",
  "  if self.apply_on not in {'parse', 'instantiate'}:",
  "    raise ValueError(\"apply_on must be 'parse' or 'instantiate'.\")",
  "  if self.compute_fn is None and (not (isinstance(source, str) or len(source) == 1)):",
  "    raise ValueError('Multiple source keys requires a compute function.')",
  "  if self.apply_on == 'parse':",
  "    link_actions = self.parser._links_group._group_actions",
  "    existing_targets = {a.target[0] for a in link_actions}",
  "    if target in existing_targets:",
  "      raise ValueError(f'Target \"{target}\" is already a target of another link.')",
  "    for src in [source] if isinstance(source, str) else source:",
  "      if src in existing_targets:",
  "        raise ValueError(f'Source \"{src}\" not allowed since it is the target of another link.')",
  "    if target in ([source] if isinstance(source, str) else source):",
  "      raise ValueError(f'Target \"{target}\" not allowed since it is one of the sources of the link.')",
  "    existing_sources = {s[0] for a in link_actions for s in a.source if a.apply_on == 'parse'}",
  "    if target in existing_sources:",
  "      raise ValueError(f'Target \"{target}\" not allowed since it is the source of another link.')"] := rfl

/-- `ActionLink.__call__` as transcribed by `actionCall`: the option of a replaced target raises unconditionally -/
theorem tie_link_call : Jap.Gen.LinksSrc.linkCall = [
  "def __call__(self, *args, **kwargs):",
  "  source = ', '.join((s[0] for s in self.source))",
  "  raise TypeError(f'Linked \"{self.target[0]}\" must be given via \"{source}\".')"] := rfl

/-- `ActionLink.call_compute_fn` as transcribed by the `some n` branch of `linkValue`: the function is applied to the arguments of THIS call on every call (nothing is remembered between calls, so `stepOp` has no link state), any exception becomes the ValueError -/
theorem tie_call_compute_fn : Jap.Gen.LinksSrc.callComputeFn = [
  "def call_compute_fn(self, args):",
  "  try:",
  "    assert callable(self.compute_fn)",
  "    return self.compute_fn(*args)",
  "  except Exception as ex:",
  "    link = self.option_strings[0]",
  "    args = ', '.join((str(a) for a in args))",
  "    raise ValueError(f\"Call to compute_fn of link '{link}' with args ({args}) failed: {ex}\") from ex"] := rfl

/-- `ActionLink.apply_parsing_links` as transcribed by `applyTree` (guards, recursion), `readSources` (skip / check / read per source), `coerceArg` (both namespace-to-dict conversions), `linkValue` (`value = args[0]`: the source value ITSELF, no copy) and `applyLink` / `applyParsingLinks` (one pass in the order of `get_link_actions`) -/
theorem tie_apply_parsing_links : Jap.Gen.LinksSrc.applyParsingLinks = [
  "def apply_parsing_links(parser: 'ArgumentParser', cfg: Namespace):",
  "  if apply_config_skip.get() or _ActionPrintConfig.is_print_config_requested(parser):",
  "    return",
  "  subcommand, subparser = _ActionSubCommands.get_subcommand(parser, cfg, fail_no_subcommand=False)",
  "  if subcommand and subcommand in cfg:",
  "    ActionLink.apply_parsing_links(subparser, cfg[subcommand])",
  "  if not hasattr(parser, '_links_group'):",
  "    return",
  "  for action in get_link_actions(parser, 'parse'):",
  "    args = []",
  "    skip_link = False",
  "    for (source_key, source_action) in action.source:",
  "      if ActionTypeHint.is_subclass_typehint(source_action[0]) and source_key not in cfg:",
  "        skip_link = True",
  "        break",
  "      for source_action_n in [a for a in source_action if a.dest in cfg]:",
  "        parser._check_value_key(source_action_n, cfg[source_action_n.dest], source_action_n.dest, None)",
  "      args.append(cfg[source_key])",
  "    if skip_link:",
  "      continue",
  "    if action.compute_fn is None:",
  "      value = args[0]",
  "      target_key, target_action = action.target",
  "      if isinstance(value, Namespace) and isinstance(target_action, ActionTypeHint):",
  "        same_key = target_key == target_action.dest",
  "        if same_key and target_action.is_mapping_typehint(target_action._typehint) or target_action.is_init_arg_mapping_typehint(target_key, cfg):",
  "          value = value.as_dict()",
  "    else:",
  "      params = get_signature_parameters(action.compute_fn)",
  "      for (n, param) in enumerate(params):",
  "        if n < len(args) and isinstance(args[n], Namespace) and ActionTypeHint.is_mapping_typehint(param.annotation):",
  "          args[n] = args[n].as_dict()",
  "      value = action.call_compute_fn(args)",
  "    ActionLink.set_target_value(action, value, cfg, parser.logger)"] := rfl

/-- `ActionLink.set_target_value` as transcribed by `setTargetValue` -/
theorem tie_set_target_value : Jap.Gen.LinksSrc.setTargetValue = [
  "def set_target_value(action: 'ActionLink', value: Any, cfg: Namespace, logger):",
  "  target_key, target_action = action.target",
  "  assert target_action",
  "  if ActionTypeHint.is_subclass_typehint(target_action, all_subtypes=False, also_lists=True):",
  "    if target_key == target_action.dest:",
  "      target_action._check_type(value)",
  "    else:",
  "      parent = cfg.get(target_action.dest)",
  "      child_key = target_key[len(target_action.dest) + 1:]",
  "      if isinstance(parent, list) and any((isinstance(i, Namespace) and child_key in i for i in parent)):",
  "        for item in parent:",
  "          if child_key in item:",
  "            item[child_key] = value",
  "        return",
  "      if target_key not in cfg:",
  "        return",
  "  cfg[target_key] = value"] := rfl

/-- `ActionLink.strip_link_target_keys` as transcribed by `delTargetKey`, `plainKeys`, `initKeys` / `delInitTarget` with the item branch `stripItems` / `stripItem` (F70), `stripLinkTargetKeys` and the recursion of `stripTree` -/
theorem tie_strip_link_target_keys : Jap.Gen.LinksSrc.stripLinkTargetKeys = [
  "def strip_link_target_keys(parser, cfg):",
  "  def del_target_key(target_key):",
  "    cfg.pop(target_key, None)",
  "    if '.' not in target_key:",
  "      return",
  "    parent_key, _ = split_key_leaf(target_key)",
  "    if parent_key in cfg and (not cfg[parent_key]):",
  "      del cfg[parent_key]",
  "  for action in [a for a in parser._actions if isinstance(a, ActionLink)]:",
  "    del_target_key(action.target[0])",
  "  for action in [a for a in parser._actions if isinstance(a, ActionTypeHint) and hasattr(a, 'sub_add_kwargs')]:",
  "    for key in action.sub_add_kwargs.get('linked_targets', []):",
  "      del_target_key(f'{action.dest}.init_args.{key}')",
  "      parent = cfg.get(action.dest)",
  "      if isinstance(parent, list):",
  "        for item in parent:",
  "          if isinstance(item, Namespace):",
  "            item.pop(f'init_args.{key}', None)",
  "            if 'init_args' in item and (not item['init_args']):",
  "              del item['init_args']",
  "  with _ActionSubCommands.not_single_subcommand():",
  "    subcommands, subparsers = _ActionSubCommands.get_subcommands(parser, cfg)",
  "  if subcommands is not None:",
  "    for (num, subcommand) in enumerate(subcommands):",
  "      if subcommand in cfg:",
  "        ActionLink.strip_link_target_keys(subparsers[num], cfg[subcommand])"] := rfl

/-- `get_link_actions` as transcribed by `Parser.links` (registration order, filtered by `apply_on`) -/
theorem tie_get_link_actions : Jap.Gen.LinksSrc.getLinkActions = [
  "def get_link_actions(parser: 'ArgumentParser', apply_on: str, skip=set()):",
  "  if not hasattr(parser, '_links_group'):",
  "    return []",
  "  return [a for a in parser._links_group._group_actions if a.apply_on == apply_on and a not in skip]"] := rfl

end Jap.Props.C15

/-
C19 — Path types accept exactly what the mode says; relative paths follow the config.

Model: `Jap.Core.PathMode` (transcription of `Path._check_mode`, `Path.__init__`
local branch, `change_to_path_dir`), flag table regenerated into
`Jap.Gen.PathFlags`.  Tied to the code by harness/props/c19.py.
-/
import Jap.Core.PathMode
import Jap.Gen.PathFlags
import Jap.Lemmas.PathMode
import Jap.Core.PathModeFS
import Jap.Lemmas.PathModeFS

namespace Jap.Props.C19
open Jap.PathMode

/-! ## the regenerated tables are the ones the model transcribes -/

/-- the flag alphabet of `_check_mode` is the docstring's `[fdrwxcusFDRWX]` -/
theorem C19_alphabet : Jap.Gen.pathFlagAlphabet = ['f', 'd', 'r', 'w', 'x', 'c', 'u', 's', 'F', 'D', 'R', 'W', 'X'] := by decide

/-- only `c` may be repeated (twice); `d` excludes `f`, `u`, `s` -/
theorem C19_mode_rules : Jap.Gen.pathFlagMaxCount = [('c', 2)] ∧ Jap.Gen.pathFlagExcl = [('f', 'd'), ('d', 'u'), ('d', 's')] := by decide

/-- the `if`s of the local branch of `Path.__init__`, in source order, with the
os-level probes they use: exactly the rows of `checks` (rows 1-4 under `c`, 5-7
under `f`/`d`, then `r w x D F R W X`) -/
theorem C19_init_tests : Jap.Gen.pathInitTests =
    [("c?", ""), ("?", "count|isdir"), ("while", "access:F_OK"), ("-", "isdir"), ("-", "access:W_OK"),
     ("d", "access:F_OK|isdir"), ("f", "access:F_OK|is_fifo|isfile"),
     ("df?", ""), ("-", "access:F_OK"), ("d", "isdir"), ("f", "S_ISFIFO|isfile|stat"),
     ("r", "access:R_OK"), ("w", "access:W_OK"), ("x", "access:X_OK"), ("D", "isdir"), ("F", "is_fifo|isfile"),
     ("R", "access:R_OK"), ("W", "access:W_OK"), ("X", "access:X_OK")] := by decide

/-- the statements of `change_to_path_dir`, in source order, with the protected region marked: exactly what
`objDir`/`cfgDir` (the path's `.absolute` AS NAMED — no `realpath`, so a symlinked config file belongs
to the directory it is named in —, `dirname` unless the mode has `d`), `enterF` (`set`; inside the `try`: remember
`os.getcwd()`, `os.chdir` of the UN-normalised string, unconditionally; `abspath` only for the yielded value) and the
`finally` (`reset`, `chdir` back to the remembered directory — when `os.chdir` itself raised: to where the process still is) transcribe -/
theorem C19_path_dir_steps : Jap.Gen.pathDirSteps =
    ["path_dir = current_path_dir.get()", "chdir = False", "if path is not None",
     "if path._url_data and (path.is_url or path.is_fsspec)", "scheme = path._url_data.scheme", "path_dir = path._url_data.url_path",
     "scheme = ''", "path_dir = path.absolute", "chdir = True",
     "if 'd' not in path.mode", "path_dir = os.path.dirname(path_dir)", "path_dir = scheme + path_dir",
     "token = current_path_dir.set(path_dir)", "prev_cwd = None", "try:", "if chdir and path_dir", "prev_cwd = os.getcwd()",
     "os.chdir(path_dir)", "path_dir = os.path.abspath(path_dir)", "yield path_dir",
     "finally:", "current_path_dir.reset(token)", "if prev_cwd is not None", "os.chdir(prev_cwd)"] := by decide

/-- a mode string accepted by `_check_mode` has the structure `__init__` relies on -/
theorem C19_checkMode_valid (s : List Char) (h : checkModeL table s = true) : ValidMode (Mode.ofList s) := by
  simp only [checkModeL, Bool.and_eq_true] at h
  obtain ⟨⟨_, hcount⟩, hexcl⟩ := h
  have hc : s.count 'c' ≤ 2 := by
    by_cases hm : 'c' ∈ s
    · have := List.all_eq_true.mp hcount 'c' hm
      simpa [maxOf, table, Jap.Gen.pathFlagMaxCount, List.lookup] using this
    · simp [List.count_eq_zero_of_not_mem hm]
  simp [table, Jap.Gen.pathFlagExcl] at hexcl
  refine ⟨hc, ?_, ?_, ?_⟩ <;> simp [Mode.ofList] <;> grind

/-- the same for the `str` the caller passes -/
theorem C19_checkMode_string (s : String) (h : checkMode table s = true) : ValidMode (Mode.ofString s) :=
  C19_checkMode_valid s.toList h

/-- and conversely every string over the alphabet with at most two `c`, no other
repetition and none of the three excluded pairs is accepted -/
theorem C19_checkMode_complete (s : List Char)
    (ha : ∀ c ∈ s, c ∈ Jap.Gen.pathFlagAlphabet) (hc : s.count 'c' ≤ 2) (h1 : ∀ c ∈ s, c ≠ 'c' → s.count c ≤ 1)
    (hfd : ¬ ('f' ∈ s ∧ 'd' ∈ s)) (hud : ¬ ('u' ∈ s ∧ 'd' ∈ s)) (hsd : ¬ ('s' ∈ s ∧ 'd' ∈ s)) :
    checkModeL table s = true := by
  simp only [checkModeL, Bool.and_eq_true]
  refine ⟨⟨?_, ?_⟩, ?_⟩
  · exact List.all_eq_true.mpr (fun c hc => by simpa [table] using ha c hc)
  · refine List.all_eq_true.mpr (fun c hcm => ?_)
    by_cases hcc : c = 'c'
    · subst hcc; simpa [maxOf, table, Jap.Gen.pathFlagMaxCount, List.lookup] using hc
    · have := h1 c hcm hcc
      have hm : maxOf table c = 1 := by
        have : (c == 'c') = false := by simpa using hcc
        simp [maxOf, table, Jap.Gen.pathFlagMaxCount, List.lookup, this]
      simpa [hm] using this
  · simp [table, Jap.Gen.pathFlagExcl]
    grind

/-! ## acceptance -/

/-- **C19_accept_iff** (full strength, since commits 5706b13 and f765cf2): for every
well-formed snapshot of the file system and every mode `_check_mode` lets through,
the constructor succeeds if and only if the file system satisfies every flag of the
mode as the class docstring describes it (`SatDoc`) -/
theorem C19_accept_iff (m : Mode) (a : Facts) (hw : a.wf) (hv : ValidMode m) :
    checkPath m a = .ok ↔ ∀ fl, m.has fl = true → SatDoc m a fl :=
  accept_doc m a hw hv

/-- the same with the executable form of the right-hand side (what the driver prints) -/
theorem C19_accept_iff_bool (m : Mode) (a : Facts) (hw : a.wf) (hv : ValidMode m) :
    checkPath m a = .ok ↔ satAllDoc m a = true :=
  (accept_doc m a hw hv).trans (satAllDoc_iff m a).symm

/-- mode `fcc`, a path whose parent is a regular file in a writeable directory -/
def witnessThroughFile : Mode × Facts :=
  (⟨true, false, false, false, false, false, false, false, false, false, false, false, 2⟩,
   { ex := false, statOk := false, isDir := false, isFile := false, isFifo := false, r := false, w := false, x := false,
     parDir := false, parW := true, nearDir := false, nearW := true })

/-- mode `fc`, an existing readable and writeable FIFO in a writeable directory -/
def witnessFifo : Mode × Facts :=
  (⟨true, false, false, false, false, false, false, false, false, false, false, false, 1⟩,
   { ex := true, statOk := true, isDir := false, isFile := false, isFifo := true, r := true, w := true, x := false,
     parDir := true, parW := true, nearDir := true, nearW := true })

/-- regression record of repaired defect F19c: the code before f765cf2 accepted although `cc`
is not satisfied; the code now answers "parent directory does not exist" -/
theorem C19_regression_through_file :
    witnessThroughFile.2.wf ∧ ValidMode witnessThroughFile.1 ∧
    satAllDoc witnessThroughFile.1 witnessThroughFile.2 = false ∧
    checkPathPreFix witnessThroughFile.1 witnessThroughFile.2 true true = .ok ∧
    checkPath witnessThroughFile.1 witnessThroughFile.2 = .pathError 1 := by decide

/-- regression record of repaired defect F19f: the code before 5706b13 rejected ("path already
exists") although every flag is satisfied; the code now accepts -/
theorem C19_regression_fifo :
    witnessFifo.2.wf ∧ ValidMode witnessFifo.1 ∧
    satAllDoc witnessFifo.1 witnessFifo.2 = true ∧
    checkPathPreFix witnessFifo.1 witnessFifo.2 true true = .pathError 4 ∧
    checkPath witnessFifo.1 witnessFifo.2 = .ok := by decide

/-- non-vacuity: mode `fcc`, missing file two levels below a writeable directory, is accepted … -/
example : ∃ m a, a.wf ∧ ValidMode m ∧ m.c = 2 ∧ a.parDir = false ∧ checkPath m a = .ok :=
  ⟨⟨true, false, false, false, false, false, false, false, false, false, false, false, 2⟩,
   { ex := false, statOk := false, isDir := false, isFile := false, isFifo := false, r := false, w := false, x := false,
     parDir := false, parW := false, nearDir := true, nearW := true }, by decide⟩

/-- … and mode `frX` on an executable file is rejected by the last test -/
example : ∃ m a, a.wf ∧ ValidMode m ∧ checkPath m a = .pathError 15 :=
  ⟨⟨true, false, true, false, false, false, false, false, false, true, false, false, 0⟩,
   { ex := true, statOk := true, isDir := false, isFile := true, isFifo := false, r := true, w := true, x := true,
     parDir := true, parW := true, nearDir := true, nearW := true }, by decide⟩

/-- every rejection is a `PathError` raised by one of the fifteen `raise` statements:
no `OSError` escapes (defect 16 is repaired: `is_fifo` guards the `os.stat` of flag `F`,
and the `os.stat` of flag `f` is only reached for a path that exists) -/
theorem C19_error_is_PathError (m : Mode) (a : Facts) (hw : a.wf) (h : checkPath m a ≠ .ok) :
    ∃ k, 1 ≤ k ∧ k ≤ 15 ∧ checkPath m a = .pathError k :=
  checkPath_pathError m a hw.1 h

/-- documented errors, the first failing test decides: a missing path under `f`/`d` is "does not exist" … -/
theorem C19_missing_is_error5 (m : Mode) (a : Facts) (hc : m.c = 0) (hfd : m.f = true ∨ m.d = true) (hex : a.ex = false) :
    checkPath m a = .pathError 5 := by
  rcases hfd with h | h <;> simp [checkPath, checks, firstRaise, hc, h, hex]

/-- … a missing parent under a single `c` is "parent directory does not exist" … -/
theorem C19_no_parent_is_error1 (m : Mode) (a : Facts) (hc : m.c = 1) (hp : a.parDir = false) :
    checkPath m a = .pathError 1 := by
  simp [checkPath, checks, firstRaise, hc, hp]

/-- … and the kind test precedes the permission tests -/
theorem C19_kind_before_access (m : Mode) (a : Facts) (hc : m.c = 0) (hd : m.d = true) (hex : a.ex = true) (hnd : a.isDir = false) :
    checkPath m a = .pathError 6 := by
  simp [checkPath, checks, firstRaise, hc, hd, hex, hnd]

/-- `"-"` (standard input/output) is accepted whatever the mode and the file system -/
theorem C19_stdio (m : Mode) (e cwd : P) (a : Facts) : (construct m ['-'] e cwd a).1 = .ok := by
  simp [construct]

/-! ## absolute / relative -/

/-- `relative` is the original spelling; `absolute` is the expanded spelling when
that is absolute, else `os.path.join(cwd, expanded)`; it is absolute whenever the
working directory is -/
theorem C19_abs_rel (path expanded cwd : P) :
    let e := stripFileScheme expanded
    (mkPath path expanded cwd).relative = path ∧
    (isAbs e = true → (mkPath path expanded cwd).absolute = e) ∧
    (isAbs e = false → (mkPath path expanded cwd).absolute = join cwd e) ∧
    (isAbs cwd = true → isAbs (mkPath path expanded cwd).absolute = true) := by
  intro e
  refine ⟨rfl, ?_, ?_, ?_⟩
  · intro h; simp [mkPath, e, h] at *
  · intro h; simp [mkPath, e, h] at *
  · intro hc
    by_cases h : isAbs e = true
    · simp [mkPath, e, h] at *
    · have h' : isAbs (stripFileScheme expanded) = false := by simpa [e] using h
      simp only [mkPath, h', Bool.false_eq_true, ↓reduceIte, join]
      split
      · exact isAbs_append hc
      · exact isAbs_append hc

/-- for a spelling that is already relative and has no `file://` prefix: `absolute = cwd + "/" + spelling` -/
example : (mkPath "a/b.txt".toList "a/b.txt".toList "/w/d".toList).absolute = "/w/d/a/b.txt".toList := by decide
example : (mkPath "~/b".toList "/home/u/b".toList "/w/d".toList) = ⟨"~/b".toList, "/home/u/b".toList, "/w/d".toList⟩ := by decide
example : (mkPath "file:///x/y".toList "file:///x/y".toList "/w".toList).absolute = "/x/y".toList := by decide

/-! ## nested config files -/

/-- **C19_cwd_restored**: after loading any program — failing ones included — the
working directory and the context variable are what they were before -/
theorem C19_cwd_restored (l : Load) (s : St) : (runLoad l s).st = s ∧ (runLoad l s).st.cwd = s.cwd := by
  have := (runItem_spec (.sub l.ref l.items) s).1
  exact ⟨this, by rw [runLoad, this]⟩

/-- the same for a sequence of command-line arguments / config entries -/
theorem C19_cwd_restored_items (items : List Item) (s : St) : (runItems items s).st = s :=
  (runItems_spec items s).1

/- Full statement of C19_rel_to_cfg (FALSE of the current code, witness below): loading succeeds
   whenever no item fails, and then resolves exactly the static assignment:
   theorem C19_rel_to_cfg (items) (s) : (runItems items s).ok = noFailItems items ∧
       ((runItems items s).ok = true → (runItems items s).trace = specItems s.cwd items)  -/

/-- a list file named by a relative spelling with a directory part is rejected
although nothing in the program fails (the spelling is resolved a second time
from inside the file's own directory) -/
theorem C19_rel_to_cfg_fails_list_file :
    let prog := [Item.listFile "d/list.txt".toList ["t.txt".toList]]
    noFailItems prog = true ∧ (runItems prog ⟨"/fix/c".toList, none⟩).ok = false := by decide

theorem C19_rel_to_cfg_full_false :
    ¬ (∀ (items : List Item) (s : St), (runItems items s).ok = noFailItems items) := by
  intro h
  have := h [Item.listFile "d/list.txt".toList ["t.txt".toList]] ⟨"/fix/c".toList, none⟩
  revert this
  decide

/-- **C19_rel_to_cfg (partial)**: the path values resolved by the stateful loader
(chdir on entry, restore on exit) are a prefix of — and, when the load succeeds,
exactly — the static assignment "each path value, and each nested config file,
is joined to the directory of its innermost enclosing config file".  For a
config handed over as a `Path` object (`subObj ref rem …`) that directory is
`dirname` of the object's `absolute`; neither the PROCESS working directory
`s.cwd` nor the directory `rem` the object remembers enters (see
`C19_obj_dir_not_remembered`).  The load
succeeds iff no item fails, provided every list file is named by a spelling that
survives the second resolution (`stableItems`: absolute, or no directory part) -/
theorem C19_rel_to_cfg_partial (items : List Item) (s : St) :
    (runItems items s).trace <+: specItems s.cwd items ∧
    ((runItems items s).ok = true → (runItems items s).trace = specItems s.cwd items) ∧
    (stableItems s.cwd items = true → (runItems items s).ok = noFailItems items) ∧
    (runItems items s).ok = (noFailItems items && stableItems s.cwd items) := by
  have h := runItems_spec items s
  refine ⟨h.2.1, h.2.2.1, ?_, h.2.2.2⟩
  intro hs
  rw [h.2.2.2, hs, Bool.and_true]

/-- the same for one config file given by its path (`parse_path`, `--cfg`) -/
theorem C19_rel_to_cfg_load (l : Load) (s : St) :
    (runLoad l s).trace <+: resolve l.ref s.cwd :: specItems (normAbs (cfgDir s.cwd l.ref)) l.items ∧
    ((runLoad l s).ok = true → (runLoad l s).trace = resolve l.ref s.cwd :: specItems (normAbs (cfgDir s.cwd l.ref)) l.items) ∧
    (runLoad l s).ok = (noFailItems l.items && stableItems (normAbs (cfgDir s.cwd l.ref)) l.items) := by
  have h := runItem_spec (.sub l.ref l.items) s
  simp only [specItem, noFailItem, stableItem] at h
  exact ⟨h.2.1, h.2.2.1, h.2.2.2⟩

/-- **process cwd vs remembered cwd**: a config given as a `Path` object created from `ref` while
`rem` was the working directory is entered whatever the process working directory is now
(`s.cwd`, `s'.cwd`) and whether or not the file sits directly in the remembered directory:
its items are run from `normAbs (objDir …)`, and the run differs between two process states
only in the state that is restored afterwards -/
theorem C19_obj_dir_not_remembered (ref rem : P) (isDir : Bool) (items : List Item) (s s' : St) :
    (runItem (.subObj ref rem isDir items) s).trace =
      resolve ref rem :: (runItems items ⟨normAbs (objDir ref rem isDir), some (objDir ref rem isDir)⟩).trace ∧
    (runItem (.subObj ref rem isDir items) s).trace = (runItem (.subObj ref rem isDir items) s').trace ∧
    (runItem (.subObj ref rem isDir items) s).ok = (runItem (.subObj ref rem isDir items) s').ok ∧
    (runItem (.subObj ref rem isDir items) s).st = s := by
  refine ⟨by simp [runItem, enter], by simp [runItem, enter], by simp [runItem, enter], (runItem_spec _ s).1⟩

/-- the case a "we are already there" shortcut keyed on the remembered directory gets wrong:
`Path("main.yaml", cwd="/A")` parsed while the process is in `/run/sub`; the file sits directly
in the remembered directory, the values inside still belong to `/A` (and `../B`, `../C` below it) -/
example : (runItems [.subObj "main.yaml".toList "/A".toList false
      [.path "a.txt".toList, .sub "../B/model.yaml".toList [.path "w.bin".toList, .sub "../C/enc.yaml".toList [.path "vocab.txt".toList]]]]
    ⟨"/run/sub".toList, none⟩).trace.map (fun r => (String.ofList r.abs, String.ofList r.base)) =
    [("/A/main.yaml", "/A"), ("/A/a.txt", "/A"), ("/A/../B/model.yaml", "/A"), ("/B/w.bin", "/B"),
     ("/B/../C/enc.yaml", "/B"), ("/C/vocab.txt", "/C")] := by decide

/-- `relative_path_context()` of a directory object (`mode` with `d`) enters the directory itself -/
example : (runItems [.subObj "A".toList "/".toList true [.path "a.txt".toList]] ⟨"/run".toList, none⟩).trace.map (fun r => String.ofList r.abs) =
    ["/A", "/A/a.txt"] := by decide

/-- **C19_resolution_independent_of_history**: whatever was loaded before — other config files in
other directories, earlier assignments of the very same argument with the very same spelling —
a path value is resolved from its own spelling and the directory of its own source only; a
later assignment never reuses an earlier resolution -/
theorem C19_resolution_independent_of_history (pre : List Item) (rel : P) (s : St) (h : (runItems pre s).ok = true) :
    (runItems (pre ++ [.path rel]) s).trace = (runItems pre s).trace ++ [resolve rel s.cwd] ∧
    (runItems (pre ++ [.path rel]) s).ok = true := by
  have := runItems_append pre [.path rel] s h
  simpa [runItems, runItem] using And.intro this.1 this.2.1

/-- the same inside a later config file: its values are resolved from that file's directory -/
theorem C19_resolution_independent_of_history_sub (pre : List Item) (ref : P) (items : List Item) (s : St) (h : (runItems pre s).ok = true) :
    (runItems (pre ++ [.sub ref items]) s).trace =
      (runItems pre s).trace ++ resolve ref s.cwd :: (runItems items ⟨normAbs (cfgDir s.cwd ref), some (cfgDir s.cwd ref)⟩).trace := by
  have := runItems_append pre [.sub ref items] s h
  rw [this.1]
  simp [runItems, runItem, enter]
  cases (runItems items ⟨normAbs (cfgDir s.cwd ref), some (cfgDir s.cwd ref)⟩).ok <;> simp

/-- `--cfg /A/a.yaml --cfg /B/b.yaml --file data.txt`, all three spelling `data.txt`: three resolutions, the last one
(the value the namespace finally holds) belongs to the process working directory -/
example : (runItems [.sub "/A/a.yaml".toList [.path "data.txt".toList], .sub "/B/b.yaml".toList [.path "data.txt".toList], .path "data.txt".toList]
    ⟨"/run".toList, none⟩).trace.map (fun r => String.ofList r.abs) =
    ["/A/a.yaml", "/A/data.txt", "/B/b.yaml", "/B/data.txt", "/run/data.txt"] := by decide

/-- the hypothesis is satisfiable by non-trivial programs: absolute and bare spellings are stable -/
example : stableItems "/fix/c".toList
    [.listFile "/fix/c/d/list.txt".toList ["t".toList], .sub "../b/m.yaml".toList [.listFile "l.txt".toList ["u".toList]]] = true := by decide

/-- what the static assignment says about one value: the base is used only when the spelling is relative -/
theorem C19_spec_entry (base rel : P) :
    specItem base (.path rel) = [⟨rel, if isAbs (stripFileScheme rel) then stripFileScheme rel else join base (stripFileScheme rel), base⟩] := by
  simp [specItem, resolve, mkPath]

/-- in particular a value that follows a nested config is resolved against the outer file's directory again -/
theorem C19_after_sub (base ref rel : P) (items : List Item) (cpd : Option P)
    (h : noFailItems items = true) (hs : stableItems (normAbs (cfgDir base ref)) items = true) :
    (runItems [.sub ref items, .path rel] ⟨base, cpd⟩).trace =
      resolve ref base :: specItems (normAbs (cfgDir base ref)) items ++ [resolve rel base] := by
  have h1 := runItems_spec [.sub ref items, .path rel] ⟨base, cpd⟩
  have hok : (runItems [.sub ref items, .path rel] ⟨base, cpd⟩).ok = true := by
    rw [h1.2.2.2]; simp [noFailItems, noFailItem, stableItems, stableItem, h, hs]
  rw [h1.2.2.1 hok]
  simp [specItems, specItem]

/-- non-vacuity: three levels in different directories -/
def demo : Load :=
  ⟨"../B/top.yaml".toList,
   [.path "x.txt".toList,
    .sub "../C/mid.yaml".toList [.path "y.txt".toList, .sub "/D/in.yaml".toList [.path "z".toList], .path "../y2".toList],
    .path "/abs/w".toList]⟩

example : (runLoad demo ⟨"/fix/A".toList, none⟩).trace.map (fun r => String.ofList r.abs) =
    ["/fix/A/../B/top.yaml", "/fix/B/x.txt", "/fix/B/../C/mid.yaml", "/fix/C/y.txt", "/D/in.yaml", "/D/z", "/fix/C/../y2", "/abs/w"] := by decide
example : (runLoad demo ⟨"/fix/A".toList, none⟩).trace.map (fun r => String.ofList r.base) =
    ["/fix/A", "/fix/B", "/fix/B", "/fix/C", "/fix/C", "/D", "/fix/C", "/fix/B"] := by decide
/-- a failure two levels down: the exception propagates, the state is restored -/
example : (runLoad ⟨"c.yaml".toList, [.path "x".toList, .sub "s/d.yaml".toList [.path "y".toList, .fail], .path "z".toList]⟩ ⟨"/fix/A".toList, some "/q".toList⟩)
    = ⟨false, [resolve "c.yaml".toList "/fix/A".toList, resolve "x".toList "/fix/A".toList, resolve "s/d.yaml".toList "/fix/A".toList,
               resolve "y".toList "/fix/A/s".toList], ⟨"/fix/A".toList, some "/q".toList⟩⟩ := by decide

/-! ## the bracket over a file system with symbolic links

`FS D`: any automaton on physical directories (`step d name`: sub-directory, `..`, or a symbolic
link to a directory, followed); `runItemsF`: the loader with `os.chdir(dirname(file))` resolved by
the kernel (the bracket since commit 6e92c59); `specItemsF`: every value belongs to the directory in
which the KERNEL finds the file that spells it (`trueDir`; for a file that is itself a link: the
link's directory). -/

section FSModel
variable {D : Type} [DecidableEq D]

/-- **C19_fs_state_restored**: for EVERY file system and every load program — successful or failing
at any point, `os.chdir` raising included — the process working directory AND the context variable
`current_path_dir` afterwards are what they were before -/
theorem C19_fs_state_restored (fs : FS D) (items : List Item) (s : StF D) :
    (runItemsF fs items s).st = s :=
  (runItemsF_spec fs items s).1

theorem C19_fs_cwd_restored (fs : FS D) (items : List Item) (s : StF D) :
    (runItemsF fs items s).st.cwd = s.cwd := by
  rw [C19_fs_state_restored]

/-- **C19_fs_rel_to_cfg** (full strength, since commit 6e92c59; no hypothesis on the file system, the
spellings or the program): every relative path, at any nesting depth, is resolved against the physical
directory of the file that spells it — the trace is a prefix of, and on success equal to, the static
assignment `specItemsF` — and the load succeeds exactly when no item fails and every bracketed file
exists where the kernel looks for it, list files also at their second resolution (`existItemsF`) -/
theorem C19_fs_rel_to_cfg (fs : FS D) (items : List Item) (s : StF D) :
    (runItemsF fs items s).trace <+: specItemsF fs s.cwd items ∧
    ((runItemsF fs items s).ok = true → (runItemsF fs items s).trace = specItemsF fs s.cwd items) ∧
    (runItemsF fs items s).ok = (noFailItems items && existItemsF fs s.cwd items) :=
  (runItemsF_spec fs items s).2

/-- the only hypothesis left for "succeeds iff nothing fails": the files exist -/
theorem C19_fs_rel_to_cfg_exist (fs : FS D) (items : List Item) (s : StF D) (he : existItemsF fs s.cwd items = true) :
    (runItemsF fs items s).ok = noFailItems items := by
  rw [(C19_fs_rel_to_cfg fs items s).2.2, he, Bool.and_true]

/-- one config file given by its spelling: its own record, then its values from the directory the kernel finds it in -/
theorem C19_fs_rel_to_cfg_load (fs : FS D) (ref : P) (items : List Item) (s : StF D) (d1 : D)
    (h1 : trueDir fs s.cwd ref = some d1) (hok : (runItemF fs (.sub ref items) s).ok = true) :
    (runItemF fs (.sub ref items) s).trace = resolve ref (fs.phys s.cwd) :: specItemsF fs d1 items := by
  rw [(runItemF_spec fs (.sub ref items) s).2.2.1 hok]
  simp [specItemF, h1]

/-- where `os.path.abspath` does not change the kernel's answer — every directory string without a `..`
component, in ANY file system … -/
theorem C19_fs_lexOK_noDotDot (fs : FS D) (dir : P) (h : noDotDot dir = true) : lexOK fs dir = true :=
  lexOK_of_noDotDot fs dir (by simpa [noDotDot] using h)

/-- … and every existing directory of a file system without directory links — -/
theorem C19_fs_lexOK_tree (fs : FS D) (ht : fs.TreeLike) (dir : P) (d : D) (h : resolveAbs fs dir = some d) :
    lexOK fs dir = true ∧ resolveAbs fs (normAbs dir) = some d :=
  ⟨lexOK_of_tree fs ht dir d h, resolveAbs_normAbs_tree fs ht dir d h⟩

/-- … the bracket before the repair entered the same directory as the bracket now -/
theorem C19_fs_old_bracket_agrees (fs : FS D) (dir : P) (hl : lexOK fs dir = true) : oldEnterF fs dir = enterF fs dir :=
  oldEnterF_eq_of_lexOK fs dir hl

end FSModel

/-- `/w` (working directory), `/o`, `/o/deep`, `/o/deep2`, and the link `/w/link -> /o/deep` -/
def linkFS : FS Nat :=
  TableFS.toFS ⟨["/".toList, "/w".toList, "/o".toList, "/o/deep".toList, "/o/deep2".toList],
    [(0, "w".toList, 1), (0, "o".toList, 2), (2, "deep".toList, 3), (2, "deep2".toList, 4), (1, "link".toList, 3),
     (0, "..".toList, 0), (1, "..".toList, 0), (2, "..".toList, 0), (3, "..".toList, 2), (4, "..".toList, 2)]⟩

/-- regression record of repaired finding F30 (C19-abspath-through-link), silent form: `--cfg link/../x.yaml` from
`/w` reads `/o/x.yaml` (the kernel follows the link before `..`); the bracket before 6e92c59 resolved `data.txt`
inside it against `/w` (`os.path.abspath` cancelled `link/..` before `os.chdir`), the bracket now against `/o` -/
theorem C19_regression_link_dotdot :
    let prog := [Item.sub "link/../x.yaml".toList [.path "data.txt".toList]]
    existItemsF linkFS 1 prog = true ∧ noFailItems prog = true ∧
    (runItemsG oldBracket linkFS prog ⟨1, none⟩).ok = true ∧
    (runItemsG oldBracket linkFS prog ⟨1, none⟩).trace.map (fun r => String.ofList r.abs) = ["/w/link/../x.yaml", "/w/data.txt"] ∧
    (runItemsF linkFS prog ⟨1, none⟩).ok = true ∧
    (runItemsF linkFS prog ⟨1, none⟩).trace.map (fun r => String.ofList r.abs) = ["/w/link/../x.yaml", "/o/data.txt"] ∧
    (specItemsF linkFS 1 prog).map (fun r => String.ofList r.abs) = ["/w/link/../x.yaml", "/o/data.txt"] := by decide

/-- the same, loud form: `--cfg link/../deep2/y.yaml` names the existing `/o/deep2/y.yaml`; the old bracket called
`os.chdir("/w/deep2")`, which raised inside `__enter__` — after `current_path_dir.set`, before the `try` — so the
load failed although nothing in the program does and the context variable stayed set; now the load succeeds -/
theorem C19_regression_state_not_restored :
    let prog := [Item.sub "link/../deep2/y.yaml".toList [.path "data.txt".toList]]
    existItemsF linkFS 1 prog = true ∧ noFailItems prog = true ∧
    (runItemsG oldBracket linkFS prog ⟨1, none⟩).ok = false ∧
    (runItemsG oldBracket linkFS prog ⟨1, none⟩).st = ⟨1, some "/w/link/../deep2".toList⟩ ∧
    (runItemsF linkFS prog ⟨1, none⟩).ok = true ∧
    (runItemsF linkFS prog ⟨1, none⟩).st = ⟨1, none⟩ ∧
    (runItemsF linkFS prog ⟨1, none⟩).trace.map (fun r => String.ofList r.abs) = ["/w/link/../deep2/y.yaml", "/o/deep2/data.txt"] := by decide

/-- non-vacuity in a file system WITH a directory link: three levels, through the link, `..` after it included -/
example : existItemsF linkFS 1
    [.sub "link/m.yaml".toList [.path "w.bin".toList, .sub "../deep2/e.yaml".toList [.path "v.txt".toList]], .sub "link/../x.yaml".toList [.path "a.txt".toList]] = true ∧
    (runItemsF linkFS [.sub "link/m.yaml".toList [.path "w.bin".toList, .sub "../deep2/e.yaml".toList [.path "v.txt".toList]], .sub "link/../x.yaml".toList [.path "a.txt".toList]]
      ⟨1, none⟩).trace.map (fun r => String.ofList r.abs) =
    ["/w/link/m.yaml", "/o/deep/w.bin", "/o/deep/../deep2/e.yaml", "/o/deep2/v.txt", "/w/link/../x.yaml", "/o/a.txt"] := by decide

/-- a config whose directory does not exist fails and leaves the state as it was, also below another config -/
example : (runItemsF linkFS [.sub "/o/x.yaml".toList [.path "p".toList, .sub "nodir/y.yaml".toList []]] ⟨1, some "/q".toList⟩)
    = ⟨false, [resolve "/o/x.yaml".toList "/w".toList, resolve "p".toList "/o".toList], ⟨1, some "/q".toList⟩⟩ := by decide

/-- **C19_fs_absolute_names_same**: the `absolute` a `Path` stores for a relative spelling given in directory `d`
is, for the kernel, what the spelling itself named from `d` — and, being absolute, it names that from every
later working directory: re-resolving a constructed `Path` goes nowhere else -/
theorem C19_fs_absolute_names_same {D : Type} (fs : FS D) (hl : fs.Lawful) (d : D) (rel : P)
    (he : isAbs (stripFileScheme rel) = false) :
    resolveAbs fs (mkPath rel rel (fs.phys d)).absolute = walk fs d (splitSlash (stripFileScheme rel)) := by
  simp only [mkPath, he, Bool.false_eq_true, ↓reduceIte]
  exact resolveAbs_join fs hl d _ he

/-- a lawful file system: `/` and `/a` -/
def twoDirFS : FS Bool :=
  { root := false,
    step := fun d s => if s = "a".toList ∧ d = false then some true else if s = "..".toList then some false else none,
    phys := fun d => if d then "/a".toList else "/".toList }

example : twoDirFS.Lawful ∧ twoDirFS.TreeLike := by
  refine ⟨?_, by decide, ?_⟩
  · intro d; cases d <;> decide
  · intro d s d' h hs
    cases d <;> simp [twoDirFS] at h ⊢ <;> grind

example : resolveAbs twoDirFS (mkPath "../a/x".toList "../a/x".toList (twoDirFS.phys true)).absolute = none ∧
    resolveAbs twoDirFS (dirname (mkPath "../a/x".toList "../a/x".toList (twoDirFS.phys true)).absolute) = some true := by decide

/-! ## a `Path` given a `Path` -/

/-- **C19_reresolve_id**: constructing a path from an already constructed `Path` object is the identity on
`relative`, `absolute`, `cwd` — whatever `cwd=` argument is passed and wherever the process is now — and the
directory its bracket enters is the one computed at creation -/
theorem C19_reresolve_id (o : PathObj) (cwdArg : Option P) (osCwd : P) :
    mkPathArg (.obj o) cwdArg osCwd = o := rfl

/-- a spelling, in contrast, is resolved against `cwd=` when given (and not empty), else against the process -/
theorem C19_spelling_cwd (path expanded osCwd : P) (c : P) (hc : c ≠ []) :
    mkPathArg (.spelling path expanded) (some c) osCwd = mkPath path expanded c ∧
    mkPathArg (.spelling path expanded) none osCwd = mkPath path expanded osCwd ∧
    mkPathArg (.spelling path expanded) (some []) osCwd = mkPath path expanded osCwd := by
  simp [mkPathArg, hc]

example : mkPathArg (.obj (mkPath "a.txt".toList "a.txt".toList "/A".toList)) (some "/B".toList) "/C".toList
    = ⟨"a.txt".toList, "/A/a.txt".toList, "/A".toList⟩ := by decide

/-! ## exact characterisation of the two older open findings -/

section ListFile
variable {D : Type} [DecidableEq D]

/-- **C19-listfile-reresolved, exactly**: a `List[Path]` value naming an existing line-per-path file in directory
`d1` is accepted if and only if the SAME spelling, resolved again from inside `d1`, leads to `d1` again -/
theorem C19_fs_listfile_iff (fs : FS D) (ref : P) (rels : List P) (s : StF D) (d1 : D)
    (h1 : trueDir fs s.cwd ref = some d1) :
    (runItemF fs (.listFile ref rels) s).ok = true ↔ trueDir fs d1 ref = some d1 := by
  rw [(runItemF_spec fs (.listFile ref rels) s).2.2.2]
  simp [noFailItem, existItemF, h1]

/-- an absolute spelling always is: the second resolution does not look at the directory it starts from -/
theorem C19_fs_listfile_abs (fs : FS D) (ref : P) (rels : List P) (s : StF D) (d1 : D)
    (habs : isAbs (stripFileScheme ref) = true) (h1 : trueDir fs s.cwd ref = some d1) :
    (runItemF fs (.listFile ref rels) s).ok = true := by
  have e : ∀ d, absIn fs d ref = stripFileScheme ref := by intro d; simp [absIn, mkPath, habs]
  refine (C19_fs_listfile_iff fs ref rels s d1 h1).mpr ?_
  unfold trueDir at h1 ⊢
  rw [e d1, ← e s.cwd]; exact h1

end ListFile

/-- in `linkFS`: from `/o`, `deep/l.txt` is rejected (there is no `/o/deep/deep`), the bare `l.txt` from inside
`/o/deep` and the absolute spelling are accepted, and so is `../deep/l.txt` from `/o/deep` (a directory part that
leads back) -/
example : (runItemF linkFS (.listFile "deep/l.txt".toList ["t".toList]) ⟨2, none⟩).ok = false ∧
    (runItemF linkFS (.listFile "l.txt".toList ["t".toList]) ⟨3, none⟩).ok = true ∧
    (runItemF linkFS (.listFile "/o/deep/l.txt".toList ["t".toList]) ⟨2, none⟩).ok = true ∧
    (runItemF linkFS (.listFile "../deep/l.txt".toList ["t".toList]) ⟨3, none⟩).ok = true := by decide

/-- **C19-default-same-spelling, exactly**: a string given to a path-typed argument is treated as the mode says
(a `Path` when the file system satisfies the mode here, a rejection otherwise) EXCEPT when it does not satisfy
the mode and equals the spelling of the argument's default: then the plain string comes back -/
theorem C19_default_same_spelling_iff (sat : Bool) (v : P) (dflt : Option P) :
    checkTypePath sat v dflt ≠ (if sat then .path else .reject) ↔ (sat = false ∧ dflt = some v) := by
  unfold checkTypePath
  cases sat <;> cases dflt <;> simp
  rename_i d
  by_cases h : v = d <;> simp [h, eq_comm]

theorem C19_default_same_spelling_witness :
    checkTypePath false "data.txt".toList (some "data.txt".toList) = .str ∧
    checkTypePath false "other.txt".toList (some "data.txt".toList) = .reject ∧
    checkTypePath true "data.txt".toList (some "data.txt".toList) = .path := by decide

/-! ## ties: the statements the models transcribe, pinned -/

/-- every place of the package that opens the bracket, with the path it brackets and what runs inside:
`_load_config` (nested `ActionParser` configs = `Item.sub`), `parse_path`, the default-config loop of
`get_defaults` (`Item.sub` at the head of a program), the two attempts of `_check_type` and the per-element
bracket of a list file (`Item.listFile`), `parse_value_or_config` reading the file, `relative_path_context`
(`Item.subObj`); `save` writes next to the file it saves.  `parse_path` (since 2c9f0ad) and `get_defaults` READ the file
before entering — `get_content` opens `.absolute`, which does not look at the working directory (`C19_fs_absolute_names_same`);
for standard input (a single dash) the bracket enters `dirname` of `cwd` joined with the dash: the directory the process is in -/
theorem C19_bracket_sites : Jap.Gen.pathBracketSites = [
  ("_actions:_ActionConfigLoad._load_config", "change_to_path_dir(cfg_path)", "cfg = parser._apply_actions(cfg, parent_key=self.dest)"),
  ("_core:ArgumentParser.parse_path", "change_to_path_dir(fpath)", "parsed_cfg = self.parse_string(cfg_str, os.path.basename(cfg_path), ext_vars, env, default"),
  ("_core:ArgumentParser.save", "change_to_path_dir(path_fc)", "save_paths(cfg)"),
  ("_core:ArgumentParser.get_defaults", "change_to_path_dir(default_config_file)", "cfg_file = self._load_config_parser_mode(default_config_file.get_content(), key=key) ; cfg = self.merge_config(cfg_file, cfg) ; try:"),
  ("_typehints:ActionTypeHint._check_type", "change_to_path_dir(config_path)", "val = adapt_typehints(val, self._typehint, **kwargs)"),
  ("_typehints:ActionTypeHint._check_type", "change_to_path_dir(config_path)", "val = adapt_typehints(orig_val, self._typehint, default=self.default, **kwargs)"),
  ("_typehints:adapt_typehints", "change_to_path_dir(list_path)", "val[n] = adapt_typehints(v, subtypehints[0], list_item=True, **adapt_kwargs_n)"),
  ("_util:parse_value_or_config", "cfg_path.relative_path_context()", "value = load_value(cfg_path.get_content(), simple_types=simple_types)"),
  ("_util:Path.relative_path_context", "change_to_path_dir(self)", "assert isinstance(path_dir, str) ; yield path_dir")] := rfl

/-- the statements of `Path.__init__` that decide `relative`, `absolute`, `cwd`: a `Path` argument hands over its
three fields (`mkPathArg (.obj o) = o`), a spelling is expanded, stripped of `file://`, joined to `cwd=` — `None`
and the empty string meaning `os.getcwd()` — unless absolute (`mkPath`) -/
theorem C19_init_bookkeeping : Jap.Gen.pathInitBook = [
  "self._std_io = False",
  "if isinstance(path, Path)",
  "self._std_io = path._std_io",
  "cwd = path.cwd",
  "abs_path = path.absolute",
  "path = path.relative",
  "if isinstance(path, (str, os.PathLike))",
  "if path == '-'",
  "self._std_io = True",
  "path = os.fspath(path)",
  "cwd = os.fspath(cwd) if cwd else None",
  "abs_path = os.path.expanduser(path)",
  "if self._file_scheme.match(abs_path)",
  "abs_path = self._file_scheme.sub('' if os.name == 'nt' else '/', abs_path)",
  "is_absolute = is_absolute_path(abs_path)",
  "abs_path = resolve_relative_path(cwd_url_data.url_path + '/' + path)",
  "abs_path = cwd_url_data.scheme + abs_path",
  "if cwd is None",
  "cwd = current_path_dir.get() or os.getcwd()",
  "if cwd is None",
  "cwd = os.getcwd()",
  "abs_path = abs_path if is_absolute else os.path.join(cwd, abs_path)",
  "self._relative = path",
  "self._absolute = abs_path",
  "self._cwd = cwd"] := rfl

/-- `parse_value_or_config`: a `str` other than "-" is tried as a config path with the configured read mode, read
inside its own bracket, and the path is handed back for the bracket of the values (`Item.sub`, `Item.listFile`) -/
theorem C19_value_or_config : Jap.Gen.pathValueOrConfig = [
  "nested_arg: Union[bool, NestedArg] = False",
  "if isinstance(value, NestedArg):",
  "nested_arg = value",
  "value = nested_arg.val",
  "cfg_path = None",
  "if enable_path and type(value) is str and (value != '-'):",
  "try:",
  "cfg_path = Path(value, mode=get_config_read_mode())",
  "pass",
  "with cfg_path.relative_path_context():",
  "value = load_value(cfg_path.get_content(), simple_types=simple_types)",
  "if type(value) is str and value.strip() != '':",
  "parsed_val = load_value(value, simple_types=simple_types)",
  "if type(parsed_val) is not str:",
  "value = parsed_val",
  "if isinstance(value, dict) and cfg_path is not None:",
  "value['__path__'] = cfg_path",
  "if nested_arg:",
  "value = NestedArg(key=nested_arg.key, val=value)",
  "return (value, cfg_path)"] := rfl

/-- `_ActionConfigLoad._load_config`: the values of a nested config are applied inside the bracket of its file -/
theorem C19_load_config : Jap.Gen.pathLoadConfig = [
  "try:",
  "cfg, cfg_path = parse_value_or_config(value)",
  "if not isinstance(cfg, dict):",
  "raise TypeError(f'Parser key \"{self.dest}\": Unable to load config \"{value}\"')",
  "with change_to_path_dir(cfg_path):",
  "cfg = parser._apply_actions(cfg, parent_key=self.dest)",
  "return cfg",
  "str_ex = indent_text(f'- {ex}')",
  "raise TypeError(f'Parser key \"{self.dest}\":\\nUnable to load config {value!r}\\n{str_ex}') from ex"] := rfl

end Jap.Props.C19

import Jap.Core.Subcmd
import Jap.Lemmas.Subcmd
import Jap.Lemmas.SubcmdMore
import Jap.Lemmas.SubcmdLayer
import Jap.Gen.SubcmdShape
/-!
# C17 — exactly one subcommand is selected and only its settings survive

Model: `Jap.Subcmd` (Core/Subcmd.lean), a transcription of `get_subcommands`, `handle_subcommands`, the
`get_subcommand` call of `apply_parsing_links` (`sweep`), `check_required`, `_parse_common`, the subcommand action of
the command line (`argvCall`) and the way single config sources are loaded (`loadCfgArg`, `applyDefaultCfg`).

`finalParse lay single mode p cfg` is the last stage of every parse method: `_parse_common(cfg, fail_no_subcommand=True)`
on the configuration `cfg` in which all sources have been merged.  Parser trees `p` have any depth; `lay` (what a selected
sub-parser contributes: its defaults, or its `parse_env`) is arbitrary, `layFuel` is the instance built from each
sub-parser's defaults and environment.  All theorems are by structural induction on the parser tree.

Hypotheses that appear and why:
* `wf p`: what `add_subcommands`/`add_subcommand` guarantee (a subcommand is not called like the subcommand key, names are
  distinct) and no subcommand is called "".
* `mode ≠ .none`: the final parse merges the sub-parser's defaults or environment (`defaults=True`, the default).

FULL STATEMENT (what the property asks): `finalParse lay single mode p cfg = .ok r → exactlyOne p r = true` for all `p`, `cfg`.
Since the fixes 96e4fb9 (a value under the subcommand key that is not a subcommand name is an error, the empty name
included) and adfb1a7 (a non-mapping under the selected subcommand's name is an error) it HOLDS for the code and is proved
below without any hypothesis on the configuration (`C17_exactly_one`; before the fixes it needed the hypothesis `clean`,
refuted without it by a config saying `cmd: ""`: that input is now the regression witness `C17_falsy_name_rejected`).
`clean` survives only in `C17_required`, where it says which error comes first.

Beyond the final stage the property still fails for the code where a source is loaded on its own before it is merged
(`loadCfgArg`, `applyDefaultCfg`): `get_subcommands` runs on that source alone and deletes sections that a later source
selects (`C17_early_selection_counterexample`, open finding C17-early-selection-drops-settings); what is proved is that a
source keeps its sections when it is `quiet` (`C17_source_keeps_sections_partial`).
-/
namespace Jap.Props.C17
open Jap.Subcmd

/-! ## C17_exactly_one -/

/-- on success, at every level of the selected path: `result[dest]` is a subcommand name, `result[name]` is a section,
    no other subcommand has a section; where nothing is selected there is no section -/
theorem C17_exactly_one (lay : Mode → P → Cfg) (single : Bool) (mode : Mode) (p : P) (cfg r : Cfg)
    (hwf : wf p = true) (hm : mode ≠ .none)
    (hok : finalParse lay single mode p cfg = .ok r) :
    exactlyOne p r = true := by
  obtain ⟨c1, h1, h2⟩ := parseCommon_ok lay ⟨true, single, mode⟩ true p cfg r hok
  exact (sound_P p lay single mode [] cfg c1 r hwf hm h1 h2).1

/-- one level spelled out: the key, the section, and no section of any other subcommand -/
theorem C17_exactly_one_top (lay : Mode → P → Cfg) (single : Bool) (mode : Mode) (i : Info) (h : SubHdr)
    (choices : List (String × P)) (cfg r : Cfg)
    (hwf : wf (.node i (some h) choices) = true) (hm : mode ≠ .none)
    (hok : finalParse lay single mode (.node i (some h) choices) cfg = .ok r) :
    (∃ n, lookup h.dest r = some (.str n) ∧ n ∈ names choices ∧ isSecAt n r = true ∧
        ∀ m ∈ names choices, m ≠ n → isSecAt m r = false) ∨
    (isNoneO (lookup h.dest r) = true ∧ ∀ m ∈ names choices, isSecAt m r = false) := by
  have h1 := C17_exactly_one lay single mode _ cfg r hwf hm hok
  rw [exactlyOne] at h1
  cases hl : lookup h.dest r with
  | none =>
    right
    simp only [hl, List.all_eq_true, Bool.not_eq_true'] at h1
    exact ⟨rfl, h1⟩
  | some v =>
    cases v with
    | none =>
      right
      simp only [hl, List.all_eq_true, Bool.not_eq_true'] at h1
      exact ⟨rfl, h1⟩
    | str n =>
      left
      simp only [hl, Bool.and_eq_true, List.all_eq_true, Bool.or_eq_true, beq_iff_eq, Bool.not_eq_true'] at h1
      refine ⟨n, rfl, by simpa using h1.1.1.1, h1.1.1.2, ?_⟩
      intro m hm' hne
      rcases h1.1.2 m hm' with e | e
      · exact absurd e hne
      · exact e
    | int _ => simp [hl] at h1
    | sec _ => simp [hl] at h1

/-! ## C17_complete_settings -/

/-- on success, at every level of the selected path: every setting of a parser that is not about its subcommands is
    exactly what that parser was given, and the parser of the selected subcommand `n` was given `cfg[n]` over its layer
    (`merge given layer`: the given values win) -/
theorem C17_complete_settings (lay : Mode → P → Cfg) (single : Bool) (mode : Mode) (p : P) (cfg r : Cfg)
    (hwf : wf p = true) (hm : mode ≠ .none)
    (hok : finalParse lay single mode p cfg = .ok r) :
    complete lay mode p cfg r := by
  obtain ⟨c1, h1, h2⟩ := parseCommon_ok lay ⟨true, single, mode⟩ true p cfg r hok
  exact (sound_P p lay single mode [] cfg c1 r hwf hm h1 h2).2.1

/-- the layer of a sub-parser, for its own options: its environment over its defaults (`parse_env`), resp. its defaults -/
theorem C17_layer_own_settings (fuel : Nat) (single : Bool) (mode : Mode) (q : P) (k : String) (hk : ownKey q k) :
    lookup k (layFuel fuel single mode q) = lookup k (baseOf mode q) :=
  layFuel_own fuel single mode q k hk

/-- spelled out for an option `k` of the selected sub-parser `q` under environment parsing:
    result[n][k] = the given value, else the value from q's environment, else q's default -/
theorem C17_settings_value (fuel : Nat) (single : Bool) (i : Info) (h : SubHdr) (choices : List (String × P))
    (cfg r : Cfg) (n : String) (q : P) (k : String)
    (hwf : wf (.node i (some h) choices) = true)
    (hok : finalParse (layFuel fuel single) single .env (.node i (some h) choices) cfg = .ok r)
    (hsel : lookup h.dest r = some (.str n)) (hq : findP n choices = some q) (hk : ownKey q k)
    (hg : (keysOf (secOf (lookup n cfg))).Nodup ∧ leafAt k (secOf (lookup n cfg)) = true)
    (he : (keysOf q.info.envc).Nodup ∧ leafAt k q.info.envc = true) :
    lookup k (secOf (lookup n r)) =
      match lookup k (secOf (lookup n cfg)) with
      | some v => some v
      | .none =>
        match lookup k q.info.envc with
        | some v => some v
        | .none => lookup k q.info.dflt := by
  have hc := C17_complete_settings (layFuel fuel single) single .env _ cfg r hwf (by decide) hok
  rw [complete] at hc
  have hc2 := hc.2
  simp only [hsel] at hc2
  rw [completeIn_eq, hq] at hc2
  rw [complete_own _ _ q _ _ k hc2 hk, lookup_merge_leaf k _ _ hg.1 hg.2, C17_layer_own_settings fuel single .env q k hk]
  simp only [baseOf]
  rw [lookup_merge_leaf k _ _ he.1 he.2]
  cases lookup k (secOf (lookup n cfg)) with
  | some v => rfl
  | none => cases lookup k q.info.envc <;> rfl

/-! ## C17_choice -/

/-- on success, at every level of the selected path the subcommand key of the result is what the rule gives for the
    configuration that level was given: the name stored under the key (command line, config, environment), else the
    first subcommand in declaration order that has a section; null/absent when there is neither -/
theorem C17_choice (lay : Mode → P → Cfg) (single : Bool) (mode : Mode) (p : P) (cfg r : Cfg)
    (hwf : wf p = true) (hm : mode ≠ .none)
    (hok : finalParse lay single mode p cfg = .ok r) :
    choiceOK lay mode p cfg r := by
  obtain ⟨c1, h1, h2⟩ := parseCommon_ok lay ⟨true, single, mode⟩ true p cfg r hok
  exact (sound_P p lay single mode [] cfg c1 r hwf hm h1 h2).2.2

/-- "first for which settings were given": without a name under the key, the selected subcommand has a section and
    no subcommand declared BEFORE it has one -/
theorem C17_choice_first_in_declaration_order (h : SubHdr) (ns : List String) (cfg : Cfg) (n : String)
    (he : explicitOf (lookup h.dest cfg) = .none) (hc : choice h ns cfg = some (.str n)) :
    isSecAt n cfg = true ∧ ∃ before after, ns = before ++ n :: after ∧ ∀ m ∈ before, isSecAt m cfg = false :=
  choice_first h ns cfg n he hc

/-- a name under the key wins over sections -/
theorem C17_choice_named (h : SubHdr) (ns : List String) (cfg : Cfg) (n : String)
    (hd : lookup h.dest cfg = some (.str n)) : choice h ns cfg = some (.str n) :=
  choice_explicit h ns cfg n hd

/-- the name written on the command line wins over everything the merged sources say (configs given before it on the
    command line, the environment, default config files): whole `parse_args` of the model -/
theorem C17_choice_argv (lay : Mode → P → Cfg) (single : Bool) (mode : Mode) (validate : Bool) (i : Info) (h : SubHdr)
    (choices : List (String × P)) (items : List (Bool × Cfg)) (n : String) (rest : Argv) (ns r : Cfg) (q : P)
    (hwf : wf (.node i (some h) choices) = true) (hm : mode ≠ .none) (hq : findP n choices = some q)
    (hok : parseArgs lay single mode validate (.node i (some h) choices) (.mk items (some (n, rest))) ns = .ok r) :
    lookup h.dest r = some (.str n) ∧ isSecAt n r = true :=
  argv_wins lay single mode validate i h choices items n rest ns r q hwf hm hq hok

/-! ## C17_required -/

/-- if, following the rule down the tree, a parser is reached whose subcommand is required and undeterminable, the parse
    fails with the "expected <key> to be one of" error — at any depth -/
theorem C17_required (lay : Mode → P → Cfg) (single : Bool) (mode : Mode) (p : P) (cfg : Cfg)
    (hwf : wf p = true) (hm : mode ≠ .none) (hcl : clean lay mode p cfg = true)
    (hmiss : missingReq lay mode p cfg = true) :
    ∃ key, finalParse lay single mode p cfg = .error (.nosub key) := by
  obtain ⟨key, hk⟩ := missing_P p lay ⟨true, single, mode⟩ [] cfg hwf rfl hm hcl hmiss
  refine ⟨key, ?_⟩
  unfold finalParse parseCommon
  rw [hk]
  rfl

/-- the top level spelled out: no name, no section, required → error naming the subcommand key -/
theorem C17_required_top (lay : Mode → P → Cfg) (single : Bool) (mode : Mode) (i : Info) (h : SubHdr)
    (choices : List (String × P)) (cfg : Cfg)
    (hn : isNoneO (lookup h.dest cfg) = true) (hs : ∀ m ∈ names choices, isSecAt m cfg = false) (hr : h.required = true) :
    finalParse lay single mode (.node i (some h) choices) cfg = .error (.nosub [h.dest]) := by
  have hch : choice h (names choices) cfg = .none := by
    have he : explicitOf (lookup h.dest cfg) = .none := by
      cases hl : lookup h.dest cfg with
      | none => rfl
      | some v => cases v <;> simp_all [isNoneO, explicitOf]
    have hk : subKeys (names choices) cfg = [] := by
      simp only [subKeys, List.filter_eq_nil_iff]
      intro m hm'
      simp [hs m hm']
    simp [choice, he, hk]
  unfold finalParse parseCommon
  rw [handle_node_none _ _ [] i h choices cfg hch]
  simp [hr]

/-- not required: the parse succeeds, nothing is added: no subcommand key value, no section -/
theorem C17_optional (lay : Mode → P → Cfg) (single : Bool) (mode : Mode) (i : Info) (h : SubHdr)
    (choices : List (String × P)) (cfg : Cfg)
    (hch : choice h (names choices) cfg = .none) (hr : h.required = false) :
    finalParse lay single mode (.node i (some h) choices) cfg = .ok cfg ∧
    isNoneO (lookup h.dest cfg) = true ∧ ∀ m ∈ names choices, isSecAt m cfg = false := by
  refine ⟨optional_none lay _ true true i h choices cfg hch hr, (choice_none_facts h _ cfg hch).1, ?_⟩
  intro m hm'
  have hk := (choice_none_facts h _ cfg hch).2
  cases hs : isSecAt m cfg with
  | false => rfl
  | true =>
    have : m ∈ subKeys (names choices) cfg := (mem_subKeys _ _ _).2 ⟨hm', hs⟩
    rw [hk] at this
    cases this

/-! ## settings that are not about subcommands are never touched (all flags, all configurations) -/

theorem C17_global_options_untouched (lay : Mode → P → Cfg) (fl : Flags) (validate : Bool) (p : P) (cfg r : Cfg)
    (hok : parseCommon lay fl true validate p cfg = .ok r) (k : String) (hk : ownKey p k) :
    lookup k r = lookup k cfg :=
  parseCommon_frame lay fl validate p cfg r hok k hk

/-! ## sources loaded on their own -/

/-- a config argument (`--cfg`, the config environment variable) keeps every section it holds when it does not itself
    name a subcommand or holds at most one section (`quiet`) -/
theorem C17_source_keeps_sections_partial (i : Info) (h : SubHdr) (choices : List (String × P)) (tree t : Cfg)
    (hq : quiet h (names choices) tree = true)
    (hok : loadCfgArg (.node i (some h) choices) tree = .ok t) (k : String) :
    isSecAt k t = isSecAt k tree :=
  loadCfgArg_keeps i h choices tree t hq hok k

/-- fix f6d3709 (finding 15d): loading a default config file can never fail with the required-subcommand error, whatever
    the file contains (the call passes `fail_no_subcommand=False`: `tie_sources`) -/
theorem C17_default_config_never_requires (single : Bool) (p : P) (tree cfg : Cfg) (key : List String) :
    applyDefaultCfg single p tree cfg ≠ .error (.nosub key) :=
  applyDefaultCfg_never_requires single p tree cfg key

/-! ## non-vacuity and witnesses -/

def leafP (d : Cfg) : P := .node (.basic d []) .none []

/-- a three-level tree: root (required `subcommand`) → fit (optional `cmd`, env lr=7) → sgd | adam; test -/
def exTree : P :=
  .node (.basic [("g", .int 1), ("subcommand", .none)] []) (some ⟨"subcommand", true⟩)
    [("fit", .node (.basic [("lr", .int 1), ("cmd", .none)] [("lr", .int 7)]) (some ⟨"cmd", false⟩)
        [("sgd", leafP [("m", .int 0)]), ("adam", leafP [("b", .int 9)])]),
     ("test", leafP [("k", .int 5)])]

/-- settings for two subcommands, no name: `test` is written first in the config, `fit` is declared first -/
def exCfg : Cfg :=
  [("g", .int 2), ("subcommand", .none), ("test", .sec [("k", .int 6)]), ("fit", .sec [("sgd", .sec [("m", .int 3)])])]

/-- the hypotheses of the theorems hold for it -/
example : wf exTree = true ∧ clean (layFuel 8 true) .env exTree exCfg = true := by decide

/-- and the parse gives: fit selected (declaration order), test removed, fit.lr from the environment, fit.cmd = sgd
    selected at the second level, the given m=3 over the default 0 -/
example : finalParse (layFuel 8 true) true .env exTree exCfg =
    .ok [("g", .int 2), ("subcommand", .str "fit"),
         ("fit", .sec [("lr", .int 7), ("cmd", .str "sgd"), ("sgd", .sec [("m", .int 3)])])] := by rfl

/-- a required nested subcommand that cannot be determined: error at depth 2, whatever the depth -/
example : missingReq (layFuel 8 true) .dflt
    (.node (.basic [] []) (some ⟨"subcommand", true⟩) [("a", .node (.basic [] []) (some ⟨"cmd", true⟩) [("b", leafP [])])])
    [("subcommand", .str "a")] = true := by decide

example : finalParse (layFuel 8 true) true .dflt
    (.node (.basic [] []) (some ⟨"subcommand", true⟩) [("a", .node (.basic [] []) (some ⟨"cmd", true⟩) [("b", leafP [])])])
    [("subcommand", .str "a")] = .error (.nosub ["a", "cmd"]) := by rfl

def twoP : P := .node (.basic [] []) (some ⟨"cmd", false⟩) [("a", leafP [("x", .int 1)]), ("b", leafP [("y", .int 2)])]

/-- regression witness of fix 96e4fb9 (finding C17-falsy-subcommand-name, now fixed): `cmd: ""` for an optional subcommand
    used to be accepted — the empty name stayed as the choice and the sections of BOTH subcommands survived, because the
    code tests `if subcommand` where it means `is not None` — and is now the "expected cmd to be one of …, but got" error;
    so is any other value that is not a subcommand name, required or not -/
theorem C17_falsy_name_rejected :
    finalParse (layFuel 8 true) true .dflt twoP [("cmd", .str ""), ("a", .sec [("x", .int 5)]), ("b", .sec [("y", .int 6)])]
      = .error (.badname ["cmd"])
    ∧ finalParse (layFuel 8 true) true .dflt twoP [("cmd", .str "zap"), ("a", .sec [("x", .int 5)])] = .error (.badname ["cmd"]) := by
  refine ⟨by rfl, by rfl⟩

/-- the general statement behind it: with `fail_no_subcommand`, whatever the rule selects, if it is not a subcommand name the
    call fails with that error -/
theorem C17_unknown_name_rejected (h : SubHdr) (ns : List String) (single : Bool) (mode : Mode) (pre : List String) (cfg : Cfg)
    (v : Val) (hc : choice h ns cfg = some v) (hv : validName ns v = false) :
    getSub h ns ⟨true, single, mode⟩ pre cfg = .error (.badname (pre ++ [h.dest])) :=
  getSub_fail_invalid h ns single mode pre cfg v hc hv

/-- regression witness of fix adfb1a7: a non-mapping under the selected subcommand's name is the "expected the settings …
    to be a mapping" error (it used to reach `.clone()`: AttributeError) -/
theorem C17_non_mapping_settings_rejected :
    finalParse (layFuel 8 true) true .dflt twoP [("cmd", .str "a"), ("a", .int 5)] = .error (.badsec ["a"]) := by rfl

/-- `handle_subcommands` ALONE does not establish the property: with an explicit name and ONE other section the
    section survives the call (`len(subcommand_keys) > 1` is false) … -/
theorem C17_handle_alone_counterexample :
    handle (layFuel 8 true) ⟨true, true, .dflt⟩ [] twoP [("cmd", .str "a"), ("b", .sec [("y", .int 6)])]
      = .ok [("cmd", .str "a"), ("b", .sec [("y", .int 6)]), ("a", .sec [("x", .int 1)])] := by rfl

/-- … it is the `get_subcommand` call at the head of `apply_parsing_links` that removes it -/
theorem C17_sweep_completes :
    finalParse (layFuel 8 true) true .dflt twoP [("cmd", .str "a"), ("b", .sec [("y", .int 6)])]
      = .ok [("cmd", .str "a"), ("a", .sec [("x", .int 1)])] := by rfl

def threeP : P :=
  .node (.basic [("subcommand", .none)] []) (some ⟨"subcommand", true⟩)
    [("fit", leafP [("alpha", .int 1)]), ("test", leafP [("beta", .int 2)]), ("run", leafP [("gamma", .int 3)])]

/-- open finding C17-early-selection-drops-settings: a config argument that names `test` and holds sections for `run`
    and `fit` loses both while it is loaded … -/
theorem C17_early_selection_counterexample :
    loadCfgArg threeP [("subcommand", .str "test"), ("run", .sec [("gamma", .int 30)]), ("fit", .sec [("alpha", .int 10)])]
      = .ok [("subcommand", .str "test")]
    ∧ quiet ⟨"subcommand", true⟩ ["fit", "test", "run"]
        [("subcommand", .str "test"), ("run", .sec [("gamma", .int 30)]), ("fit", .sec [("alpha", .int 10)])] = false := by
  refine ⟨by rfl, by decide⟩

/-- … so that `--cfg=<that> run` ends with the DEFAULT gamma = 3 instead of the given 30 (whole `parse_args` of the model) … -/
theorem C17_early_selection_pipeline :
    parseArgs (layFuel 8 true) true .dflt true threeP
      (.mk [(true, [("subcommand", .str "test"), ("run", .sec [("gamma", .int 30)]), ("fit", .sec [("alpha", .int 10)])])]
        (some ("run", .mk [] .none))) []
      = .ok [("subcommand", .str "run"), ("run", .sec [("gamma", .int 3)])] := by rfl

/-- … whereas with ONE extra section the given value is kept -/
theorem C17_early_selection_one_section_kept :
    parseArgs (layFuel 8 true) true .dflt true threeP
      (.mk [(true, [("subcommand", .str "test"), ("run", .sec [("gamma", .int 30)])])] (some ("run", .mk [] .none))) []
      = .ok [("subcommand", .str "run"), ("run", .sec [("gamma", .int 30)])] := by rfl

/-- the hypothesis `quiet` of the partial theorem is satisfiable by a source with several sections -/
example : quiet ⟨"subcommand", true⟩ ["fit", "test", "run"]
    [("run", .sec [("gamma", .int 30)]), ("fit", .sec [("alpha", .int 10)])] = true := by decide

/-! ## the concrete layer: names of the environment variables, order of the sources, complete settings

`layerC E fuel single ctx mode q` computes what `q.get_defaults()` / `q.parse_env()` return under the `parent_parsers`
stack `ctx` from q's option defaults, its default config files, the files of the parsers on the stack (narrowed to their
key) and the process environment `E` read BY VARIABLE NAME.  It is compared with the recorded return values of the real
sub-parsers on every run (correspondence kind "layer"). -/

/-- the variable the code reads for `dest` of the parser reached through the subcommands s1 … sn is
    PREFIX_S1__…__SN__DEST (`-` → `_` in prefix and names, `.` → `__`, upper case) … -/
theorem C17_env_names (root : List Nat) (path : List (List Nat)) (dest : List Nat) :
    envVarAt root path dest = envName root path dest :=
  envVarAt_eq root path dest

/-- … and `_load_env_vars` holds, at an option of the parser, exactly the value of THAT variable (no config variable) -/
theorem C17_env_names_read (E : Env) (penv : P → Cfg) (q : P) (k : String) (hk : ownKey q k) (hko : k ∈ q.info.options)
    (hcfg : ∀ ck, q.info.cfgKey = some ck →
      lookupE (getEnvVar (prefixAt E.root (q.info.path.map codes)) (codes ck)) E.cfgs = .none) :
    lookup k (loadEnvC E penv q) = lookupE (envName E.root (q.info.path.map codes) (codes k)) E.vals := by
  rw [(loadEnvC_own E penv q k hk hko hcfg).1, C17_env_names]

/-- the name determines the parser and the option: two variables coincide only if the normalised subcommand paths and
    dests coincide, provided no normalised subcommand name contains `__` or ends with `_` and no normalised dest
    contains `__` (the no-dunder hypothesis; e.g. subcommand `a` with option `b__c` and subcommand path `a`,`b` with
    option `c` both read APP_A__B__C) -/
theorem C17_env_names_injective (root : List Nat) (path path' : List (List Nat)) (d d' : List Nat)
    (hp : ∀ n ∈ path, word (normN n) = true) (hp' : ∀ n ∈ path', word (normN n) = true)
    (hd : lastWord (normD d) = true) (hd' : lastWord (normD d') = true)
    (h : envName root path d = envName root path' d') :
    path.map normN = path'.map normN ∧ normD d = normD d' :=
  envName_inj root path path' d d' hp hp' hd hd' h

/-- the hypothesis is needed: the collision of the comment above -/
theorem C17_env_names_dunder_collision :
    envName (codes "app") [codes "a"] (codes "b__c") = envName (codes "app") [codes "a", codes "b"] (codes "c") := by decide

/-- ORDER OF THE SOURCES WITHIN ONE LEVEL, as the code has it (`parse_env` of a sub-parser, at one of its options):
    its environment variable, else its own default config files (the LAST listed that has the option), else the files of the
    parsers on the `parent_parsers` stack narrowed to their key (a parent's section for this sub-parser; later stack
    entries over earlier ones), else the option's default -/
theorem C17_layer_order (E : Env) (fuel : Nat) (single : Bool) (ctx : Ctx) (q : P) (k : String)
    (hk : ownKey q k) (hko : k ∈ q.info.options) (hm : k ≠ "__default_config__")
    (hcfg : ∀ ck, q.info.cfgKey = some ck →
      lookupE (getEnvVar (prefixAt E.root (q.info.path.map codes)) (codes ck)) E.cfgs = .none)
    (hleaf : ∀ v, lookupE (envVarAt E.root (q.info.path.map codes) (codes k)) E.vals = some v → v.isSec = false)
    (hf : ∀ t ∈ filesOf ctx q.info.dcfs, (keysOf t).Nodup ∧ leafAt k t = true) :
    lookup k (layerC E (fuel + 1) single ctx .env q) =
      match lookupE (envName E.root (q.info.path.map codes) (codes k)) E.vals with
      | some v => some v
      | .none => pickLast k q.info.dcfs (pickLast k (filesOf ctx []) (lookup k q.info.opts)) := by
  rw [layerC_env_own E fuel single ctx q k hk hko hm hcfg hleaf hf, C17_env_names]
  have : filesOf ctx q.info.dcfs = filesOf ctx [] ++ q.info.dcfs := by simp [filesOf]
  rw [this, pickLast_append]
  cases lookupE (envName E.root (q.info.path.map codes) (codes k)) E.vals <;> rfl

/-- the same without environment parsing (`get_defaults`) -/
theorem C17_layer_order_defaults (E : Env) (fuel : Nat) (single : Bool) (ctx : Ctx) (q : P) (k : String)
    (hk : ownKey q k) (hm : k ≠ "__default_config__")
    (hf : ∀ t ∈ filesOf ctx q.info.dcfs, (keysOf t).Nodup ∧ leafAt k t = true) :
    lookup k (layerC E fuel single ctx .dflt q) =
      pickLast k q.info.dcfs (pickLast k (filesOf ctx []) (lookup k q.info.opts)) := by
  have e : layerC E fuel single ctx .dflt q = getDefaultsC single ctx q := by cases fuel <;> rfl
  rw [e, getDefaultsC_own single ctx q k hk hm hf]
  have : filesOf ctx q.info.dcfs = filesOf ctx [] ++ q.info.dcfs := by simp [filesOf]
  rw [this, pickLast_append]

/-- C17_complete_settings with the concrete layer: for an option `k` of the selected sub-parser `q`,
    result[n][k] = the given value, else the value of the variable PREFIX_…__N__K, else q's own default config files (last
    listed first), else the parent's default-config section for `n`, else the option default -/
theorem C17_complete_settings_concrete (E : Env) (fuel : Nat) (single : Bool) (i : Info) (h : SubHdr)
    (choices : List (String × P)) (cfg r : Cfg) (n : String) (q : P) (k : String)
    (hwf : wf (.node i (some h) choices) = true)
    (hok : finalParse (layC E (fuel + 1) single (.node i (some h) choices)) single .env (.node i (some h) choices) cfg = .ok r)
    (hsel : lookup h.dest r = some (.str n)) (hq : findP n choices = some q)
    (hk : ownKey q k) (hko : k ∈ q.info.options) (hm : k ≠ "__default_config__")
    (hg : (keysOf (secOf (lookup n cfg))).Nodup ∧ leafAt k (secOf (lookup n cfg)) = true)
    (hcfg : ∀ ck, q.info.cfgKey = some ck →
      lookupE (getEnvVar (prefixAt E.root (q.info.path.map codes)) (codes ck)) E.cfgs = .none)
    (hleaf : ∀ v, lookupE (envVarAt E.root (q.info.path.map codes) (codes k)) E.vals = some v → v.isSec = false)
    (hf : ∀ t ∈ filesOf [(relKey (.node i (some h) choices) q, q.info.pdcfs)] q.info.dcfs, (keysOf t).Nodup ∧ leafAt k t = true) :
    lookup k (secOf (lookup n r)) =
      match lookup k (secOf (lookup n cfg)) with
      | some v => some v
      | .none =>
        match lookupE (envName E.root (q.info.path.map codes) (codes k)) E.vals with
        | some v => some v
        | .none => pickLast k q.info.dcfs
            (pickLast k (q.info.pdcfs.map (narrow (relKey (.node i (some h) choices) q))) (lookup k q.info.opts)) := by
  have hc := C17_complete_settings (layC E (fuel + 1) single (.node i (some h) choices)) single .env _ cfg r hwf
    (by intro e; cases e) hok
  rw [complete] at hc
  have hc2 := hc.2
  simp only [hsel] at hc2
  rw [completeIn_eq, hq] at hc2
  rw [complete_own _ _ q _ _ k hc2 hk, lookup_merge_leaf k _ _ hg.1 hg.2]
  have hl := C17_layer_order E fuel single [(relKey (.node i (some h) choices) q, q.info.pdcfs)] q k hk hko hm hcfg hleaf hf
  have hfl : filesOf [(relKey (.node i (some h) choices) q, q.info.pdcfs)] [] =
      q.info.pdcfs.map (narrow (relKey (.node i (some h) choices) q)) := by simp [filesOf]
  rw [hfl] at hl
  show (match lookup k (secOf (lookup n cfg)) with
    | some v => some v
    | .none => lookup k (layerC E (fuel + 1) single [(relKey (.node i (some h) choices) q, q.info.pdcfs)] .env q)) = _
  rw [hl]

/-! ### non-vacuity of the concrete statements -/

def d0 : Cfg := [("fit", .sec [("beta", .int 50)])]
def fitC : P := .node { (mkInfo ["fit"] [("alpha", .int 1), ("beta", .int 2), ("gamma", .int 3), ("delta", .int 4)]
    ["alpha", "beta", "gamma", "delta"] [[("gamma", .int 60)], [("gamma", .int 61), ("delta", .int 70)]] [d0]) with } .none []
def rootC : P := .node (mkInfo [] [("subcommand", .none)] [] [d0] []) (some ⟨"subcommand", true⟩) [("fit", fitC)]
def envC : Env := ⟨codes "app", [(codes "APP_FIT__DELTA", .int 80)], []⟩

/-- fit named by the config; alpha given, beta from the parent's default-config section, gamma from the LAST own default
    config file, delta from the variable APP_FIT__DELTA (over the own file's 70) -/
example : wf rootC = true ∧ clean (layC envC 3 true rootC) .env rootC [("subcommand", .str "fit"), ("fit", .sec [("alpha", .int 9)])] = true := by
  decide

example : finalParse (layC envC 3 true rootC) true .env rootC [("subcommand", .str "fit"), ("fit", .sec [("alpha", .int 9)])] =
    .ok [("subcommand", .str "fit"),
         ("fit", .sec [("alpha", .int 9), ("beta", .int 50), ("gamma", .int 61), ("delta", .int 80),
                       ("__default_config__", .str "§list")])] := by rfl

/-! ### where the documented order (defaults < default config < environment < given) is violated -/

def d1 : Cfg := [("fit", .sec [("alpha", .int 5)])]
def fitP : P := .node (mkInfo ["fit"] [("alpha", .int 1)] ["alpha"] [] [d1]) .none []
def rootP : P := .node (mkInfo [] [("subcommand", .none)] [] [d1] []) (some ⟨"subcommand", true⟩) [("fit", fitP)]
def envNamesFit : Env := ⟨codes "app", [(codes "APP_SUBCOMMAND", .str "fit")], []⟩

/-- open finding C17-env-named-subcommand-resets-defaults: the root's default config file gives fit.alpha = 5
    (`get_defaults`), the variable APP_SUBCOMMAND=fit only NAMES the subcommand, but the environment layer of the root holds
    the sub-parser's plain default alpha = 1 (the complete `parse_env` of `fit` is copied), and environment goes over
    defaults: `_parse_defaults_and_environ` ends with fit.alpha = 1 -/
theorem C17_env_named_resets_counterexample :
    lookup "alpha" (secOf (lookup "fit" (getDefaultsC true [] rootP))) = some (.int 5) ∧
    lookup "alpha" (secOf (lookup "fit" (loadEnvC envNamesFit (layerC envNamesFit 3 true [] .env) rootP))) = some (.int 1) ∧
    lookup "alpha" (secOf (lookup "fit"
      (merge (loadEnvC envNamesFit (layerC envNamesFit 3 true [] .env) rootP) (getDefaultsC true [] rootP)))) = some (.int 1) := by
  refine ⟨by rfl, by rfl, by rfl⟩

def d2 : Cfg := [("fit", .sec [("gamma", .int 792)])]
def evalP : P := .node (mkInfo ["fit", "eval"] [] [] [] []) .none []
def fit2 : P := .node (mkInfo ["fit"] [("gamma", .int 85), ("cmd", .none)] ["gamma"] [] [d2]) (some ⟨"cmd", true⟩) [("eval", evalP)]
def envNamesEval : Env := ⟨codes "app", [(codes "APP_FIT__CMD", .str "eval")], []⟩

/-- open finding C17-env-default-config-leak: under the stack [(fit, root)] the `parse_env` of `fit` handles its own
    subcommands with the stack [(fit, root), (eval, fit)], so the root's file narrowed to the section `fit` is also loaded
    for the GRANDCHILD `eval`: gamma = 792, meant for `fit`, appears under fit.eval; `get_defaults` of `fit` under the same
    stack (environment parsing off) does not do that -/
theorem C17_default_config_leak_counterexample :
    lookup "gamma" (secOf (lookup "eval" (layerC envNamesEval 3 true [("fit", [d2])] .env fit2))) = some (.int 792) ∧
    lookup "eval" (layerC envNamesEval 3 true [("fit", [d2])] .dflt fit2) = .none := by
  refine ⟨by rfl, by rfl⟩

/-! ## ties: the regenerated shape of the code equals the statements the model transcribes

`Jap.Gen.SubcmdShape` is rewritten from /repo's working tree on every run (harness/extractors/subcmd_shape.py). -/

/-- `get_subcommands`: the settings keys in declaration order, the explicit test, the pick test and the picked index
    (`subcommand_keys[0]`: `getSubCore` takes `keys.head?`), the removal test and filter, the failure block -/
theorem tie_get_subcommands :
    Jap.Gen.SubcmdShape.keysExpr = Shape.keysExpr ∧ Jap.Gen.SubcmdShape.explicitTest = Shape.explicitTest ∧
    Jap.Gen.SubcmdShape.pickTest = Shape.pickTest ∧ Jap.Gen.SubcmdShape.pickFromEnd = false ∧ Jap.Gen.SubcmdShape.pickOffset = 0 ∧
    Jap.Gen.SubcmdShape.removeTest = Shape.removeTest ∧ Jap.Gen.SubcmdShape.removeFilter = Shape.removeFilter ∧
    Jap.Gen.SubcmdShape.singleTest = Shape.singleTest ∧ Jap.Gen.SubcmdShape.failTests = Shape.failTests ∧
    Jap.Gen.SubcmdShape.returns = Shape.returns := ⟨rfl, rfl, rfl, rfl, rfl, rfl, rfl, rfl, rfl, rfl⟩

/-- `handle_subcommands`: which layer is computed, `merge_config(given or Namespace(), layer)` (given values first:
    `mergeLayer` is `merge given layer`), the recursion with the key prefix, the settings check before the merge (`checkSettings`) -/
theorem tie_handle_subcommands :
    Jap.Gen.SubcmdShape.layerCalls = Shape.layerCalls ∧ Jap.Gen.SubcmdShape.mergeCall = Shape.mergeCall ∧
    Jap.Gen.SubcmdShape.givenFirst = true ∧ Jap.Gen.SubcmdShape.recurseCall = Shape.recurseCall ∧
    Jap.Gen.SubcmdShape.settingsCheck = Shape.settingsCheck := ⟨rfl, rfl, rfl, rfl, rfl⟩

/-- the argv action, `add_subcommand`, the head of `apply_parsing_links` (`sweep`) -/
theorem tie_argv_and_links :
    Jap.Gen.SubcmdShape.argvAction = Shape.argvAction ∧ Jap.Gen.SubcmdShape.addSubcommand = Shape.addSubcommand ∧
    Jap.Gen.SubcmdShape.applyLinksHead = Shape.applyLinksHead := ⟨rfl, rfl, rfl⟩

/-- how single sources are loaded: `apply_config` (not single, links skipped, `_fail_no_subcommand=False`: `loadCfgArg`),
    `get_defaults` (`fail_no_subcommand=False`, fix f6d3709: `applyDefaultCfg`), the defaults of `_parse_common` and
    `parse_string`, the subcommand branch of `_load_env_vars` -/
theorem tie_sources :
    Jap.Gen.SubcmdShape.applyConfigWith = Shape.applyConfigWith ∧ Jap.Gen.SubcmdShape.applyConfigKwargs = Shape.applyConfigKwargs ∧
    Jap.Gen.SubcmdShape.defaultCfgParseCommon = Shape.defaultCfgParseCommon ∧
    Jap.Gen.SubcmdShape.parseCommonFailDefault = Shape.parseCommonFailDefault ∧
    Jap.Gen.SubcmdShape.parseStringPrivate = Shape.parseStringPrivate ∧
    Jap.Gen.SubcmdShape.parseArgsParseCommonKw = Shape.parseArgsParseCommonKw ∧
    Jap.Gen.SubcmdShape.envBranch = Shape.envBranch := ⟨rfl, rfl, rfl, rfl, rfl, rfl, rfl⟩

/-- `default_env` reaches every level: the setter recurses through the property on each sub-parser (and `add_subcommand`
    copies the parent's value, `tie_argv_and_links`), so the single `mode` of the model is the mode of every parser -/
theorem tie_default_env_uniform :
    Jap.Gen.SubcmdShape.defaultEnvPropagation = Shape.defaultEnvPropagation := rfl

/-- the concrete layer: `get_env_var`, the env prefix of sub-parsers, `_get_default_config_files` (stack first, then the
    parser's own), the `parent_parsers` stack and its key, the key selection and merge of a default config file,
    environment over defaults, the three loops of `_load_env_vars` in their order -/
theorem tie_layer_sources :
    Jap.Gen.SubcmdShape.getEnvVarBody = Shape.getEnvVarBody ∧
    Jap.Gen.SubcmdShape.envPrefixOfSubcommands = Shape.envPrefixOfSubcommands ∧
    Jap.Gen.SubcmdShape.defaultConfigFilesLoops = Shape.defaultConfigFilesLoops ∧
    Jap.Gen.SubcmdShape.parentParsersContext = Shape.parentParsersContext ∧
    Jap.Gen.SubcmdShape.defaultConfigLoad = Shape.defaultConfigLoad ∧
    Jap.Gen.SubcmdShape.envOverDefaults = Shape.envOverDefaults ∧
    Jap.Gen.SubcmdShape.loadEnvVarsLoops = Shape.loadEnvVarsLoops := ⟨rfl, rfl, rfl, rfl, rfl, rfl, rfl⟩

end Jap.Props.C17

import Jap.Core.Subcmd
/-! # C17 — placeholder while the harness is brought up -/
namespace Jap.Props.C17
open Jap.Subcmd

theorem C17_placeholder : lookup "a" (insert "a" .none []) = some .none := by rfl

end Jap.Props.C17
